// C02 (part C02_schedule) — deck-unit independence of the Schedule, at the layer of the SCHEDULE
// keyword handlers.
//
// Space (enumerated completely): every snippet of schedgen::broad_alphabet() (+ extras below) placed
// after schedgen::prelude_wells() and followed by a dependent "follower" block that leaves values
// defaulted; for every record of the snippet the variants {as written} U {each single item replaced
// by 1*} (thorough: U {each trailing run of items defaulted}); each variant is parsed as a METRIC
// deck and PRINTED BACK in FIELD, LAB and PVT-M: every double/UDA item with a dimension annotation
// (or listed in the context-dependent table below) is converted with the REFERENCE factors of
// data/C02_units.ref, defaults stay 1*, strings/ints are unchanged; the base deck and the prelude
// are re-expressed the same way.
// Oracle: the Schedule built from the METRIC deck and from each re-expressed deck must give the
// same SI observation of every ScheduleState (all serialized members, UDAValue -> SI value,
// Dimension/UnitSystem dropped, + labelled public queries), floating point numbers compared with
// relative tolerance 1e-12.
#include "vf.hpp"
#include "C02_ref.hpp"
#include "sched_includes.hpp"
#include "schedgen.hpp"
#include <opm/input/eclipse/Deck/UDAValue.hpp>
#include <opm/input/eclipse/Parser/InputErrorAction.hpp>
#include <opm/input/eclipse/Parser/ParserEnums.hpp>
#include <opm/input/eclipse/Parser/ParserItem.hpp>
#include <opm/input/eclipse/Parser/ParserKeyword.hpp>
#include <opm/input/eclipse/Parser/ParserRecord.hpp>
#include <opm/input/eclipse/Schedule/MSW/Segment.hpp>
#include <opm/input/eclipse/Schedule/Well/Connection.hpp>
#include <opm/input/eclipse/Schedule/Group/Group.hpp>
#include <array>
#include <bitset>
#include <memory>
#include <optional>
#include <variant>

static vf::Run* R;
static const char* SYSN[4] = {"METRIC", "FIELD", "LAB", "PVT-M"};
static std::string rp(const std::string& c, const std::string& deck = "") { return "{\"case\": " + vf::jstr(c) + (deck.empty() ? "" : ", \"deck\": " + vf::jstr(deck)) + "}"; }

// ---------------------------------------------------------------- SI canon ---
// Structural dump of an object through its own serializeOp (same walk as engine/canon.hpp) with the
// unit-system dependent representations replaced by what they MEAN in SI:
//   UDAValue  -> SI value (raw * its dimension) or the UDQ name      (raw deck number + factor are unit dependent)
//   Dimension -> dropped                                            (the conversion factor itself)
//   UnitSystem-> dropped                                            (the unit system object itself)
//   DeckItem  -> SI values for items with a dimension; items WITHOUT a dimension annotation inside a
//                stored keyword (ACTIONX bodies, geo keywords) are raw deck numbers whose unit is decided by
//                the handler when the keyword is applied: emitted as "~number" and not compared
// every floating point number is emitted as "#<%.17g>" so that the comparison can apply a tolerance.
namespace c02 {
struct DimGrab { std::vector<size_t> sizes; bool isSerializing() const { return true; } template <class T> void operator()(T&) {} void operator()(std::vector<Opm::Dimension>& v) { sizes.push_back(v.size()); } };
inline size_t ndims(const Opm::DeckItem& d) { DimGrab g; const_cast<Opm::DeckItem&>(d).serializeOp(g); return g.sizes.empty() ? 0 : g.sizes[0]; }   // active_dimensions
template<class T> struct is_vec : std::false_type {}; template<class T,class A> struct is_vec<std::vector<T,A>> : std::true_type {};
template<class T> struct is_opt : std::false_type {}; template<class T> struct is_opt<std::optional<T>> : std::true_type {};
template<class T> struct is_var : std::false_type {}; template<class... T> struct is_var<std::variant<T...>> : std::true_type {};
template<class T> struct is_tup : std::false_type {}; template<class... T> struct is_tup<std::tuple<T...>> : std::true_type {}; template<class A,class B> struct is_tup<std::pair<A,B>> : std::true_type {};
template<class T> struct is_sp : std::false_type {}; template<class T> struct is_sp<std::shared_ptr<T>> : std::true_type {}; template<class T,class D> struct is_sp<std::unique_ptr<T,D>> : std::true_type {};
template<class T> struct is_omap : std::false_type {}; template<class K,class V,class C,class A> struct is_omap<std::map<K,V,C,A>> : std::true_type {};
template<class T> struct is_umap : std::false_type {}; template<class K,class V,class H,class E,class A> struct is_umap<std::unordered_map<K,V,H,E,A>> : std::true_type {};
template<class T> struct is_oset : std::false_type {}; template<class K,class C,class A> struct is_oset<std::set<K,C,A>> : std::true_type {};
template<class T> struct is_uset : std::false_type {}; template<class K,class H,class E,class A> struct is_uset<std::unordered_set<K,H,E,A>> : std::true_type {};
template<class T> struct is_arr : std::false_type {}; template<class T,std::size_t N> struct is_arr<std::array<T,N>> : std::true_type {};
template<class T> struct is_bits : std::false_type {}; template<std::size_t N> struct is_bits<std::bitset<N>> : std::true_type {};
template<class T> struct is_tp : std::false_type {}; template<class C,class D> struct is_tp<std::chrono::time_point<C,D>> : std::true_type {};
struct SI;
template<class T, class = void> struct has_sop : std::false_type {};
template<class T> struct has_sop<T, std::void_t<decltype(std::declval<T&>().serializeOp(std::declval<SI&>()))>> : std::true_type {};
inline std::string num(double v) { char b[48]; std::snprintf(b, sizeof b, "#%.17g;", v); return b; }   // ';' terminates the number
struct SI {
  std::string out; int depth = 0; int member = 0;
  bool isSerializing() const { return true; }
  template<class T> void operator()(const T& d) {
    using U = std::remove_cv_t<std::remove_reference_t<T>>;
    struct Depth { int& d; Depth(int& x) : d(x) { ++d; } ~Depth() { --d; } } guard(depth);
    if (depth == 2) { out += '\x1f'; out += std::to_string(member++); out += ':'; }
    if constexpr (std::is_same_v<U, Opm::UnitSystem>) { out += "US"; }
    else if constexpr (std::is_same_v<U, Opm::Dimension>) { out += "DIM"; }
    else if constexpr (std::is_same_v<U, Opm::UDAValue>) {
      out += "UDA(";
      if (d.is_numeric()) { if (d.get_dim().getSIScaling() == 1.0 && d.get_dim().getSIOffset() == 0.0) out += "=";   // no dimension attached (or a unit factor): see compare_obs
        out += num(d.getSI()); } else if (d.template is<std::string>()) out += "\"" + d.template get<std::string>() + "\""; else out += "undef";
      out += ")"; }
    else if constexpr (std::is_same_v<U, Opm::DeckItem>) {
      out += "DI(" + d.name() + ":" + std::to_string((int)d.getType()) + ":";
      const auto& st = d.getValueStatus(); for (auto x : st) out += std::to_string((int)x);
      out += ":";
      const bool has_dim = ndims(d) > 0;
      for (size_t i=0;i<d.data_size();++i) { if (!d.hasValue(i)) { out += "_,"; continue; }
        switch (d.getType()) {
          case Opm::type_tag::integer: out += std::to_string(d.template get<int>(i)); break;
          case Opm::type_tag::fdouble: { if (has_dim) { double v; try { v = d.getSIDouble(i); out += num(v); } catch (const std::exception&) { out += "ctx"; } } else { out += "~"; out += num(d.template getData<double>()[i]); } break; }
          case Opm::type_tag::string: out += "\"" + d.template get<std::string>(i) + "\""; break;
          case Opm::type_tag::raw_string: out += "r\"" + d.template get<Opm::RawString>(i) + "\""; break;
          case Opm::type_tag::uda: { auto u = d.template get<Opm::UDAValue>(i); if (u.is_numeric() && !has_dim) { out += "~"; out += num(u.template get<double>()); } else (*this)(u); break; }
          default: out += "?"; }
        out += ","; }
      out += ")"; }
    else if constexpr (std::is_same_v<U, Opm::KeywordLocation>) { out += "@"; }
    else if constexpr (std::is_same_v<U, std::string>) { out += "\"" + d + "\""; }
    else if constexpr (std::is_same_v<U, bool>) { out += d ? "T" : "F"; }
    else if constexpr (std::is_enum_v<U>) { out += "e" + std::to_string(static_cast<long long>(d)); }
    else if constexpr (std::is_integral_v<U>) { out += std::to_string(d); }
    else if constexpr (std::is_floating_point_v<U>) { out += num((double)d); }
    else if constexpr (is_bits<U>::value) { out += "b" + d.to_string(); }
    else if constexpr (is_tp<U>::value) { out += "t" + std::to_string(d.time_since_epoch().count()); }
    else if constexpr (is_sp<U>::value) { if (d) { out += "&"; (*this)(*d); } else out += "null"; }
    else if constexpr (is_opt<U>::value) { if (d) { out += "?"; (*this)(*d); } else out += "none"; }
    else if constexpr (is_var<U>::value) { out += "v" + std::to_string(d.index()) + ":"; std::visit([this](const auto& x){ (*this)(x); }, d); }
    else if constexpr (is_tup<U>::value) { out += "("; std::apply([this](const auto&... x){ ((void)((*this)(x), out += ","), ...); }, d); out += ")"; }
    else if constexpr (is_vec<U>::value) { out += "["; for (const auto& x : d) { auto y = x; (*this)(static_cast<const typename U::value_type&>(y)); out += ","; } out += "]"; }
    else if constexpr (is_arr<U>::value) { out += "["; for (const auto& x : d) { (*this)(x); out += ","; } out += "]"; }
    else if constexpr (is_omap<U>::value || is_oset<U>::value) { out += "{"; for (const auto& x : d) { (*this)(x); out += ","; } out += "}"; }
    else if constexpr (is_umap<U>::value || is_uset<U>::value) { std::vector<std::string> parts; for (const auto& x : d) { SI c; c.depth = 100; c(x); parts.push_back(c.out); } std::sort(parts.begin(), parts.end()); out += "{"; for (auto& p : parts) { out += p; out += ","; } out += "}"; }
    else if constexpr (has_sop<U>::value) { out += "<"; const_cast<U&>(d).serializeOp(*this); out += ">"; }
    else { static_assert(std::is_trivially_copyable_v<U>, "unhandled type in c02::SI"); out += "x"; const unsigned char* p = reinterpret_cast<const unsigned char*>(&d); char b[3]; for (size_t i=0;i<sizeof(U);++i){ std::snprintf(b,3,"%02x",p[i]); out+=b; } }
  }
};
} // namespace c02

static const char* SS_MEMBERS[] = {"gconsale", "gconsump", "gecon", "guide_rate", "wlist_manager", "well_order", "group_order", "actions", "udq", "udq_active", "pavg", "wtest_config", "glo", "network",
    "network_balance", "rescoup", "rpt_config", "rft_config", "rst_config", "bhp_defaults", "source", "vfpprod", "vfpinj", "groups", "wells", "aqufluxs", "bcprop", "target_wellpi", "next_tstep", "start_time",
    "end_time", "sim_step", "month_num", "year_num", "first_in_year", "first_in_month", "save_step", "tuning", "nupcol", "oilvap", "events", "wellgroup_events", "geo_keywords", "message_limits", "whistctl_mode", "sumthin", "rptonly"};

// labelled public queries (SI)
static std::string queries(const Opm::Schedule& sched, std::size_t step) {
    using c02::num;
    std::string o;
    Opm::SummaryState st(Opm::TimeService::from_time_t(0), 0.0);
    for (const auto& wn : sched.wellNames(step)) {
        const auto& w = sched.getWell(wn, step);
        o += "\nW " + wn + " refdepth=" + (w.hasRefDepth() ? num(w.getRefDepth()) : std::string("-")) + " efac=" + num(w.getEfficiencyFactor()) + " drad=" + num(w.getDrainageRadius()) + " guide=" + num(w.getGuideRate());
        try {
            if (w.isProducer()) { auto c = w.productionControls(st); o += " P.orat=" + num(c.oil_rate) + " P.wrat=" + num(c.water_rate) + " P.grat=" + num(c.gas_rate) + " P.lrat=" + num(c.liquid_rate) + " P.resv=" + num(c.resv_rate) + " P.bhp_limit=" + num(c.bhp_limit) + " P.thp_limit=" + num(c.thp_limit) + " P.bhp_hist=" + num(c.bhp_history) + " P.thp_hist=" + num(c.thp_history) + " P.alq=" + num(c.alq_value); }
            else { auto c = w.injectionControls(st); o += " I.surface_rate=" + num(c.surface_rate) + " I.resv_rate=" + num(c.reservoir_rate) + " I.bhp_limit=" + num(c.bhp_limit) + " I.thp_limit=" + num(c.thp_limit) + " I.rsrv=" + num(c.rs_rv_inj); }
        } catch (const std::exception&) { o += " controls-not-numeric"; }
        int k = 0;
        for (const auto& c : w.getConnections()) { o += " c" + std::to_string(k++) + ".CF=" + num(c.CF()) + " .Kh=" + num(c.Kh()) + " .rw=" + num(c.rw()) + " .r0=" + num(c.r0()) + " .skin=" + num(c.skinFactor()) + " .dfac=" + num(c.dFactor()) + " .depth=" + num(c.depth()); }
        if (w.isMultiSegment()) for (const auto& s : w.getSegments()) o += " s" + std::to_string(s.segmentNumber()) + ".len=" + num(s.totalLength()) + " .depth=" + num(s.depth()) + " .diam=" + num(s.internalDiameter()) + " .rough=" + num(s.roughness()) + " .area=" + num(s.crossArea()) + " .vol=" + num(s.volume());
    }
    for (const auto& gn : sched.groupNames(step)) {
        const auto& g = sched.getGroup(gn, step);
        o += "\nG " + gn + " efac=" + num(g.getGroupEfficiencyFactor());
        try { if (g.isProductionGroup()) { auto c = g.productionControls(st); o += " GP.oil=" + num(c.oil_target) + " GP.wat=" + num(c.water_target) + " GP.gas=" + num(c.gas_target) + " GP.liq=" + num(c.liquid_target) + " GP.resv=" + num(c.resv_target) + " GP.guide=" + num(c.guide_rate); } } catch (const std::exception&) { o += " gp-not-numeric"; }
        for (auto ph : {Opm::Phase::WATER, Opm::Phase::GAS, Opm::Phase::OIL}) try { if (g.hasInjectionControl(ph)) { auto c = g.injectionControls(ph, st); o += " GI" + std::to_string((int)ph) + ".surf=" + num(c.surface_max_rate) + " .resv=" + num(c.resv_max_rate) + " .reinj=" + num(c.target_reinj_fraction) + " .void=" + num(c.target_void_fraction); } } catch (const std::exception&) { o += " gi-not-numeric"; }
    }
    o += "\nbhp_defaults";
    { const auto& b = sched[step].bhp_defaults.get(); o += " prod_target=" + (b.prod_target ? num(*b.prod_target) : std::string("-")) + " inj_limit=" + (b.inj_limit ? num(*b.inj_limit) : std::string("-")); }
    return o;
}

// compare two observations: '#' introduces a float (tolerance), '~' exempts the float that follows
struct Diff { bool differ = false; std::string ctx, a, b; int member = -1; };
static std::vector<Diff> compare_obs(const std::string& A, const std::string& B, double rel, size_t maxd = 4) {
    std::vector<Diff> out; size_t i = 0, j = 0; int member = -1;
    auto ctx_of = [&](size_t p) { size_t s = p > 70 ? p - 70 : 0; std::string c = A.substr(s, p - s); for (auto& ch : c) if ((unsigned char)ch < 0x20) ch = '|'; return c; };
    auto label_of = [&](size_t p) {       // nearest "name=" label before p (queries) or the root member (canon)
        size_t e = p; if (e > 0 && A[e - 1] == '=') { size_t s = e - 1; while (s > 0 && (std::isalnum((unsigned char)A[s - 1]) || A[s - 1] == '_' || A[s - 1] == '.')) --s; std::string l = A.substr(s, e - 1 - s); std::string r; for (char ch : l) if (!std::isdigit((unsigned char)ch)) r += ch; return r; }
        return std::string(); };
    while (i < A.size() && j < B.size() && out.size() < maxd) {
        if (A[i] == '\x1f' && B[j] == '\x1f') member = std::atoi(A.c_str() + i + 1);
        if (A[i] == '~' && B[j] == '~' && i + 1 < A.size() && A[i + 1] == '#') {   // exempt
            char *ea, *eb; std::strtod(A.c_str() + i + 2, &ea); std::strtod(B.c_str() + j + 2, &eb); i = ea - A.c_str(); j = eb - B.c_str(); continue;
        }
        if (A[i] == '=' && B[j] == '=' && i + 1 < A.size() && A[i + 1] == '#' && j + 1 < B.size() && B[j + 1] == '#') {
            // UDAValue that carries NO dimension in either deck: a raw deck number whose unit is decided where it is used
            // (WCONINJE RATE by phase, GCONINJE surface target, ALQ, ...); its SI meaning is observed through the labelled
            // control queries below, the stored raw number is legitimately different
            char *ea, *eb; std::strtod(A.c_str() + i + 2, &ea); std::strtod(B.c_str() + j + 2, &eb); i = ea - A.c_str(); j = eb - B.c_str(); continue;
        }
        if (A[i] == '=' && B[j] == '#') { ++i; continue; }     // unit factor in METRIC (sm3, kg, m ...), real factor in the other system: compare the SI values
        if (A[i] == '#' && B[j] == '=') { ++j; continue; }
        if (A[i] == '#' && B[j] == '#') {
            char *ea, *eb; double x = std::strtod(A.c_str() + i + 1, &ea), y = std::strtod(B.c_str() + j + 1, &eb);
            bool same = (std::isnan(x) && std::isnan(y)) || x == y || std::fabs(x - y) <= rel * std::max(std::fabs(x), std::fabs(y));
            if (!same) { Diff d; d.differ = true; d.ctx = ctx_of(i); d.a = vf::fmt17(x); d.b = vf::fmt17(y); d.member = member; std::string l = label_of(i); if (!l.empty()) d.ctx = l + " @ " + d.ctx; out.push_back(d); }
            i = ea - A.c_str(); j = eb - B.c_str(); continue;
        }
        if (A[i] != B[j]) { Diff d; d.differ = true; d.ctx = ctx_of(i); d.a = A.substr(i, 60); d.b = B.substr(j, 60); d.member = member; out.push_back(d); return out; }   // structural difference: cannot resynchronise
        ++i; ++j;
    }
    if (out.size() < maxd && (i < A.size()) != (j < B.size())) { Diff d; d.differ = true; d.ctx = "length"; d.member = member; out.push_back(d); }
    return out;
}

// ------------------------------------------------------- re-expression -------
static std::unique_ptr<Opm::Parser> g_parser;

// items without a dimension annotation whose unit the manual makes depend on another item of the record
// (the handler converts by hand).  Returns the dimension (JSON grammar) or "" (print the number unchanged).
static std::string context_dim(const std::string& kw, const Opm::DeckRecord& rec, const std::string& item) {
    auto str = [&](const char* n) { return rec.hasItem(n) && rec.getItem(n).hasValue(0) ? rec.getItem(n).getTrimmedString(0) : std::string(); };
    const std::string LR = "LiquidSurfaceVolume/Time", GR = "GasSurfaceVolume/Time", RR = "ReservoirVolume/Time";
    if ((kw == "WCONINJE" || kw == "WCONINJH") && item == "RATE") { std::string t = str("TYPE"); return t == "GAS" ? GR : LR; }
    if (kw == "GCONINJE" && item == "SURFACE_TARGET") { std::string t = str("PHASE"); return t == "GAS" ? GR : LR; }
    if ((kw == "WELTARG") && item == "NEW_VALUE") {
        std::string m = str("CMODE");
        if (m == "ORAT" || m == "WRAT" || m == "LRAT") return LR; if (m == "GRAT") return GR; if (m == "RESV") return RR; if (m == "BHP" || m == "THP") return "Pressure";
        return "";
    }
    return "";
}

static std::string fmt_double(double x) { return vf::fmt17(x); }

struct Override { int kw = -1, rec = -1, item = -1; bool trailing = false; };     // item (or items >= item) printed as 1*

struct FlagGrab { std::vector<bool> flags; bool isSerializing() const { return true; } template <class T> void operator()(T&) {} void operator()(bool& b) { flags.push_back(b); } };
static bool slash_terminated(const Opm::DeckKeyword& dk) { FlagGrab g; const_cast<Opm::DeckKeyword&>(dk).serializeOp(g); return g.flags.size() >= 2 ? g.flags[1] : false; }   // m_isDataKeyword, m_slashTerminated, m_isDoubleRecordKeyword

// print one keyword of a METRIC deck in unit system sys
static std::string print_keyword(const Opm::DeckKeyword& dk, int sys, int kwi, const Override& ov) {
    const std::string name = dk.name();
    if (name == "METRIC") return std::string(SYSN[sys]) + "\n";
    std::string o = name + "\n";
    if (!g_parser->isRecognizedKeyword(name)) throw std::runtime_error("printer: unknown keyword " + name);
    const auto& pk = g_parser->getParserKeywordFromDeckName(name);
    const size_t npr = std::distance(pk.begin(), pk.end());
    for (size_t j = 0; j < dk.size(); ++j) {
        const auto& rec = dk.getRecord(j);
        o += " ";
        if (npr > 0 && rec.size() > 0) {
            const auto& prec = pk.getRecord(j);
            for (size_t k = 0; k < rec.size(); ++k) {
                const auto& it = rec.getItem(k);
                const bool forced = ov.kw == kwi && ov.rec == (int)j && (ov.trailing ? (int)k >= ov.item : (int)k == ov.item);
                if (forced) { o += "1* "; continue; }
                const Opm::ParserItem* pit = prec.hasItem(it.name()) ? &prec.get(it.name()) : nullptr;
                for (size_t i = 0; i < it.data_size(); ++i) {
                    if (it.defaultApplied(i) || !it.hasValue(i)) { o += "1* "; continue; }
                    switch (it.getType()) {
                    case Opm::type_tag::integer: o += std::to_string(it.get<int>(i)) + " "; break;
                    case Opm::type_tag::string: o += "'" + it.get<std::string>(i) + "' "; break;
                    case Opm::type_tag::raw_string: o += it.get<Opm::RawString>(i) + " "; break;
                    case Opm::type_tag::fdouble: case Opm::type_tag::uda: {
                        double x;
                        if (it.getType() == Opm::type_tag::uda) { const auto& u = it.getData<Opm::UDAValue>()[i]; if (!u.is_numeric()) { o += "'" + u.get<std::string>() + "' "; break; } x = u.get<double>(); }
                        else x = it.getData<double>()[i];
                        std::string dim;
                        if (pit && !pit->dimensions().empty()) dim = pit->dimensions()[i % pit->dimensions().size()];
                        else dim = context_dim(name, rec, it.name());
                        if (!dim.empty() && sys != 0) {
                            Aff m = REF.dim(0, dim, true), a = REF.dim(sys, dim, true);
                            if (m.ok && a.ok && !m.nan && !m.offset_in_composite) x = a.from_si(m.to_si(x));
                        }
                        o += fmt_double(x) + " "; break; }
                    default: throw std::runtime_error("printer: item type");
                    }
                }
            }
        }
        o += "/\n";
    }
    if (slash_terminated(dk)) o += "/\n";
    return o;
}

// ------------------------------------------------------------ alphabet -------
static std::vector<schedgen::Ev> alphabet() {
    auto v = schedgen::broad_alphabet();
    std::vector<schedgen::Ev> x = {
        {"X_WCONPROD_full", "WCONPROD\n 'P1' OPEN GRAT 100 50 20000 140 300 40 /\n/\n"},
        {"X_WCONPROD_resv", "WCONPROD\n 'P2' OPEN RESV 4* 300 /\n/\n"},
        {"X_WCONINJE_resv", "WCONINJE\n 'I1' WATER OPEN RESV 250 300 450 /\n/\n"},
        {"X_WCONHIST_bhp", "WCONHIST\n 'P1' OPEN ORAT 90 10 1000 3* 60 /\n/\n"},
        {"X_WCONHIST_resv", "WCONHIST\n 'P2' OPEN RESV 70 20 2000 /\n/\n"},
        {"X_WCONINJH_bhp", "WCONINJH\n 'I1' WATER OPEN 180 300 /\n/\n"},
        {"X_WCONINJH_gas", "WCONINJH\n 'I1' GAS OPEN 18000 /\n/\n"},
        {"X_GCONINJE_gas", "GCONINJE\n 'G2' GAS RATE 50000 400 /\n/\n"},
        {"X_GCONINJE_reinj", "GCONINJE\n 'G2' WATER REIN 2* 0.8 /\n/\n"},
        {"X_GCONPROD_full", "GCONPROD\n 'G1' LRAT 1000 500 100000 1200 RATE YES 2.5 OIL /\n/\n"},
        {"X_GCONPROD_resv", "GCONPROD\n 'G2' RESV 4* RATE 5* 900 /\n/\n"},
        {"X_WELSPECS_depth", "WELSPECS\n 'P3' 'G1' 1 3 2012 OIL 75 /\n/\nCOMPDAT\n 'P3' 1 3 1 2 OPEN /\n/\n"},
        {"X_COMPDAT_full", "COMPDAT\n 'P1' 1 1 2 2 OPEN 1* 25.0 0.3 2500 1.5 1e-4 Y 12 /\n/\n"},
        {"X_COMPDAT_kh", "COMPDAT\n 'P2' 2 2 3 3 OPEN 1* 1* 0.25 3000 -1 /\n/\n"},
        {"X_WECON_full", "WECON\n 'P1' 10 1000 0.9 500 0.2 WELL NO 1* RATE 0.95 NONE 1* 5 /\n/\n"},
        {"X_GECON_full", "GECON\n 'G1' 10 1000 0.9 /\n/\n"},
        {"X_WTEST_full", "WTEST\n 'P1' 10 PE 3 5 /\n/\n"},
        {"X_WELTARG_grat", "WELTARG\n 'P1' GRAT 30000 /\n/\n"},
        {"X_WELTARG_resv", "WELTARG\n 'P1' RESV 150 /\n/\n"},
        {"X_WELTARG_lrat", "WELTARG\n 'P2' LRAT 130 /\n/\n"},
        {"X_WPAVEDEP", "WPAVEDEP\n 'P2' 2007.5 /\n/\n"},
        {"X_WINJTEMP_full", "WINJTEMP\n 'I1' 1* 40 250 /\n/\n"},
        {"X_GLIFTOPT", "GLIFTOPT\n 'PLAT' 5000 1* /\n/\n"},
        {"X_TUNING_full", "TUNING\n 0.5 5 0.05 0.1 /\n/\n 12 1 25 1 8 8 1e6 1e6 1e6 1e6 /\n"},
        {"X_NONE", ""},
    };
    v.insert(v.end(), x.begin(), x.end());
    return v;
}

// follower blocks: dependent keywords that leave values defaulted so that state left by the snippet is used
static const char* FOLLOWERS[2] = {
    "WCONPROD\n 'P1' OPEN ORAT 110 /\n/\nWCONINJE\n 'I1' WATER OPEN RATE 210 /\n/\nWCONHIST\n 'P2' OPEN ORAT 80 5 500 /\n/\nCOMPDAT\n 'P1' 1 1 3 3 OPEN /\n/\n",
    "WCONHIST\n 'P1' OPEN LRAT 85 15 900 /\n/\nWCONINJH\n 'I1' WATER OPEN 150 /\n/\nWCONPROD\n 'P2' OPEN GRAT 2* 15000 /\n/\nWELSPECS\n 'P4' 'G2' 3 1 1* OIL /\n/\nCOMPDAT\n 'P4' 3 1 1 2 OPEN 2* 0.3 /\n/\nWCONPROD\n 'P4' OPEN LRAT 3* 90 /\n/\n"};

static const std::string DATES1 = "DATES\n 1 FEB 2020 /\n/\n", DATES2 = "DATES\n 1 MAR 2020 /\n/\n";

struct Built { std::unique_ptr<Opm::Schedule> s; std::vector<std::string> obs; std::string err; };
static std::shared_ptr<Opm::Python> g_python;

static Built build(const std::string& text) {
    Built b;
    try {
        auto deck = g_parser->parseString(text);
        Opm::EclipseState es(deck);
        b.s = std::make_unique<Opm::Schedule>(deck, es, g_python);
        for (size_t st = 0; st < b.s->size(); ++st) { c02::SI c; c((*b.s)[st]); b.obs.push_back(c.out + queries(*b.s, st)); }
    } catch (const std::exception& e) { b.err = std::string(e.what()).substr(0, 300); b.s.reset(); }
    return b;
}

static std::string g_prefix_text;            // METRIC base deck + prelude
static size_t g_prefix_kw = 0;               // number of keywords in it
static std::string g_prefix_sys[4], g_follow_sys[2][4];
static std::vector<schedgen::Ev> g_alpha;

static std::string print_range(const Opm::Deck& d, size_t from, size_t to, int sys, const Override& ov = Override()) {
    std::string o; for (size_t k = from; k < to; ++k) o += print_keyword(d[k], sys, (int)(k - from), ov); return o;
}

static size_t nkw(const Opm::Deck& d) { return d.size() > 0 && d[d.size() - 1].name() == "END" ? d.size() - 1 : d.size(); }   // keywords without a trailing END
static void prepare() {
    g_prefix_text = schedgen::base_deck("METRIC") + schedgen::prelude_wells();
    auto d = g_parser->parseString(g_prefix_text + "END\n");
    g_prefix_kw = nkw(d);
    for (int s = 0; s < 4; ++s) g_prefix_sys[s] = print_range(d, 0, g_prefix_kw, s);
    for (int f = 0; f < 2; ++f) { auto df = g_parser->parseString(g_prefix_text + FOLLOWERS[f] + "END\n"); for (int s = 0; s < 4; ++s) g_follow_sys[f][s] = print_range(df, g_prefix_kw, nkw(df), s); }
}

static std::string member_name(int m) { return m >= 0 && m < (int)(sizeof SS_MEMBERS / sizeof SS_MEMBERS[0]) ? SS_MEMBERS[m] : "m" + std::to_string(m); }

// one case: snippet si, variant (kw, rec, item, trailing), follower f, systems mask
static void run_variant(int si, const Override& ov, int f, int sysmask, const std::string& c) {
    const auto& ev = g_alpha[si];
    R->current(c);
    std::unique_ptr<Opm::Deck> dp;
    try { dp = std::make_unique<Opm::Deck>(g_parser->parseString(g_prefix_text + ev.text + "END\n")); }
    catch (const std::exception& e) { R->count("snippets_rejected_by_parser"); R->notes["rejected:" + ev.name] = std::string(e.what()).substr(0, 160); return; }
    const Opm::Deck& d = *dp;
    const size_t nk = nkw(d);
    std::string kwname = ev.name;
    if (ov.kw >= 0) kwname = d[g_prefix_kw + ov.kw].name() + ":" + d[g_prefix_kw + ov.kw].getRecord(ov.rec).getItem(ov.item).name() + (ov.trailing ? "+" : "");
    auto text = [&](int sys) { return g_prefix_sys[sys] + print_range(d, g_prefix_kw, nk, sys, ov) + DATES1 + g_follow_sys[f][sys] + DATES2 + "END\n"; };
    const std::string tm = text(0);
    Built bm = build(tm);
    R->evaluations++;
    if (!bm.s) { R->count("variants_rejected_in_METRIC"); return; }
    R->count("variants_built");
    if (ov.kw < 0) {
        // self-check of the printer: the METRIC reprint must mean the same as the original text
        Built bo = build(g_prefix_text + ev.text + DATES1 + FOLLOWERS[f] + DATES2 + "END\n");
        if (!bo.s) { R->count("original_text_rejected"); }
        else {
            bool same = bo.obs.size() == bm.obs.size();
            for (size_t st = 0; same && st < bo.obs.size(); ++st) same = compare_obs(bo.obs[st], bm.obs[st], 1e-14).empty();
            if (!same) { R->count("printer_selfcheck_failed"); R->notes["printer_selfcheck:" + ev.name] = "METRIC reprint of the snippet does not give the same Schedule as the original text; snippet skipped"; return; }
        }
    }
    for (int sys = 1; sys < 4; ++sys) {
        if (!((sysmask >> sys) & 1)) continue;
        const std::string ts = text(sys);
        Built bs = build(ts);
        R->evaluations++;
        const std::string keyhead = "C02:sched:" + kwname + ":";
        if (!bs.s) { R->violation(keyhead + "rejected:" + SYSN[sys], ev.name + " variant [" + kwname + "]: the METRIC deck builds a Schedule, the same deck re-expressed in " + SYSN[sys] + " is rejected: " + bs.err, rp(c, ts)); continue; }
        if (bs.obs.size() != bm.obs.size()) { R->violation(keyhead + "steps:" + SYSN[sys], "different number of report steps", rp(c, ts)); continue; }
        for (size_t st = 0; st < bm.obs.size(); ++st) {
            R->observe(bs.obs[st]);
            auto diffs = compare_obs(bm.obs[st], bs.obs[st], 1e-12);
            for (auto& df : diffs) {
                std::string lab = df.ctx.find(" @ ") != std::string::npos ? df.ctx.substr(0, df.ctx.find(" @ ")) : member_name(df.member);
                R->violation(keyhead + lab + ":" + SYSN[sys], ev.name + " variant [" + kwname + "], follower " + std::to_string(f) + ", report step " + std::to_string(st) + ": SI observation differs between the METRIC deck and its " + SYSN[sys] + " re-expression in ScheduleState member '" + member_name(df.member) + "': METRIC " + df.a + " vs " + SYSN[sys] + " " + df.b + "  near ..." + df.ctx, rp(c, ts));
            }
            if (!diffs.empty()) break;
        }
        R->count("system_comparisons");
    }
    if (R->samples.size() < 3 && ov.kw >= 0 && ev.name == "FBHPDEF") R->sample_str(c + " :: FIELD snippet: " + print_range(d, g_prefix_kw, nk, 1, ov));
}

static std::string case_str(int si, const Override& ov, int f, int sysmask) {
    return "v " + std::to_string(si) + " " + std::to_string(ov.kw) + " " + std::to_string(ov.rec) + " " + std::to_string(ov.item) + " " + (ov.trailing ? "1" : "0") + " " + std::to_string(f) + " " + std::to_string(sysmask);
}

int main(int argc, char** argv) {
    vf::Run run("C02", argc, argv); R = &run;
    const char* root = std::getenv("VERIF_ROOT");
    REF.load(std::string(root ? root : ".") + "/data/C02_units.ref");
    {   // the library's Btu (see C02_units): choose the legitimate definition in use
        Opm::UnitSystem fu(Opm::UnitSystem::UnitType::UNIT_TYPE_FIELD);
        for (int k = 0; k < REF.nchoices(); ++k) { REF.choose(k); if (releq(REF.unit_value("Btu"), fu.to_si(Opm::UnitSystem::measure::energy, 1.0), 1e-12)) break; if (k + 1 == REF.nchoices()) REF.choose(0); }
    }
    g_parser = std::make_unique<Opm::Parser>();
    g_python = std::make_shared<Opm::Python>();
    g_alpha = alphabet();
    prepare();
    run.rule = "every snippet of schedgen::broad_alphabet() + 25 extras after prelude_wells(), followed by DATES + a follower block that leaves BHP/connection data defaulted; variants {as written} U {each single item of each record -> 1*} (thorough: U each trailing run of items -> 1*) x 2 follower blocks x {FIELD, LAB, PVT-M}; METRIC deck parsed and printed back in the target unit system with reference factors (dimension annotations + context table); "
               "oracle: SI observation of every ScheduleState (all serialized members with UDAValue->SI, + labelled public queries) equal to 1e-12 relative between the METRIC deck and each re-expression";
    run.assumptions = {"data/C02_units.ref reference factors; re-expression converts items with a dimension annotation and the context-dependent items listed in context_dim() (WCONINJE/WCONINJH RATE, GCONINJE SURFACE_TARGET, WELTARG NEW_VALUE)",
        "numbers of items without annotation are printed unchanged (dimensionless by annotation)", "variants the METRIC deck itself rejects are skipped and counted",
        "exempt from comparison (justified in the source): Dimension and UnitSystem objects, raw numbers of un-annotated items inside STORED keywords (ACTIONX bodies / geo keywords)",
        "VFPPROD/VFPINJ carry their own unit item and raw UDQ expressions carry deck-unit constants: see notes excluded:*"};
    if (!run.replay_path.empty()) {
        auto w = words(run.replay_path); if (w.size() != 8) throw std::runtime_error("bad case");
        Override ov; ov.kw = std::atoi(w[2].c_str()); ov.rec = std::atoi(w[3].c_str()); ov.item = std::atoi(w[4].c_str()); ov.trailing = w[5] == "1";
        run_variant(std::atoi(w[1].c_str()), ov, std::atoi(w[6].c_str()), std::atoi(w[7].c_str()), run.replay_path);
        return run.finish();
    }
    // snippets whose re-expression is not meaningful with this generic printer
    const std::map<std::string, std::string> excluded = {
        {"VFPPROD", "table keyword with its own UNITS item and by-hand conversion of every axis/body value; not expressible by item annotations"},
        {"VFPPROD_blank_alq", "as VFPPROD"}, {"VFPINJ", "as VFPPROD"},
        {"UDQ_uda", "ASSIGN WUX 3.0 is a deck-unit number by UDQ semantics; a faithful re-expression would have to convert the constant inside the raw UDQ expression"},
        {"DATES", "time event"}};
    for (auto& [k, v] : excluded) run.notes["excluded:" + k] = v;
    for (int si = 0; si < (int)g_alpha.size(); ++si) {
        const auto& ev = g_alpha[si];
        if (ev.time || excluded.count(ev.name)) continue;
        // enumerate variants from the parsed snippet (every shard does this cheap step)
        std::unique_ptr<Opm::Deck> dp;
        try { dp = std::make_unique<Opm::Deck>(g_parser->parseString(g_prefix_text + ev.text + "END\n")); } catch (const std::exception&) { if (run.mine()) run_variant(si, Override(), 0, 2, case_str(si, Override(), 0, 2)); continue; }
        const Opm::Deck& d = *dp;
        const size_t nk = nkw(d);
        const int full = 2 | 4 | 8;      // FIELD, LAB, PVT-M (a Schedule build of this model costs ~3 ms: no need to thin the quick tier)
        const int nf = 2;
        std::vector<Override> vars = {Override()};
        for (size_t k = g_prefix_kw; k < nk; ++k) for (size_t j = 0; j < d[k].size(); ++j) {
            const auto& rec = d[k].getRecord(j);
            if (!g_parser->isRecognizedKeyword(d[k].name())) continue;
            const auto& pk = g_parser->getParserKeywordFromDeckName(d[k].name());
            if (pk.rawStringKeyword() || pk.isDataKeyword() || std::distance(pk.begin(), pk.end()) == 0) continue;
            for (size_t i = 0; i < rec.size(); ++i) {
                const auto& it = rec.getItem(i);
                if (it.data_size() != 1) continue;
                Override o; o.kw = (int)(k - g_prefix_kw); o.rec = (int)j; o.item = (int)i;
                if (!it.defaultApplied(0)) vars.push_back(o);
                if (run.thorough() && i >= 1 && i + 1 < rec.size()) { o.trailing = true; bool any = false; for (size_t q = i; q < rec.size(); ++q) if (rec.getItem(q).data_size() == 1 && !rec.getItem(q).defaultApplied(0)) any = true; if (any) vars.push_back(o); }
            }
        }
        for (auto& ov : vars) for (int f = 0; f < nf; ++f) {
            if (run.timed_out()) break;
            if (!run.mine()) continue;
            int mask = full;
            run_variant(si, ov, f, mask, case_str(si, ov, f, mask));
        }
        if (run.shard == 0) { run.count("snippets"); run.count("variants_enumerated", (long long)vars.size() * nf); }
    }
    return run.finish();
}
