// C19 — Deck written as text parses back to the same Deck; print(parse(print(d))) is a fixpoint.
#include "vf.hpp"
#include "deckgen.hpp"
#include <opm/common/OpmLog/OpmLog.hpp>
#include <opm/input/eclipse/Deck/DeckOutput.hpp>
#include <cmath>
#include <filesystem>

using namespace Opm;
namespace fs = std::filesystem;
static vf::Run* R;
static Parser* P;
static ParseContext PC;

// structure string (floats replaced by '#') + the floats themselves
struct Obs { std::string st; std::vector<double> fl; };
static Obs observe(const Deck& d) {
    Obs o;
    for (const auto& kw : d) {
        o.st += kw.name() + (kw.isDataKeyword() ? "{D" : "{") + (kw.isDoubleRecordKeyword() ? "2" : "");
        for (const auto& rec : kw) {
            o.st += "(";
            for (const auto& it : rec) {
                o.st += it.name() + ":" + std::to_string((int)it.getType()) + ":" + std::to_string(it.data_size()) + "[";
                bool has_dim = true;
                for (size_t i = 0; i < it.data_size(); ++i) {
                    o.st += it.defaultApplied(i) ? "d" : "v";
                    if (!it.hasValue(i)) { o.st += "_,"; continue; }
                    switch (it.getType()) {
                    case type_tag::integer: o.st += std::to_string(it.get<int>(i)); break;
                    case type_tag::fdouble: o.st += "#"; o.fl.push_back(it.get<double>(i)); if (has_dim) { try { double s = it.getSIDouble(i); o.fl.push_back(s); o.st += "#"; } catch (const std::exception&) { has_dim = false; } } break;
                    case type_tag::string: o.st += "\"" + it.get<std::string>(i) + "\""; break;
                    case type_tag::raw_string: o.st += "r\"" + static_cast<const std::string&>(it.get<RawString>(i)) + "\""; break;
                    case type_tag::uda: { const auto& u = it.get<UDAValue>(i); if (u.is<double>()) { o.st += "u#"; o.fl.push_back(u.get<double>()); } else if (u.is<std::string>()) o.st += "u\"" + u.get<std::string>() + "\""; else o.st += "u-none"; break; }
                    default: o.st += "?";
                    }
                    o.st += ",";
                }
                o.st += "];";
            }
            o.st += ")";
        }
        o.st += "}\n";
    }
    return o;
}
static bool close_enough(double a, double b) {
    if (std::isnan(a) || std::isnan(b)) return std::isnan(a) && std::isnan(b);
    if (a == b) return true;
    return std::fabs(a - b) <= 1e-9 * std::max(std::fabs(a), std::fabs(b));       // printed precision is 10 significant digits
}

static void check_deck(const std::string& text, const std::string& origin, const std::string& keytail, const std::string& casestr) {
    R->evaluations++;
    std::string rp = "{\"case\": " + vf::jstr(casestr) + ", \"text\": " + vf::jstr(text.substr(0, 1200)) + "}";
    Deck* dp = nullptr; std::unique_ptr<Deck> d;
    try { ErrorGuard eg; d = std::make_unique<Deck>(P->parseString(text, PC, eg)); eg.clear(); } catch (const std::exception&) { R->count("originals_rejected"); return; }
    (void)dp;
    std::string printed;
    try { std::ostringstream os; os << *d; printed = os.str(); } catch (const std::exception& e) { R->violation("C19:print-throws:" + keytail, "printing the Deck of " + origin + " throws: " + std::string(e.what()).substr(0, 200), rp); return; }
    R->observe(vf::fnv(printed));
    std::unique_ptr<Deck> d2;
    try { ErrorGuard eg; d2 = std::make_unique<Deck>(P->parseString(printed, PC, eg)); eg.clear(); }
    catch (const std::exception& e) { R->violation("C19:reparse-throws:" + keytail, "printed Deck of " + origin + " does not parse: " + std::string(e.what()).substr(0, 200) + " printed=[" + printed.substr(0, 300) + "]", rp); return; }
    // second print BEFORE any SI query on d2: getSIDouble() converts the stored vector in place, and the
    // fixpoint claim is about print o parse o print, not about print after other queries
    std::string printed2; bool p2ok = true;
    try { std::ostringstream os2; os2 << *d2; printed2 = os2.str(); } catch (const std::exception& e) { p2ok = false; }
    Obs a = observe(*d), b = observe(*d2);
    if (a.st != b.st) {
        size_t p = 0; while (p < a.st.size() && p < b.st.size() && a.st[p] == b.st[p]) ++p; size_t s0 = p > 50 ? p - 50 : 0;
        R->violation("C19:deck-differs:" + keytail, "Deck of " + origin + " changes through print->parse: …" + a.st.substr(s0, 140) + " VS …" + b.st.substr(s0, 140) + " printed=[" + printed.substr(0, 300) + "]", rp);
    } else {
        for (size_t i = 0; i < a.fl.size(); ++i) if (!close_enough(a.fl[i], b.fl[i])) { R->violation("C19:float-differs:" + keytail, "floating value of " + origin + " changes beyond printed precision: " + vf::fmt17(a.fl[i]) + " -> " + vf::fmt17(b.fl[i]), rp); break; }
    }
    // writing must not depend on queries made before: a Deck whose SI data has been requested (as EclipseState and
    // Schedule construction do) is written and must still parse back to the same Deck
    try {
        std::ostringstream os3; os3 << *d; const std::string printed3 = os3.str();
        if (printed3 != printed) {
            ErrorGuard eg; Deck d3 = P->parseString(printed3, PC, eg); eg.clear();
            Obs c = observe(d3);
            bool same = c.st == a.st && c.fl.size() == a.fl.size();
            for (size_t i = 0; same && i < a.fl.size(); ++i) same = close_enough(a.fl[i], c.fl[i]);
            if (!same) { size_t p = 0; while (p < printed.size() && p < printed3.size() && printed[p] == printed3[p]) ++p; size_t s0 = p > 40 ? p - 40 : 0; R->violation("C19:after-si-access:" + keytail, "the Deck of " + origin + " is written differently after its SI data has been requested, and no longer parses back to the same Deck: …" + printed.substr(s0, 100) + " VS …" + printed3.substr(s0, 100), rp); }
            else R->count("text_differs_after_si_access_but_same_deck");
        }
    } catch (const std::exception& e) { R->violation("C19:after-si-access-throws:" + keytail, "writing/re-parsing " + origin + " after SI access throws: " + std::string(e.what()).substr(0, 150), rp); }
    if (!p2ok) R->violation("C19:print-throws:" + keytail, "second print throws for " + origin, rp);
    else if (printed2 != printed) { size_t p = 0; const std::string& q = printed2; while (p < q.size() && p < printed.size() && q[p] == printed[p]) ++p; size_t s0 = p > 40 ? p - 40 : 0; R->violation("C19:not-a-fixpoint:" + keytail, "print(parse(print(d))) != print(d) for " + origin + ": …" + printed.substr(s0, 120) + " VS …" + q.substr(s0, 120), rp); }
}

struct Special { std::string name, text; };
static std::vector<Special> specials() {
    std::vector<Special> v = {
        {"TITLE", "TITLE\n my title here / with slash and 'quote\n"},
        {"TITLE-blank", "TITLE\n\nDIMENS\n 1 1 1 /\n"},
        {"UDQ-raw", "UDQ\n DEFINE WUX WOPR 'P*' * 2 /\n ASSIGN FUA 1.5 /\n UNITS WUX SM3/DAY /\n/\n"},
        {"ACTIONX-cond", "ACTIONX\n A 1 /\n WOPR 'P*' > 10 AND /\n FOPR < 2 /\n/\nWELOPEN\n '?' SHUT /\n/\nENDACTIO\n"},
        {"string-blank", "WELSPECS\n 'P 1' 'G' 1 1 1* OIL 2* 'A/B' /\n/\n"},
        {"string-wildcard", "COMPDAT\n 'P*' 2* 1 2 /\n/\n"},
        {"string-slash", "MULTFLT\n 'F/1' 0.5 /\n 'F-2' 0.25 /\n/\n"},
        {"string-question", "WELOPEN\n '?' SHUT /\n/\n"},
        {"uda-string", "WCONPROD\n P1 OPEN ORAT WUX 4* 50 /\n/\n"},
        {"uda-number", "WCONPROD\n P1 OPEN ORAT 100.5 4* 50 /\n/\n"},
        {"uda-default", "WCONPROD\n P1 OPEN ORAT 1* 1000 3* 50 /\n/\n"},
        {"embedded-defaults", "EQUIL\n 2000 1* 2100 1* 1* 0 /\n"},
        {"trailing-defaults", "EQUIL\n 2000 200 /\n"},
        {"all-defaults", "EQUIL\n /\n"},
        {"mnemonics", "RPTRST\n BASIC=2 FREQ=3 /\n"},
        {"double-slash", "TUNING\n 1 10 /\n /\n 12 1 50 /\n"},
        {"double-record", "VFPINJ\n 4 2000 WAT THP METRIC BHP /\n 1 100 /\n 10 50 /\n 1 100 120 /\n 2 110 130 /\n"},
        {"table-collection", "PVTO\n 10 20 1.1 1.5 60 1.08 1.7 /\n 40 80 1.25 1.1 150 1.22 1.2 /\n/\n"},
        {"table-collection-2-regions", "TABDIMS\n 1 2 /\nPVTO\n 10 20 1.1 1.5 60 1.08 1.7 /\n 40 80 1.25 1.1 150 1.22 1.2 /\n/\n 12 22 1.1 1.5 62 1.08 1.7 /\n 42 82 1.25 1.1 152 1.22 1.2 /\n/\n"},
        {"table-collection-pvtg-2-regions", "TABDIMS\n 1 2 /\nPVTG\n 20 0.0001 0.05 0.012 0 0.051 0.0121 /\n 80 0.0002 0.012 0.015 0 0.0125 0.0151 /\n/\n 22 0.0001 0.05 0.012 0 0.051 0.0121 /\n 82 0.0002 0.012 0.015 0 0.0125 0.0151 /\n/\n"},
        {"table-collection-last-defaulted", "TABDIMS\n 1 2 /\nPVTO\n 10 20 1.1 1.5 60 1.08 1.7 /\n 40 80 1.25 1.1 150 1.22 1.2 /\n/\n/\n"},
        {"table-collection-middle-defaulted", "TABDIMS\n 1 3 /\nPVTO\n 10 20 1.1 1.5 60 1.08 1.7 /\n/\n/\n 12 22 1.1 1.5 62 1.08 1.7 /\n/\n"},
        {"table-collection-all-but-first-defaulted", "TABDIMS\n 1 3 /\nPVTG\n 20 0.0001 0.05 0.012 0 0.051 0.0121 /\n/\n/\n/\n"},
        {"tables-last-region-defaulted", "TABDIMS\n 2 1 /\nSWOF\n 0.2 0 1 0\n 1 1 0 0 /\n/\n"},
        {"pvdo-last-region-defaulted", "TABDIMS\n 1 2 /\nPVDO\n 10 1.1 1.5\n 100 1.05 1.6 /\n/\n"},
        {"tables-2-regions", "TABDIMS\n 2 1 /\nSWOF\n 0.2 0 1 0\n 1 1 0 0 /\n 0.25 0 1 0\n 1 1 0 0 /\n"},
        {"table-defaults", "SWOF\n 0.2 0 1 0\n 0.5 1* 1* 0\n 1 1 0 0 /\n"},
        {"dates", "DATES\n 1 JAN 2020 12:30:15 /\n 2 'FEB' 2021 /\n/\n"},
        {"start", "START\n 1 'JAN' 2020 /\n"},
        {"gruptree", "GRUPTREE\n A B /\n 'C D' B /\n/\n"},
        {"messages", "MESSAGES\n 3* 10 /\n"},
        {"code-DYNAMICR", "DYNAMICR\nx = 1\ny=2\nENDDYN\n"},
        {"code-PYACTION", "PYACTION\n ACT1 UNLIMITED /\n 'act1.py' /\n"},
        {"includes-none", "RUNSPEC\nDIMENS\n 2 2 1 /\nGRID\nDX\n 4*100 /\nPORO\n 2*0.1 2* /\n"},
        {"operate", "OPERATE\n PORO 1 2 1 2 1 1 MULTX PERMX 2.0 1.5 /\n/\n"},
        {"equals", "EQUALS\n PORO 0.25 /\n PERMX 100 1 2 1 1 1 1 /\n/\n"},
        {"wlist", "WLIST\n '*L1' NEW P1 P2 'P 3' /\n/\n"},
        {"wsegvalv", "WSEGVALV\n P2 3 0.7 0.002 5* /\n/\n"},
        {"compsegs", "COMPSEGS\n 'P2' /\n 2 2 1 1 0 10 /\n 2 2 2 1 10 20 Z 1* 2005 /\n/\n"},
        {"welsegs", "WELSEGS\n 'P2' 2005 0 1* INC HF- /\n 2 2 1 1 10 10 0.2 0.0001 /\n 3 3 1 2 10 10 0.2 0.0001 /\n/\n"},
        {"faults", "FAULTS\n 'F1' 1 1 1 3 1 3 X /\n 'F 2' 1 1 1 3 1 3 'Y-' /\n/\n"},
    };
    // extreme numbers in a data keyword and in a record keyword
    for (const char* x : {"1e-300", "1e300", "4.9e-324", "-0", "0", "123456789012", "1.23456789012345", "-1e-5", "1.0E+00", "0.1", "1e10", "9.9999999999e9", "0.99999999995"})
        v.push_back({std::string("extreme-") + x, std::string("PORO\n ") + x + " " + x + " /\nROCK\n " + x + " " + x + " /\n"});
    return v;
}

int main(int argc, char** argv) {
    vf::Run run("C19", argc, argv); R = &run;
    OpmLog::removeAllBackends();
    Parser parser; P = &parser; PC = deckgen::lenient_context();
    run.rule = "objects: one synthesised instance per parser deck name (4 value sets incl. strings with blanks, '/' and '--' in quotes); the first record of every instance with each single token / each trailing run / all tokens defaulted (thorough: every subset for <= 16 tokens); records of representative keywords with every default pattern (embedded and trailing); data arrays of every length 0..3*columns+1 with and without default/repeat runs; raw-string records (UDQ DEFINE / ACTIONX condition) of every token count 1..16 with a '/' at every position or none; hand-written specials (TITLE, raw-string, code, double-slash, table collection, strings with blanks/wildcards/slashes, UDA, extreme numbers); shipped decks; oracle: parse(print(d)) has the same structure, ints, strings, default flags, floats within 1e-9 relative (printed precision 10 digits), and print(parse(print(d))) == print(d); distinct = distinct printed texts";
    run.assumptions = {"value alphabet of engine/deckgen.hpp", "doubles compared at the printed precision (10 significant digits => 1e-9 relative)", "lenient ParseContext for one-keyword decks"};
    std::vector<std::string> rejected;
    std::vector<std::vector<deckgen::Instance>> cats = {deckgen::catalogue(parser, 0, &rejected), deckgen::catalogue(parser, 1, nullptr), deckgen::catalogue(parser, 2, nullptr), deckgen::catalogue(parser, 3, nullptr)};
    auto sp = specials();

    if (!run.replay_path.empty()) {
        std::istringstream ss(run.replay_path); std::string k; ss >> k;
        if (k == "C") { int v, i; ss >> v >> i; check_deck(cats[v][i].text(), cats[v][i].name, cats[v][i].name, run.replay_path); }
        else if (k == "S") { int i; ss >> i; check_deck(sp[i].text, sp[i].name, sp[i].name, run.replay_path); }
        else if (k == "X") { std::string rest; std::getline(ss, rest); std::string t; for (size_t i = 0; i < rest.size(); ++i) { if (rest[i] == '\\' && i + 1 < rest.size() && rest[i + 1] == 'n') { t += '\n'; ++i; } else t += rest[i]; } check_deck(t, "text", "replayed", run.replay_path); }
        return run.finish();
    }
    if (run.shard == 0) run.count("catalogue_instances", cats[0].size());
    for (int v = 0; v < 4; ++v) for (size_t i = 0; i < cats[v].size(); ++i) { if (!run.mine()) continue; std::string c = "C " + std::to_string(v) + " " + std::to_string(i); run.current(c); check_deck(cats[v][i].text(), cats[v][i].name + "[" + cats[v][i].cls + "]", cats[v][i].name, c); if (run.samples.size() < 2 && i % 97 == 5) run.sample_str(cats[v][i].text()); }
    for (size_t i = 0; i < sp.size(); ++i) { if (!run.mine()) continue; std::string c = "S " + std::to_string(i); run.current(c); check_deck(sp[i].text, sp[i].name, "special:" + sp[i].name, c); }
    // default patterns on the first record of EVERY catalogue instance (metadata driven): quick = each single token defaulted and
    // each trailing run defaulted; thorough = every subset of tokens defaulted for records of <= 16 tokens.  A record whose
    // tokens are ALL defaulted reports under one key per size class (the lone-slash defect is one defect, not one per keyword).
    {
        auto esc = [](const std::string& t) { std::string e; for (char c : t) { if (c == '\n') e += "\\n"; else e += c; } return e; };
        for (size_t i = 0; i < cats[0].size(); ++i) {
            const auto& in = cats[0][i];
            if (in.freetext || in.lines.size() < 2) continue;
            std::vector<std::string> tk = deckgen::tokens(in.lines[1]);
            if (tk.empty() || tk.back() != "/") continue;
            tk.pop_back();
            const int n = (int)tk.size();
            if (n == 0 || n > 24) continue;
            bool plain = true; for (auto& t : tk) if (t.find('*') != std::string::npos) plain = false;
            if (!plain) continue;
            std::vector<uint32_t> masks;
            if (run.thorough() && n <= 16) for (uint32_t m = 1; m < (1u << n); ++m) masks.push_back(m);
            else { for (int b = 0; b < n; ++b) masks.push_back(1u << b); for (int b = 1; b < n; ++b) masks.push_back(((1u << n) - 1) & ~((1u << b) - 1)); masks.push_back((1u << n) - 1); }
            const std::string sizecls = in.cls.substr(0, in.cls.find('+'));
            for (uint32_t m : masks) {
                if (!run.mine()) continue;
                std::string rec = " "; for (int b = 0; b < n; ++b) rec += ((m >> b) & 1 ? std::string("1*") : tk[b]) + " ";
                std::string t = in.prelude + in.lines[0] + "\n" + rec + "/\n";
                for (size_t l = 2; l < in.lines.size(); ++l) t += in.lines[l] + "\n";
                const bool all = m == (1u << n) - 1;
                check_deck(t, in.name + " first record with default mask " + std::to_string(m), all ? "defaults-all:" + sizecls : "defaults-cat:" + in.name, "X " + esc(t));
                run.count("catalogue_default_patterns");
            }
        }
    }
    // default patterns on representative records
    struct Rec { std::string kw, pre, post; std::vector<std::string> val; };
    std::vector<Rec> recs = {
        {"EQUIL", "EQUIL\n", "", {"2000", "200", "2100", "0", "2000", "0", "1", "0", "0"}},
        {"WELSPECS", "WELSPECS\n", "/\n", {"'P1'", "'G1'", "1", "1", "2000", "OIL", "0", "STD", "SHUT", "NO", "0", "SEG", "0"}},
        {"COMPDAT", "COMPDAT\n", "/\n", {"'P1'", "2", "2", "1", "1", "OPEN", "0", "7", "0.2", "7", "0", "7", "Z"}},
        {"WCONPROD", "WCONPROD\n", "/\n", {"'P1'", "OPEN", "ORAT", "100", "100", "100", "100", "100", "50"}},
        {"GCONPROD", "GCONPROD\n", "/\n", {"'G1'", "ORAT", "1000", "1000", "1000", "1000", "RATE", "YES", "1"}},
        {"WCONINJE", "WCONINJE\n", "/\n", {"'I1'", "WATER", "OPEN", "RATE", "200", "300", "500", "400"}},
    };
    for (auto& r : recs) {
        int n = r.val.size();
        for (int mask = 0; mask < (1 << n); ++mask) {
            if (!run.mine()) continue;
            std::string t = r.pre;
            for (int i = 0; i < n; ++i) t += " " + ((mask >> i) & 1 ? std::string("1*") : r.val[i]);
            t += " /\n" + r.post;
            check_deck(t, r.kw + " default pattern " + std::to_string(mask), "defaults:" + r.kw, "X " + [&] { std::string e; for (char c : t) { if (c == '\n') e += "\\n"; else e += c; } return e; }());
        }
    }
    // data arrays: every length, plain / with repeat runs / with default runs
    for (const char* kw : {"PORO", "ACTNUM", "TSTEP", "SWOF"}) {
        for (int len = 0; len <= 40; ++len) for (int mode = 0; mode < 3; ++mode) {
            if (!run.mine()) continue;
            std::string t = std::string(kw) + "\n";
            for (int i = 0; i < len; ++i) { if (mode == 1 && i % 5 == 2) t += " 3*" + std::to_string(i % 2 ? 0.125 : 1); else if (mode == 2 && i % 4 == 1 && std::string(kw) == "SWOF") t += " 1*"; else t += " " + (std::string(kw) == "ACTNUM" ? std::to_string(i % 2) : std::to_string(0.001 * (i + 1))); if (i % 7 == 6) t += "\n"; }
            t += " /\n";
            check_deck(t, std::string(kw) + " length " + std::to_string(len) + " mode " + std::to_string(mode), std::string("data-array:") + kw, "X " + [&] { std::string e; for (char c : t) { if (c == '\n') e += "\\n"; else e += c; } return e; }());
        }
    }
    // raw-string records (UDQ DEFINE, ACTIONX condition): every token count 1..16 past the two fixed tokens x a '/' (division
    // operator, or inside an operand) at every position or nowhere.  The last '/' of a physical LINE terminates a raw-string
    // record, so where the printer breaks such a record decides whether it parses back.
    {
        auto esc = [](const std::string& t) { std::string e; for (char c : t) { if (c == '\n') e += "\\n"; else e += c; } return e; };
        for (int kind = 0; kind < 2; ++kind) for (int n = 1; n <= 16; ++n) for (int sl = -1; sl < (kind == 0 ? n : 0); ++sl) {
            if (!run.mine()) continue;
            std::string rec;
            for (int i = 0; i < n; ++i) {
                std::string tok = (i % 2 == 0) ? (i % 4 == 0 ? "FOPR" : "FWPR") : (i % 4 == 1 ? "+" : "*");
                if (kind == 1) tok = (i % 4 == 0) ? "FOPR" : (i % 4 == 1) ? ">" : (i % 4 == 2) ? std::to_string(10 + i) : "AND";
                if (i == sl) tok = (i % 2 == 1) ? "/" : tok + "/2";
                rec += " " + tok;
            }
            std::string t = kind == 0 ? "UDQ\n DEFINE FU_X" + rec + " /\n ASSIGN FU_Y 1.5 /\n/\n" : "ACTIONX\n A 1 /\n" + rec + " /\n/\nENDACTIO\n";
            check_deck(t, std::string(kind == 0 ? "UDQ DEFINE" : "ACTIONX condition") + " with " + std::to_string(n) + " tokens, slash at " + std::to_string(sl), std::string("raw-record:") + (kind == 0 ? "UDQ" : "ACTIONX"), "X " + esc(t));
        }
    }
    // ordered pairs of keyword shapes in ONE deck: printer state must not leak from one keyword into the next
    {
        const std::vector<std::pair<std::string, std::string>> shapes = {
            {"EQUIL-trailing-defaults", "EQUIL\n 2000 200 /\n"}, {"WELSPECS-embedded-defaults", "WELSPECS\n 'P1' 'G1' 1 1 1* OIL 3* NO /\n/\n"},
            {"TITLE", "TITLE\n My little deck\n"}, {"PORO-trailing-defaults", "PORO\n 0.1 0.2 2* /\n"}, {"SWOF", "SWOF\n 0.2 0 1 0\n 1 1 0 0 /\n"},
            {"PVTO-2-regions", "PVTO\n 10 20 1.1 1.5 60 1.08 1.7 /\n/\n 12 22 1.1 1.5 62 1.08 1.7 /\n/\n"}, {"RPTRST", "RPTRST\n BASIC=2 /\n"},
            {"UDQ", "UDQ\n DEFINE WUX WOPR * 2 /\n/\n"}, {"TUNING", "TUNING\n 1 10 /\n /\n 12 1 50 /\n"}, {"GRUPTREE", "GRUPTREE\n A B /\n/\n"},
            {"START", "START\n 1 'JAN' 2020 /\n"}, {"COMPDAT-defaults", "COMPDAT\n 'P1' 2* 1 2 OPEN 2* 0.2 /\n/\n"}};
        auto esc = [](const std::string& t) { std::string e; for (char c : t) { if (c == '\n') e += "\\n"; else e += c; } return e; };
        // a shape that already fails on its own (after the TABDIMS prefix) is reported once under its own key
        // and left out of the pairs, so that one defect does not produce a key per partner
        std::vector<char> alone_ok(shapes.size(), 1);
        for (size_t a = 0; a < shapes.size(); ++a) {
            const long before = run.counters["violations_total"];
            std::string t = "TABDIMS\n 1 2 /\n" + shapes[a].second;
            check_deck(t, "shape " + shapes[a].first + " after TABDIMS", "shape:" + shapes[a].first, "X " + esc(t));
            if (run.counters["violations_total"] != before) alone_ok[a] = 0;
        }
        for (size_t a = 0; a < shapes.size(); ++a) for (size_t b = 0; b < shapes.size(); ++b) {
            if (!run.mine()) continue;
            if (!alone_ok[a] || !alone_ok[b]) { run.count("pairs_skipped_member_fails_alone"); continue; }
            std::string t = "TABDIMS\n 1 2 /\n" + shapes[a].second + shapes[b].second;
            check_deck(t, "pair " + shapes[a].first + " + " + shapes[b].first, "pair:" + shapes[a].first + "+" + shapes[b].first, "X " + esc(t));
        }
    }
    // shipped decks
    {
        std::vector<std::string> decks;
        for (auto& e : fs::recursive_directory_iterator(std::string(std::getenv("VERIF_REPO") ? std::getenv("VERIF_REPO") : "/repo") + "/tests")) { auto p = e.path(); if (p.extension() == ".DATA" && fs::file_size(p) < (run.thorough() ? 600000u : 80000u)) decks.push_back(p.string()); }
        std::sort(decks.begin(), decks.end());
        for (auto& dk : decks) {
            if (!run.mine()) continue;
            if (run.timed_out()) break;
            run.current("D " + dk);
            std::unique_ptr<Deck> d;
            try { ErrorGuard eg; d = std::make_unique<Deck>(P->parseFile(dk, PC, eg)); eg.clear(); } catch (const std::exception&) { run.count("shipped_decks_not_standalone"); continue; }
            run.count("shipped_decks_used");
            // keyword by keyword so one failing keyword does not mask the others
            std::set<std::string> seen;
            for (const auto& kw : *d) {
                std::ostringstream os; try { DeckOutput out(os, 10); kw.write(out); } catch (const std::exception&) { continue; }
                if (!seen.insert(kw.name() + std::to_string(vf::fnv(os.str()))).second) continue;
                std::string t = os.str();
                if (kw.name() == "INCLUDE" || kw.name() == "GDFILE" || kw.name() == "IMPORT" || kw.name() == "RESTART") continue;
                check_deck(t, "keyword " + kw.name() + " of " + fs::path(dk).filename().string(), "shipped:" + kw.name(), "X " + [&] { std::string e; for (char c : t.substr(0, 3000)) { if (c == '\n') e += "\\n"; else e += c; } return e; }());
            }
        }
    }
    return run.finish();
}
