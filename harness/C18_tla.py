#!/usr/bin/env python3
"""C18 model tier: TLC on models/C18_trigger.tla, then EVERY edge of the dumped
state graph is replayed on the real Actions::pending / ActionX::ready /
ActionX::eval / State::add_run by `C18_actionx --edges`.

Called by bin/vcheck as  C18_tla.py --tier T --seed S --out F --shard 0/1
[--deadline s] [--replay "edge ..."]; writes the same result JSON as
vf::Run::finish() (the C++ harness writes it, this script adds the TLC
counters / TLC failures) and F.hashes.
"""
import json, os, re, shutil, subprocess, sys, time
from collections import deque

ROOT = os.path.dirname(os.path.dirname(os.path.abspath(__file__)))
BIN = os.path.join(ROOT, "build", "h", "C18", "C18_actionx")
MODEL = os.path.join(ROOT, "models", "C18_trigger.tla")
CFG = os.path.join(ROOT, "models", "C18_trigger.cfg")
META = os.path.join(ROOT, "build", "tlc", "C18")
VARS = ["mr", "mw", "so", "rc", "dl", "el", "gap", "id", "od"]          # order of the state string understood by C18_actionx


def empty_result(tier, seed):
    return {"property_id": "C18", "tier": tier, "seed": seed, "shard": 0, "nshards": 1, "evaluations": 0, "states": 0, "transitions": 0,
            "traces_validated_against_impl": 0, "exhaustive": True, "cap_note": "", "rule": "", "wall_s": 0.0, "counters": {}, "notes": {},
            "assumptions": [], "samples": [], "violations": []}


def clean(work):
    shutil.rmtree(work, ignore_errors=True)
    for d in (os.path.join(ROOT, "models", "states"), os.path.join(META, "states")):
        shutil.rmtree(d, ignore_errors=True)
    for f in os.listdir(os.path.join(ROOT, "models")):
        if "_TTrace_" in f:
            os.remove(os.path.join(ROOT, "models", f))


def run_tlc(work):
    os.makedirs(work, exist_ok=True)
    dump = os.path.join(work, "graph")
    cmd = ["tlc", "-workers", "8", "-noGenerateSpecTE", "-metadir", os.path.join(work, "meta"), "-dump", "dot,actionlabels", dump, "-config", CFG, MODEL]
    p = subprocess.run(cmd, cwd=work, stdout=subprocess.PIPE, stderr=subprocess.STDOUT, text=True, timeout=600)
    return p.returncode, p.stdout, dump + ".dot"


def parse_dot(path):
    nodes, init, edges = {}, [], []
    node_re = re.compile(r'^(-?\d+) \[label="(.*?)"(.*)\]\s*;?\s*$')
    edge_re = re.compile(r'^(-?\d+) -> (-?\d+) \[label="([^"]*)"')
    for line in open(path):
        line = line.strip()
        m = edge_re.match(line)
        if m:
            edges.append((m.group(1), m.group(3), m.group(2)))
            continue
        m = node_re.match(line)
        if m:
            vals = dict(re.findall(r"(\w+) = (-?\d+)", m.group(2)))
            nodes[m.group(1)] = " ".join(vals[v] for v in VARS)
            if "filled" in m.group(3):
                init.append(m.group(1))
    return nodes, init, edges


def event(label):
    m = re.match(r"Step\((\d+),\s*(TRUE|FALSE)\)", label)
    if m:
        return m.group(1) + ("T" if m.group(2) == "TRUE" else "F")
    m = re.match(r"Redefine\((\d+)\)", label)
    if m:
        return "R" + m.group(1)
    raise ValueError("unexpected action label " + label)


def main():
    a = sys.argv[1:]
    opt = {"--tier": "quick", "--seed": "0", "--out": "", "--shard": "0/1", "--deadline": "0", "--replay": ""}
    i = 0
    while i < len(a):
        if a[i] in opt and i + 1 < len(a):
            opt[a[i]] = a[i + 1]; i += 2
        else:
            i += 1
    tier, seed, out = opt["--tier"], int(opt["--seed"]), opt["--out"]
    t0 = time.time()
    common = ["--tier", tier, "--seed", str(seed), "--shard", "0/1"] + (["--out", out] if out else [])

    if opt["--replay"]:                                    # a single edge: no TLC needed
        return subprocess.run([BIN, "--replay", opt["--replay"]] + common).returncode

    work = os.path.join(META, "run.%d" % os.getpid())
    extra_viol, counters = [], {}
    res = None
    try:
        rc, log, dot = run_tlc(work)
        ok = "Model checking completed. No error has been found." in log
        m = re.search(r"(\d+) states generated, (\d+) distinct states found, (\d+) states left on queue", log)
        if m:
            counters.update({"tlc_states_generated": int(m.group(1)), "tlc_distinct_states": int(m.group(2)), "tlc_states_left_on_queue": int(m.group(3))})
        if not ok:
            what = "TLC did not finish cleanly on models/C18_trigger.tla (rc %d): %s" % (rc, log[-1500:])
            key = "C18:tla:model-invariant-violated" if "is violated" in log else "C18:tla:tlc-error"
            extra_viol.append({"key": key, "what": what, "replay": {}})
        if os.path.exists(dot):
            nodes, init, edges = parse_dot(dot)
            # BFS tree: path of events from an initial state to every state
            adj = {}
            for s, lab, d in edges:
                adj.setdefault(s, []).append((event(lab), d))
            path = {n: nodes[n].split()[:3] for n in init}          # first definition's mr mw so, then the events
            dq = deque(init)
            while dq:
                n = dq.popleft()
                for ev, d in sorted(adj.get(n, [])):
                    if d not in path:
                        path[d] = path[n] + [ev]
                        dq.append(d)
            efile = os.path.join(work, "edges.txt")
            nlines = 0
            with open(efile, "w") as f:
                for s, lab, d in edges:
                    if s not in path:
                        continue          # cannot happen: TLC only dumps reachable states
                    f.write("%s | %s | %s | %s\n" % (nodes[s], event(lab), nodes[d], " ".join(path[s])))
                    nlines += 1
            counters.update({"tlc_graph_nodes": len(nodes), "tlc_graph_edges": len(edges), "tlc_initial_states": len(init), "tlc_edges_written": nlines,
                             "tlc_redefine_edges": sum(1 for e in edges if e[1].startswith("Redefine")),
                             "tlc_max_path_length": max((len(p) - 3 for p in path.values()), default=0)})
            if m and (len(nodes) != int(m.group(2))):
                extra_viol.append({"key": "C18:tla:dump-incomplete", "what": "dot dump has %d nodes, TLC reports %s distinct states" % (len(nodes), m.group(2)), "replay": {}})
            tmp_out = out or os.path.join(work, "edges.json")
            cmd = [BIN, "--edges", efile, "--tier", tier, "--seed", str(seed), "--shard", "0/1", "--out", tmp_out]
            if float(opt["--deadline"]) > 0:
                cmd += ["--deadline", opt["--deadline"]]
            p = subprocess.run(cmd)
            if p.returncode != 0:
                if p.returncode < 0:                       # the code under test crashed: die the same way so that vcheck reports <ID>:crash:signalN with the published case
                    clean(work)
                    os.kill(os.getpid(), -p.returncode)
                return p.returncode
            res = json.load(open(tmp_out))
            if res["traces_validated_against_impl"] != nlines:
                extra_viol.append({"key": "C18:tla:not-all-edges-replayed", "what": "%d of %d edges replayed" % (res["traces_validated_against_impl"], nlines), "replay": {}})
    except Exception as e:                                  # infrastructure problem: visible, never silent
        extra_viol.append({"key": "C18:tla:script-error", "what": "%s: %s" % (type(e).__name__, e), "replay": {}})
    finally:
        clean(work)
    if res is None:
        res = empty_result(tier, seed)
        res["exhaustive"] = False
        res["cap_note"] = "TLA tier did not run; "
        res["rule"] = "model tier: TLC on models/C18_trigger.tla + replay of every edge (NOT completed in this run)"
    res["counters"].update(counters)
    res["violations"] += extra_viol
    res["notes"]["tla_model"] = "models/C18_trigger.tla: MaxRun 3, MaxWait 3, StartOff 2, MaxDt 2, MaxRedef 2 (3 redefinition variants); invariants TypeOK CountInv WaitInv StartInv, step property RunStep"
    res["wall_s"] = time.time() - t0
    if out:
        json.dump(res, open(out, "w"), indent=1)
        if not os.path.exists(out + ".hashes"):
            open(out + ".hashes", "wb").close()
    else:
        print(json.dumps(res, indent=1))
    return 0


if __name__ == "__main__":
    sys.exit(main())
