// C02 — unit conversion is invertible, composable, physical and deck-unit independent.
//
// Everything here is finite and is enumerated completely:
//   a. measure tables      : 5 systems x all UnitSystem::measure x value alphabet
//   b. physical definitions: every measure / named dimension vs. data/C02_units.ref
//   c. composition         : every catalogue dimension string + all A*B, A/B of named dimensions
//   d. catalogue           : every keyword x item with a dimension x 4 systems x {values, defaults}
//                            + curated annotation table data/C02_dimensions.ref
//   e. model               : one 3x3x3 model held in SI, printed in 4 systems
//   o. output              : data::Solution / RestartValue convertFromSI/convertToSI per measure
// The reference factors come from data/C02_units.ref (hand-written exact definitions).
#include "vf.hpp"
#include "C02_ref.hpp"
#include "sched_includes.hpp"
#include <opm/input/eclipse/Deck/UDAValue.hpp>
#include <opm/input/eclipse/EclipseState/Tables/FlatTable.hpp>
#include <opm/input/eclipse/EclipseState/Tables/PvdgTable.hpp>
#include <opm/input/eclipse/EclipseState/Tables/PvdoTable.hpp>
#include <opm/input/eclipse/EclipseState/Tables/SgofTable.hpp>
#include <opm/input/eclipse/EclipseState/Tables/SwofTable.hpp>
#include <opm/input/eclipse/EclipseState/Tables/TableContainer.hpp>
#include <opm/input/eclipse/Parser/InputErrorAction.hpp>
#include <opm/input/eclipse/Parser/ParserEnums.hpp>
#include <opm/input/eclipse/Parser/ParserItem.hpp>
#include <opm/input/eclipse/Parser/ParserKeyword.hpp>
#include <opm/input/eclipse/Parser/ParserRecord.hpp>
#include <opm/input/eclipse/Schedule/MSW/Segment.hpp>
#include <opm/input/eclipse/Schedule/Well/Connection.hpp>
#include <opm/output/data/Cells.hpp>
#include <opm/output/data/Solution.hpp>
#include <opm/output/eclipse/RestartValue.hpp>
#include <cmath>
#include <limits>
#include <memory>
#include <numeric>

using Opm::UnitSystem;
using M = Opm::UnitSystem::measure;

static vf::Run* R;
static const char* SYSN[5] = {"METRIC", "FIELD", "LAB", "PVT-M", "INPUT"};
static const UnitSystem::UnitType SYST[5] = {UnitSystem::UnitType::UNIT_TYPE_METRIC, UnitSystem::UnitType::UNIT_TYPE_FIELD,
    UnitSystem::UnitType::UNIT_TYPE_LAB, UnitSystem::UnitType::UNIT_TYPE_PVT_M, UnitSystem::UnitType::UNIT_TYPE_INPUT};
static const double EPS = std::numeric_limits<double>::epsilon();

static const std::vector<std::pair<M, const char*>> MEAS = {
    {M::identity, "identity"}, {M::length, "length"}, {M::time, "time"}, {M::runtime, "runtime"}, {M::density, "density"}, {M::pressure, "pressure"},
    {M::temperature_absolute, "temperature_absolute"}, {M::temperature, "temperature"}, {M::viscosity, "viscosity"}, {M::permeability, "permeability"},
    {M::area, "area"}, {M::liquid_surface_volume, "liquid_surface_volume"}, {M::gas_surface_volume, "gas_surface_volume"}, {M::volume, "volume"},
    {M::geometric_volume, "geometric_volume"}, {M::liquid_surface_rate, "liquid_surface_rate"}, {M::gas_surface_rate, "gas_surface_rate"}, {M::rate, "rate"},
    {M::geometric_volume_rate, "geometric_volume_rate"}, {M::pipeflow_velocity, "pipeflow_velocity"}, {M::transmissibility, "transmissibility"},
    {M::effective_Kh, "effective_Kh"}, {M::mass, "mass"}, {M::mass_rate, "mass_rate"}, {M::gas_oil_ratio, "gas_oil_ratio"}, {M::oil_gas_ratio, "oil_gas_ratio"},
    {M::water_cut, "water_cut"}, {M::gas_formation_volume_factor, "gas_formation_volume_factor"}, {M::oil_formation_volume_factor, "oil_formation_volume_factor"},
    {M::water_formation_volume_factor, "water_formation_volume_factor"}, {M::gas_inverse_formation_volume_factor, "gas_inverse_formation_volume_factor"},
    {M::oil_inverse_formation_volume_factor, "oil_inverse_formation_volume_factor"}, {M::water_inverse_formation_volume_factor, "water_inverse_formation_volume_factor"},
    {M::liquid_productivity_index, "liquid_productivity_index"}, {M::gas_productivity_index, "gas_productivity_index"}, {M::energy, "energy"},
    {M::energy_rate, "energy_rate"}, {M::icd_strength, "icd_strength"}, {M::aicd_strength, "aicd_strength"}, {M::polymer_density, "polymer_density"},
    {M::salinity, "salinity"}, {M::gas_oil_ratio_rate, "gas_oil_ratio_rate"}, {M::moles, "moles"}, {M::ppm, "ppm"}, {M::ymodule, "ymodule"}, {M::dfactor, "dfactor"}};
static const int NMEAS = static_cast<int>(M::_count);
static std::string mname(int mi) { for (auto& p : MEAS) if ((int)p.first == mi) return p.second; return "measure#" + std::to_string(mi); }
// reference of a measure (sys 4 = INPUT = SI)
static Aff ref_measure(int sys, int mi) {
    const Entry* e = REF.measure(mname(mi));
    if (!e) { Aff a; a.ok = false; a.err = "measure '" + mname(mi) + "' is not in C02_units.ref"; return a; }
    if (sys == 4) { Aff a; a.unverified = !e->unverified.empty(); return a; }
    Aff a = REF.eval_units(e->expr[sys]); a.unverified = !e->unverified.empty(); return a;
}

static std::string rp(const std::string& c) { return "{\"case\": " + vf::jstr(c) + "}"; }

// named dimensions of a library unit system: captured through its own serializeOp
struct DimGrab {
    std::map<std::string, Opm::Dimension> dims;
    bool isSerializing() const { return true; }
    template <class T> void operator()(T&) {}
    void operator()(std::map<std::string, Opm::Dimension>& m) { dims = m; }
};
static std::map<std::string, Opm::Dimension> lib_named(int sys) { UnitSystem us(SYST[sys]); DimGrab g; us.serializeOp(g); return g.dims; }

// ================================================================ part a ====
static const double VALS[] = {0.0, 1.0, -3.5, 1e-7, 2.5e9};
static const double VALS_T[] = {-1.0, 273.15, 459.67, 1e-30, 1e30, -2.5e-12, 14.695948775513449, 0.1, 1e15, 5.0 / 9.0};   // thorough tier, scalar round trip only

// physical check of one measure; dry: only count mismatches
static int phys_measure(int sys, int mi, bool dry, const std::string& c) {
    UnitSystem us(SYST[sys]);
    Aff ref = ref_measure(sys, mi);
    Opm::Dimension d = us.getDimension(static_cast<M>(mi));
    if (!ref.ok) { if (!dry) { R->count("b_measure_not_in_ref"); R->notes["b_not_in_ref:" + mname(mi)] = ref.err; } return 0; }
    if (ref.unverified) { if (!dry) { R->count("b_unverified_invertibility_only"); R->notes["b_unverified:measure:" + mname(mi)] = REF.measure(mname(mi))->unverified; } return 0; }
    double f = us.to_si(static_cast<M>(mi), 1.0) - us.to_si(static_cast<M>(mi), 0.0), o = us.to_si(static_cast<M>(mi), 0.0);
    bool ok = releq(f, ref.s, 1e-12) && releq(o, ref.o, 1e-12) && releq(d.getSIScaling(), ref.s, 1e-12);
    // the from-table must be the physical inverse too
    double g = us.from_si(static_cast<M>(mi), ref.o + ref.s);   // should be 1
    ok = ok && std::fabs(g - 1.0) <= 1e-12 * (1 + std::fabs(ref.o / ref.s));
    if (!ok && !dry)
        R->violation(std::string("C02:physical:") + SYSN[sys] + ":" + mname(mi),
            std::string(SYSN[sys]) + " " + mname(mi) + ": library to_si factor " + vf::fmt17(f) + " offset " + vf::fmt17(o) + ", from_si(1 unit) = " + vf::fmt17(g) +
            "; physical definition (" + (sys < 4 ? REF.measure(mname(mi))->expr[sys] : std::string("SI")) + ") = " + vf::fmt17(ref.s) + " offset " + vf::fmt17(ref.o) +
            "  [" + REF.alt_name + ": " + REF.alt_label + "]", rp(c));
    if (!dry) R->count("b_measure_checks");
    return ok ? 0 : 1;
}

static void case_a(int sys, int mi, const std::string& c) {
    UnitSystem us(SYST[sys]);
    const M m = static_cast<M>(mi);
    const std::string key = std::string("C02:roundtrip:") + SYSN[sys] + ":" + mname(mi);
    Opm::Dimension d = us.getDimension(m);
    const double f = d.getSIScaling(), o = d.getSIOffset();
    std::vector<double> v1(std::begin(VALS), std::end(VALS)), v2 = v1;
    us.to_si(m, v1); us.from_si(m, v2);
    std::string obs = std::string(SYSN[sys]) + ":" + mname(mi);
    for (size_t k = 0; k < 5; ++k) {
        const double x = VALS[k];
        R->evaluations++;
        const double tol = 8 * EPS * (std::fabs(x) + std::fabs(o) + std::fabs(o / f));
        double y = us.to_si(m, x), xb = us.from_si(m, y);
        double z = us.from_si(m, x), xc = us.to_si(m, z);
        if (!(std::fabs(xb - x) <= tol)) R->violation(key, std::string(SYSN[sys]) + " " + mname(mi) + ": from_si(to_si(" + vf::fmt17(x) + ")) = " + vf::fmt17(xb), rp(c));
        if (!(std::fabs(xc - x) <= tol)) R->violation(key, std::string(SYSN[sys]) + " " + mname(mi) + ": to_si(from_si(" + vf::fmt17(x) + ")) = " + vf::fmt17(xc), rp(c));
        if (!(std::fabs(v1[k] - y) <= 2 * EPS * (std::fabs(y) + std::fabs(o))) || !(std::fabs(v2[k] - z) <= 2 * EPS * (std::fabs(z) + std::fabs(o / f))))
            R->violation(key + ":vector", std::string(SYSN[sys]) + " " + mname(mi) + ": vector overload differs from scalar at x=" + vf::fmt17(x) + ": to_si " + vf::fmt17(v1[k]) + " vs " + vf::fmt17(y) + ", from_si " + vf::fmt17(v2[k]) + " vs " + vf::fmt17(z), rp(c));
        if (!(std::fabs(d.convertRawToSi(x) - y) <= 2 * EPS * (std::fabs(y) + std::fabs(o))) || !(std::fabs(d.convertSiToRaw(x) - z) <= 8 * EPS * (std::fabs(z) + std::fabs(o / f))))
            R->violation(key + ":getDimension", std::string(SYSN[sys]) + " " + mname(mi) + ": getDimension(m) (factor " + vf::fmt17(f) + ", offset " + vf::fmt17(o) + ") disagrees with to_si/from_si tables at x=" + vf::fmt17(x), rp(c));
        obs += ":" + vf::fmt17(y) + ":" + vf::fmt17(z);
    }
    if (R->thorough()) for (double x : VALS_T) {
        R->evaluations++;
        const double tol = 8 * EPS * (std::fabs(x) + std::fabs(o) + std::fabs(o / f));
        double xb = us.from_si(m, us.to_si(m, x)), xc = us.to_si(m, us.from_si(m, x));
        if (!(std::fabs(xb - x) <= tol) || !(std::fabs(xc - x) <= tol)) R->violation(key, std::string(SYSN[sys]) + " " + mname(mi) + ": round trip of " + vf::fmt17(x) + " gives " + vf::fmt17(xb) + " / " + vf::fmt17(xc), rp(c));
        obs += ":" + vf::fmt17(xb);
    }
    R->observe(obs);
    R->count("a_cases");
    phys_measure(sys, mi, false, c);
    if (R->samples.size() < 2 && mi == (int)M::transmissibility) R->sample_str(c + " -> to_si(1)=" + vf::fmt17(us.to_si(m, 1.0)) + " ref=" + vf::fmt17(ref_measure(sys, mi).s));
}

// ================================================================ part b ====
static int phys_named(int sys, bool dry, const std::string& c) {
    int bad = 0;
    auto lib = lib_named(sys);
    for (auto& [n, d] : lib) {
        Aff ref = REF.named(sys, n);
        double f = std::numeric_limits<double>::quiet_NaN(), o = d.getSIOffset();
        try { f = d.getSIScaling(); } catch (const std::logic_error&) {}
        if (!dry) { R->evaluations++; R->observe(std::string("named:") + SYSN[sys] + ":" + n + ":" + vf::fmt17(f) + ":" + vf::fmt17(o)); }
        if (!ref.ok) { if (!dry) { R->count("b_named_not_in_ref"); R->notes["b_not_in_ref:" + n] = ref.err; } continue; }
        const std::string key = std::string("C02:physical:") + SYSN[sys] + ":" + n;
        if (ref.nan || std::isnan(f)) {
            // INPUT declares ContextDependent as 1.0; only the four deck systems are required to carry NaN
            bool ok = sys == 4 || (ref.nan == std::isnan(f));
            if (!ok) { ++bad; if (!dry) R->violation(key, std::string(SYSN[sys]) + " named dimension " + n + ": context-dependent marker mismatch (library factor " + vf::fmt17(f) + ")", rp(c)); }
            continue;
        }
        // invertibility (also for unverified entries)
        for (double x : VALS) {
            double xb = d.convertSiToRaw(d.convertRawToSi(x));
            if (!(std::fabs(xb - x) <= 8 * EPS * (std::fabs(x) + std::fabs(o) + std::fabs(o / f)))) { ++bad; if (!dry) R->violation(std::string("C02:roundtrip:") + SYSN[sys] + ":" + n, std::string(SYSN[sys]) + " named dimension " + n + ": convertSiToRaw(convertRawToSi(" + vf::fmt17(x) + ")) = " + vf::fmt17(xb), rp(c)); break; }
        }
        if (ref.unverified) { if (!dry) { R->count("b_unverified_invertibility_only"); R->notes["b_unverified:quantity:" + n] = REF.quantity(n)->unverified; } continue; }
        if (!dry) R->count("b_named_checks");
        if (!releq(f, ref.s, 1e-12) || !releq(o, ref.o, 1e-12)) {
            ++bad;
            if (!dry) R->violation(key, std::string(SYSN[sys]) + " named dimension " + n + ": library factor " + vf::fmt17(f) + " offset " + vf::fmt17(o) + "; physical definition (" +
                (sys < 4 ? REF.quantity(n)->expr[sys] : std::string("SI")) + ") = " + vf::fmt17(ref.s) + " offset " + vf::fmt17(ref.o) + "  [" + REF.alt_name + ": " + REF.alt_label + "]", rp(c));
        }
    }
    if (!dry) for (auto& q : REF.quantities) if (!lib.count(q.name)) { R->count("b_ref_quantity_absent_in_library"); R->notes[std::string("b_absent:") + SYSN[sys] + ":" + q.name] = "named dimension known to the reference but not declared by this unit system"; }
    return bad;
}

// pick the legitimate definition of the unit with alternatives (Btu) that the library uses
static void choose_alt() {
    int best = 0, bestbad = -1;
    for (int k = 0; k < REF.nchoices(); ++k) {
        REF.choose(k);
        int bad = 0;
        for (int s = 0; s < 4; ++s) { bad += phys_named(s, true, ""); for (int mi = 0; mi < NMEAS; ++mi) bad += phys_measure(s, mi, true, ""); }
        if (bestbad < 0 || bad < bestbad) { best = k; bestbad = bad; }
    }
    REF.choose(best);
    if (!REF.alt_name.empty()) {
        REF.choose(0); double prim = REF.unit_value(REF.alt_name); REF.choose(best);
        R->notes["definition_in_use:" + REF.alt_name] = REF.alt_label + " = " + vf::fmt17(REF.unit_value(REF.alt_name)) + " SI (primary definition in the reference: " + vf::fmt17(prim) +
            ", relative difference " + vf::fmt17(REF.unit_value(REF.alt_name) / prim - 1) + "); a different-but-legitimate definition is recorded, not a violation";
    }
}

// ================================================================ part c ====
static std::vector<std::string> g_catalogue_dims;     // filled from parser metadata (sorted, unique)

struct LibParse { bool threw = false; std::string exc; double s = 0, o = 0; bool nanfactor = false; };
static LibParse lib_parse(const UnitSystem& us, const std::string& dim) {
    LibParse r;
    try { Opm::Dimension d = us.parse(dim); r.o = d.getSIOffset(); try { r.s = d.getSIScaling(); } catch (const std::logic_error&) { r.nanfactor = true; r.s = std::numeric_limits<double>::quiet_NaN(); } }
    catch (const std::invalid_argument& e) { r.threw = true; r.exc = std::string("invalid_argument: ") + e.what(); }
    catch (const std::logic_error& e) { r.threw = true; r.exc = std::string("logic_error: ") + e.what(); }
    catch (const std::exception& e) { r.threw = true; r.exc = std::string("exception: ") + e.what(); }
    return r;
}

// one dimension string in one system; key_override for the generated pair strings
static void compose_one(int sys, const std::string& dim, const std::string& key_override, const std::string& c) {
    UnitSystem us(SYST[sys]);
    const std::string key = key_override.empty() ? std::string("C02:compose:") + SYSN[sys] + ":" + dim : key_override;
    R->evaluations++;
    Aff ref = REF.dim(sys, dim, true);
    LibParse lp = lib_parse(us, dim);
    R->observe(std::string("c:") + SYSN[sys] + ":" + dim + ":" + (lp.threw ? "throw" : vf::fmt17(lp.s) + ":" + vf::fmt17(lp.o)));
    if (!ref.ok) {      // a factor the reference does not know (or INPUT lacking it): the library may reject it; nothing to compare
        R->count("c_dim_with_factor_not_in_ref");
        return;
    }
    // own-factor product (pure composition, independent of the physical table)
    bool own_ok = true; double own = 1;
    {
        auto lib = lib_named(sys);
        auto p = split(dim, '/');
        for (size_t k = 0; k < p.size() && k < 2; ++k) for (auto& t : split(p[k], '*')) {
            auto it = lib.find(trim(t)); if (it == lib.end()) { own_ok = false; continue; }
            double f; try { f = it->second.getSIScaling(); } catch (...) { own_ok = false; continue; }
            own = k == 1 ? own / f : own * f;
        }
    }
    if (!own_ok && !ref.nan) {          // e.g. Ymodule in INPUT: library does not declare the factor
        if (!lp.threw) R->violation(key, std::string(SYSN[sys]) + ": parse(\"" + dim + "\") returned " + vf::fmt17(lp.s) + " although a factor is not declared in this system", rp(c));
        R->count("c_factor_absent_in_system");
        return;
    }
    const bool lib_offsets = sys != 4;     // INPUT has no offsets, composites with Temperature are plain products there
    if (ref.offset_in_composite && lib_offsets) {
        R->count("c_offset_composites");
        if (!lp.threw) R->violation(key, std::string(SYSN[sys]) + ": parse(\"" + dim + "\") returned factor " + vf::fmt17(lp.s) + " although it contains a dimension with a conversion offset (documented: rejected with invalid_argument)", rp(c));
        return;
    }
    if (ref.nan && sys != 4) {
        R->count("c_context_dependent");
        if (!lp.threw && !std::isnan(lp.s)) R->violation(key, std::string(SYSN[sys]) + ": parse(\"" + dim + "\") returned the finite factor " + vf::fmt17(lp.s) + " for a context dependent dimension", rp(c));
        return;
    }
    if (lp.threw) { R->violation(key, std::string(SYSN[sys]) + ": parse(\"" + dim + "\") threw " + lp.exc, rp(c)); return; }
    const double want_s = ref.offset_in_composite ? own : ref.s;       // (INPUT only)
    bool ok = releq(lp.s, own, 16 * EPS) && releq(lp.o, ref.o, 1e-12);
    if (!ref.unverified && !ref.offset_in_composite) ok = ok && releq(lp.s, want_s, 1e-12);
    if (!ok) R->violation(key, std::string(SYSN[sys]) + ": parse(\"" + dim + "\") = factor " + vf::fmt17(lp.s) + " offset " + vf::fmt17(lp.o) + "; product/quotient of the library's own named factors = " + vf::fmt17(own) +
        "; reference = " + vf::fmt17(ref.s) + " offset " + vf::fmt17(ref.o), rp(c));
    // string overloads and the dimension cache
    for (double x : {1.0, -3.5, 2.5e9}) {
        double y = us.to_si(dim, x), xb = us.from_si(dim, y);
        double tol = 8 * EPS * (std::fabs(x) + std::fabs(lp.o) + std::fabs(lp.o / lp.s));
        if (!(std::fabs(xb - x) <= tol) || !(std::fabs(y - (lp.s * x + lp.o)) <= 4 * EPS * (std::fabs(y) + std::fabs(lp.o))))
            { R->violation(key + ":string-overload", std::string(SYSN[sys]) + ": to_si/from_si(\"" + dim + "\", " + vf::fmt17(x) + ") inconsistent: to_si " + vf::fmt17(y) + ", back " + vf::fmt17(xb), rp(c)); break; }
    }
    {
        UnitSystem us2(SYST[sys]);
        Opm::Dimension d1 = us2.getNewDimension(dim), d2 = us2.getNewDimension(dim);
        if (!(d1 == d2) || !(d1.getSIScaling() == lp.s) || !(d1.getSIOffset() == lp.o))
            R->violation(key + ":cache", std::string(SYSN[sys]) + ": getNewDimension(\"" + dim + "\") differs from parse() or is not stable", rp(c));
    }
    R->count("c_compared");
}

static void case_c(int sys, const std::string& dim, const std::string& c) { compose_one(sys, dim, "", c); R->count("c_catalogue_strings"); }
static void case_c2(int sys, const std::string& A, const std::string& c) {
    for (auto& q : REF.quantities) {
        compose_one(sys, A + "*" + q.name, std::string("C02:compose:") + SYSN[sys] + ":pairs:mul", c);
        compose_one(sys, A + "/" + q.name, std::string("C02:compose:") + SYSN[sys] + ":pairs:div", c);
        R->count("c_pair_strings", 2);
    }
}

// ================================================================ part o ====
static void case_o(int sys, int mi, const std::string& c) {
    UnitSystem us(SYST[sys]);
    const M m = static_cast<M>(mi);
    Aff ref = ref_measure(sys, mi);
    const bool use_ref = ref.ok && !ref.unverified;
    Opm::Dimension d = us.getDimension(m);
    Aff want = use_ref ? ref : Aff{d.getSIScaling(), d.getSIOffset()};
    if (!use_ref) R->count("o_unverified_measure_checked_against_library_factor");
    const std::vector<double> si = {0.0, 1.0, -3.5, 1e-7, 2.5e9, 300.25};
    auto tol = [&](double raw) { return 1e-12 * (std::fabs(raw) + std::fabs(want.o / want.s)); };
    {
        Opm::data::Solution sol;       // si == true
        sol.insert("X", m, si, Opm::data::TargetType::RESTART_SOLUTION);
        sol.insert("Y", M::identity, si, Opm::data::TargetType::RESTART_SOLUTION);
        sol.convertFromSI(us);
        const auto& x = sol.data<double>("X");
        for (size_t k = 0; k < si.size(); ++k) {
            R->evaluations++;
            double w = want.from_si(si[k]);
            if (!(std::fabs(x[k] - w) <= tol(w)))
                R->violation(std::string("C02:output:solution:") + SYSN[sys], std::string(SYSN[sys]) + " data::Solution::convertFromSI, measure " + mname(mi) + ": SI " + vf::fmt17(si[k]) + " -> " + vf::fmt17(x[k]) + ", reference from_si = " + vf::fmt17(w), rp(c));
        }
        if (sol.data<double>("Y") != si) R->violation(std::string("C02:output:solution-identity:") + SYSN[sys], "identity vector changed by convertFromSI", rp(c));
        auto once = x;
        sol.convertFromSI(us);       // already in output units: must be a no-op
        if (sol.data<double>("X") != once) R->violation(std::string("C02:output:solution-twice:") + SYSN[sys], std::string(SYSN[sys]) + " data::Solution::convertFromSI applied twice converts twice (measure " + mname(mi) + ")", rp(c));
        sol.convertToSI(us);
        const auto& b = sol.data<double>("X");
        for (size_t k = 0; k < si.size(); ++k)
            if (!(std::fabs(b[k] - si[k]) <= 1e-12 * (std::fabs(si[k]) + std::fabs(want.o))))
                R->violation(std::string("C02:output:solution-back:") + SYSN[sys], std::string(SYSN[sys]) + " data::Solution convertFromSI then convertToSI, measure " + mname(mi) + ": " + vf::fmt17(si[k]) + " -> " + vf::fmt17(b[k]), rp(c));
        R->observe(std::string("o:") + SYSN[sys] + ":" + mname(mi) + ":" + vf::fmt17(once[1]) + ":" + vf::fmt17(once[5]));
    }
    {
        Opm::data::Solution sol; sol.insert("X", m, si, Opm::data::TargetType::RESTART_SOLUTION);
        Opm::RestartValue rv(sol, {}, {}, {});
        rv.addExtra("EXTRA", m, si);
        rv.addExtra("PLAIN", si);
        rv.convertFromSI(us);
        const auto& e = rv.getExtra("EXTRA"); const auto& x = rv.solution.data<double>("X");
        for (size_t k = 0; k < si.size(); ++k) {
            R->evaluations++;
            double w = want.from_si(si[k]);
            if (!(std::fabs(e[k] - w) <= tol(w)) || !(std::fabs(x[k] - w) <= tol(w)))
                R->violation(std::string("C02:output:restart:") + SYSN[sys], std::string(SYSN[sys]) + " RestartValue::convertFromSI, measure " + mname(mi) + ": SI " + vf::fmt17(si[k]) + " -> extra " + vf::fmt17(e[k]) + " / solution " + vf::fmt17(x[k]) + ", reference from_si = " + vf::fmt17(w), rp(c));
        }
        if (rv.getExtra("PLAIN") != si) R->violation(std::string("C02:output:restart-identity:") + SYSN[sys], "dimensionless extra vector changed by convertFromSI", rp(c));
        rv.convertToSI(us);
        const auto& e2 = rv.getExtra("EXTRA");
        for (size_t k = 0; k < si.size(); ++k)
            if (!(std::fabs(e2[k] - si[k]) <= 1e-12 * (std::fabs(si[k]) + std::fabs(want.o))))
                R->violation(std::string("C02:output:restart-back:") + SYSN[sys], std::string(SYSN[sys]) + " RestartValue convertFromSI then convertToSI, measure " + mname(mi) + ": " + vf::fmt17(si[k]) + " -> " + vf::fmt17(e2[k]), rp(c));
    }
    R->count("o_cases");
}

// ================================================================ part d ====
static std::unique_ptr<Opm::Parser> g_parser;
static std::vector<std::string> g_keywords;                   // unique internal keyword names, sorted
static std::map<std::string, std::string> g_deckname;         // internal name -> a deck name that selects it

static const Opm::ParserKeyword& KW(const std::string& internal) { return g_parser->getParserKeywordFromDeckName(g_deckname.at(internal)); }

static void init_catalogue() {
    g_parser = std::make_unique<Opm::Parser>();
    std::set<std::string> dims;
    auto names = g_parser->getAllDeckNames(); std::sort(names.begin(), names.end());
    for (const auto& dn : names) {
        if (!g_parser->isRecognizedKeyword(dn)) continue;
        const auto& kw = g_parser->getParserKeywordFromDeckName(dn);
        if (g_deckname.count(kw.getName())) { if (dn == kw.getName()) g_deckname[kw.getName()] = dn; continue; }
        g_deckname[kw.getName()] = dn;
        for (const auto& rec : kw) for (const auto& it : rec) for (const auto& d : it.dimensions()) dims.insert(d);
    }
    for (auto& [k, v] : g_deckname) g_keywords.push_back(k);
    g_catalogue_dims.assign(dims.begin(), dims.end());
}

struct Expect {
    std::string item; bool uda = false;
    std::vector<double> si, raw;        // expected SI value / raw deck value per element
    std::vector<char> kind;             // 'v' explicit value, 'd' defaulted, 'c' context dependent, 'x' not comparable (factor unknown to the reference)
    std::vector<Aff> ref;               // reference dimension (active system) per element
    std::vector<bool> unverified;
    bool mixed = false;                 // default pattern imposed by part m; kind 'D' = defaulted by the pattern
};
struct RecLine { std::string text; std::vector<Expect> ex; };

static std::string num17(double x) { return vf::fmt17(x); }

static int g_variant = 0;      // value set: 0 positive O(1), 1 small negative, 2 large
static const Opm::ParserItem* g_mix_item = nullptr; static uint64_t g_mix_mask = 0;   // part m: default pattern imposed on one ALL-size item
static RecLine gen_record(const Opm::ParserRecord& rec, int sys, bool defaults, int& ordinal) {
    RecLine L; L.text = " ";
    for (const auto& it : rec) {
        const bool all = it.sizeType() == Opm::ParserItem::item_size::ALL;
        const auto tt = it.dataType();
        if (tt == Opm::type_tag::integer) { L.text += all ? "1 1 " : "1 "; continue; }
        if (tt == Opm::type_tag::string) { L.text += (!all && it.hasDefault()) ? "1* " : (all ? "ABC ABC " : "ABC "); continue; }
        if (tt == Opm::type_tag::raw_string) { L.text += "RAW "; continue; }
        if (tt != Opm::type_tag::fdouble && tt != Opm::type_tag::uda) { L.text += "1 "; continue; }
        const auto& dims = it.dimensions();
        const size_t nd = dims.size();
        if (nd == 0) { L.text += all ? "0.5 0.5 " : "0.5 "; continue; }
        const size_t nv = !all ? 1 : (nd == 1 ? 3 : 2 * nd);
        Expect e; e.item = it.name(); e.uda = tt == Opm::type_tag::uda;
        const bool mix = g_mix_item == &it;
        e.mixed = mix;
        const bool dflt = !mix && defaults && it.hasDefault();
        double dv = 0;
        const double mixdv = (mix && it.hasDefault() && !e.uda) ? it.getDefault<double>() : 0.0;   // no default in the keyword definition: the parser stores 0 with status empty_default
        if (dflt) {
            if (e.uda) { const auto& u = it.getDefault<Opm::UDAValue>(); dv = u.is<double>() ? u.get<double>() : std::numeric_limits<double>::quiet_NaN(); }
            else dv = it.getDefault<double>();
        }
        for (size_t j = 0; j < nv; ++j) {
            const std::string& dim = dims[j % nd];
            Aff act = REF.dim(sys, dim, true), met = REF.dim(0, dim, true);
            e.ref.push_back(act); e.unverified.push_back(act.unverified);
            if (!act.ok || act.offset_in_composite) { e.kind.push_back('x'); e.si.push_back(0); e.raw.push_back(0.5); if (!dflt) L.text += "0.5 "; continue; }
            if (act.nan) { e.kind.push_back('c'); e.si.push_back(0); e.raw.push_back(0.5); if (!dflt) L.text += "0.5 "; continue; }
            if (dflt) { e.kind.push_back('d'); e.si.push_back(met.to_si(dv)); e.raw.push_back(dv); continue; }
            if (mix && ((g_mix_mask >> j) & 1)) { e.kind.push_back('D'); e.si.push_back(met.to_si(mixdv)); e.raw.push_back(mixdv); e.ref.back() = met; L.text += "1* "; continue; }
            double v = 0.75 + 0.5 * ordinal + 0.125 * j;
            if (g_variant == 1) v *= -1.0e-4; else if (g_variant == 2) v *= 3.0e7;
            if (act.o != 0) v += 300.0;
            double raw = act.from_si(v);
            // the text is what the deck says; the SI value the text means is recomputed from the parsed-back number
            std::string t = num17(raw); raw = std::strtod(t.c_str(), nullptr);
            e.kind.push_back('v'); e.si.push_back(v); e.raw.push_back(raw); L.text += t + " ";
        }
        if (dflt) L.text += all ? std::to_string(nv) + "* " : "1* ";
        ++ordinal;
        L.ex.push_back(std::move(e));
    }
    L.text += "/\n";
    return L;
}

struct Inst { std::string text; std::vector<RecLine> recs; std::string why; bool ok = false; size_t nkw = 2; };

static Inst instantiate(const Opm::ParserKeyword& kw, const std::string& deckname, int sys, bool defaults) {
    Inst I; int ord = 0;
    I.text = std::string(SYSN[sys]) + "\n" + deckname + "\n";
    const size_t nrec = std::distance(kw.begin(), kw.end());
    if (nrec == 0) { I.why = "no records"; return I; }
    if (kw.isCodeKeyword() || kw.rawStringKeyword()) { I.why = "code/raw-string keyword"; return I; }
    auto add = [&](size_t ri) { RecLine L = gen_record(kw.getRecord(std::min(ri, nrec - 1)), sys, defaults, ord); I.text += L.text; I.recs.push_back(std::move(L)); };
    const auto st = kw.getSizeType();
    if (st == Opm::FIXED || st == Opm::SPECIAL_CASE_ROCK) { size_t n = st == Opm::FIXED ? kw.getFixedSize() : 1; for (size_t i = 0; i < n; ++i) add(i); }
    else if (st == Opm::SLASH_TERMINATED || st == Opm::UNKNOWN) { size_t n = std::max<size_t>(2, nrec); for (size_t i = 0; i < n; ++i) add(i); I.text += "/\n"; }
    else if (st == Opm::DOUBLE_SLASH_TERMINATED) { add(0); add(1); I.text += "/\n/\n"; }
    else if (st == Opm::OTHER_KEYWORD_IN_DECK) {
        // put the sizing keyword into the deck so that exactly n = 2 records/tables are expected
        const auto& ks = kw.getKeywordSize();
        int n = 1;
        try {
            const auto& skw = g_parser->getKeyword(ks.keyword());
            const auto& srec = skw.getRecord(0);
            size_t pos = 0; bool found = false;
            for (const auto& it : srec) { if (it.name() == ks.item()) { found = true; break; } ++pos; }
            if (found && srec.get(pos).dataType() == Opm::type_tag::integer && 2 - ks.size_shift() >= 1) {
                n = 2;
                I.text = std::string(SYSN[sys]) + "\n" + ks.keyword() + "\n " + (pos ? std::to_string(pos) + "* " : "") + std::to_string(2 - ks.size_shift()) + " /\n" + deckname + "\n";
                I.nkw = 3;
            } else n = srec.get(ks.item()).getDefault<int>() + ks.size_shift();
        } catch (...) { n = 1; }
        if (n < 1) n = 1;
        if (kw.isTableCollection()) { for (int t = 0; t < n; ++t) { add(0); add(0); I.text += "/\n"; } }
        else if (kw.isAlternatingKeyword()) { for (int t = 0; t < n; ++t) for (size_t i = 0; i < nrec; ++i) { RecLine L = gen_record(kw.getRecord(i), sys, defaults, ord); I.text += L.text; I.recs.push_back(std::move(L)); } }
        else for (int t = 0; t < n; ++t) add(t);
    } else { I.why = "size type not handled"; return I; }
    I.ok = true; I.why.clear();
    return I;
}

static Opm::ParseContext& lenient_context() {
    static Opm::ParseContext pc = [] {
        Opm::ParseContext p;
        p.update(Opm::InputErrorAction::THROW_EXCEPTION);
        p.update(Opm::ParseContext::PARSE_MISSING_DIMS_KEYWORD, Opm::InputErrorAction::IGNORE);
        p.update(Opm::ParseContext::PARSE_MISSING_INCLUDE, Opm::InputErrorAction::IGNORE);
        p.update(Opm::ParseContext::PARSE_INVALID_KEYWORD_COMBINATION, Opm::InputErrorAction::IGNORE);
        return p; }();
    return pc;
}

// returns: number of item elements compared; <0 : could not be instantiated (reason in why)
static long check_keyword(const std::string& kwname, int sys, bool defaults, const std::string& c, std::string& why) {
    const auto& kw = KW(kwname);
    if (!kw.hasDimension()) { why = "no dimension"; return -1; }
    Inst I = instantiate(kw, g_deckname[kwname], sys, defaults);
    if (!I.ok) { why = I.why; return -2; }
    Opm::ErrorGuard eg;
    std::unique_ptr<Opm::Deck> deck;
    try { deck = std::make_unique<Opm::Deck>(g_parser->parseString(I.text, lenient_context(), eg)); eg.clear(); }
    catch (const std::exception& e) { eg.clear(); why = std::string("parse: ") + std::string(e.what()).substr(0, 160); return -3; }
    if (deck->size() != I.nkw) { why = "deck has " + std::to_string(deck->size()) + " keywords"; return -3; }
    const auto& dk = (*deck)[I.nkw - 1];
    // table collections / double-record keywords keep the terminating empty records: match the generated lines to the non-empty records in order
    std::vector<const Opm::DeckRecord*> drs;
    for (size_t j = 0; j < dk.size(); ++j) { const auto& r = dk.getRecord(j); bool any = r.size() > 0; for (const auto& it : r) if (it.data_size() == 0) any = false; if (any || !(kw.isTableCollection() || kw.isDoubleRecordKeyword())) drs.push_back(&r); }
    if (drs.size() != I.recs.size()) { why = "record count " + std::to_string(drs.size()) + " != generated " + std::to_string(I.recs.size()); return -3; }
    long compared = 0;
    if (sys == 0 && !defaults && g_variant == 0) { std::set<std::string> names; for (auto& L : I.recs) for (auto& e : L.ex) names.insert(e.item); R->count("d_items_with_dimension_checked", (long long)names.size()); }
    for (size_t j = 0; j < drs.size(); ++j) for (const auto& e : I.recs[j].ex) {
        const std::string key = "C02:deck:" + kwname + ":" + e.item + ":" + SYSN[sys];
        const std::string where = kwname + " record " + std::to_string(j) + " item " + e.item + " (" + SYSN[sys] + (defaults ? ", defaults" : "") + ")";
        if (!drs[j]->hasItem(e.item)) { R->violation(key, where + ": item missing in parsed record", rp(c)); continue; }
        const auto& di = drs[j]->getItem(e.item);
        if (di.data_size() != e.si.size()) { R->violation(key, where + ": parsed " + std::to_string(di.data_size()) + " values, deck has " + std::to_string(e.si.size()), rp(c)); continue; }
        for (size_t i = 0; i < e.si.size(); ++i) {
            R->evaluations++;
            const char k = e.kind[i];
            if (k == 'x') { R->count("d_elements_factor_unknown_to_reference"); continue; }
            if (k == 'c') {
                bool thrown = false; double got = 0;
                try { got = e.uda ? di.get<Opm::UDAValue>(i).getSI() : di.getSIDouble(i); } catch (const std::exception&) { thrown = true; }
                if (!thrown && !std::isnan(got)) R->violation(key, where + ": context dependent item yields the finite SI value " + vf::fmt17(got), rp(c));
                R->count("d_context_dependent_elements");
                continue;
            }
            const Aff& a = e.ref[i];
            const double want = e.si[i];
            double got;
            try {
                if (e.uda) {
                    Opm::UDAValue u = di.get<Opm::UDAValue>(i);
                    if (k == 'd' && !u.is_numeric()) { R->count("d_uda_default_not_materialised"); continue; }   // DeckItem::get<UDAValue> hands out the dimension only; the numeric default lives in the Schedule code
                    got = u.getSI();
                } else got = di.getSIDouble(i);
            } catch (const std::exception& ex) { R->violation(key, where + ": reading the SI value threw: " + ex.what(), rp(c)); continue; }
            const double tol = 1e-12 * (std::fabs(want) + std::fabs(a.o));
            const bool ok = std::fabs(got - want) <= tol;
            R->observe(kwname + ":" + e.item + ":" + SYSN[sys] + ":" + (k == 'd' ? "d" : "v") + vf::fmt17(got));
            ++compared;
            if (!ok) {
                if (e.unverified[i]) { R->count("d_mismatch_on_unverified_quantity"); continue; }
                R->violation(key, where + " element " + std::to_string(i) + (k == 'd' ? ": default " + vf::fmt17(e.raw[i]) + " (METRIC units of the keyword definition)" : ": deck value " + vf::fmt17(e.raw[i])) +
                    " must be SI " + vf::fmt17(want) + " by the reference factor (" + vf::fmt17(a.s) + ", offset " + vf::fmt17(a.o) + "), getSIDouble = " + vf::fmt17(got), rp(c));
                continue;
            }
            if (!e.uda) {
                // lazy in-place conversion: the stored vector is SI now; getData<double>() flips it back to deck units, getSIDouble flips again
                double mo = std::fabs(a.o / a.s);
                double raw = di.getData<double>()[i], again = di.getSIDouble(i);
                if (!(std::fabs(raw - e.raw[i]) <= 1e-13 * (std::fabs(e.raw[i]) + mo)) || !(std::fabs(again - want) <= tol))
                    R->violation("C02:deck-lazy:" + std::string(SYSN[sys]) + (k == 'd' ? ":default" : ":value"), where + " element " + std::to_string(i) + ": after getSIDouble, getData<double>() = " + vf::fmt17(raw) + " (deck " + vf::fmt17(e.raw[i]) + "), getSIDouble again = " + vf::fmt17(again) + " (want " + vf::fmt17(want) + ")", rp(c));
                // Observation beyond the property text (reported, not a violation): DeckItem::get<double>(i) bypasses the
                // raw/SI flag and hands out whatever the vector currently holds, i.e. the SI value after an SI access.
                double g = di.get<double>(i);
                if (!(std::fabs(g - e.raw[i]) <= 1e-13 * (std::fabs(e.raw[i]) + mo)) && std::fabs(g - want) <= tol) {
                    R->count("d_get_double_returns_SI_after_getSIDouble");
                    if (!R->notes.count("d_get_double_after_SI_example")) R->notes["d_get_double_after_SI_example"] = where + ": deck value " + vf::fmt17(e.raw[i]) + ", get<double>() after getSIDouble() = " + vf::fmt17(g) + " (the SI value)";
                } else if (!(std::fabs(g - e.raw[i]) <= 1e-13 * (std::fabs(e.raw[i]) + mo)))
                    R->violation("C02:deck-lazy:get-double:" + std::string(SYSN[sys]), where + " element " + std::to_string(i) + ": get<double>() = " + vf::fmt17(g) + " is neither the deck value " + vf::fmt17(e.raw[i]) + " nor the SI value " + vf::fmt17(want), rp(c));
            }
        }
    }
    if (R->samples.size() < 5 && kwname == "COMPDAT" && sys == 1) R->sample_str(c + " :: " + I.text);
    return compared;
}

static void case_d(const std::string& kwname, int sys, bool defaults, const std::string& c) {
    std::string why;
    long n = check_keyword(kwname, sys, defaults, c, why);
    if (n >= 0) { R->count("d_keyword_instances_checked"); R->count("d_elements_compared", n); if (sys == 0 && !defaults && g_variant == 0) R->count("d_keywords_checked"); return; }
    if (n == -1) return;
    if (sys == 0 && !defaults && g_variant == 0) { R->count(n == -2 ? "d_keywords_skipped_not_instantiable" : "d_keywords_skipped_instance_rejected"); R->notes["d_skipped:" + kwname] = why; }
    else {
        // the same shape parsed in METRIC but not here?  (checked by re-running METRIC)
        std::string w2; long m = check_keyword(kwname, 0, defaults, c, w2);
        if (m >= 0) R->violation("C02:deck:" + kwname + ":parse:" + SYSN[sys], kwname + ": generated instance is accepted in METRIC but not in " + SYSN[sys] + ": " + why, rp(c));
    }
}

// ================================================================ part m ====
// Mixed default status inside one multi-valued item: the lazy SI <-> deck-unit flip must use the
// status of element i (not of element i % ndims) to choose between the active and the default dimension.
struct MixExp { std::vector<double> raw, si; std::vector<char> dfl; std::vector<Aff> ref; };   // ref: dimension that applies to the element

// both access orders on private copies of the parsed item
static long check_orders(const Opm::DeckItem& di, const MixExp& E, int sys, const std::string& where, const std::string& c) {
    long n = 0;
    if (di.data_size() != E.raw.size()) { R->violation(std::string("C02:deck-lazy:mixed:count:") + SYSN[sys], where + ": parsed " + std::to_string(di.data_size()) + " elements, deck has " + std::to_string(E.raw.size()), rp(c)); return 0; }
    auto judge = [&](const char* order, const char* what, const std::vector<double>& got, bool si) {
        for (size_t i = 0; i < got.size(); ++i) {
            R->evaluations++; ++n;
            const Aff& a = E.ref[i];
            const double want = si ? E.si[i] : E.raw[i];
            const double tol = si ? 1e-12 * (std::fabs(want) + std::fabs(a.o)) : 1e-12 * (std::fabs(want) + std::fabs(a.o / a.s));
            if (!(std::fabs(got[i] - want) <= tol)) {
                std::string pat; for (char d : E.dfl) pat += d ? 'D' : 'v';
                R->violation(std::string("C02:deck-lazy:mixed:") + order + ":" + (si ? "si" : "raw") + ":" + SYSN[sys],
                    where + " pattern " + pat + " element " + std::to_string(i) + (E.dfl[i] ? " (defaulted)" : " (explicit)") + ", " + what + ": got " + vf::fmt17(got[i]) + ", want " + vf::fmt17(want) +
                    (si ? " SI" : " (deck value)") + " [D = defaulted, v = explicit; defaulted elements convert with the default (METRIC) dimension, explicit ones with the active one]", rp(c));
                return;
            }
        }
    };
    {   // SI first, then raw, then SI again
        Opm::DeckItem cp = di;
        std::vector<double> s1 = cp.getSIDoubleData(); std::vector<double> r1 = cp.getData<double>(); std::vector<double> s2 = cp.getSIDoubleData(); std::vector<double> r2 = cp.getData<double>();
        judge("si-first", "1st SI read", s1, true); judge("si-first", "raw read after SI", r1, false); judge("si-first", "2nd SI read", s2, true); judge("si-first", "2nd raw read", r2, false);
        std::string o = where; for (double x : r1) o += ":" + vf::fmt17(x); R->observe(o);
    }
    {   // raw first, then SI, then raw, then SI
        Opm::DeckItem cp = di;
        std::vector<double> r1 = cp.getData<double>(); std::vector<double> s1 = cp.getSIDoubleData(); std::vector<double> r2 = cp.getData<double>(); std::vector<double> s2 = cp.getSIDoubleData();
        judge("raw-first", "1st raw read", r1, false); judge("raw-first", "SI read after raw", s1, true); judge("raw-first", "raw read after SI", r2, false); judge("raw-first", "2nd SI read", s2, true);
    }
    return n;
}

static std::vector<uint64_t> mix_patterns(size_t nv, size_t nd) {
    std::vector<uint64_t> p;
    const uint64_t all = nv >= 64 ? ~0ull : ((1ull << nv) - 1);
    if (nv <= 6) { for (uint64_t m = 0; m <= all; ++m) p.push_back(m); return p; }
    std::set<uint64_t> s = {0, all};
    for (size_t i = nd; i < nv && i < 64; ++i) { size_t j = i % nd; s.insert(1ull << j); s.insert(1ull << i); s.insert(all ^ (1ull << j)); s.insert(all ^ (1ull << i)); s.insert((1ull << j) | (1ull << ((i + 1) % nv))); }
    p.assign(s.begin(), s.end());
    return p;
}

static void case_m(const std::string& kwname, int sys, const std::string& c) {
    const auto& kw = KW(kwname);
    const size_t nrec = std::distance(kw.begin(), kw.end());
    for (size_t ri = 0; ri < nrec; ++ri) for (const auto& it : kw.getRecord(ri)) {
        if (it.dataType() != Opm::type_tag::fdouble || it.sizeType() != Opm::ParserItem::item_size::ALL || it.dimensions().empty()) continue;
        const auto& dims = it.dimensions(); const size_t nd = dims.size(), nv = nd == 1 ? 3 : 2 * nd;
        bool usable = true;
        for (auto& d : dims) { Aff a = REF.dim(sys, d, true); if (!a.ok || a.nan || a.offset_in_composite) usable = false; }
        if (!usable) { R->count("m_items_not_comparable"); continue; }
        bool any = false;
        for (uint64_t mask : mix_patterns(nv, nd)) {
            g_mix_item = &it; g_mix_mask = mask;
            Inst I = instantiate(kw, g_deckname[kwname], sys, false);
            g_mix_item = nullptr;
            if (!I.ok) break;
            Opm::ErrorGuard eg; std::unique_ptr<Opm::Deck> deck;
            try { deck = std::make_unique<Opm::Deck>(g_parser->parseString(I.text, lenient_context(), eg)); eg.clear(); }
            catch (const std::exception& e) { eg.clear(); R->count("m_instances_rejected"); if (mask == 0) break; R->notes["m_rejected:" + kwname + ":" + it.name()] = std::string(e.what()).substr(0, 160); continue; }
            if (deck->size() != I.nkw) { R->count("m_instances_rejected"); R->notes["m_rejected:" + kwname + ":" + it.name()] = "keyword count"; continue; }
            const auto& dk = (*deck)[I.nkw - 1];
            std::vector<const Opm::DeckRecord*> drs;
            for (size_t j = 0; j < dk.size(); ++j) { const auto& r = dk.getRecord(j); bool full = r.size() > 0; for (const auto& x : r) if (x.data_size() == 0) full = false; if (full || !(kw.isTableCollection() || kw.isDoubleRecordKeyword())) drs.push_back(&r); }
            if (drs.size() != I.recs.size()) { R->count("m_instances_rejected"); R->notes["m_rejected:" + kwname + ":" + it.name()] = "record count " + std::to_string(drs.size()) + " != " + std::to_string(I.recs.size()) + " (an all-defaulted row looks like a table separator)"; continue; }
            for (size_t j = 0; j < drs.size(); ++j) for (const auto& e : I.recs[j].ex) {
                if (!e.mixed || !drs[j]->hasItem(e.item)) continue;
                MixExp E; E.raw = e.raw; E.si = e.si; E.ref = e.ref; for (char k : e.kind) E.dfl.push_back(k == 'D');
                R->count("m_element_reads", check_orders(drs[j]->getItem(e.item), E, sys, kwname + " record " + std::to_string(j) + " item " + e.item + " (" + SYSN[sys] + ")", c));
                R->count("m_patterns"); any = true;
            }
        }
        if (any && sys == 0) R->count("m_items");
    }
}

// hand-written records: defaults in different columns of different rows, repeat counts
struct Hand { const char* kw; const char* pre; const char* toks; const char* post; size_t rec; const char* item; };
static const Hand HANDS[] = {
    {"MINPVV",   " ", "2*0.5 1* 0.25 2*", " /\n", 0, "data"},
    {"MINPVV",   " ", "1* 0.5 0.25 3*0.125 1*", " /\n", 0, "data"},
    {"ENPCVD",   " ", "1000 1* 2.0 2000 0.5 1* 3000 1* 1*", " /\n", 0, "DATA"},
    {"ENPCVD",   " ", "1000 0.5 1* 2000 1* 2.5", " /\n", 0, "DATA"},
    {"ENKRVD",   " ", "1000 1* 0.5 1* 1* 0.7 1* 1* 2000 0.4 1* 1* 0.6 1* 1* 0.3", " /\n", 0, "DATA"},
    {"ENKRVD",   " ", "1000 0.9 6*  2000 1* 0.8 2* 0.3 2*", " /\n", 0, "DATA"},
    {"PVTO",     " 0.5 ", "100 1.1 1.2 200 1* 1.3 300 1.05 1*", " /\n/\n", 0, "DATA"},
    {"PVTG",     " 100 ", "0.001 1* 0.02 0 0.011 1*", " /\n/\n", 0, "DATA"},
    {"SWOF",     " ", "0.2 0 1 1* 0.6 1* 0.2 0.1 1.0 1 1* 0", " /\n", 0, "DATA"},
    {"SGOF",     " ", "0 0 1 0 0.4 1* 1* 0.3 0.8 1 0 1*", " /\n", 0, "DATA"},
    {"SPECHEAT", " ", "10 1* 2.0 1* 100 1.5 1* 2.5 1* 1.7 2.2 1*", " /\n", 0, "DATA"},
    {"RTEMPVD",  " ", "1000 1* 2000 60 1* 80", " /\n", 0, "DATA"},
    {"PVDO",     " ", "100 1.2 1* 200 1* 1.3 300 1.1 1.4", " /\n", 0, "DATA"},
    {"PVDG",     " ", "100 1* 0.015 200 0.006 1* 1* 0.004 0.025", " /\n", 0, "DATA"},
    {"RSVD",     " ", "1000 1* 2000 0.1 1* 0.2", " /\n", 0, "DATA"},
    {"PERMX",    " ", "100 1* 2*50 2* 25", " /\n", 0, "data"},
    {"TSTEP",    " ", "1 1* 2*10 1*", " /\n", 0, "step_list"},
};

static void case_h(int hi, int sys, const std::string& c) {
    const Hand& H = HANDS[hi];
    const auto& kw = g_parser->getKeyword(H.kw);
    const auto& it = kw.getRecord(H.rec).get(H.item);
    const auto& dims = it.dimensions(); const size_t nd = dims.size();
    if (nd == 0) throw std::runtime_error(std::string("hand case without dimension: ") + H.kw);
    const double dv = it.hasDefault() ? it.getDefault<double>() : 0.0;
    MixExp E;
    for (auto& t : words(H.toks)) {
        size_t st = t.find('*'); size_t cnt = 1; bool dfl = false; double v = 0;
        if (st == std::string::npos) v = std::strtod(t.c_str(), nullptr);
        else { cnt = std::atoi(t.substr(0, st).c_str()); if (st + 1 == t.size()) dfl = true; else v = std::strtod(t.c_str() + st + 1, nullptr); }
        for (size_t k = 0; k < cnt; ++k) {
            const std::string& dim = dims[E.raw.size() % nd];
            Aff act = REF.dim(sys, dim, true), met = REF.dim(0, dim, true);
            if (!act.ok || act.nan || act.offset_in_composite) throw std::runtime_error(std::string("hand case with non-comparable dimension: ") + H.kw);
            E.dfl.push_back(dfl); E.raw.push_back(dfl ? dv : v); E.si.push_back(dfl ? met.to_si(dv) : act.to_si(v)); E.ref.push_back(dfl ? met : act);
        }
    }
    const std::string text = std::string(SYSN[sys]) + "\n" + H.kw + "\n" + H.pre + H.toks + H.post;
    Opm::ErrorGuard eg;
    try {
        auto deck = g_parser->parseString(text, lenient_context(), eg); eg.clear();
        const auto& di = deck[H.kw].back().getRecord(H.rec).getItem(H.item);
        R->count("m_element_reads", check_orders(di, E, sys, std::string("hand-written ") + H.kw + " '" + H.toks + "' item " + H.item + " (" + SYSN[sys] + ")", c));
        R->count("m_hand_cases");
        if (sys == 1 && hi == 2 && R->samples.size() < 8) R->sample_str(c + " :: " + text);
    } catch (const std::exception& e) { eg.clear(); R->violation(std::string("C02:deck-lazy:mixed:hand-rejected:") + H.kw, std::string("hand-written deck is rejected: ") + std::string(e.what()).substr(0, 200) + " :: " + text, rp(c)); }
}

// curated annotation table
static void case_n(const std::string& c) {
    const char* root = std::getenv("VERIF_ROOT");
    std::ifstream f(std::string(root ? root : ".") + "/data/C02_dimensions.ref");
    if (!f) throw std::runtime_error("cannot open data/C02_dimensions.ref");
    std::string l; std::set<std::string> kws;
    while (std::getline(f, l)) {
        size_t h = l.find('#'); if (h != std::string::npos) l = l.substr(0, h);
        auto w = words(l); if (w.empty()) continue;
        if (w.size() < 3) throw std::runtime_error("C02_dimensions.ref: bad line: " + l);
        const std::string kwname = w[0], item = w[1]; std::vector<std::string> cur(w.begin() + 2, w.end());
        const std::string key = "C02:annotation:" + kwname + ":" + item;
        R->evaluations++; kws.insert(kwname);
        if (!g_parser->hasKeyword(kwname)) { R->violation(key, "curated keyword " + kwname + " is not in the keyword catalogue", rp(c)); continue; }
        const auto& kw = g_parser->getKeyword(kwname);
        const Opm::ParserItem* pi = nullptr;
        for (const auto& rec : kw) if (rec.hasItem(item)) { pi = &rec.get(item); break; }
        if (!pi) { R->violation(key, "curated item " + kwname + ":" + item + " does not exist in the keyword definition", rp(c)); continue; }
        const auto& ann = pi->dimensions();
        std::string anns; for (auto& a : ann) anns += (anns.empty() ? "" : ",") + a;
        std::string curs; for (auto& a : cur) curs += (curs.empty() ? "" : " ") + a;
        R->observe("n:" + kwname + ":" + item + ":" + anns);
        if (ann.empty()) {
            bool dimless = true;
            for (auto& d : cur) for (int s = 0; s < 4; ++s) { Aff a = REF.dim(s, d, false); if (!a.ok || a.nan || a.o != 0 || !releq(a.s, 1.0, 1e-12)) dimless = false; }
            if (dimless) { R->count("n_dimensionless_items_without_annotation"); continue; }
            bool ctx = true; for (auto& d : cur) if (!REF.dim(0, d, false).nan) ctx = false;
            if (ctx) { R->count("n_context_dependent_items_without_annotation"); continue; }
            R->violation(key, kwname + ":" + item + " has no dimension annotation; manual semantics: " + curs, rp(c)); continue;
        }
        const size_t n = std::lcm(ann.size(), cur.size());
        bool bad = false; std::string what;
        for (size_t i = 0; i < n && !bad; ++i) for (int s = 0; s < 4 && !bad; ++s) {
            Aff a = REF.dim(s, ann[i % ann.size()], true), m = REF.dim(s, cur[i % cur.size()], false);
            if (!m.ok) throw std::runtime_error("C02_dimensions.ref: " + kwname + ":" + item + ": " + m.err);
            if (!a.ok) { bad = true; what = "annotation uses a factor unknown to the reference: " + a.err; break; }
            bool same = a.nan == m.nan && a.offset_in_composite == m.offset_in_composite && (a.nan || (releq(a.s, m.s, 1e-12) && releq(a.o, m.o, 1e-12)));
            if (!same) { bad = true; what = std::string("column ") + std::to_string(i % std::max(ann.size(), cur.size())) + " in " + SYSN[s] + ": annotation '" + ann[i % ann.size()] + "' = " + vf::fmt17(a.s) + " (offset " + vf::fmt17(a.o) + ") SI per deck unit, manual semantics '" + cur[i % cur.size()] + "' = " + vf::fmt17(m.s) + " (offset " + vf::fmt17(m.o) + ")"; }
        }
        if (bad) R->violation(key, kwname + ":" + item + " annotated [" + anns + "], ECLIPSE manual semantics [" + curs + "]: " + what, rp(c));
        R->count("n_curated_items");
    }
    R->count("n_curated_keywords", (long long)kws.size());
}
// ================================================================ part e ====
// One 3x3x3 model held in SI.  q(dim, si) prints an SI value in the deck units
// of system `sys` with the REFERENCE factor of the .ref-language dimension `dim`.
struct Model {
    int sys; std::string txt;
    struct DeckExp { std::string kw; size_t rec; std::string item; std::vector<double> si; double off; };
    std::vector<DeckExp> dexp;
    explicit Model(int s) : sys(s) {}
    Aff a(const std::string& dim) const { Aff x = REF.dim(sys, dim, false); if (!x.ok || x.nan) throw std::runtime_error("model: bad dimension " + dim + ": " + x.err); return x; }
    std::string q(const std::string& dim, double si) const { return vf::fmt17(a(dim).from_si(si)); }
    void line(const std::string& s) { txt += s + "\n"; }
    void expect(const std::string& kw, size_t rec, const std::string& item, std::vector<double> si, const std::string& dim) { dexp.push_back({kw, rec, item, std::move(si), a(dim).o}); }
    void array(const std::string& kw, const std::string& dim, const std::vector<double>& si) {
        txt += kw + "\n"; size_t n = 0;
        for (double v : si) { txt += " " + q(dim, v); if (++n % 3 == 0) txt += "\n"; }
        txt += " /\n";
        expect(kw, 0, "data", si, dim);
    }
};

static const double DAY = 86400.0;
struct SIModel {
    std::vector<double> dx, dy, dz, tops, poro, ntg, permx, permy, permz, porv;
    double pvtw[5] = {250e5, 1.02, 4.5e-10, 0.4e-3, 1.0e-10};
    double pvdo[3][3] = {{100e5, 1.20, 1.2e-3}, {200e5, 1.15, 1.3e-3}, {300e5, 1.10, 1.4e-3}};
    double pvdg[3][3] = {{100e5, 0.012, 1.5e-5}, {200e5, 0.006, 2.0e-5}, {300e5, 0.004, 2.5e-5}};
    double swof[3][4] = {{0.2, 0.0, 1.0, 0.5e5}, {0.6, 0.3, 0.2, 0.1e5}, {1.0, 1.0, 0.0, 0.0}};
    double sgof[3][4] = {{0.0, 0.0, 1.0, 0.0}, {0.4, 0.3, 0.1, 0.2e5}, {0.8, 1.0, 0.0, 0.6e5}};
    double rock[2] = {250e5, 5e-10};
    double dens[3] = {850.0, 1020.0, 0.9};
    double equil[6] = {2005.0, 255e5, 2050.0, 0.0, 1990.0, 0.0};
    double mD = 0;
    double cf = 0, kh = 0, diam = 0.2, ref_prod = 2001.0, ref_inj = 2002.0;
    double orat = 0.005, wrat = 0.002, grat = 1.5, lrat = 0.006, resv = 0.008, bhp = 150e5;
    double irate = 0.004, iresv = 0.005, ibhp = 400e5, grate = 2.0, gbhp = 350e5;
    double g_oil = 0.01, g_wat = 0.004, g_gas = 3.0, g_liq = 0.012;
    double tstep[3] = {1.5 * DAY, 10 * DAY, 7 * 3600.0};
    double seg_top_depth = 2001.0, seg_len = 10.0, seg_depth = 2006.0, seg_diam = 0.15, seg_rough = 1e-4;
    SIModel() {
        mD = REF.unit_value("mD");
        for (int k = 0; k < 3; ++k) for (int j = 0; j < 3; ++j) for (int i = 0; i < 3; ++i) {
            int c = i + 3 * j + 9 * k;
            dx.push_back(100 + 10 * i); dy.push_back(80 + 7 * j); dz.push_back(5 + k);
            if (k == 0) tops.push_back(2000.0);
            poro.push_back(0.1 + 0.01 * (c % 7)); ntg.push_back(0.8 + 0.01 * (c % 5));
            permx.push_back((100 + 10 * c) * mD); permy.push_back((90 + 7 * c) * mD); permz.push_back((10 + c) * mD);
            porv.push_back(dx[c] * dy[c] * dz[c] * poro[c] * ntg[c]);
        }
        cf = 25.0 * REF.unit_value("cP") / (REF.unit_value("day") * REF.unit_value("bar"));      // 25 cP.rm3/day/bar
        kh = 5000.0 * mD;                                                                             // 5000 mD.m
    }
};

static std::string model_deck(const SIModel& S, Model& B) {
    const std::string LR = "LiquidSurfaceVolume/Time", GR = "GasSurfaceVolume/Time", RR = "ReservoirVolume/Time";
    B.line("RUNSPEC"); B.line("TITLE"); B.line("C02 model"); B.line("DIMENS"); B.line(" 3 3 3 /");
    B.line("OIL"); B.line("WATER"); B.line("GAS"); B.line(SYSN[B.sys]);
    B.line("START"); B.line(" 1 JAN 2020 /");
    B.line("TABDIMS"); B.line(" /"); B.line("EQLDIMS"); B.line(" /");
    B.line("WELLDIMS"); B.line(" 4 4 2 4 /");
    B.line("WSEGDIMS"); B.line(" 2 5 2 /");
    B.line("GRID");
    B.array("DX", "Length", S.dx); B.array("DY", "Length", S.dy); B.array("DZ", "Length", S.dz); B.array("TOPS", "Length", S.tops);
    B.array("PORO", "1", S.poro); B.array("NTG", "1", S.ntg);
    B.array("PERMX", "Permeability", S.permx); B.array("PERMY", "Permeability", S.permy); B.array("PERMZ", "Permeability", S.permz);
    B.line("PROPS");
    B.line("PVTW"); B.line(" " + B.q("Pressure", S.pvtw[0]) + " " + B.q("1", S.pvtw[1]) + " " + B.q("1/Pressure", S.pvtw[2]) + " " + B.q("Viscosity", S.pvtw[3]) + " " + B.q("1/Pressure", S.pvtw[4]) + " /");
    B.expect("PVTW", 0, "P_REF", {S.pvtw[0]}, "Pressure"); B.expect("PVTW", 0, "WATER_COMPRESSIBILITY", {S.pvtw[2]}, "1/Pressure"); B.expect("PVTW", 0, "WATER_VISCOSITY", {S.pvtw[3]}, "Viscosity");
    std::vector<double> flat;
    B.line("PVDO"); flat.clear();
    for (auto& r : S.pvdo) { B.line(" " + B.q("Pressure", r[0]) + " " + B.q("ReservoirVolume/LiquidSurfaceVolume", r[1]) + " " + B.q("Viscosity", r[2])); flat.insert(flat.end(), r, r + 3); }
    B.line(" /"); B.expect("PVDO", 0, "DATA", flat, "1");
    B.line("PVDG"); flat.clear();
    for (auto& r : S.pvdg) { B.line(" " + B.q("Pressure", r[0]) + " " + B.q("ReservoirVolume/GasSurfaceVolume", r[1]) + " " + B.q("Viscosity", r[2])); flat.insert(flat.end(), r, r + 3); }
    B.line(" /"); B.expect("PVDG", 0, "DATA", flat, "1");
    B.line("SWOF"); flat.clear();
    for (auto& r : S.swof) { B.line(" " + B.q("1", r[0]) + " " + B.q("1", r[1]) + " " + B.q("1", r[2]) + " " + B.q("Pressure", r[3])); flat.insert(flat.end(), r, r + 4); }
    B.line(" /"); B.expect("SWOF", 0, "DATA", flat, "1");
    B.line("SGOF"); flat.clear();
    for (auto& r : S.sgof) { B.line(" " + B.q("1", r[0]) + " " + B.q("1", r[1]) + " " + B.q("1", r[2]) + " " + B.q("Pressure", r[3])); flat.insert(flat.end(), r, r + 4); }
    B.line(" /"); B.expect("SGOF", 0, "DATA", flat, "1");
    B.line("ROCK"); B.line(" " + B.q("Pressure", S.rock[0]) + " " + B.q("1/Pressure", S.rock[1]) + " /");
    B.expect("ROCK", 0, "PREF", {S.rock[0]}, "Pressure"); B.expect("ROCK", 0, "COMPRESSIBILITY", {S.rock[1]}, "1/Pressure");
    B.line("DENSITY"); B.line(" " + B.q("Density", S.dens[0]) + " " + B.q("Density", S.dens[1]) + " " + B.q("Density", S.dens[2]) + " /");
    B.expect("DENSITY", 0, "OIL", {S.dens[0]}, "Density"); B.expect("DENSITY", 0, "WATER", {S.dens[1]}, "Density"); B.expect("DENSITY", 0, "GAS", {S.dens[2]}, "Density");
    B.line("SOLUTION");
    B.line("EQUIL"); B.line(" " + B.q("Length", S.equil[0]) + " " + B.q("Pressure", S.equil[1]) + " " + B.q("Length", S.equil[2]) + " " + B.q("Pressure", S.equil[3]) + " " + B.q("Length", S.equil[4]) + " " + B.q("Pressure", S.equil[5]) + " /");
    B.expect("EQUIL", 0, "DATUM_DEPTH", {S.equil[0]}, "Length"); B.expect("EQUIL", 0, "DATUM_PRESSURE", {S.equil[1]}, "Pressure"); B.expect("EQUIL", 0, "OWC", {S.equil[2]}, "Length"); B.expect("EQUIL", 0, "GOC", {S.equil[4]}, "Length");
    B.line("SCHEDULE");
    B.line("WELSPECS");
    B.line(" PROD G1 1 1 " + B.q("Length", S.ref_prod) + " OIL /");
    B.line(" INJ  G1 3 3 " + B.q("Length", S.ref_inj) + " WATER /");
    B.line(" INJG G1 1 3 " + B.q("Length", S.ref_inj) + " GAS /");
    B.line("/");
    B.expect("WELSPECS", 0, "REF_DEPTH", {S.ref_prod}, "Length");
    B.line("COMPDAT");
    B.line(" PROD 1 1 1 2 OPEN 1* " + B.q("Transmissibility", S.cf) + " " + B.q("Length", S.diam) + " " + B.q("Permeability*Length", S.kh) + " 0 1* Z /");
    B.line(" INJ  3 3 1 3 OPEN 1* 1* " + B.q("Length", 0.25) + " /");
    B.line(" INJG 1 3 1 1 OPEN 1* 1* " + B.q("Length", 0.25) + " /");
    B.line("/");
    B.expect("COMPDAT", 0, "CONNECTION_TRANSMISSIBILITY_FACTOR", {S.cf}, "Transmissibility"); B.expect("COMPDAT", 0, "Kh", {S.kh}, "Permeability*Length"); B.expect("COMPDAT", 0, "DIAMETER", {S.diam}, "Length");
    B.line("WELSEGS");
    B.line(" PROD " + B.q("Length", S.seg_top_depth) + " " + B.q("Length", 0.0) + " 1* ABS HFA /");
    B.line(" 2 2 1 1 " + B.q("Length", S.seg_len) + " " + B.q("Length", S.seg_depth) + " " + B.q("Length", S.seg_diam) + " " + B.q("Length", S.seg_rough) + " /");
    B.line("/");
    B.expect("WELSEGS", 0, "TOP_DEPTH", {S.seg_top_depth}, "Length"); B.expect("WELSEGS", 1, "LENGTH", {S.seg_len}, "Length"); B.expect("WELSEGS", 1, "DIAMETER", {S.seg_diam}, "Length");
    B.line("COMPSEGS");
    B.line(" PROD /");
    B.line(" 1 1 1 1 " + B.q("Length", 0.0) + " " + B.q("Length", 5.0) + " /");
    B.line(" 1 1 2 1 " + B.q("Length", 5.0) + " " + B.q("Length", 10.0) + " /");
    B.line("/");
    B.line("WCONPROD");
    B.line(" PROD OPEN ORAT " + B.q(LR, S.orat) + " " + B.q(LR, S.wrat) + " " + B.q(GR, S.grat) + " " + B.q(LR, S.lrat) + " " + B.q(RR, S.resv) + " " + B.q("Pressure", S.bhp) + " /");
    B.line("/");
    B.line("WCONINJE");
    B.line(" INJ  WATER OPEN RATE " + B.q(LR, S.irate) + " " + B.q(RR, S.iresv) + " " + B.q("Pressure", S.ibhp) + " /");
    B.line(" INJG GAS   OPEN RATE " + B.q(GR, S.grate) + " 1* " + B.q("Pressure", S.gbhp) + " /");
    B.line("/");
    B.expect("WCONINJE", 0, "RESV", {S.iresv}, RR); B.expect("WCONINJE", 0, "BHP", {S.ibhp}, "Pressure");
    B.line("GCONPROD");
    B.line(" G1 ORAT " + B.q(LR, S.g_oil) + " " + B.q(LR, S.g_wat) + " " + B.q(GR, S.g_gas) + " " + B.q(LR, S.g_liq) + " RATE /");
    B.line("/");
    B.line("TSTEP");
    B.line(" " + B.q("Time", S.tstep[0]) + " " + B.q("Time", S.tstep[1]) + " " + B.q("Time", S.tstep[2]) + " /");
    B.expect("TSTEP", 0, "step_list", {S.tstep[0], S.tstep[1], S.tstep[2]}, "Time");
    B.line("END");
    return B.txt;
}

struct ModelObs { std::map<std::string, double> computed; };   // quantities without a closed-form oracle: compared across systems

static void case_e(const std::string& c) {
    SIModel S;
    std::map<std::string, std::pair<double, int>> first;      // computed quantity -> (value, system) of the first deck
    long ncmp = 0;
    for (int sys = 0; sys < 4; ++sys) {
        Model B(sys);
        const std::string text = model_deck(S, B);
        R->current(c + " " + SYSN[sys]);
        auto cmp = [&](const std::string& where, const std::string& what, double got, double want, double off = 0) {
            R->evaluations++; ++ncmp;
            R->observe(std::string("e:") + SYSN[sys] + ":" + where + ":" + what + ":" + vf::fmt17(got));
            if (!(std::fabs(got - want) <= 1e-10 * (std::fabs(want) + std::fabs(off))))
                R->violation("C02:model:" + where + ":" + SYSN[sys], std::string(SYSN[sys]) + " deck of the SI model: " + where + " " + what + " = " + vf::fmt17(got) + " SI, model value " + vf::fmt17(want), rp(c));
        };
        auto cross = [&](const std::string& where, const std::string& what, double got) {
            auto it = first.find(where + "/" + what);
            if (it == first.end()) { first[where + "/" + what] = {got, sys}; return; }
            R->evaluations++; ++ncmp;
            if (!(std::fabs(got - it->second.first) <= 1e-10 * std::fabs(it->second.first)))
                R->violation("C02:model:" + where + ":" + SYSN[sys], where + " " + what + " = " + vf::fmt17(got) + " SI from the " + SYSN[sys] + " deck but " + vf::fmt17(it->second.first) + " from the " + SYSN[it->second.second] + " deck of the same model", rp(c));
        };
        try {
            Opm::Parser parser;
            auto deck = parser.parseString(text);
            // --- Deck
            for (auto& e : B.dexp) {
                const auto& item = deck[e.kw].back().getRecord(e.rec).getItem(e.item);
                std::vector<double> v;
                if (item.getType() == Opm::type_tag::uda) { for (size_t i = 0; i < item.data_size(); ++i) v.push_back(item.get<Opm::UDAValue>(i).getSI()); }
                else v = item.getSIDoubleData();
                if (v.size() != e.si.size()) { R->violation(std::string("C02:model:deck:") + SYSN[sys], e.kw + ":" + e.item + " has " + std::to_string(v.size()) + " values, model " + std::to_string(e.si.size()), rp(c)); continue; }
                for (size_t i = 0; i < v.size(); ++i) cmp("deck", e.kw + ":" + e.item + "[" + std::to_string(i) + "]", v[i], e.si[i], e.off);
            }
            for (const char* kwn : {"WCONPROD", "GCONPROD"}) {
                const auto& r = deck[kwn].back().getRecord(0);
                if (std::string(kwn) == "WCONPROD") { cmp("deck", "WCONPROD:ORAT", r.getItem("ORAT").get<Opm::UDAValue>(0).getSI(), S.orat); cmp("deck", "WCONPROD:GRAT", r.getItem("GRAT").get<Opm::UDAValue>(0).getSI(), S.grat); cmp("deck", "WCONPROD:RESV", r.getItem("RESV").get<Opm::UDAValue>(0).getSI(), S.resv); cmp("deck", "WCONPROD:BHP", r.getItem("BHP").get<Opm::UDAValue>(0).getSI(), S.bhp); }
                else { cmp("deck", "GCONPROD:OIL_TARGET", r.getItem("OIL_TARGET").get<Opm::UDAValue>(0).getSI(), S.g_oil); cmp("deck", "GCONPROD:GAS_TARGET", r.getItem("GAS_TARGET").get<Opm::UDAValue>(0).getSI(), S.g_gas); }
            }
            Opm::EclipseState es(deck);
            // --- TableManager
            const auto& tm = es.getTableManager();
            {
                const auto& w = tm.getPvtwTable()[0];
                cmp("tables", "PVTW.pref", w.reference_pressure, S.pvtw[0]); cmp("tables", "PVTW.Bw", w.volume_factor, S.pvtw[1]); cmp("tables", "PVTW.Cw", w.compressibility, S.pvtw[2]);
                cmp("tables", "PVTW.mu", w.viscosity, S.pvtw[3]); cmp("tables", "PVTW.Cv", w.viscosibility, S.pvtw[4]);
                const auto& o = tm.getPvdoTables().getTable<Opm::PvdoTable>(0);
                const auto& g = tm.getPvdgTables().getTable<Opm::PvdgTable>(0);
                const auto& sw = tm.getSwofTables().getTable<Opm::SwofTable>(0);
                const auto& sg = tm.getSgofTables().getTable<Opm::SgofTable>(0);
                for (int r = 0; r < 3; ++r) {
                    cmp("tables", "PVDO.p", o.getPressureColumn()[r], S.pvdo[r][0]); cmp("tables", "PVDO.Bo", o.getFormationFactorColumn()[r], S.pvdo[r][1]); cmp("tables", "PVDO.mu", o.getViscosityColumn()[r], S.pvdo[r][2]);
                    cmp("tables", "PVDG.p", g.getPressureColumn()[r], S.pvdg[r][0]); cmp("tables", "PVDG.Bg", g.getFormationFactorColumn()[r], S.pvdg[r][1]); cmp("tables", "PVDG.mu", g.getViscosityColumn()[r], S.pvdg[r][2]);
                    cmp("tables", "SWOF.sw", sw.getSwColumn()[r], S.swof[r][0]); cmp("tables", "SWOF.krw", sw.getKrwColumn()[r], S.swof[r][1]); cmp("tables", "SWOF.pc", sw.getPcowColumn()[r], S.swof[r][3]);
                    cmp("tables", "SGOF.sg", sg.getSgColumn()[r], S.sgof[r][0]); cmp("tables", "SGOF.pc", sg.getPcogColumn()[r], S.sgof[r][3]);
                }
                const auto& rk = tm.getRockTable()[0]; cmp("tables", "ROCK.pref", rk.reference_pressure, S.rock[0]); cmp("tables", "ROCK.c", rk.compressibility, S.rock[1]);
                const auto& dn = tm.getDensityTable()[0]; cmp("tables", "DENSITY.oil", dn.oil, S.dens[0]); cmp("tables", "DENSITY.water", dn.water, S.dens[1]); cmp("tables", "DENSITY.gas", dn.gas, S.dens[2]);
            }
            // --- FieldPropsManager
            {
                const auto& fp = es.fieldProps();
                auto cmpv = [&](const std::string& n, const std::vector<double>& got, const std::vector<double>& want) {
                    if (got.size() != want.size()) { R->violation(std::string("C02:model:fieldprops:") + SYSN[sys], n + " has " + std::to_string(got.size()) + " cells", rp(c)); return; }
                    for (size_t i = 0; i < got.size(); ++i) cmp("fieldprops", n + "[" + std::to_string(i) + "]", got[i], want[i]);
                };
                cmpv("PORO", fp.get_double("PORO"), S.poro); cmpv("NTG", fp.get_double("NTG"), S.ntg);
                cmpv("PERMX", fp.get_double("PERMX"), S.permx); cmpv("PERMZ", fp.get_double("PERMZ"), S.permz);
                cmpv("PERMY", fp.get_double("PERMY"), S.permy); cmpv("PORV", fp.porv(true), S.porv);
                const auto& grid = es.getInputGrid();
                for (size_t g = 0; g < 27; ++g) { auto dm = grid.getCellDims(g); cmp("grid", "DX[" + std::to_string(g) + "]", dm[0], S.dx[g]); cmp("grid", "DY[" + std::to_string(g) + "]", dm[1], S.dy[g]); cmp("grid", "DZ[" + std::to_string(g) + "]", dm[2], S.dz[g]); cmp("grid", "volume[" + std::to_string(g) + "]", grid.getCellVolume(g), S.dx[g] * S.dy[g] * S.dz[g]); cmp("grid", "depth[" + std::to_string(g) + "]", grid.getCellDepth(g), 2000.0 + (g / 9 == 0 ? 2.5 : g / 9 == 1 ? 8.0 : 14.5)); }
            }
            // --- Schedule (never copied or moved)
            auto sched = std::make_unique<Opm::Schedule>(deck, es, std::make_shared<Opm::Python>());
            {
                Opm::SummaryState st(Opm::TimeService::from_time_t(0), 0.0);
                const size_t step = 0;
                const auto& p = sched->getWell("PROD", step);
                auto pc = p.productionControls(st);
                cmp("schedule", "PROD.orat", pc.oil_rate, S.orat); cmp("schedule", "PROD.wrat", pc.water_rate, S.wrat); cmp("schedule", "PROD.grat", pc.gas_rate, S.grat);
                cmp("schedule", "PROD.lrat", pc.liquid_rate, S.lrat); cmp("schedule", "PROD.resv", pc.resv_rate, S.resv); cmp("schedule", "PROD.bhp", pc.bhp_limit, S.bhp);
                cmp("schedule", "PROD.refdepth", p.getRefDepth(), S.ref_prod);
                const auto& pcn = p.getConnections();
                cmp("schedule", "PROD.conn0.CF", pcn[0].CF(), S.cf); cmp("schedule", "PROD.conn0.Kh", pcn[0].Kh(), S.kh); cmp("schedule", "PROD.conn0.rw", pcn[0].rw(), S.diam / 2);
                cmp("schedule", "PROD.conn1.CF", pcn[1].CF(), S.cf);
                if (p.isMultiSegment()) {
                    const auto& segs = p.getSegments();
                    const auto& s2 = segs.getFromSegmentNumber(2);
                    cmp("schedule", "PROD.seg2.length", s2.totalLength(), S.seg_len); cmp("schedule", "PROD.seg2.depth", s2.depth(), S.seg_depth);
                    cmp("schedule", "PROD.seg2.diameter", s2.internalDiameter(), S.seg_diam); cmp("schedule", "PROD.seg2.roughness", s2.roughness(), S.seg_rough);
                    cmp("schedule", "PROD.seg1.depth", segs.getFromSegmentNumber(1).depth(), S.seg_top_depth);
                    cross("schedule", "PROD.seg2.volume", s2.volume()); cross("schedule", "PROD.seg2.area", s2.crossArea());
                } else R->violation("C02:model:schedule:not-msw", "PROD is not multi-segment", rp(c));
                const auto& iw = sched->getWell("INJ", step);
                auto ic = iw.injectionControls(st);
                cmp("schedule", "INJ.rate", ic.surface_rate, S.irate); cmp("schedule", "INJ.resv", ic.reservoir_rate, S.iresv); cmp("schedule", "INJ.bhp", ic.bhp_limit, S.ibhp);
                auto gc = sched->getWell("INJG", step).injectionControls(st);
                cmp("schedule", "INJG.rate", gc.surface_rate, S.grate); cmp("schedule", "INJG.bhp", gc.bhp_limit, S.gbhp);
                // connection factors computed by the library from grid and permeability: no oracle here (C06), but deck-unit independent
                int k = 0; for (const auto& cn : iw.getConnections()) { cross("schedule", "INJ.conn" + std::to_string(k) + ".CF", cn.CF()); cross("schedule", "INJ.conn" + std::to_string(k) + ".Kh", cn.Kh()); cross("schedule", "INJ.conn" + std::to_string(k) + ".depth", cn.depth()); ++k; }
                auto g = sched->getGroup("G1", step).productionControls(st);
                cmp("schedule", "G1.oil_target", g.oil_target, S.g_oil); cmp("schedule", "G1.water_target", g.water_target, S.g_wat); cmp("schedule", "G1.gas_target", g.gas_target, S.g_gas); cmp("schedule", "G1.liquid_target", g.liquid_target, S.g_liq);
                for (int i = 0; i < 3; ++i) cmp("schedule", "TSTEP[" + std::to_string(i) + "]", sched->stepLength(i), S.tstep[i]);
                cmp("schedule", "total_time", sched->seconds(3), S.tstep[0] + S.tstep[1] + S.tstep[2]);
            }
        } catch (const std::exception& ex) {
            R->violation(std::string("C02:model:exception:") + SYSN[sys], std::string(SYSN[sys]) + " deck of the SI model is rejected: " + std::string(ex.what()).substr(0, 400), "{\"case\": " + vf::jstr(c) + ", \"deck\": " + vf::jstr(text) + "}");
        }
        if (sys == 1 && R->samples.size() < 6) R->sample_str("e FIELD deck (excerpt): " + text.substr(text.find("PROPS"), 600));
    }
    R->count("e_comparisons", ncmp);
    R->count("e_decks", 4);
}
// ================================================================== main ====
static int sys_of(const std::string& s) { for (int i = 0; i < 5; ++i) if (s == SYSN[i]) return i; throw std::runtime_error("unknown unit system " + s); }

static void do_case(const std::string& c) {
    R->current(c);
    auto w = words(c);
    if (w.empty()) throw std::runtime_error("empty case");
    if (w[0] == "a" && w.size() == 3) case_a(sys_of(w[1]), std::atoi(w[2].c_str()), c);
    else if (w[0] == "b" && w.size() == 2) { phys_named(sys_of(w[1]), false, c); R->count("b_systems"); }
    else if (w[0] == "c" && w.size() == 3) case_c(sys_of(w[1]), w[2], c);
    else if (w[0] == "c2" && w.size() == 3) case_c2(sys_of(w[1]), w[2], c);
    else if (w[0] == "o" && w.size() == 3) case_o(sys_of(w[1]), std::atoi(w[2].c_str()), c);
    else if (w[0] == "d" && w.size() == 4) { g_variant = w[3].rfind("values", 0) == 0 && w[3].size() > 6 ? std::atoi(w[3].c_str() + 6) : 0; case_d(w[1], sys_of(w[2]), w[3] == "defaults", c); }
    else if (w[0] == "m" && w.size() == 3) case_m(w[1], sys_of(w[2]), c);
    else if (w[0] == "h" && w.size() == 3) case_h(std::atoi(w[1].c_str()), sys_of(w[2]), c);
    else if (w[0] == "n") case_n(c);
    else if (w[0] == "e") case_e(c);
    else throw std::runtime_error("bad case string: " + c);
}

int main(int argc, char** argv) {
    vf::Run run("C02", argc, argv); R = &run;
    run.max_samples = 8;
    const char* root = std::getenv("VERIF_ROOT");
    REF.load(std::string(root ? root : ".") + "/data/C02_units.ref");
    choose_alt();
    init_catalogue();
    run.rule = "complete enumeration: {METRIC,FIELD,LAB,PVT-M,INPUT} x all UnitSystem::measure x values {0,1,-3.5,1e-7,2.5e9} (round trip both ways, vector overloads, getDimension); "
               "every measure and every named dimension of the 4 deck systems vs. the exact physical definition in data/C02_units.ref (rel 1e-12); "
               "every dimension string of the keyword catalogue and every A*B, A/B of named dimensions x 5 systems (parse = product/quotient; offsets rejected in composites); "
               "every catalogue keyword x every double/UDA item with a dimension x 4 systems x {explicit values, defaulted}: SI value -> deck units by reference factor -> 17 digits -> real parser -> getSIDouble (rel 1e-12), raw/SI lazy flip; "
               "every multi-valued (size ALL) double item with a dimension x 4 systems x default patterns over its elements (all subsets for <= 6 elements, else patterns in which element i and element i % ndims differ) + hand-written ENPCVD/ENKRVD/MINPVV/PVTO/... records: SI->raw->SI and raw->SI->raw->SI on copies of the parsed item, raw = printed deck value, SI = reference conversion with the active (explicit) or default (defaulted) dimension; "
               "curated (keyword,item)->dimension table vs. annotations; one 3x3x3 SI model printed in 4 systems (Deck, TableManager, FieldPropsManager, grid, Schedule incl. MSW; rel 1e-10); "
               "data::Solution / RestartValue convertFromSI/convertToSI for every measure x 4 systems. distinct = distinct observed conversion results";
    run.assumptions = {
        "data/C02_units.ref: hand-written exact unit definitions and the unit the ECLIPSE manual prescribes per quantity/system (two derivations cross-checked for psi, stb, Mscf, darcy, ft, day, lbf, cP, dyne, cc, ft3)",
        "entries marked 'unverified' in the reference (SurfaceTension, Ymodule, aicd_strength) are checked for invertibility/consistency only",
        "Btu: any of the IT / thermochemical definitions is accepted; the one in use is recorded in notes",
        "data/C02_dimensions.ref: curated dimensions written from manual semantics; equality is numeric in all four systems, so rb/stb == 1 and stb == rb are indistinguishable",
        "defaults of the keyword definitions are METRIC numbers (Deck default unit system); the check is that a defaulted item gives the same SI value in every deck unit system",
        "keywords that cannot be instantiated from metadata alone are skipped and listed (notes d_skipped:*)",
        "values outside the alphabets are not covered; tolerance 1e-12 (catalogue) / 1e-10 (model) relative, scaled by the offset for temperatures"};
    if (!run.replay_path.empty()) { do_case(run.replay_path); return run.finish(); }

    auto go = [&](const std::string& c) { if (run.timed_out()) return; if (!run.mine()) return; do_case(c); };
    for (int s = 0; s < 5; ++s) for (int mi = 0; mi < NMEAS; ++mi) go(std::string("a ") + SYSN[s] + " " + std::to_string(mi));
    for (int s = 0; s < 5; ++s) go(std::string("b ") + SYSN[s]);
    for (int s = 0; s < 5; ++s) for (auto& d : g_catalogue_dims) go(std::string("c ") + SYSN[s] + " " + d);
    for (int s = 0; s < 5; ++s) for (auto& q : REF.quantities) go(std::string("c2 ") + SYSN[s] + " " + q.name);
    for (int s = 0; s < 4; ++s) for (int mi = 0; mi < NMEAS; ++mi) go(std::string("o ") + SYSN[s] + " " + std::to_string(mi));
    go("n");
    go("e");
    for (auto& kw : g_keywords) {
        if (!KW(kw).hasDimension()) continue;
        for (int s = 0; s < 4; ++s) {
            go("d " + kw + " " + SYSN[s] + " values"); go("d " + kw + " " + SYSN[s] + " defaults");
            if (run.thorough()) { go("d " + kw + " " + SYSN[s] + " values1"); go("d " + kw + " " + SYSN[s] + " values2"); }
        }
    }
    for (int hi = 0; hi < (int)(sizeof HANDS / sizeof HANDS[0]); ++hi) for (int s = 0; s < 4; ++s) go("h " + std::to_string(hi) + " " + SYSN[s]);
    for (auto& kw : g_keywords) {
        const auto& k = KW(kw); bool has = false;
        if (!k.hasDimension() || k.isCodeKeyword() || k.rawStringKeyword()) continue;
        for (const auto& rec : k) for (const auto& it : rec) if (it.dataType() == Opm::type_tag::fdouble && it.sizeType() == Opm::ParserItem::item_size::ALL && !it.dimensions().empty()) has = true;
        if (!has) continue;
        for (int s = 0; s < 4; ++s) go("m " + kw + " " + SYSN[s]);
    }
    if (run.shard == 0) {
        run.count("catalogue_keywords", (long long)g_keywords.size());
        run.count("catalogue_dimension_strings", (long long)g_catalogue_dims.size());
        long long items = 0, withdim = 0, kwdim = 0;
        for (auto& kw : g_keywords) { const auto& k = KW(kw); if (k.hasDimension()) ++kwdim; for (const auto& rec : k) for (const auto& it : rec) { ++items; if (!it.dimensions().empty()) ++withdim; } }
        run.count("catalogue_items", items); run.count("catalogue_items_with_dimension", withdim); run.count("catalogue_keywords_with_dimension", kwdim);
        run.count("measures", NMEAS);
    }
    return run.finish();
}
