// C04 — applying an ACTIONX == inlining its keywords at the end of report step n.
// E2: state = (background schedule, sequence of applications); every application is a transition
// executed on the real Schedule::applyAction and compared with a freshly built reference Schedule
// whose deck has the action bodies inlined.
#include "vf.hpp"
#include "canon.hpp"
#include "obs.hpp"
#include "schedgen.hpp"
#include <opm/common/OpmLog/OpmLog.hpp>
#include <opm/input/eclipse/Deck/Deck.hpp>
#include <opm/input/eclipse/EclipseState/EclipseState.hpp>
#include <opm/input/eclipse/Parser/Parser.hpp>
#include <opm/input/eclipse/Python/Python.hpp>
#include <opm/input/eclipse/Schedule/Action/ActionResult.hpp>
#include <opm/input/eclipse/Schedule/Action/ActionX.hpp>
#include <opm/input/eclipse/Schedule/Action/Actions.hpp>
#include <opm/input/eclipse/Schedule/Action/SimulatorUpdate.hpp>
#include <opm/input/eclipse/Schedule/Schedule.hpp>
#include "sched_includes.hpp"
#include <opm/input/eclipse/Schedule/UDQ/UDQConfig.hpp>
#include <opm/input/eclipse/Schedule/UDQ/UDQState.hpp>
#include <opm/input/eclipse/Schedule/SummaryState.hpp>
#include <opm/input/eclipse/EclipseState/Grid/RegionSetMatcher.hpp>
#include <opm/input/eclipse/Schedule/MSW/SegmentMatcher.hpp>

using namespace Opm;
static vf::Run* R;
static Parser* P;
static std::shared_ptr<Python> g_python;
static std::unique_ptr<EclipseState> g_es;

struct Body { std::string name, text; bool wpimult = false; bool shuts_all = false; bool udq_sem = false; };
static std::vector<Body> bodies() {
    return {
        {"WELOPEN_q", "WELOPEN\n '?' SHUT /\n/\n"},
        {"WELOPEN_q_open", "WELOPEN\n '?' OPEN /\n/\n"},
        {"WELOPEN_P1", "WELOPEN\n 'P1' SHUT /\n/\n"},
        {"WELOPEN_q_conn", "WELOPEN\n '?' SHUT 0 0 2 /\n/\n"},
        {"WELOPEN_q_allconn", "WELOPEN\n '?' SHUT 0 0 0 /\n/\n", false, true},
        {"WELTARG_q", "WELTARG\n '?' ORAT 55 /\n/\n"},
        {"WELTARG_q_bhp", "WELTARG\n '?' BHP 66 /\n/\n"},
        {"WCONPROD_q", "WCONPROD\n '?' OPEN LRAT 1* 1* 1* 333 1* 40 /\n/\n"},
        {"WCONINJE_I1", "WCONINJE\n 'I1' WATER OPEN RATE 321 1* 480 /\n/\n"},
        {"WCONINJE_q_asI2", "WCONINJE\n '?' WATER OPEN RATE 150 1* 450 /\n/\n"},      // bodies that leave ONE of the matched wells exactly as it is
        {"WCONPROD_q_asP2", "WCONPROD\n '?' OPEN ORAT 120 4* 60 /\n/\n"},
        {"WELTARG_q_asP2", "WELTARG\n '?' ORAT 120 /\n/\n"},
        {"WEFAC_q_one", "WEFAC\n '?' 1.0 /\n/\n"},
        {"WEFAC_q", "WEFAC\n '?' 0.7 /\n/\n"},
        {"GCONPROD", "GCONPROD\n 'G1' ORAT 1000 /\n/\n"},
        {"GCONINJE", "GCONINJE\n 'G2' WATER RATE 500 /\n/\n"},
        {"WELSPECS_new", "WELSPECS\n 'P3' 'G2' 2 3 1* OIL /\n/\nCOMPDAT\n 'P3' 2 3 1 1 OPEN 1* 1* 0.2 /\n/\n"},
        {"WELSPECS_regroup", "WELSPECS\n 'P1' 'G2' 1 1 1* OIL /\n/\n"},
        {"COMPDAT_P1", "COMPDAT\n 'P1' 1 1 2 2 OPEN 1* 33.0 0.3 /\n/\n"},
        {"COMPDAT_q_new", "COMPDAT\n '?' 3 1 1 1 OPEN 1* 1* 0.25 /\n/\n"},
        {"COMPDAT_q_range", "COMPDAT\n '?' 3 2 1 3 OPEN 1* 1* 0.25 /\n/\n"},
        {"COMPDAT_P2_range_dirX", "COMPDAT\n 'P2' 1 3 2 3 OPEN 1* 1* 0.3 3* X /\n/\n"},
        {"COMPDAT_P2_shut_all", "COMPDAT\n 'P2' 2 2 1 2 SHUT 1* 1* 0.2 /\n/\n", false, true},     // no affected_wells entry: only end_report() shuts the well
        {"COMPDAT_q_shut_head", "COMPDAT\n '?' 0 0 1 3 SHUT 1* 1* 0.2 /\n/\n", false, true},
        {"COMPLUMP_P1", "COMPLUMP\n 'P1' 1 1 1 2 1 /\n/\n"},
        {"WPIMULT_q", "WPIMULT\n '?' 2.0 /\n/\n", true},
        {"WLIST", "WLIST\n '*L1' NEW P1 P2 /\n/\n"},
        {"UDQ_assign", "UDQ\n ASSIGN WUX 3.0 /\n/\n"},
        {"UDQ_define", "UDQ\n DEFINE FUY FOPR * 2 /\n/\n"},
        // '?' in a well-level ASSIGN: applyAction stores ONE record carrying the matching-well list, the inlined text one record
        // per well; the udq member is therefore compared by what it EVALUATES to at every report step (udq_trace), all other members canonically
        {"UDQ_assign_q", "UDQ\n ASSIGN WUX '?' 5.0 /\n/\n", false, false, true},
        {"UDQ_assign_q_then_all", "UDQ\n ASSIGN WUX '?' 6.0 /\n ASSIGN WUZ 2.0 /\n/\n", false, false, true},
        {"GRUPTREE", "GRUPTREE\n 'G3' 'G1' /\n/\n"},
        {"WTMULT_q", "WTMULT\n '?' ORAT 0.5 /\n/\n"},
        {"WGRUPCON_q", "WGRUPCON\n '?' YES 1.5 OIL /\n/\n"},
        {"WECON_q", "WECON\n '?' 10 1* 0.9 2* WELL /\n/\n"},
        {"WTEST_q", "WTEST\n '?' 10 PE 3 /\n/\n"},
        {"NEXTSTEP", "NEXTSTEP\n 5 /\n"},
        {"MULTX", "MULTX\n 27*0.5 /\n"},
        {"BOX_MULTZ", "BOX\n 1 2 1 2 1 1 /\nMULTZ\n 4*0.25 /\nENDBOX\n"},
        {"two_keywords", "WELTARG\n '?' ORAT 44 /\n/\nWEFAC\n '?' 0.6 /\n/\n"},
    };
}
// background events placed in the input schedule (block index given separately)
static std::vector<std::pair<std::string, std::string>> background() {
    return {
        {"none", ""},
        {"WCONPROD_P1", "WCONPROD\n 'P1' OPEN ORAT 77 4* 50 /\n/\n"},
        {"WELOPEN_P2_open", "WELOPEN\n 'P2' OPEN /\n/\n"},
        {"WELOPEN_P1_conn", "WELOPEN\n 'P1' SHUT 0 0 1 /\n/\n"},
        {"GCONPROD_G1", "GCONPROD\n 'G1' LRAT 1* 1* 1* 800 /\n/\n"},
        {"COMPDAT_P2", "COMPDAT\n 'P2' 2 2 3 3 OPEN 1* 1* 0.25 /\n/\n"},
        {"WELSPECS_P4", "WELSPECS\n 'P4' 'G1' 3 1 1* OIL /\n/\nCOMPDAT\n 'P4' 3 1 1 2 OPEN 1* 1* 0.2 /\n/\nWCONPROD\n 'P4' OPEN ORAT 10 4* 50 /\n/\n"},
        {"WEFAC_P2", "WEFAC\n 'P2' 0.9 /\n/\n"},
        {"UDQ", "UDQ\n ASSIGN WUX 1.0 /\n/\n"},
    };
}

static std::vector<std::string> as_set(const std::vector<std::string>& w) { std::vector<std::string> o; for (auto& x : w) if (std::find(o.begin(), o.end(), x) == o.end()) o.push_back(x); return o; }
static std::string subst(const std::string& body, const std::vector<std::string>& wells_in) {
    const std::vector<std::string> wells = as_set(wells_in);
    std::string out; std::istringstream is(body); std::string line;
    while (std::getline(is, line)) { auto p = line.find("'?'"); if (p == std::string::npos) { out += line + "\n"; continue; } for (auto& w : wells) { std::string l = line; l.replace(p, 3, "'" + w + "'"); out += l + "\n"; } }
    return out;
}
static const char* months[] = {"FEB", "MAR", "APR", "MAY", "JUN"};
static const int NSTEPS = 4;       // DATES keywords => report steps 0..4

struct App { int action; int n; int mset; };   // action index (0: A1, 1: A2), report step, matching set index
static const std::vector<std::vector<std::string>> msets = {{}, {"P1"}, {"P2"}, {"I1"}, {"P1", "P2"}, {"P1", "I1"}, {"P2", "I1"}, {"P1", "P2", "I1"}, {"I1", "I2"}, {"P1", "P2", "I1", "I2"}, {"I2", "I1"},
    {"P1", "P1", "P2"}, {"P1", "P2", "P2"}, {"P2", "P1", "P1"}};     // a well named twice: matching wells are a SET, the body is substituted once per well

// deck: prelude, ACTIONX definitions (A1 with body b1, A2 with body b2), background events bg1 in block 1 and bg2 in block 2,
// and for the reference: inl[k] inserted at the end of block k
static std::string make_deck(const std::string& b1, const std::string& b2, const std::string& bg1, const std::string& bg2, const std::vector<std::string>& inl) {
    std::string s = schedgen::base_deck() + schedgen::prelude_wells();
    // a second injector, so that one '?' record can expand to two injectors of which one already has the requested controls
    s += "WELSPECS\n 'I2' 'G1' 1 3 1* WATER /\n/\nCOMPDAT\n 'I2' 1 3 1 2 OPEN 1* 1* 0.2 /\n/\nWCONINJE\n 'I2' WATER OPEN RATE 150 1* 450 /\n/\n";
    s += "ACTIONX\n A1 10 /\n FOPR > 0 /\n/\n" + b1 + "ENDACTIO\n";
    if (!b2.empty()) s += "ACTIONX\n A2 10 /\n FOPR > 0 /\n/\n" + b2 + "ENDACTIO\n";
    for (int k = 0; k <= NSTEPS; ++k) {
        if (k == 1) s += bg1;
        if (k == 2) s += bg2;
        if (k < (int)inl.size()) s += inl[k];
        if (k < NSTEPS) s += std::string("DATES\n 1 ") + months[k] + " 2020 /\n/\n";
    }
    return s + "END\n";
}
static std::unique_ptr<Schedule> build(const std::string& deck) {
    try { auto d = P->parseString(deck); return std::make_unique<Schedule>(d, *g_es, g_python); } catch (const std::exception&) { return nullptr; }
}
static std::string first_diff(const std::string& a, const std::string& b) { size_t p = 0; while (p < a.size() && p < b.size() && a[p] == b[p]) ++p; size_t s = p > 100 ? p - 100 : 0; return "…" + a.substr(s, 220) + "  VS  …" + b.substr(s, 220); }
static const char* member_name(int i) {
    static const char* n[] = {"gconsale","gconsump","gecon","guide_rate","wlist_manager","well_order","group_order","actions","udq","udq_active","pavg","wtest_config","glo","network","network_balance","rescoup","rpt_config","rft_config","rst_config","bhp_defaults","source","vfpprod","vfpinj","groups","wells","aqufluxs","bcprop","target_wellpi","next_tstep","start_time","end_time","sim_step","month_num","year_num","first_in_year","first_in_month","save_step","tuning","nupcol","oilvap","events","wellgroup_events","geo_keywords","message_limits","whistctl_mode","sumthin","rptonly"};
    return (i >= 0 && i < (int)(sizeof n / sizeof *n)) ? n[i] : "member?";
}


// what the UDQ configurations of a schedule evaluate to: WUX/WUZ of every well and FUY after UDQConfig::eval of every report step, on fresh state objects
static std::string udq_trace(const Schedule& S) {
    SummaryState st(TimeService::from_time_t(S.getStartTime()), 0.0); UDQState us(S.getUDQConfig(0).params().undefinedValue());
    st.update("FOPR", 3.0);
    std::string t;
    // UDQConfig::eval consumes the (mutable) list of pending assignments: evaluate COPIES, one per distinct configuration object, so that
    // states sharing one configuration share one copy (as a simulation run does) and the schedule under test is left untouched
    std::map<const UDQConfig*, UDQConfig> copies;
    for (size_t r = 1; r < S.size(); ++r) {
        const UDQConfig* orig = &S.getUDQConfig(r - 1);
        auto it = copies.find(orig); if (it == copies.end()) it = copies.emplace(orig, *orig).first;
        try { it->second.eval(r, S.wellMatcher(r), S.segmentMatcherFactory(r), []() { return std::unique_ptr<RegionSetMatcher>{}; }, st, us); }
        catch (const std::exception& e) { t += "step " + std::to_string(r) + ": eval throws " + std::string(e.what()).substr(0, 80) + "; "; continue; }
        t += "step " + std::to_string(r) + ":";
        for (const auto& wn : S.wellNames(r)) for (const char* q : {"WUX", "WUZ"}) t += std::string(" ") + wn + "." + q + "=" + (us.has_well_var(wn, q) ? vf::fmt17(us.get_well_var(wn, q)) : std::string("-")) + "/" + (st.has_well_var(wn, q) ? vf::fmt17(st.get_well_var(wn, q)) : std::string("-"));
        t += std::string(" FUY=") + (us.has("FUY") ? vf::fmt17(us.get("FUY")) : std::string("-")) + "; ";
    }
    return t;
}

// runs one case: background (bg1,bg2), bodies (b1,b2), application sequence
static void run_case(const std::vector<Body>& B, int ib1, int ib2, int ibg1, int ibg2, const std::vector<App>& apps, const std::string& casestr) {
    static auto BG = background();
    R->current(casestr);
    const std::string t1 = B[ib1].text, t2 = ib2 >= 0 ? B[ib2].text : "";
    auto S = build(make_deck(t1, t2, BG[ibg1].second, BG[ibg2].second, {}));
    if (!S) { R->count("base_schedules_rejected"); return; }
    std::vector<std::string> pre_canon, pre_obs;
    for (size_t k = 0; k < S->size(); ++k) { pre_canon.push_back(vf::canon((*S)[k])); pre_obs.push_back(obs::sched_state(*S, k)); }
    std::vector<std::string> inl(NSTEPS + 1);
    std::string rp = "{\"case\": " + vf::jstr(casestr) + "}";
    int min_n = 1000; bool wpimult_any = false, shuts_any = false, udq_sem_any = false;
    { std::set<int> wp; for (auto& a : apps) if (B[a.action == 0 ? ib1 : ib2].wpimult) { if (!wp.insert(a.n).second) { R->count("excluded_per_report_step_semantics"); return; } } }
    for (size_t ai = 0; ai < apps.size(); ++ai) {
        const App& a = apps[ai];
        const Body& body = B[a.action == 0 ? ib1 : ib2];
        const std::string aname = a.action == 0 ? "A1" : "A2";
        const bool hasq = body.text.find("'?'") != std::string::npos;
        const auto& M = msets[hasq ? a.mset : 0];
        R->evaluations++; R->transitions++;
        try {
            const auto& act = (*S)[a.n].actions()[aname];
            auto res = Action::Result{true}.wells(M);
            S->applyAction(a.n, act, res.matches(), std::unordered_map<std::string, double>{});
        } catch (const std::exception& e) {
            // the reference must be rejected as well
            inl[a.n] += subst(body.text, M);
            auto Rf = build(make_deck(t1, t2, BG[ibg1].second, BG[ibg2].second, inl));
            if (Rf) R->violation("C04:apply-throws-but-inlined-deck-builds:" + body.name, "applyAction(" + std::to_string(a.n) + "," + aname + "," + std::to_string(M.size()) + " wells) throws (" + std::string(e.what()).substr(0, 150) + ") but the deck with the body inlined builds; case " + casestr, rp);
            else R->count("applications_rejected_like_reference");
            return;
        }
        // statement exceptions (per-report-step semantics): once a WPIMULT body or a body shutting all connections has been
        // applied, a FURTHER application sees that step as closed while the inlined text does not -> not comparable
        if (ai > 0 && (wpimult_any || shuts_any)) { R->count("excluded_per_report_step_semantics"); return; }
        inl[a.n] += subst(body.text, M);
        min_n = std::min(min_n, a.n);
        wpimult_any |= body.wpimult; shuts_any |= body.shuts_all; udq_sem_any |= body.udq_sem;
        auto Rf = build(make_deck(t1, t2, BG[ibg1].second, BG[ibg2].second, inl));
        if (!Rf) { R->violation("C04:inlined-deck-rejected:" + body.name, "applyAction succeeded but the deck with the body inlined is rejected; case " + casestr, rp); return; }
        if (S->size() != Rf->size()) { R->violation("C04:number-of-steps:" + body.name, "schedule has " + std::to_string(S->size()) + " states after applyAction, reference " + std::to_string(Rf->size()) + "; case " + casestr, rp); return; }
        const std::string tag = body.name + (ai > 0 ? ":seq" : "");
        for (size_t k = 0; k < S->size(); ++k) {
            if ((int)k < min_n) {
                // states before the earliest application: untouched
                std::string c = vf::canon((*S)[k]);
                if (c != pre_canon[k]) R->violation("C04:earlier-state-changed:" + tag + ":" + member_name(vf::first_diff_member(pre_canon[k], c)), "state " + std::to_string(k) + " < n=" + std::to_string(a.n) + " changed by applyAction: " + first_diff(pre_canon[k], c) + "; case " + casestr, rp);
                else if (obs::sched_state(*S, k) != pre_obs[k]) R->violation("C04:earlier-state-queries-changed:" + tag, "state " + std::to_string(k) + " < n answers public queries differently after applyAction; case " + casestr, rp);
                continue;
            }
            // statement exception: automatic shut-in of a well whose connections are all shut sees step n as already closed
            bool at_an_application_step = false; for (size_t q = 0; q <= ai; ++q) if (apps[q].n == (int)k) at_an_application_step = true;
            if (at_an_application_step && shuts_any) { R->count("excluded_per_report_step_semantics"); continue; }
            ScheduleState x = (*S)[k], y = (*Rf)[k];
            if (at_an_application_step) {
                // "state n differs only by the action event marker": the marker bit is removed on both sides, every other event must agree
                x.events().clearEvent(ScheduleEvents::ACTIONX_WELL_EVENT); y.events().clearEvent(ScheduleEvents::ACTIONX_WELL_EVENT);
                for (const auto& wn : S->wellNames(k)) { x.wellgroup_events().clearEvent(wn, ScheduleEvents::ACTIONX_WELL_EVENT); y.wellgroup_events().clearEvent(wn, ScheduleEvents::ACTIONX_WELL_EVENT); }
            }
            if (body.udq_sem || udq_sem_any) {
                // representation of a '?' assignment differs by design (see bodies()): compare by evaluation, then take the member out of the canonical comparison
                if (k + 1 == S->size()) { const std::string tx = udq_trace(*S), ty = udq_trace(*Rf); R->count("udq_traces_compared"); if (tx != ty) { R->violation("C04:udq-evaluates-differently:" + tag, "UDQ values after applyAction(n=" + std::to_string(a.n) + ") differ from the inlined reference: " + first_diff(tx, ty) + "; case " + casestr, rp); break; } }
                if (M.empty() && x.udq().size() > y.udq().size()) R->violation("C04:udq-node-without-assignment:empty-matching-set", "state " + std::to_string(k) + ": UDQ ASSIGN of a well quantity with '?' and NO matching wells registers the quantity (" + std::to_string(x.udq().size()) + " quantities, no assignment record) where the inlined text defines nothing (" + std::to_string(y.udq().size()) + "); case " + casestr, rp);
                else if (x.udq().size() != y.udq().size()) { R->violation("C04:udq-quantity-count:" + tag, "state " + std::to_string(k) + ": " + std::to_string(x.udq().size()) + " UDQ quantities after applyAction, reference " + std::to_string(y.udq().size()) + "; case " + casestr, rp); break; }
                x.udq.update(y.udq());
            }
            std::string cx = vf::canon(x), cy = vf::canon(y);
            if (cx != cy) { R->violation(std::string("C04:") + (at_an_application_step ? "state-n" : "later-state") + "-differs:" + tag + ":" + member_name(vf::first_diff_member(cx, cy)), "state " + std::to_string(k) + " after applyAction(n=" + std::to_string(a.n) + ") differs from the inlined reference: " + first_diff(cx, cy) + "; case " + casestr, rp); break; }
            if (!at_an_application_step) { std::string ox = obs::sched_state(*S, k), oy = obs::sched_state(*Rf, k);
                if (body.udq_sem || udq_sem_any) { for (std::string* o : {&ox, &oy}) { auto p1 = o->find(" udq:"), p2 = o->find(" udq_active"); if (p1 != std::string::npos && p2 != std::string::npos && p2 > p1) o->erase(p1, p2 - p1); } }    // record layout of '?' assignments: compared by udq_trace instead
                if (ox != oy) { R->violation("C04:later-state-queries-differ:" + tag, "state " + std::to_string(k) + " answers public queries differently from the inlined reference: " + first_diff(ox, oy) + "; case " + casestr, rp); break; } }
        }
        R->observe(vf::fnv(vf::canon((*S)[S->size() - 1]), vf::fnv(casestr.substr(0, casestr.find('|')))));
    }
}

int main(int argc, char** argv) {
    vf::Run run("C04", argc, argv); R = &run;
    OpmLog::removeAllBackends();
    Parser parser; P = &parser; g_python = std::make_shared<Python>();
    { auto bd = parser.parseString(schedgen::base_deck() + "END\n"); g_es = std::make_unique<EclipseState>(bd); }
    auto B = bodies(); auto BG = background();
    run.rule = "base: 3x3x3 model, wells P1/P2/I1 in groups G1/G2, 4 DATES; ACTIONX bodies from a " + std::to_string(B.size()) + "-entry action-legal alphabet; single applications: every body x every report step n in 0..4 x every matching set of {P1,P2,I1} x every pair of background events (" + std::to_string(BG.size()) + "^2) in blocks 1 and 2; sequences: every ordered pair of bodies (A1,A2) x every (n1<=n2) x matching sets {P1},{P1,P2} on the plain background" + (run.thorough() ? " and every triple of applications" : "") + "; reference = fresh Schedule of the deck with the bodies inlined at the end of block n; oracle: states < n unchanged, state n equal modulo event markers, states > n equal (canon + public queries)";
    run.assumptions = {"bodies with WPIMULT and bodies shutting all connections are compared only where the statement does (per-report-step semantics excluded, counted)", "wellpi argument empty (WELPI not in the alphabet)", "canon() normalisations of DESIGN 2.5"};

    if (!run.replay_path.empty()) {
        // "b1 b2 bg1 bg2 | a n m ; a n m"
        std::istringstream ss(run.replay_path); int b1, b2, g1, g2; std::string bar; ss >> b1 >> b2 >> g1 >> g2 >> bar; std::vector<App> apps; int a, n, m; char sc;
        while (ss >> a >> n >> m) { apps.push_back({a, n, m}); ss >> sc; }
        run_case(B, b1, b2, g1, g2, apps, run.replay_path);
        return run.finish();
    }
    // single applications
    for (int b = 0; b < (int)B.size(); ++b) {
        const bool hasq = B[b].text.find("'?'") != std::string::npos;
        for (int g1 = 0; g1 < (int)BG.size(); ++g1) for (int g2 = 0; g2 < (int)BG.size(); ++g2) {
            if (run.quick() && g1 != 0 && g2 != 0 && g1 != g2) continue;        // quick: backgrounds with <= 1 distinct event kind
            for (int n = 0; n <= NSTEPS; ++n) for (int m = 0; m < (hasq ? (int)msets.size() : 1); ++m) {
                if (!run.mine()) continue;
                if (run.timed_out()) break;
                std::string cs = std::to_string(b) + " -1 " + std::to_string(g1) + " " + std::to_string(g2) + " | 0 " + std::to_string(n) + " " + std::to_string(m) + " ;";
                run_case(B, b, -1, g1, g2, {{0, n, m}}, cs);
                if (run.samples.size() < 3 && n == 2 && m == 4) run.sample_str("body " + B[b].name + " applied at n=2 to {P1,P2}, background " + BG[g1].first + "/" + BG[g2].first);
            }
        }
    }
    // sequences of two (thorough: three) applications
    const std::vector<int> mm = run.thorough() ? std::vector<int>{1, 4} : std::vector<int>{4};
    for (int b1 = 0; b1 < (int)B.size(); ++b1) for (int b2 = 0; b2 < (int)B.size(); ++b2) {
        for (int n1 = 0; n1 <= NSTEPS; ++n1) for (int n2 = n1; n2 <= NSTEPS; ++n2) for (int m1 : mm) for (int m2 : mm) {
            if (run.quick() && (n2 - n1) > 2) continue;
            if (!run.mine()) continue;
            if (run.timed_out()) break;
            std::string cs = std::to_string(b1) + " " + std::to_string(b2) + " 1 2 | 0 " + std::to_string(n1) + " " + std::to_string(m1) + " ; 1 " + std::to_string(n2) + " " + std::to_string(m2) + " ;";
            run_case(B, b1, b2, 1, 2, {{0, n1, m1}, {1, n2, m2}}, cs);
            if (run.thorough() && (b1 + b2) % 3 == 0) for (int n3 = n2; n3 <= NSTEPS; ++n3) {
                std::string cs3 = cs + " 0 " + std::to_string(n3) + " " + std::to_string(m1) + " ;";
                run_case(B, b1, b2, 1, 2, {{0, n1, m1}, {1, n2, m2}, {0, n3, m1}}, cs3);
            }
        }
    }
    run.states = run.hashes.size();
    run.traces_validated = run.transitions;
    return run.finish();
}
