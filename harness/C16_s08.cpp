// C16 variant TU: unrolled specialisation Evaluation<double,8> (opm/material/densead/Evaluation8.hpp)
#include "C16_impl.hpp"
C16_STATIC_TU(8, "static")
