// C20 — parsing / state construction / result-file readers never crash: bounded mutation
// enumeration (E3 style fault enumeration) of seeds, executed in the ASan+UBSan build in
// forked workers; outcome must be a normal return or a std::exception.
#include "vf.hpp"
#include "deckgen.hpp"
#include <opm/common/OpmLog/OpmLog.hpp>
#include <opm/input/eclipse/EclipseState/EclipseState.hpp>
#include <opm/input/eclipse/EclipseState/Grid/EclipseGrid.hpp>
#include <opm/input/eclipse/EclipseState/SummaryConfig/SummaryConfig.hpp>
#include <opm/input/eclipse/Python/Python.hpp>
#include <opm/input/eclipse/Schedule/Schedule.hpp>
#include <opm/io/eclipse/EclFile.hpp>
#include <opm/io/eclipse/EclOutput.hpp>
#include <opm/io/eclipse/EGrid.hpp>
#include <opm/io/eclipse/ERst.hpp>
#include <opm/io/eclipse/ESmry.hpp>
#include <opm/io/eclipse/OutputStream.hpp>
#include <csignal>
#include <filesystem>
#include <sys/resource.h>

using namespace Opm;
namespace fs = std::filesystem;
static vf::Run* R;
static Parser* P;
static std::string g_dir;

// ---- interposed exit(): the library must not terminate the process under THROW/IGNORE configurations
static volatile int* g_exit_called = nullptr;
extern "C" void exit(int code) { if (g_exit_called) *g_exit_called = 1000 + code; _exit(86); }

struct Seed { std::string name, text; int level; bool binary = false; std::string ext; };   // level 0: parse only; 1: + EclipseState/Schedule/SummaryConfig
static const std::vector<std::string> hostile = {"/", "*", "1*", "0*", "-1*", "99999999999*1", "'", "''", "1e999", "2147483648", "-", "*5", "--", "ABCDEFGHI", std::string(200, 'X'), std::string(1, '\0'), "-5", "1000000"};

struct Mut { char kind; int a, b; };   // D/U/R token (a=token index, b=hostile idx) ; d/u/s line ; t truncate ; x byte (a=offset,b=variant)
static std::string mut_str(int seed, const Mut& m) { return std::to_string(seed) + " " + m.kind + " " + std::to_string(m.a) + " " + std::to_string(m.b); }

// token positions: (begin,end) byte ranges of whitespace separated tokens (quotes respected)
static std::vector<std::pair<size_t, size_t>> token_spans(const std::string& t) {
    std::vector<std::pair<size_t, size_t>> v; size_t i = 0, n = t.size();
    while (i < n) {
        while (i < n && std::isspace((unsigned char)t[i])) ++i;
        if (i >= n) break;
        size_t b = i; bool q = false;
        while (i < n && (q || !std::isspace((unsigned char)t[i]))) { if (t[i] == '\'') q = !q; if (t[i] == '\n') break; ++i; }
        v.push_back({b, i});
    }
    return v;
}
static std::vector<std::pair<size_t, size_t>> line_spans(const std::string& t) { std::vector<std::pair<size_t, size_t>> v; size_t b = 0; for (size_t i = 0; i <= t.size(); ++i) if (i == t.size() || t[i] == '\n') { if (i > b || i < t.size()) v.push_back({b, std::min(i + 1, t.size())}); b = i + 1; } return v; }

static std::vector<Mut> mutations(const Seed& s, bool thorough) {
    std::vector<Mut> m;
    if (s.level == 3 || s.level == 5) { m.push_back({'I', 0, 0}); return m; }
    if (s.level == 7) {          // token / line mutations restricted to the block [ext = "begin:end"] of the text
        size_t b = 0, e = 0; std::sscanf(s.ext.c_str(), "%zu:%zu", &b, &e);
        auto tk = token_spans(s.text);
        for (int i = 0; i < (int)tk.size(); ++i) { if (tk[i].first < b || tk[i].first >= e) continue; m.push_back({'D', i, 0}); m.push_back({'U', i, 0}); for (int h = 0; h < (int)hostile.size(); ++h) m.push_back({'R', i, h}); }
        auto ln = line_spans(s.text);
        for (int i = 0; i < (int)ln.size(); ++i) { if (ln[i].first < b || ln[i].first >= e) continue; m.push_back({'d', i, 0}); m.push_back({'u', i, 0}); if (i + 1 < (int)ln.size()) m.push_back({'s', i, 0}); }
        m.push_back({'I', 0, 0});
        return m;
    }
    if (s.level == 6) { m.push_back({'c', 0, 0}); m.push_back({'c', 1, 0}); return m; }   // root as file / root as string                       // generated SUMMARY sections: run as they are
    if (s.level == 4) { auto ln = line_spans(s.text); for (int i = 1; i < (int)ln.size(); ++i) { m.push_back({'i', i, 0}); m.push_back({'i', i, 1}); } return m; }   // INCLUDE split at every line
    if (s.binary) {
        for (int o = 0; o < (int)s.text.size(); ++o) { for (int v = 0; v < 4; ++v) m.push_back({'x', o, v}); m.push_back({'t', o, 0}); }
        return m;
    }
    auto tk = token_spans(s.text);
    for (int i = 0; i < (int)tk.size(); ++i) { m.push_back({'D', i, 0}); m.push_back({'U', i, 0}); for (int h = 0; h < (int)hostile.size(); ++h) m.push_back({'R', i, h}); }
    auto ln = line_spans(s.text);
    for (int i = 0; i < (int)ln.size(); ++i) { m.push_back({'d', i, 0}); m.push_back({'u', i, 0}); if (i + 1 < (int)ln.size()) m.push_back({'s', i, 0}); }
    int step = (s.level == 1 && !thorough) ? 7 : 1;          // model decks (quick): truncation every 7th byte
    for (int o = 0; o < (int)s.text.size(); o += step) m.push_back({'t', o, 0});
    return m;
}
static std::string apply(const Seed& s, const Mut& m) {
    const std::string& t = s.text;
    switch (m.kind) {
    case 'D': { auto tk = token_spans(t); return t.substr(0, tk[m.a].first) + t.substr(tk[m.a].second); }
    case 'U': { auto tk = token_spans(t); std::string w = t.substr(tk[m.a].first, tk[m.a].second - tk[m.a].first); return t.substr(0, tk[m.a].second) + " " + w + t.substr(tk[m.a].second); }
    case 'R': { auto tk = token_spans(t); return t.substr(0, tk[m.a].first) + hostile[m.b] + t.substr(tk[m.a].second); }
    case 'd': { auto ln = line_spans(t); return t.substr(0, ln[m.a].first) + t.substr(ln[m.a].second); }
    case 'u': { auto ln = line_spans(t); return t.substr(0, ln[m.a].second) + t.substr(ln[m.a].first); }
    case 's': { auto ln = line_spans(t); return t.substr(0, ln[m.a].first) + t.substr(ln[m.a + 1].first, ln[m.a + 1].second - ln[m.a + 1].first) + t.substr(ln[m.a].first, ln[m.a].second - ln[m.a].first) + t.substr(ln[m.a + 1].second); }
    case 'I': case 'i': case 'c': return t;
    case 't': return t.substr(0, m.a);
    case 'x': { std::string r = t; unsigned char c = r[m.a]; r[m.a] = m.b == 0 ? 0x00 : m.b == 1 ? 0xFF : m.b == 2 ? (c ^ 0x80) : (c + 1); return r; }
    }
    return t;
}

// ---- the code under test; returns an outcome hash.  cfg: 0 = every parse error throws, 1 = every parse error ignored
static uint64_t run_text(const std::string& text, int level, int cfg) {
    ParseContext pc; pc.update(cfg == 0 ? InputErrorAction::THROW_EXCEPTION : InputErrorAction::IGNORE);
    ErrorGuard eg;
    try {
        Deck deck = P->parseString(text, pc, eg);
        uint64_t h = vf::fnv("deck" + std::to_string(deck.size()));
        if (level >= 1) {
            // resource guard: a mutant may legitimately ask for a huge grid/tables; that is slow, not a crash
            if (deck.hasKeyword("DIMENS")) { const auto& r = deck["DIMENS"].back().getRecord(0); double n = 1; for (size_t i = 0; i < 3 && i < r.size(); ++i) if (r.getItem(i).hasValue(0)) n *= std::fabs((double)r.getItem(i).get<int>(0)); if (n > 1e5) { eg.clear(); return vf::fnv("resource-heavy"); } }
            EclipseState es(deck);
            Schedule sched(deck, es, pc, eg, std::make_shared<Python>());
            SummaryConfig sc(deck, sched, es.fieldProps(), es.aquifer(), pc, eg);
            h = vf::fnv("state" + std::to_string(sched.size()) + ":" + std::to_string(sc.size()) + ":" + std::to_string(es.getInputGrid().getNumActive()), h);
        }
        eg.clear();
        return h;
    } catch (const std::exception& e) { eg.clear(); return vf::fnv(std::string("exc:") + typeid(e).name() + ":" + std::string(e.what()).substr(0, 40)); }
}
// level 3: SummaryConfig of the model deck with a generated SUMMARY section (EclipseState and Schedule of the model are built once)
static uint64_t run_summary(const std::string& text, int cfg) {
    ParseContext pc; pc.update(cfg == 0 ? InputErrorAction::THROW_EXCEPTION : InputErrorAction::IGNORE);
    ErrorGuard eg;
    static std::unique_ptr<EclipseState> es; static std::unique_ptr<Schedule> sched;
    try {
        Deck deck = P->parseString(text, pc, eg);
        if (!es) { es = std::make_unique<EclipseState>(deck); sched = std::make_unique<Schedule>(deck, *es, pc, eg, std::make_shared<Python>()); }
        SummaryConfig sc(deck, *sched, es->fieldProps(), es->aquifer(), pc, eg);
        SummaryConfig sc2 = sc; sc2.merge(sc);
        uint64_t h = vf::fnv("summary" + std::to_string(sc.size()) + ":" + std::to_string(sc2.size()));
        eg.clear();
        return h;
    } catch (const std::exception& e) { eg.clear(); return vf::fnv(std::string("exc:") + typeid(e).name()); }
}
// level 4: the deck text split over an INCLUDE file at line `cut` (dir 0: head in the include file, dir 1: tail in the include file), read with parseFile
static uint64_t run_include(const std::string& text, int cut, int dir, int cfg) {
    ParseContext pc; pc.update(cfg == 0 ? InputErrorAction::THROW_EXCEPTION : InputErrorAction::IGNORE);
    ErrorGuard eg;
    auto ln = line_spans(text);
    const std::string head = text.substr(0, ln[cut].first), tail = text.substr(ln[cut].first);
    const std::string inc = g_dir + "/part.inc", main = g_dir + "/MAIN.DATA";
    { std::ofstream f(inc, std::ios::trunc); f << (dir == 0 ? head : tail); }
    { std::ofstream f(main, std::ios::trunc); if (dir == 0) f << "INCLUDE\n 'part.inc' /\n" << tail; else f << head << "INCLUDE\n 'part.inc' /\n"; }
    try { Deck deck = P->parseFile(main, pc, eg); eg.clear(); return vf::fnv("inc" + std::to_string(deck.size())); }
    catch (const std::exception& e) { eg.clear(); return vf::fnv(std::string("exc:") + typeid(e).name()); }
}
// level 6: chains of INCLUDE files of chosen sizes.  code = sequence of digits, one per level: the file of level l consists of
// a padding comment of (0, 1, 2, 8, 24 or 200) characters, 'INCLUDE <next> /' and a keyword behind it; the last level is a plain
// keyword.  The root is parsed with parseFile (root a file) or parseString (root a string).  File sizes straddle the small-string
// limit (15/16) and the storage of the input stack grows while outer files are still open.
static uint64_t run_chain(const std::string& code, int root_is_string, int cfg) {
    ParseContext pc; pc.update(cfg == 0 ? InputErrorAction::THROW_EXCEPTION : InputErrorAction::IGNORE);
    ErrorGuard eg;
    static const int pad[] = {0, 1, 2, 8, 24, 200};
    static const char* after[] = {"OIL", "GAS", "WATER", "DISGAS", "VAPOIL", "METRIC", "FIELD", "NOSIM"};
    const int depth = (int)code.size();
    std::string root_text;
    for (int l = depth - 1; l >= 0; --l) {
        const int cls = (code[l] - '0') % 6; const int pz = pad[cls];
        std::string t;
        if (cls >= 2) t += "--" + std::string(pz > 2 ? pz - 2 : 0, 'x') + "\n";      // classes 2..5: a comment line of 2, 8, 24, 200 characters
        if (l + 1 < depth) t += "INCLUDE\n" + std::string(1, char('B' + l)) + "/\n";
        t += std::string(after[l % 2]);                            // OIL / GAS: with the INCLUDE record 14 bytes (class 1) or 15 (class 0)
        if (cls != 1) t += "\n";                                   // class 1: no padding and no final newline
        if (l == 0) root_text = t;
        else { std::ofstream f(g_dir + "/" + std::string(1, char('A' + l)), std::ios::trunc); f << t; }
    }
    const std::string cwd = fs::current_path().string();
    try {
        fs::current_path(g_dir);
        Deck deck = [&] { if (root_is_string) return P->parseString(root_text, pc, eg); std::ofstream(g_dir + "/ROOT.DATA", std::ios::trunc) << root_text; return P->parseFile(g_dir + "/ROOT.DATA", pc, eg); }();
        fs::current_path(cwd);
        eg.clear();
        uint64_t h = vf::fnv("chain" + std::to_string(deck.size()));
        for (const auto& kw : deck) h = vf::fnv(kw.name(), h);
        // every level contributes exactly one keyword, innermost first after the outer ones are resumed
        if ((int)deck.size() != depth) { std::fprintf(stderr, "runtime error: include chain %s gave %d keywords, expected %d /repo/opm/input/eclipse/Parser/Parser.cpp:0\n", code.c_str(), (int)deck.size(), depth); std::abort(); }
        return h;
    } catch (const std::exception& e) { fs::current_path(cwd); eg.clear(); std::fprintf(stderr, "runtime error: include chain %s rejected: %s /repo/opm/input/eclipse/Parser/Parser.cpp:0\n", code.c_str(), e.what()); std::abort(); }
}
static uint64_t run_file(const std::string& bytes, const std::string& ext) {
    const std::string fn = g_dir + "/M." + ext;
    { std::ofstream f(fn, std::ios::binary | std::ios::trunc); f.write(bytes.data(), bytes.size()); }
    uint64_t h = 1;
    auto guard = [&](auto&& fn2) { try { fn2(); h = h * 31 + 1; } catch (const std::exception& e) { h = vf::fnv(std::string(typeid(e).name()), h); } };
    guard([&] { EclIO::EclFile f(fn); f.loadData(); auto l = f.getList(); for (size_t i = 0; i < l.size(); ++i) { auto t = std::get<1>(l[i]); if (t == EclIO::INTE) f.get<int>(i); else if (t == EclIO::REAL) f.get<float>(i); else if (t == EclIO::DOUB) f.get<double>(i); else if (t == EclIO::LOGI) f.get<bool>(i); else if (t == EclIO::CHAR || t == EclIO::C0NN) f.get<std::string>(i); } });
    if (ext == "UNRST" || ext == "FUNRST") guard([&] { EclIO::ERst r(fn); for (int s : r.listOfReportStepNumbers()) { r.loadReportStepNumber(s); for (auto& a : r.listOfRstArrays(s)) { if (std::get<1>(a) == EclIO::INTE) r.getRestartData<int>(std::get<0>(a), s, 0); } } });
    if (ext == "SMSPEC") guard([&] { EclIO::ESmry s(fn); s.loadData(); for (auto& k : s.keywordList()) s.get(k); s.dates(); });
    if (ext == "EGRID") guard([&] { EclIO::EGrid g(fn); g.load_grid_data(); auto d = g.dimension(); std::array<double, 8> X, Y, Z; if (d[0] > 0 && d[0] * d[1] * d[2] < 1000) for (int c = 0; c < d[0] * d[1] * d[2]; ++c) g.getCellCorners(c, X, Y, Z); g.activeCells(); });
    if (ext == "EGRID") guard([&] { EclipseGrid g(fn); g.getNumActive(); if (g.getCartesianSize() < 1000) for (size_t c = 0; c < g.getCartesianSize(); ++c) g.getCellVolume(c); });
    return h;
}

// ---- seeds
static std::string slurp(const std::string& fn) { std::ifstream f(fn, std::ios::binary); std::stringstream ss; ss << f.rdbuf(); return ss.str(); }
static std::vector<Seed> make_seeds(bool thorough) {
    std::vector<Seed> s;
    const std::string root = std::getenv("VERIF_ROOT") ? std::getenv("VERIF_ROOT") : "/verif";
    s.push_back({"MODEL1", slurp(root + "/data/MODEL1.DATA"), 1});
    // catalogue instances: parse only
    auto cat = deckgen::catalogue(*P, 0, nullptr);
    for (auto& in : cat) s.push_back({"kw:" + in.name, in.text(), 0});
    // result files
    const std::string d = g_dir + "/seed"; fs::create_directories(d);
    for (bool fmt : {false, true}) {
        for (int step : {1, 2}) { EclIO::OutputStream::Restart r{EclIO::OutputStream::ResultSet{d, "S"}, step, EclIO::OutputStream::Formatted{fmt}, EclIO::OutputStream::Unified{true}}; r.write("INTEHEAD", std::vector<int>(12, step)); r.write("DOUBHEAD", std::vector<double>{1.5, 2.5}); r.write("LOGIHEAD", std::vector<bool>{true, false, true}); r.write("ZWEL", std::vector<std::string>{"P1", "I1"}); r.write("PRESSURE", std::vector<float>(9, 200.f + step)); }
        s.push_back({fmt ? "FUNRST" : "UNRST", slurp(d + (fmt ? "/S.FUNRST" : "/S.UNRST")), 2, true, fmt ? "FUNRST" : "UNRST"});
    }
    {   // summary: SMSPEC + UNSMRY (the mutated file is the SMSPEC; the UNSMRY sits next to it)
        EclIO::EclOutput sp(g_dir + "/M.SMSPEC", false);
        sp.write("INTEHEAD", std::vector<int>{1, 100}); sp.write("RESTART", std::vector<std::string>(9, "")); sp.write("DIMENS", std::vector<int>{3, 3, 3, 1, 0, -1});
        sp.write("KEYWORDS", std::vector<std::string>{"TIME", "FOPR", "WOPR"}); sp.write("WGNAMES", std::vector<std::string>{":+:+:+:+", "FIELD", "P1"}); sp.write("NUMS", std::vector<int>{0, 0, 1});
        sp.write("UNITS", std::vector<std::string>{"DAYS", "SM3/DAY", "SM3/DAY"}); sp.write("STARTDAT", std::vector<int>{1, 1, 2020, 0, 0, 0});
    }
    {
        EclIO::EclOutput us(g_dir + "/M.UNSMRY", false);
        int ms = 0; for (int rs = 0; rs < 2; ++rs) { us.write("SEQHDR", std::vector<int>{0}); for (int k = 0; k < 2; ++k) { us.write("MINISTEP", std::vector<int>{ms}); us.write("PARAMS", std::vector<float>{1.f + ms, 10.f * ms, 5.f * ms}); ++ms; } }
    }
    s.push_back({"SMSPEC", slurp(g_dir + "/M.SMSPEC"), 2, true, "SMSPEC"});
    {
        auto deck = P->parseString("RUNSPEC\nDIMENS\n 2 2 1 /\nGRID\nDX\n 4*100 /\nDY\n 4*100 /\nDZ\n 4*10 /\nTOPS\n 4*2000 /\nACTNUM\n 1 1 0 1 /\nPORO\n 4*0.3 /\n");
        EclipseGrid g(deck); g.save(d + "/G.EGRID", false, {}, UnitSystem::newMETRIC());
        s.push_back({"EGRID", slurp(d + "/G.EGRID"), 2, true, "EGRID"});
    }
    // generated SUMMARY sections (level 3): every SUMMARY keyword of the parser alone and with TCPU behind it, list items with
    // 1, 2 (thorough 3) entries: node counts on both sides of every boundary of the post-processing of the node list
    {
        const std::string model = slurp(root + "/data/MODEL1.DATA");
        const size_t ps = model.find("\nSUMMARY\n"), pe = model.find("\nSCHEDULE\n");
        if (ps != std::string::npos && pe != std::string::npos) {
            const std::string before = model.substr(0, ps + 9), after = model.substr(pe);
            for (int v = 0; v < (thorough ? 2 : 1); ++v) for (auto& in : deckgen::catalogue(*P, v, nullptr)) {
                const auto& kw = P->getParserKeywordFromDeckName(in.name);
                if (!kw.isValidSection("SUMMARY") || in.freetext || in.lines.empty()) continue;
                // list variants: a record line made of one repeated token -> 1, 2, 3 distinct entries
                std::vector<std::string> bodies;
                std::string plain; for (size_t l = 1; l < in.lines.size(); ++l) plain += in.lines[l] + "\n";
                for (size_t p2 = 0; (p2 = plain.find("'ABC'", p2)) != std::string::npos; ) plain.replace(p2, 5, "'P1'");
                bodies.push_back(plain);
                if (v == 0 && in.lines.size() >= 2) {
                    auto tk = deckgen::tokens(in.lines[1]);
                    if (tk.size() >= 3 && tk.back() == "/" && tk[0] == tk[1]) {
                        const bool str = tk[0][0] == '\'';
                        const char* names[] = {"'P1'", "'P2'", "'I1'"};
                        for (int n = 1; n <= (thorough ? 3 : 2); ++n) { std::string b = " "; for (int q = 0; q < n; ++q) b += (str ? std::string(names[q]) : std::to_string(q + 1)) + " "; b += "/\n"; for (size_t l = 2; l < in.lines.size(); ++l) b += in.lines[l] + "\n"; bodies.push_back(b); }
                    }
                }
                int bi = 0;
                for (auto& b : bodies) for (int tail = 0; tail < 2; ++tail) { s.push_back({"summary:" + in.name + ":" + std::to_string(v) + ":" + std::to_string(bi) + ":" + std::to_string(tail), before + in.lines[0] + "\n" + b + (tail ? "TCPU\n" : "") + after, 3}); }
                ++bi;
            }
        }
    }
    // grid property operations (level 1: full EclipseState): every operation keyword x every (target, source) pair over arrays of all
    // storage kinds (global storage: PERM*, MULTZ, MULTZ-, MINPVV; local double; integer; defined / not yet defined / not valid in the
    // section), at the end of the GRID section (region arrays FLUXNUM/MULTNUM/OPERNUM defined first)
    {
        const std::string model = slurp(root + "/data/MODEL1.DATA");
        const size_t pe = model.find("\nEDIT\n");
        if (pe != std::string::npos) {
            const std::string before = model.substr(0, pe + 1) + "FLUXNUM\n 27*1 /\nMULTNUM\n 13*1 14*2 /\nOPERNUM\n 27*1 /\n", after = model.substr(pe + 1);
            const std::vector<std::string> arr = {"PERMX", "PERMY", "PERMZ", "MULTZ", "MULTZ-", "MINPVV", "PORO", "NTG", "MULTX", "DZ", "ACTNUM", "FLUXNUM", "SATNUM", "SWATINIT"};
            auto add = [&](const std::string& name, const std::string& kwtext) { s.push_back({"fieldop:" + name, before + kwtext + after, 5}); };
            for (auto& a : arr) {
                for (const char* op : {"ADD", "MULTIPLY", "EQUALS", "MINVALUE", "MAXVALUE"}) { add(std::string(op) + ":" + a, std::string(op) + "\n " + a + " 2 /\n/\n"); add(std::string(op) + "-box:" + a, std::string(op) + "\n " + a + " 2 1 2 1 2 1 1 /\n/\n"); }
                for (const char* op : {"EQUALREG", "ADDREG", "MULTIREG"}) for (const char* rg : {"F", "M", "O"}) add(std::string(op) + ":" + a + ":" + rg, std::string(op) + "\n " + a + " 2 1 " + rg + " /\n/\n");
                for (auto& b : arr) {
                    add("COPY:" + a + ":" + b, "COPY\n " + a + " " + b + " /\n/\n");
                    add("COPY-box:" + a + ":" + b, "COPY\n " + a + " " + b + " 1 2 1 2 1 1 /\n/\n");
                    add("OPERATE:" + a + ":" + b, "OPERATE\n " + a + " 1 3 1 3 1 3 MULTX " + b + " 2.0 1.0 /\n/\n");
                    add("COPYREG:" + a + ":" + b, "COPYREG\n " + a + " " + b + " 1 M /\n/\n");
                    add("OPERATER:" + a + ":" + b, "OPERATER\n " + a + " 1 MULTX " + b + " 2.0 /\n/\n");
                }
            }
        }
    }
    // the model deck with VFPPROD / VFPINJ tables (2 x 2 x 1 x 1 x 2 resp. 2 x 2 values) in its SCHEDULE section; every token and
    // line mutation inside the table block (record lengths against axis lengths, indices against axis counts)
    {
        const std::string model = slurp(root + "/data/MODEL1.DATA");
        const size_t ps = model.find("\nSCHEDULE\n");
        if (ps != std::string::npos) {
            const std::string before = model.substr(0, ps + 10);
            const std::string block = "VFPPROD\n 5 2000 LIQ WCT GOR THP ' ' METRIC BHP /\n 1 10 /\n 20 40 /\n 0.2 /\n 100 /\n 0 /\n 1 1 1 1 50 60 /\n 2 1 1 1 70 80 /\nVFPINJ\n 6 2000 WAT THP METRIC BHP /\n 1 10 /\n 20 40 /\n 1 150 160 /\n 2 170 180 /\n";
            Seed sd{"model+vfp", before + block + model.substr(ps + 10), 7};
            sd.ext = std::to_string(before.size()) + ":" + std::to_string(before.size() + block.size());
            s.push_back(sd);
        }
    }
    // INCLUDE chains of depth 1..5 with every combination of file-size classes (level 6)
    for (int depth = 1; depth <= (thorough ? 5 : 4); ++depth) {
        std::string code(depth, '0');
        while (true) {
            s.push_back({"include-chain:" + code, code, 6});
            int q = depth - 1; while (q >= 0 && code[q] == '5') { code[q] = '0'; --q; }
            if (q < 0) break;
            ++code[q];
        }
    }
    // the model deck split over an INCLUDE file at every line, both directions (level 4)
    s.push_back({"include-split:MODEL1", slurp(root + "/data/MODEL1.DATA"), 4});
    return s;
}

struct Shared { volatile long idx; volatile int exit_called; volatile int foreign; volatile uint64_t outcome[1]; };

int main(int argc, char** argv) {
    vf::Run run("C20", argc, argv); R = &run;
    OpmLog::removeAllBackends();
    Parser parser; P = &parser;
    const char* sc = std::getenv("VERIF_SCRATCH");
    g_dir = std::string(sc ? sc : "/tmp") + "/C20." + std::to_string(getpid()); fs::create_directories(g_dir);
    run.rule = "seeds: a complete model deck (parse + EclipseState + Schedule + SummaryConfig), the same deck with its SUMMARY section replaced by every SUMMARY keyword of the parser alone / followed by TCPU / with 1..3 list entries (SummaryConfig + merge), the same deck split over an INCLUDE file at every line in both directions (parseFile), the model deck with VFPPROD/VFPINJ tables and every token/line mutation inside the table block, chains of INCLUDE files of depth 1..4 (thorough 5) with every combination of 6 file-size classes per level (0..200 padding bytes, with/without final newline; root as file and as string; the parsed deck must hold one keyword per level), the same deck with every grid-property operation keyword x (target, source) pair over 14 arrays of all storage kinds appended to its GRID section (EclipseState), one synthesised instance per parser deck name (parse), generated UNRST/FUNRST/SMSPEC+UNSMRY/EGRID files (EclFile/ERst/ESmry/EGrid/EclipseGrid readers); mutations, every single one at every site: token delete/duplicate/replace by each of " + std::to_string(hostile.size()) + " hostile tokens, line drop/duplicate/swap, truncation at every byte (model deck quick: every 7th), for files every byte x {0x00,0xFF,bit7,+1} and truncation at every offset; two ParseContext configurations (all errors THROW / all IGNORE); executed in the ASan+UBSan build in forked workers; oracle: normal return or std::exception - any signal, sanitizer report, foreign exception, exit() or timeout is a violation keyed by (kind, first /repo frame)";
    run.assumptions = {"'any byte string' is claimed for the single-mutation neighbourhood of the seeds only", "mutants that enlarge DIMENS beyond 1e5 cells are classified resource-heavy and not constructed", "per-case time limit 20 s in the sanitizer build, re-run alone with 150 s before being called a hang; a mutant that replaces a token by 1000000 or a 99999999999-fold repeat and still exceeds it is classified resource-heavy (counted), like mutants enlarging DIMENS"};

    auto seeds = make_seeds(run.thorough());
    // validate seeds
    for (auto& s : seeds) if (s.binary) { /* readers must accept the unmutated seed */ }

    // case list of this shard
    struct Case { int seed; Mut m; int cfg; };
    std::vector<Case> cases;
    if (!run.replay_path.empty()) {
        std::istringstream ss(run.replay_path); int sd, a, b, cfg; char k; ss >> sd >> k >> a >> b >> cfg; cases.push_back({sd, {k, a, b}, cfg});
    } else {
        const char* only = std::getenv("C20_ONLY");
        for (int si = 0; si < (int)seeds.size(); ++si) {
            if (only && std::string(only) == "model" && seeds[si].level != 1) continue;
            if (only && std::string(only) == "kw" && !(seeds[si].level == 0 && !seeds[si].binary)) continue;
            if (only && std::string(only) == "file" && !seeds[si].binary) continue;
            auto ms = mutations(seeds[si], run.thorough());
            for (auto& m : ms) for (int cfg = 0; cfg < (seeds[si].binary ? 1 : 2); ++cfg) {
                // quick tier: catalogue instances get the token mutations under the THROW configuration only
                if (run.quick() && seeds[si].level == 0 && !seeds[si].binary && (cfg == 1 || !(m.kind == 'D' || m.kind == 'U' || m.kind == 'R'))) continue;
                if (run.quick() && seeds[si].level == 3 && cfg == 1) continue;          // quick: generated SUMMARY sections under the THROW configuration only
                if (run.mine()) cases.push_back({si, m, cfg});
            }
        }
    }
    const size_t N = cases.size();
    Shared* sh = (Shared*)mmap(nullptr, sizeof(Shared) + 8 * (N + 1), PROT_READ | PROT_WRITE, MAP_SHARED | MAP_ANONYMOUS, -1, 0);
    g_exit_called = &sh->exit_called;
    const std::string errfile = g_dir + "/child.err";
    size_t next = 0; const int LIM1 = 20, LIM2 = 150; int limit = LIM1;
    std::set<size_t> retried;
    while (next < N) {
        if (run.timed_out()) break;
        sh->idx = (long)next; sh->exit_called = 0; sh->foreign = 0;
        pid_t pid = fork();
        if (pid == 0) {
            int fd = ::open(errfile.c_str(), O_WRONLY | O_CREAT | O_TRUNC, 0644); dup2(fd, 2); dup2(fd, 1);
            for (size_t i = next; i < N; ++i) {
                sh->idx = (long)i; alarm(limit);
                const Case& c = cases[i]; const Seed& s = seeds[c.seed];
                try { std::string t = apply(s, c.m); sh->outcome[i] = s.binary ? run_file(t, s.ext) : s.level == 3 ? run_summary(t, c.cfg) : s.level == 4 ? run_include(s.text, c.m.a, c.m.b, c.cfg) : s.level == 6 ? run_chain(s.text, c.m.a, c.cfg) : s.level == 7 ? run_text(t, 1, c.cfg) : run_text(t, s.level == 5 ? 1 : s.level, c.cfg); }
                catch (...) { sh->foreign = 1; _exit(87); }
                if (limit != LIM1) break;        // a retried case runs alone
            }
            _exit(0);
        }
        int st = 0; waitpid(pid, &st, 0);
        size_t done = (size_t)sh->idx;
        bool clean = WIFEXITED(st) && WEXITSTATUS(st) == 0;
        size_t upto = clean ? (limit != LIM1 ? next + 1 : N) : done;
        for (size_t i = next; i < upto && i < N; ++i) { run.evaluations++; run.observe(vf::fnv(std::to_string(cases[i].seed) + ":" + cases[i].m.kind, sh->outcome[i])); }
        if (clean) { if (limit != LIM1) { limit = LIM1; next = next + 1; } else next = N; continue; }
        // the child died while executing case `done`
        const Case& c = cases[done]; const Seed& s = seeds[c.seed];
        std::string cs = mut_str(c.seed, c.m) + " " + std::to_string(c.cfg);
        std::string err = slurp(errfile);
        std::string kind, frame;
        if (WIFSIGNALED(st) && WTERMSIG(st) == SIGALRM) {
            const bool inflating = c.m.kind == 'R' && (hostile[c.m.b] == "1000000" || hostile[c.m.b] == "99999999999*1");
            if (inflating && run.quick()) { run.count("resource_heavy_timeouts"); run.evaluations++; limit = LIM1; next = done + 1; continue; }   // quick: no long retry for size-inflating mutants
            if (!retried.count(done)) { retried.insert(done); limit = LIM2; next = done; run.count("timeouts_retried"); continue; }
            // a mutant that replaces a count by 1000000 (or a 99999999999-fold repeat) legitimately asks for a huge amount of work:
            // slow, not a hang (cf. the DIMENS guard); everything else that exceeds the long limit is reported
            if (inflating) { run.count("resource_heavy_timeouts"); run.evaluations++; limit = LIM1; next = done + 1; continue; }
            kind = "hang";
        } else if (sh->foreign) kind = "foreign-exception";
        else if (sh->exit_called) kind = "exit-called";
        else if (err.find("AddressSanitizer") != std::string::npos) { size_t p = err.find("AddressSanitizer: "); size_t e = err.find_first_of(" \n", p + 18); kind = "asan-" + err.substr(p + 18, e - p - 18); }
        else if (err.find("runtime error:") != std::string::npos) { size_t p = err.find("runtime error: "); std::string w = err.substr(p + 15, 60); size_t q = 0; while (q < w.size() && !std::isdigit((unsigned char)w[q]) && w[q] != ':' && w[q] != '\n' && w[q] != '-') ++q; w = w.substr(0, q); while (!w.empty() && w.back() == ' ') w.pop_back(); kind = "ubsan-" + w; for (auto& ch : kind) if (ch == ' ') ch = '_'; }
        else if (WIFSIGNALED(st)) kind = "signal" + std::to_string(WTERMSIG(st));
        else kind = "exit" + std::to_string(WEXITSTATUS(st));
        { // first stack frame inside the repository: "#k 0x.. in <function>(args) /repo/<file>:<line>"  ->  <file>:<function>
            const std::string repo = std::getenv("VERIF_REPO") ? std::getenv("VERIF_REPO") : "/repo";
            std::istringstream es(err); std::string ln;
            while (std::getline(es, ln)) {
                size_t pi = ln.find(" in "), pr = ln.find(" " + repo + "/");
                if (ln.find("#") == std::string::npos || pi == std::string::npos || pr == std::string::npos || pr < pi) continue;
                std::string fn = ln.substr(pi + 4, pr - pi - 4); size_t par = fn.find('('); if (par != std::string::npos) fn = fn.substr(0, par);
                { std::string f2; int depth = 0; for (char ch : fn) { if (ch == '<') ++depth; else if (ch == '>') --depth; else if (depth == 0) f2 += ch; } fn = f2; }
                size_t sp = fn.rfind(' '); if (sp != std::string::npos) fn = fn.substr(sp + 1);
                std::string file = ln.substr(pr + 1 + repo.size() + 1); size_t c2 = file.find(':'); if (c2 != std::string::npos) file = file.substr(0, c2);
                frame = file + ":" + fn; break;
            }
            if (frame.empty()) { size_t p = err.find(repo + "/"); if (p != std::string::npos) { size_t e = err.find_first_of(": \n", p); frame = err.substr(p + repo.size() + 1, e - p - repo.size() - 1); } }
        }
        run.evaluations++;
        std::string mutated = apply(s, c.m);
        run.violation("C20:" + kind + ":" + (frame.empty() ? (s.binary ? s.name : std::string("noframe")) : frame), "seed " + s.name + " mutation " + c.m.kind + "(" + std::to_string(c.m.a) + "," + std::to_string(c.m.b) + ") cfg " + std::to_string(c.cfg) + ": " + kind + "; report: " + err.substr(0, 700),
                      "{\"case\": " + vf::jstr(cs) + ", \"input\": " + vf::jstr(s.binary ? "(binary)" : mutated.substr(0, 2500)) + "}");
        limit = LIM1; next = done + 1;
    }
    if (run.shard == 0) { run.count("seeds", seeds.size()); run.sample_str("seed MODEL1, mutation R(token 17 -> '" + hostile[3] + "')"); run.sample_str("seed kw:" + seeds[5].name + " text: " + seeds[5].text); }
    run.count("cases", N);
    fs::remove_all(g_dir);
    return run.finish();
}
