// C16 — automatic differentiation (opm/material/densead): every Evaluation
// variant returns the exact value and the chain-rule partials for every
// expression tree up to a bound; mixed scalar/Evaluation forms agree with the
// all-Evaluation form; all variants agree (through the common reference).
//
// Bounded-exhaustive: ALL trees of the grammar in C16_ad.hpp up to the bound
// are executed on the real code for EVERY variant and judged by the harness'
// own dual-number reference.  Nothing is sampled.
//
//   case string:  "<variant> <tree>"   e.g.  "static9 mul_ee(sin(x0),div_se(c1,x2))"
//                 "all <tree>"         (every variant)
#include "vf.hpp"
#include "C16_ad.hpp"
#include <sys/resource.h>
#include <unistd.h>

namespace c16 {
void reg_1(std::vector<Variant>&); void reg_2(std::vector<Variant>&); void reg_3(std::vector<Variant>&); void reg_4(std::vector<Variant>&);
void reg_5(std::vector<Variant>&); void reg_6(std::vector<Variant>&); void reg_7(std::vector<Variant>&); void reg_8(std::vector<Variant>&);
void reg_9(std::vector<Variant>&); void reg_10(std::vector<Variant>&); void reg_11(std::vector<Variant>&); void reg_12(std::vector<Variant>&);
void reg_13(std::vector<Variant>&); void reg_14(std::vector<Variant>&); void reg_15(std::vector<Variant>&); void reg_16(std::vector<Variant>&);
void reg_dynamic(std::vector<Variant>&, const std::vector<int>& sizes);
}
using namespace c16;

static vf::Run* R;
static std::vector<Variant> V;
static uint64_t g_obs_mod = 64;

// local counters (flushed to run.count at the end)
static long long n_trees = 0, n_checked = 0, n_skip[8] = {0}, n_lift = 0, n_lift_skipped = 0, n_y0 = 0, n_obs = 0, n_unblamed = 0, n_explained = 0;
static std::vector<long long> g_fail_per_variant;
static std::vector<std::array<bool, NKINDS>> g_broken;     // per variant: operator forms already blamed (failures of trees containing them are explained)
static int g_blamed_kind = -1;

static const double TOL_V = 1e-14, TOL_D = 1e-12, FLOOR = 1e-300;

static inline bool close_to(double got, double want, double scale, double tol) { return std::fabs(got - want) <= tol * scale + FLOOR; }   // false for NaN

// 0 ok, 1 value, 2 derivative (slot in *slot)
static int compare(const double* out, const Dual& ref, int n, int* slot) {
    if (!close_to(out[0], ref.v, ref.vs, TOL_V)) return 1;
    for (int i = 0; i < n; ++i) if (!close_to(out[1 + i], ref.d[i], ref.ds[i], TOL_D)) { *slot = i; return 2; }
    return 0;
}

static std::string casestr(const Variant& v, const Tree& t) { return v.name + " " + to_string(t); }

static std::string describe(const double* out, const Dual& ref, int n, int what, int slot) {
    std::string s;
    if (what == 1) s = "value " + vf::fmt17(out[0]) + " but reference " + vf::fmt17(ref.v);
    else s = "derivative(" + std::to_string(slot) + ") " + vf::fmt17(out[1 + slot]) + " but reference " + vf::fmt17(ref.d[slot]) + " (value " + vf::fmt17(out[0]) + ", reference value " + vf::fmt17(ref.v) + ")";
    (void)n; return s;
}

// find the smallest failing subtree (nodes are stored children-first) and report it
static void blame(const Variant& v, const Tree& t) {
    double out[MAXN + 1];
    for (int idx = 0; idx < t.cnt; ++idx) {
        Tree sub = subtree(t, idx);
        Dual ref; ref_saw_atan2_y0() = false;
        if (ref_eval(sub, sub.root(), v.n, ref) != SK_OK) continue;
        const Node& x = t.n[idx];
        std::string op = x.kind == LEAF ? "leaf" : info(x.kind).name;
        const std::string rp = "{\"case\": " + vf::jstr(casestr(v, sub)) + ", \"found_in\": " + vf::jstr(casestr(v, t)) + "}";
        int slot = -1, what = 0;
        try { v.eval(t, idx, v.n, out); what = compare(out, ref, v.n, &slot); }
        catch (const std::exception& e) { g_blamed_kind = x.kind; R->violation("C16:" + v.cls + ":" + op + ":throws", casestr(v, sub) + " threw: " + e.what(), rp); return; }
        if (!what) continue;
        g_blamed_kind = x.kind;
        bool y0 = false;
        if (x.kind == ATAN2_EE || x.kind == ATAN2_SE) { Dual yr; Tree ys = subtree(t, x.kind == ATAN2_EE ? x.b : x.a); if (ref_eval(ys, ys.root(), 1, yr) == SK_OK && yr.v == 0) y0 = true; }
        if (y0) {
            // Math.hpp atan2: alpha/(y*y) with y == 0 -> 0/0; shared template code, identical in every variant: one key
            R->violation("C16:math:atan2:y-zero", "atan2(x, y) with y == 0 and x != 0 (inside the domain, partials -y'/x): " + casestr(v, sub) + " gives " + describe(out, ref, v.n, what, slot) + " [same in every variant: Math.hpp computes alpha/(y*y) = 0/0]", rp);
            return;
        }
        R->violation("C16:" + v.cls + ":" + op + (what == 1 ? ":value" : ":deriv"), casestr(v, sub) + " gives " + describe(out, ref, v.n, what, slot), rp);
        return;
    }
    // every subtree matched on its own but the whole did not: should be impossible for a pure function
    R->violation("C16:" + v.cls + ":nondeterministic", casestr(v, t) + " mismatched as a whole but every subtree matches when evaluated alone", "{\"case\": " + vf::jstr(casestr(v, t)) + "}");
}

static inline uint64_t mix(uint64_t h, uint64_t x) { h = (h ^ x) * 0x9E3779B97F4A7C15ull; return h ^ (h >> 29); }

// check one tree on the selected variants (only >= 0: just that variant)
static void check_tree(const Tree& t, int only = -1) {
    Dual ref; ref_saw_atan2_y0() = false;
    const Skip s = ref_eval(t, t.root(), MAXN, ref);
    if (s != SK_OK) { n_skip[s]++; return; }
    if (ref_saw_atan2_y0()) n_y0++;
    n_checked++;
    const Node& root = t.n[t.root()];
    const KindInfo& rk = info(root.kind);
    bool lift = rk.lifted != LEAF;
    if (lift && root.kind == POW_ES) {       // pow(Evaluation, Evaluation) needs base > 0; pow(Evaluation, scalar) does not
        Dual c; Tree cs = subtree(t, root.a);
        if (ref_eval(cs, cs.root(), 1, c) != SK_OK || !(c.v > 0)) { lift = false; n_lift_skipped++; }
    }
    uint64_t th = vf::fnv(t.n, sizeof(Node) * t.cnt);
    double out[MAXN + 1], out2[MAXN + 1];
    // crash attribution: the tree for the static variants, the exact variant for the heap-backed dynamic one
    const std::string ts = to_string(t);
    R->current("all " + ts);
    for (size_t vi = 0; vi < V.size(); ++vi) {
        if (only >= 0 && (int)vi != only) continue;
        const Variant& v = V[vi];
        if (v.dynamic) R->current(v.name + " " + ts);
        R->evaluations++;
        int slot = -1, what = 0;
        bool threw = false;
        try { v.eval(t, t.root(), v.n, out); what = compare(out, ref, v.n, &slot); }
        catch (const std::exception&) { threw = true; }
        if (what || threw) {
            bool explained = false;
            for (int i = 0; i < t.cnt && !explained; ++i) explained = g_broken[vi][t.n[i].kind];
            if (explained) { n_explained++; R->count("violations_total"); }      // contains an operator form already reported for this variant
            else if (g_fail_per_variant[vi]++ < 5000) { R->current(casestr(v, t)); g_blamed_kind = -1; blame(v, t); if (g_blamed_kind > 0) g_broken[vi][g_blamed_kind] = true; }
            else { n_unblamed++; R->count("violations_total"); }
            continue;
        }
        if (lift) {
            n_lift++;
            try {
                v.eval_lifted(t, v.n, out2);
                int bad = -2;
                if (!close_to(out[0], out2[0], ref.vs, 2 * TOL_V)) bad = -1;
                for (int i = 0; bad == -2 && i < v.n; ++i) if (!close_to(out[1 + i], out2[1 + i], ref.ds[i], 2 * TOL_D)) bad = i;
                if (bad != -2)
                    R->violation("C16:" + v.cls + ":" + rk.name + ":mixed-vs-lifted",
                                 casestr(v, t) + ": mixed form gives " + (bad < 0 ? "value " + vf::fmt17(out[0]) : "derivative(" + std::to_string(bad) + ") " + vf::fmt17(out[1 + bad])) + ", the all-Evaluation form " + info(rk.lifted).name + " with the scalar lifted to a constant gives " + vf::fmt17(bad < 0 ? out2[0] : out2[1 + bad]),
                                 "{\"case\": " + vf::jstr(casestr(v, t)) + "}");
            } catch (const std::exception& e) {
                R->violation("C16:" + v.cls + ":" + info(rk.lifted).name + ":throws", casestr(v, t) + " (lifted form) threw: " + e.what(), "{\"case\": " + vf::jstr(casestr(v, t)) + "}");
            }
        }
        uint64_t h = mix(th, vi);
        for (int i = 0; i <= v.n; ++i) h = mix(h, vf::dbits(out[i]));
        if (h % g_obs_mod == 0) { R->observe(h); n_obs++; }
        if (t.depth >= 2 && R->samples.size() < 6 && n_trees % 20011 == 11 && vi == (size_t)(n_trees / 20011 * 5) % V.size())
            R->sample_str(casestr(v, t) + " -> value " + vf::fmt17(out[0]) + ", d0 " + vf::fmt17(out[1]) + ", d" + std::to_string(v.n - 1) + " " + vf::fmt17(out[v.n]) + " (reference " + vf::fmt17(ref.v) + ", " + vf::fmt17(ref.d[0]) + ", " + vf::fmt17(ref.d[v.n - 1]) + ")");
    }
}

// ---- scalar-TYPE regime ----------------------------------------------------
// The root of t is a mixed form whose scalar (c4..c8 = 2,10,3,-4,1) is handed to
// the library with C++ type `st` (double/float/int/unsigned/long/short).  The
// headers take `const RhsValueType&` and promise conversion to ValueType, and
// every value of the alphabet is exactly representable in every type used, so
// the result must be (a) the dual-number reference with the scalar double(s),
// (b) the all-Evaluation twin with createConstant(double(s)), and (c) BIT FOR
// BIT the result of the same form with a double scalar.
static long long n_typed = 0, n_typed_skipped = 0, n_typed_absent = 0, n_cmp = 0;
static std::string typed_case(const Variant& v, const Tree& t, int st) { return v.name + " " + to_string(t) + "@" + stype_name(st); }
static void check_typed(const Tree& t, int st, int only = -1) {
    Dual ref; ref_saw_atan2_y0() = false;
    if (ref_eval(t, t.root(), MAXN, ref) != SK_OK) { n_typed_skipped++; return; }
    const Node& root = t.n[t.root()];
    const KindInfo& rk = info(root.kind);
    bool lift = true;
    if (root.kind == POW_ES) { Dual c; Tree cs = subtree(t, root.a); if (ref_eval(cs, cs.root(), 1, c) != SK_OK || !(c.v > 0)) lift = false; }
    double out[MAXN + 1], out2[MAXN + 1], outd[MAXN + 1];
    for (size_t vi = 0; vi < V.size(); ++vi) {
        if (only >= 0 && (int)vi != only) continue;
        const Variant& v = V[vi];
        const std::string key = "C16:" + v.cls + ":" + rk.name + ":" + stype_name(st);
        try {
            if (!v.eval_typed(t, v.n, st, out)) { n_typed_absent++; continue; }
            n_typed++; R->evaluations++;
            const std::string rp = "{\"case\": " + vf::jstr(typed_case(v, t, st)) + "}";
            int slot = -1; const int what = compare(out, ref, v.n, &slot);
            if (what) { R->violation(key + (what == 1 ? ":value" : ":deriv"), typed_case(v, t, st) + " (scalar " + vf::fmt17(scalar_value(root.par)) + " passed as " + stype_name(st) + ") gives " + describe(out, ref, v.n, what, slot), rp); continue; }
            if (lift) {
                v.eval_lifted(t, v.n, out2);
                int bad = -2;
                if (!close_to(out[0], out2[0], ref.vs, 2 * TOL_V)) bad = -1;
                for (int i = 0; bad == -2 && i < v.n; ++i) if (!close_to(out[1 + i], out2[1 + i], ref.ds[i], 2 * TOL_D)) bad = i;
                if (bad != -2) { R->violation(key + ":mixed-vs-lifted", typed_case(v, t, st) + " differs from the all-Evaluation form with createConstant(double(s)) in " + (bad < 0 ? std::string("the value") : "derivative(" + std::to_string(bad) + ")"), rp); continue; }
            }
            if (st != ST_DOUBLE) {
                v.eval_typed(t, v.n, ST_DOUBLE, outd);
                for (int i = 0; i <= v.n; ++i)
                    if (vf::dbits(out[i]) != vf::dbits(outd[i]) && !(std::isnan(out[i]) && std::isnan(outd[i]))) {
                        R->violation(key + ":differs-from-double-scalar", typed_case(v, t, st) + ": " + (i == 0 ? std::string("value") : "derivative(" + std::to_string(i - 1) + ")") + " = " + vf::fmt17(out[i]) + ", but " + vf::fmt17(outd[i]) + " when the same scalar " + vf::fmt17(scalar_value(root.par)) + " is passed as double (RhsValueType must be converted to ValueType)", rp);
                        break;
                    }
            }
            uint64_t h = mix(vf::fnv(t.n, sizeof(Node) * t.cnt), vi * 16 + st);
            for (int i = 0; i <= v.n; ++i) h = mix(h, vf::dbits(out[i]));
            if (h % g_obs_mod == 0) { R->observe(h); n_obs++; }
        } catch (const std::exception& e) { R->violation(key + ":throws", typed_case(v, t, st) + " threw: " + e.what(), "{\"case\": " + vf::jstr(typed_case(v, t, st)) + "}"); }
    }
}
// comparisons of (subtree result) with a typed scalar
static void check_cmp(const Tree& t, int sidx, int st, int only = -1) {
    Dual ref;
    if (ref_eval(t, t.root(), 1, ref) != SK_OK) return;
    double out[MAXN + 1];
    const double sv = scalar_value(sidx);
    for (size_t vi = 0; vi < V.size(); ++vi) {
        if (only >= 0 && (int)vi != only) continue;
        const Variant& v = V[vi];
        v.eval(t, t.root(), v.n, out);
        const unsigned got = v.cmp_typed(t, v.n, st, sv), want = cmp_expected(out[0], sv);
        n_cmp++; R->evaluations++;
        if (got != want) {
            int b = 0; while (!((got ^ want) >> b & 1)) ++b;
            const std::string cs = v.name + " cmp " + to_string(t) + " c" + std::to_string(sidx) + "@" + stype_name(st);
            R->violation("C16:" + v.cls + ":cmp:" + cmp_name(b) + ":" + stype_name(st), cs + ": with x = " + vf::fmt17(out[0]) + " and s = " + vf::fmt17(sv) + " passed as " + stype_name(st) + ", " + cmp_name(b) + " gives " + ((got >> b & 1) ? "true" : "false"), "{\"case\": " + vf::jstr(cs) + "}");
        }
    }
}

// ---- guard for dynamic `scalar / Evaluation` -------------------------------
// (defect sighted in the design phase, fixed since: `Evaluation tmp(a)` picked
// the (int numDerivatives) constructor and tripped an assertion.)  The 4x4
// isolated cases per dynamic size run in forked children first so that a
// regression gets its own key; the main enumeration excludes nothing: should
// the operator abort again, the shard dies there and vcheck reports the crash
// with the published case.
// Runs ONE tree on ONE variant in a forked child: 0 ok, 3 value, 4 derivative,
// 5 exception, 6 outside domain; negative: killed by that signal (assert -> 6).
static int run_in_child(const Variant& v, const Tree& t) {
    return vf::in_child([&] {
        struct rlimit rl = {0, 0}; setrlimit(RLIMIT_CORE, &rl);      // an assertion failure must not write a core file
        if (!std::getenv("C16_CHILD_STDERR")) { int fd = ::open("/dev/null", O_WRONLY); if (fd >= 0) { dup2(fd, 2); ::close(fd); } }   // assert text x 112 would only flood the shard log
        Dual ref;
        if (ref_eval(t, t.root(), v.n, ref) != SK_OK) _exit(6);
        double out[MAXN + 1]; int slot = -1, what = 0;
        try { v.eval(t, t.root(), v.n, out); what = compare(out, ref, v.n, &slot); }
        catch (const std::exception&) { _exit(5); }
        _exit(what == 0 ? 0 : 2 + what);
    }, 20);
}
static std::string rc_text(int rc) {
    if (rc < 0) return "process killed by signal " + std::to_string(-rc) + (rc == -6 ? " (assertion size() == other.size() in operator/=)" : "");
    if (rc == 3) return "wrong value"; if (rc == 4) return "wrong derivative"; if (rc == 5) return "exception"; return "exit status " + std::to_string(rc);
}
static void report_dyn_div_se(const Variant& v, const Tree& t, int rc, int nbad, int ntot) {
    R->violation("C16:dynamic:scalar-div-eval",
                 "scalar / Evaluation with the dynamically sized Evaluation: " + casestr(v, t) + " -> " + rc_text(rc) + (ntot ? " (" + std::to_string(nbad) + " of " + std::to_string(ntot) + " isolated scalar/Evaluation cases fail)" : "")
                 + "; the free operator/(const RhsValueType& a, const Evaluation& b) in Evaluation.hpp builds `Evaluation tmp(a)`, which for the dynamic class selects the explicit (int numDerivatives) constructor (value lost, int(a) derivatives) instead of a constant; mixed form does not agree with the all-Evaluation form",
                 "{\"case\": " + vf::jstr(casestr(v, t)) + "}");
}
static void probe_dynamic_div_se() {
    int nbad = 0, ntot = 0, first_rc = 0; const Variant* fv = nullptr; Tree ft;
    for (const Variant& v : V) {
        if (!v.dynamic) continue;
        for (int s = 0; s < NSCAL; ++s) for (int k = 0; k < NLEAF; ++k) {
            Tree t = t_un(DIV_SE, s, t_leaf(k));
            R->current(casestr(v, t) + " (in child)");
            int rc = run_in_child(v, t);
            ++ntot; if (R->shard == 0) R->evaluations++;
            if (rc != 0) { if (!nbad) { first_rc = rc; fv = &v; ft = t; } ++nbad; }
        }
    }
    R->count("dynamic_scalar_div_eval_isolated_cases", R->shard == 0 ? ntot : 0);
    R->count("dynamic_scalar_div_eval_isolated_failures", R->shard == 0 ? nbad : 0);
    if (nbad) report_dyn_div_se(*fv, ft, first_rc, nbad, ntot);
}

int main(int argc, char** argv) {
    vf::Run run("C16", argc, argv); R = &run;
    const bool thorough = run.thorough();
    // DESIGN sizes {1,5,12,16,24} plus the FastSmallVector<.,8> boundary: 7 derivatives (+ value) is the last inline size, 8 the first heap size
    std::vector<int> dyn_sizes = {1, 5, 7, 8, 12, 16, 24};

    // replay of a single case
    std::string rv, rt;
    if (!run.replay_path.empty()) {
        size_t sp = run.replay_path.find(' ');
        if (sp == std::string::npos) throw std::runtime_error("replay case must be '<variant> <tree>'");
        rv = run.replay_path.substr(0, sp); rt = run.replay_path.substr(sp + 1);
        if (rv.rfind("dynamic", 0) == 0) { int n = std::atoi(rv.c_str() + 7); if (n >= 1 && n <= MAXN && std::find(dyn_sizes.begin(), dyn_sizes.end(), n) == dyn_sizes.end()) dyn_sizes.push_back(n); }
    }
    reg_1(V); reg_2(V); reg_3(V); reg_4(V); reg_5(V); reg_6(V); reg_7(V); reg_8(V); reg_9(V); reg_10(V); reg_11(V); reg_12(V);
    reg_13(V); reg_14(V); reg_15(V); reg_16(V); reg_dynamic(V, dyn_sizes);
    g_fail_per_variant.assign(V.size(), 0);
    { std::array<bool, NKINDS> z; z.fill(false); g_broken.assign(V.size(), z); }
    g_obs_mod = thorough ? 256 : 64;

    run.rule = std::string("ALL expression trees of depth <= 2") + (thorough ? " plus ALL trees of depth 3 with <= 5 nodes (leaves counted)" : "")
        + " over 62 operator forms: + - * / as Eval.Eval / Eval.scalar / scalar.Eval, += -= *= /= with Evaluation and scalar rhs, unary minus, pow (3 overloads), sqrt exp log log10 sin cos tan asin acos atan sinh cosh asinh acosh abs, atan2 min max (3 forms each), and 14 aliasing forms on one object r: r+=r r-=r r*=r r/=r, r+r r-r r*r r/r, pow(r,r), atan2(r,r), r+=r.value() r-=r.value() r*=r.value() r/=r.value() (scalar rhs is a reference into r's own storage);"
          " leaves x0..x3 = {0.37,-0.62,1.3,2.1} with derivative slot i = +-prime[i]/{9.7,10.1,10.3,10.7}[leaf], scalars c0..c3 = {0.75,2,-1.25,1.3};"
          " SCALAR-TYPE regime: every mixed form (20) x every operand tree of depth <= 1 x scalar values c4..c8 = {2,10,3,-4,1} passed with C++ type {double,float,int,unsigned,long,short} (unsigned: no -4), judged by the reference with double(s), by the all-Evaluation twin with createConstant(double(s)) and bit-for-bit against the same form with a double scalar; the 11 comparison forms x==s x!=s x<s x>s x<=s x>=s s<x s>x s<=x s>=x s!=x likewise;"
          " executed on EVERY variant: static 1..12, generic 13..16, dynamic<.,8> with run-time sizes " + vf::join_ints(dyn_sizes)
        + "; oracle: independent dual number (value + vector of partials, calculus rules, error scale): value to 1e-14, every partial to 1e-12 relative to the conditioning scale;"
          " mixed root forms compared with their all-Evaluation twin (scalar lifted to a constant) on the real code; variants agree through the common reference (slot i of a leaf does not depend on N);"
          " distinct = hashes of (variant, tree, result bits) deterministically thinned 1/" + std::to_string(g_obs_mod) + " (observation set only; every tree is judged)";
    run.assumptions = {
        "reference dual-number evaluator in the harness (calculus rules + first-order error scale) and libm's scalar functions are trusted",
        "values: the 4-leaf / 4-scalar fingerprint alphabet only; the tree structure (operator x operator x operand form x leaf assignment) is exhaustive up to the bound, the real line is not",
        "trees whose reference leaves a function's domain (log/sqrt <= 0, |asin/acos arg| >= 1, acosh arg <= 1, division by 0, pow with base <= 0 resp. negative base and non-integer exponent, atan2(0,0)), sits on a kink (abs(0), min/max tie), is ill-conditioned by the formula itself (|asin/acos arg| > 0.99, acosh arg < 1.01) or leaves 1e-60..1e60 are skipped and counted",
        "scalar C++ types double/float/int/unsigned/long/short are enumerated at the root of depth <= 2 trees only (inner mixed nodes use double scalars); ValueType = double only; atan2 takes its scalar as `const ValueType&`, so non-double scalars are not provided there (counted); `s == x` is not provided by the headers",
        "Evaluation factories other than createConstant + setDerivative (createVariable, createBlank, copyDerivatives) are outside this property's operator/function scope"};

    if (!rv.empty()) {
        int vi = -1; for (size_t i = 0; i < V.size(); ++i) if (V[i].name == rv) vi = (int)i;
        if (vi < 0 && rv != "all") throw std::runtime_error("unknown variant " + rv);
        int rst = -1; { size_t at = rt.rfind('@'); if (at != std::string::npos) { for (int k = 0; k < NSTYPES; ++k) if (rt.substr(at + 1) == stype_name(k)) rst = k; rt = rt.substr(0, at); } }
        if (rt.rfind("cmp ", 0) == 0) {          // "<variant> cmp <tree> c<idx>@<type>"
            size_t sp2 = rt.rfind(' '); Tree ct = parse_tree(rt.substr(4, sp2 - 4)); int sidx = std::atoi(rt.c_str() + sp2 + 2);
            int cvi = -1; for (size_t i = 0; i < V.size(); ++i) if (V[i].name == rv) cvi = (int)i;
            check_cmp(ct, sidx, rst < 0 ? 0 : rst, cvi); return run.finish();
        }
        Tree t = parse_tree(rt);
        run.current(run.replay_path);
        if (vi < 0) probe_dynamic_div_se();          // "all": every variant, dynamic scalar/Evaluation guarded as in the full run
        else if (V[vi].dynamic && contains(t, DIV_SE)) {
            int rc = run_in_child(V[vi], t); run.evaluations++;
            if (rc != 0 && rc != 6) { report_dyn_div_se(V[vi], t, rc, 0, 0); return run.finish(); }
            if (rc == 6) { run.count("skipped_outside_domain"); return run.finish(); }
        }
        if (rst >= 0) { check_typed(t, rst, vi); return run.finish(); }
        check_tree(t, vi);
        for (int s = 1; s < 5; ++s) if (n_skip[s]) run.count(skip_name(s), n_skip[s]);
        run.count("trees_judged", n_checked);
        return run.finish();
    }

    probe_dynamic_div_se();       // cheap guard with a defect-specific key; excludes nothing from the enumeration below

    // ---- enumeration ------------------------------------------------------
    std::vector<std::pair<int, int>> ul;      // operator forms with ONE Evaluation operand: (kind, scalar index)
    std::vector<int> bl;                      // operator forms with TWO Evaluation operands
    for (int k = 1; k < NKINDS; ++k) {
        Arity ar = info(k).ar;
        if (ar == A_U) ul.push_back({k, 0});
        else if (ar == A_EE) bl.push_back(k);
        else for (int s = 0; s < NSCAL; ++s) ul.push_back({k, s});
    }
    std::vector<Tree> d0, d1, t01;
    for (int k = 0; k < NLEAF; ++k) d0.push_back(t_leaf(k));
    for (auto& u : ul) for (auto& l : d0) d1.push_back(t_un(u.first, u.second, l));
    const size_t n_ul = d1.size();            // d1[0..n_ul): u(leaf)
    for (int b : bl) for (auto& l1 : d0) for (auto& l2 : d0) d1.push_back(t_bin(b, l1, l2));
    t01 = d0; t01.insert(t01.end(), d1.begin(), d1.end());

    bool stop = false; long long n_mine = 0, n_typed_cases = 0, n_cmp_cases = 0;
    auto visit = [&](const Tree& t) {
        if (run.mine()) {
            if ((++n_mine & 0x3ff) == 0 && run.timed_out()) stop = true;
            check_tree(t);
        }
        ++n_trees;
    };
    // depth 0, 1
    for (auto& t : t01) visit(t);
    // depth 2 (all)
    for (auto& u : ul) for (auto& c : d1) { if (stop) break; visit(t_un(u.first, u.second, c)); }
    for (int b : bl) for (auto& c1 : t01) { if (stop) break; for (auto& c2 : t01) { if (c1.depth == 0 && c2.depth == 0) continue; visit(t_bin(b, c1, c2)); } }
    long long n_d3 = 0;
    if (thorough) {
        // depth 3 with <= 5 nodes: u(T), T of depth 2 with <= 4 nodes;  b(u(u(leaf)), leaf) and b(leaf, u(u(leaf)))
        std::vector<Tree> uul;                 // u(u(leaf))
        for (auto& u : ul) for (size_t i = 0; i < n_ul; ++i) uul.push_back(t_un(u.first, u.second, d1[i]));
        std::vector<Tree> d2s = uul;           // depth 2, <= 4 nodes
        for (auto& u : ul) for (size_t i = n_ul; i < d1.size(); ++i) d2s.push_back(t_un(u.first, u.second, d1[i]));            // u(b(l,l))
        for (int b : bl) for (size_t i = 0; i < n_ul; ++i) for (auto& l : d0) { d2s.push_back(t_bin(b, d1[i], l)); d2s.push_back(t_bin(b, l, d1[i])); }   // b(u(l),l), b(l,u(l))
        const long long before = n_trees;
        for (auto& u : ul) { if (stop) break; for (auto& c : d2s) visit(t_un(u.first, u.second, c)); }
        for (int b : bl) { if (stop) break; for (auto& c : uul) for (auto& l : d0) { visit(t_bin(b, c, l)); visit(t_bin(b, l, c)); } }
        n_d3 = n_trees - before;
    }
    // ---- scalar-type regime: every mixed form x every operand tree of depth <= 1 x 6 scalar types x 5 values ----
    {
        std::vector<int> mixed; for (int k = 1; k < NKINDS; ++k) if (info(k).ar == A_ES || info(k).ar == A_SE) mixed.push_back(k);
        for (int k : mixed) for (auto& c : t01) for (int sidx = NSCAL; sidx < NSCAL_ALL && !stop; ++sidx) for (int st = 0; st < NSTYPES; ++st) {
            if (st == ST_UNSIGNED && scalar_value(sidx) < 0) continue;           // not representable
            if (run.mine()) { if ((++n_mine & 0x3ff) == 0 && run.timed_out()) stop = true; check_typed(t_un(k, sidx, c), st); }
            ++n_typed_cases;
        }
        for (auto& c : t01) for (int sidx = NSCAL; sidx < NSCAL_ALL; ++sidx) for (int st = 0; st < NSTYPES; ++st) {
            if (st == ST_UNSIGNED && scalar_value(sidx) < 0) continue;
            if (run.mine()) check_cmp(c, sidx, st);
            ++n_cmp_cases;
        }
    }
    if (stop) run.cap_note += "enumeration stopped at tree " + std::to_string(n_trees) + "; ";

    if (run.shard == 0) { run.count("trees_in_bound", n_trees); run.count("trees_depth3", n_d3); run.count("variants", (long long)V.size()); run.count("operator_forms", NKINDS - 1); }
    if (run.shard == 0) { run.count("scalar_type_cases_in_bound", n_typed_cases); run.count("scalar_type_comparison_cases_in_bound", n_cmp_cases); }
    run.count("scalar_type_evaluations", n_typed);
    run.count("scalar_type_cases_skipped_domain_or_kink", n_typed_skipped);
    run.count("scalar_type_forms_not_provided_by_headers", n_typed_absent);
    run.count("scalar_type_comparison_evaluations", n_cmp);
    run.count("trees_judged", n_checked);
    for (int s = 1; s < 5; ++s) run.count(skip_name(s), n_skip[s]);
    run.count("trees_with_atan2_y_zero", n_y0);
    run.count("mixed_vs_lifted_comparisons", n_lift);
    run.count("mixed_vs_lifted_skipped_pow_negative_base", n_lift_skipped);
    run.count("observations_recorded", n_obs);
    if (n_unblamed) run.count("failures_not_minimised", n_unblamed);
    if (n_explained) run.count("failures_in_trees_containing_an_already_reported_form", n_explained);
    return run.finish();
}
