// C02_ref.hpp — reference table of exact physical unit definitions (data/C02_units.ref) shared by the
// C02 harness parts: loader, expression evaluators, reference value of named dimensions / dimension strings.
#pragma once
#include "vf.hpp"
#include <cmath>
#include <fstream>
#include <limits>
#include <map>
#include <sstream>
#include <string>
#include <vector>

static std::string trim(const std::string& s) {
    size_t a = s.find_first_not_of(" \t\r\n"), b = s.find_last_not_of(" \t\r\n");
    return a == std::string::npos ? "" : s.substr(a, b - a + 1);
}
static std::vector<std::string> split(const std::string& s, char c) {
    std::vector<std::string> v; std::string cur;
    for (char ch : s) { if (ch == c) { v.push_back(cur); cur.clear(); } else cur += ch; }
    v.push_back(cur); return v;
}
static std::vector<std::string> words(const std::string& s) { std::istringstream is(s); std::vector<std::string> v; std::string w; while (is >> w) v.push_back(w); return v; }
static bool releq(double got, double want, double rel, double extra_abs = 0) {
    if (std::isnan(got) || std::isnan(want)) return false;
    return std::fabs(got - want) <= rel * std::fabs(want) + extra_abs;
}

// ===================================================== reference table ======
struct Aff {                       // SI = s * x + o
    double s = 1, o = 0;
    bool nan = false;              // context dependent
    bool ok = true;                // expression could be evaluated
    bool offset_in_composite = false;
    bool unverified = false;
    std::string err;
    double to_si(double x) const { return s * x + o; }
    double from_si(double v) const { return (v - o) / s; }
};

struct Entry { std::string name; std::string expr[4]; std::string unverified; };

struct Ref {
    struct Line { std::string kind, name, expr, label; };
    std::vector<Line> unit_lines;                 // unit / check / affine, in file order
    std::map<std::string, std::vector<std::pair<std::string, std::string>>> alts;   // name -> (expr,label)
    std::vector<Entry> quantities, measures;
    // evaluated under the current alt choice:
    std::map<std::string, double> unit;
    std::map<std::string, std::pair<double, double>> affine;
    int alt_choice = 0; std::string alt_name, alt_label = "primary definition";

    // strict left-to-right product/quotient; lookup gives the value of a name
    template <class L> static double ltr(const std::string& e, L&& lookup) {
        double acc = 1; char op = '*'; std::string tok;
        auto flush = [&]() {
            std::string t = trim(tok); tok.clear();
            if (t.empty()) throw std::runtime_error("empty factor in expression '" + e + "'");
            int pw = 1; size_t h = t.find('^');
            if (h != std::string::npos) { pw = std::atoi(t.c_str() + h + 1); t = trim(t.substr(0, h)); if (pw < 1) throw std::runtime_error("bad power in '" + e + "'"); }
            double v;
            if (std::isdigit((unsigned char)t[0]) || t[0] == '.') { char* end = nullptr; v = std::strtod(t.c_str(), &end); if (*end) throw std::runtime_error("bad number '" + t + "' in '" + e + "'"); }
            else v = lookup(t);
            double p = 1; for (int i = 0; i < pw; ++i) p *= v;
            acc = op == '*' ? acc * p : acc / p;
        };
        for (char c : e) { if (c == '*' || c == '/') { flush(); op = c; } else tok += c; }
        flush();
        return acc;
    }
    double unit_value(const std::string& n) const { auto it = unit.find(n); if (it == unit.end()) throw std::runtime_error("C02_units.ref: unknown unit '" + n + "'"); return it->second; }

    void load(const std::string& fn) {
        std::ifstream f(fn); if (!f) throw std::runtime_error("cannot open " + fn);
        std::string l;
        while (std::getline(f, l)) {
            size_t h = l.find('#'); if (h != std::string::npos) l = l.substr(0, h);
            l = trim(l); if (l.empty()) continue;
            std::string note; size_t sc = l.find(';');
            if (sc != std::string::npos) { note = trim(l.substr(sc + 1)); l = trim(l.substr(0, sc)); }
            size_t sp = l.find_first_of(" \t"); std::string kind = l.substr(0, sp), rest = trim(l.substr(sp));
            if (kind == "unit" || kind == "check" || kind == "alt" || kind == "affine") {
                size_t eq = rest.find('='); if (eq == std::string::npos) throw std::runtime_error("C02_units.ref: no '=' in: " + l);
                Line ln{kind, trim(rest.substr(0, eq)), trim(rest.substr(eq + 1)), note};
                if (kind == "alt") alts[ln.name].push_back({ln.expr, note}); else unit_lines.push_back(ln);
            } else if (kind == "quantity" || kind == "measure") {
                size_t co = rest.find(':'); if (co == std::string::npos) throw std::runtime_error("C02_units.ref: no ':' in: " + l);
                Entry e; e.name = trim(rest.substr(0, co));
                auto parts = split(rest.substr(co + 1), '|'); if (parts.size() != 4) throw std::runtime_error("C02_units.ref: need 4 systems in: " + l);
                for (int s = 0; s < 4; ++s) e.expr[s] = trim(parts[s]);
                if (!note.empty()) { if (note.rfind("unverified", 0) != 0) throw std::runtime_error("C02_units.ref: unknown note in: " + l); e.unverified = note; }
                (kind == "quantity" ? quantities : measures).push_back(e);
            } else throw std::runtime_error("C02_units.ref: unknown line kind '" + kind + "'");
        }
        if (alts.size() > 1) throw std::runtime_error("C02_units.ref: only one unit may have alternatives");
        if (!alts.empty()) alt_name = alts.begin()->first;
        choose(0);
    }
    int nchoices() const { return alts.empty() ? 1 : 1 + (int)alts.begin()->second.size(); }
    void choose(int k) {
        alt_choice = k; unit.clear(); affine.clear();
        auto lk = [&](const std::string& n) { return unit_value(n); };
        for (auto& ln : unit_lines) {
            if (ln.kind == "unit") {
                std::string ex = ln.expr;
                if (k > 0 && ln.name == alt_name) { ex = alts[alt_name][k - 1].first; alt_label = alts[alt_name][k - 1].second; }
                if (k == 0) alt_label = "primary definition";
                unit[ln.name] = ltr(ex, lk);
            } else if (ln.kind == "check") {
                if (k > 0 && ln.name == alt_name) continue;
                double a = unit_value(ln.name), b = ltr(ln.expr, lk);
                if (!releq(a, b, 1e-14)) throw std::runtime_error("C02_units.ref: the two derivations of '" + ln.name + "' disagree: " + vf::fmt17(a) + " vs " + vf::fmt17(b));
            } else if (ln.kind == "affine") {
                affine[ln.name] = {ltr(ln.expr, lk), ltr(ln.label, lk)};     // label slot = text after ';' = offset expression
            }
        }
    }
    // unit expression of a quantity/measure entry -> Aff
    Aff eval_units(const std::string& e) const {
        Aff a;
        if (e == "nan") { a.nan = true; a.s = std::numeric_limits<double>::quiet_NaN(); return a; }
        auto af = affine.find(e);
        if (af != affine.end()) { a.s = af->second.first; a.o = af->second.second; return a; }
        a.s = ltr(e, [&](const std::string& n) { if (affine.count(n)) throw std::runtime_error("affine unit inside a product: " + e); return unit_value(n); });
        return a;
    }
    const Entry* quantity(const std::string& n) const { for (auto& q : quantities) if (q.name == n) return &q; return nullptr; }
    const Entry* measure(const std::string& n) const { for (auto& q : measures) if (q.name == n) return &q; return nullptr; }
    // reference value of a named dimension in system sys (0..3, 4 = INPUT: SI itself)
    Aff named(int sys, const std::string& n) const {
        const Entry* q = quantity(n);
        if (!q) { Aff a; a.ok = false; a.err = "quantity '" + n + "' is not in C02_units.ref"; return a; }
        if (sys == 4) { Aff a; a.unverified = !q->unverified.empty(); return a; }
        Aff a = eval_units(q->expr[sys]); a.unverified = !q->unverified.empty(); return a;
    }
    // product of named dimensions; opm == true : grammar of the keyword JSON ("A*B/C*D" = A*B/(C*D), at most one '/')
    //                              opm == false: grammar of the .ref files (strict left to right)
    Aff dim(int sys, const std::string& d, bool opm) const {
        Aff r; std::vector<std::pair<std::string, bool>> fac;   // (name, in denominator)
        if (opm) {
            auto p = split(d, '/');
            if (p.size() > 2) { r.ok = false; r.err = "more than one '/'"; return r; }
            for (size_t k = 0; k < p.size(); ++k) for (auto& t : split(p[k], '*')) fac.push_back({trim(t), k == 1});
        } else {
            bool den = false; std::string tok;
            for (char c : d) { if (c == '*' || c == '/') { fac.push_back({trim(tok), den}); tok.clear(); den = c == '/'; } else tok += c; }
            fac.push_back({trim(tok), den});
        }
        for (auto& [n, den] : fac) {
            Aff q = named(sys, n);
            if (!q.ok) return q;
            r.unverified = r.unverified || q.unverified;
            if (q.o != 0) { if (fac.size() > 1) { r.offset_in_composite = true; continue; } return q; }
            if (q.nan) { r.nan = true; continue; }
            r.s = den ? r.s / q.s : r.s * q.s;
        }
        if (r.nan) r.s = std::numeric_limits<double>::quiet_NaN();
        return r;
    }
};
static Ref REF;
