// C16_ad.hpp — shared part of the C16 harness (automatic differentiation,
// opm/material/densead).
//
//   * Kind / Tree       : the expression-tree grammar that is enumerated
//   * Dual / ref_eval   : the independent dual-number reference (value +
//                         std::vector<double> partials, calculus rules written
//                         directly) with a first-order rounding-error scale
//   * Impl<E>           : evaluation of a tree with the REAL Evaluation type E
//   * Variant           : type-erased handle of one Evaluation variant; every
//                         variant lives in its own tiny TU (C16_sNN.cpp ...)
//                         so the 17 template instantiations compile in parallel
#pragma once
#include <array>
#include <cmath>
#include <cstdint>
#include <cstring>
#include <limits>
#include <stdexcept>
#include <string>
#include <vector>

namespace c16 {

// ------------------------------------------------------------ grammar -----
enum Kind : uint8_t {
    LEAF,
    ADD_EE, SUB_EE, MUL_EE, DIV_EE,          // Evaluation o Evaluation
    ADD_ES, SUB_ES, MUL_ES, DIV_ES,          // Evaluation o scalar
    ADD_SE, SUB_SE, MUL_SE, DIV_SE,          // scalar o Evaluation
    ADDEQ_E, SUBEQ_E, MULEQ_E, DIVEQ_E,      // compound, Evaluation rhs
    ADDEQ_S, SUBEQ_S, MULEQ_S, DIVEQ_S,      // compound, scalar rhs
    NEG,
    POW_EE, POW_ES, POW_SE,
    SQRT, EXP, LOG, LOG10, SIN, COS, TAN, ASIN, ACOS, ATAN, SINH, COSH, ASINH, ACOSH, ABS,
    ATAN2_EE, ATAN2_ES, ATAN2_SE,
    MIN_EE, MIN_ES, MIN_SE, MAX_EE, MAX_ES, MAX_SE,
    // aliasing forms (one operand, used twice as THE SAME OBJECT):
    ADDEQ_SELF, SUBEQ_SELF, MULEQ_SELF, DIVEQ_SELF,      // r += r, r -= r, r *= r, r /= r
    ADD_SELF, SUB_SELF, MUL_SELF, DIV_SELF,              // a + a, a - a, a * a, a / a   (both operands one object)
    POW_SELF, ATAN2_SELF,                                // pow(a, a), atan2(a, a)
    ADDEQ_OWNV, SUBEQ_OWNV, MULEQ_OWNV, DIVEQ_OWNV,      // r += r.value() ...: scalar rhs is a const reference into r's own storage
    NKINDS
};
enum Arity : uint8_t { A_LEAF, A_U, A_ES, A_SE, A_EE };

struct KindInfo { const char* name; Arity ar; Kind lifted; };   // lifted: all-Evaluation twin of a mixed form (LEAF = none)
inline const KindInfo& info(int k) {
    static const KindInfo t[NKINDS] = {
        {"x", A_LEAF, LEAF},
        {"add_ee", A_EE, LEAF}, {"sub_ee", A_EE, LEAF}, {"mul_ee", A_EE, LEAF}, {"div_ee", A_EE, LEAF},
        {"add_es", A_ES, ADD_EE}, {"sub_es", A_ES, SUB_EE}, {"mul_es", A_ES, MUL_EE}, {"div_es", A_ES, DIV_EE},
        {"add_se", A_SE, ADD_EE}, {"sub_se", A_SE, SUB_EE}, {"mul_se", A_SE, MUL_EE}, {"div_se", A_SE, DIV_EE},
        {"addeq_e", A_EE, LEAF}, {"subeq_e", A_EE, LEAF}, {"muleq_e", A_EE, LEAF}, {"diveq_e", A_EE, LEAF},
        {"addeq_s", A_ES, ADDEQ_E}, {"subeq_s", A_ES, SUBEQ_E}, {"muleq_s", A_ES, MULEQ_E}, {"diveq_s", A_ES, DIVEQ_E},
        {"neg", A_U, LEAF},
        {"pow_ee", A_EE, LEAF}, {"pow_es", A_ES, POW_EE}, {"pow_se", A_SE, POW_EE},
        {"sqrt", A_U, LEAF}, {"exp", A_U, LEAF}, {"log", A_U, LEAF}, {"log10", A_U, LEAF}, {"sin", A_U, LEAF}, {"cos", A_U, LEAF},
        {"tan", A_U, LEAF}, {"asin", A_U, LEAF}, {"acos", A_U, LEAF}, {"atan", A_U, LEAF}, {"sinh", A_U, LEAF}, {"cosh", A_U, LEAF},
        {"asinh", A_U, LEAF}, {"acosh", A_U, LEAF}, {"abs", A_U, LEAF},
        {"atan2_ee", A_EE, LEAF}, {"atan2_es", A_ES, ATAN2_EE}, {"atan2_se", A_SE, ATAN2_EE},
        {"min_ee", A_EE, LEAF}, {"min_es", A_ES, MIN_EE}, {"min_se", A_SE, MIN_EE},
        {"max_ee", A_EE, LEAF}, {"max_es", A_ES, MAX_EE}, {"max_se", A_SE, MAX_EE},
        {"addeq_self", A_U, LEAF}, {"subeq_self", A_U, LEAF}, {"muleq_self", A_U, LEAF}, {"diveq_self", A_U, LEAF},
        {"add_self", A_U, LEAF}, {"sub_self", A_U, LEAF}, {"mul_self", A_U, LEAF}, {"div_self", A_U, LEAF},
        {"pow_self", A_U, LEAF}, {"atan2_self", A_U, LEAF},
        {"addeq_ownv", A_U, LEAF}, {"subeq_ownv", A_U, LEAF}, {"muleq_ownv", A_U, LEAF}, {"diveq_ownv", A_U, LEAF},
    };
    return t[k];
}

// leaf alphabet: 4 fingerprint values (two inside (-1,1) for asin/acos, one of
// them negative; two > 1 for acosh), derivative slot i of leaf k is the prime
// P[i] divided by a leaf-specific prime, sign pattern (i+k)%3 — every (k,i)
// pair is a different number, so a wrong slot or a wrong operand is visible.
constexpr int NLEAF = 4;
constexpr int NSCAL = 4;
constexpr int MAXN = 24;
inline double leaf_value(int k) { static const double v[NLEAF] = {0.37, -0.62, 1.3, 2.1}; return v[k]; }
inline double leaf_deriv(int k, int i) {
    static const double P[MAXN] = {2, 3, 5, 7, 11, 13, 17, 19, 23, 29, 31, 37, 41, 43, 47, 53, 59, 61, 67, 71, 73, 79, 83, 89};
    static const double Q[NLEAF] = {9.7, 10.1, 10.3, 10.7};
    return (((i + k) % 3 == 0) ? -1.0 : 1.0) * P[i] / Q[k];
}
// scalar alphabet: a fraction, an integer (valid exponent for negative bases),
// a negative number, and one value that collides with leaf x2 (exact zeros,
// min/max ties: exercises the domain/kink classification).
// c4..c8: the integral values used by the SCALAR-TYPE regime (scalar of C++ type float/int/unsigned/long/short at the root)
constexpr int NSCAL_ALL = 9;
inline double scalar_value(int s) { static const double v[NSCAL_ALL] = {0.75, 2.0, -1.25, 1.3, 2.0, 10.0, 3.0, -4.0, 1.0}; return v[s]; }
enum SType { ST_DOUBLE, ST_FLOAT, ST_INT, ST_UNSIGNED, ST_LONG, ST_SHORT, NSTYPES };
inline const char* stype_name(int t) { static const char* n[NSTYPES] = {"double", "float", "int", "unsigned", "long", "short"}; return n[t]; }
// comparison forms with a scalar: bit i of the mask
constexpr int NCMP = 11;
inline const char* cmp_name(int i) { static const char* n[NCMP] = {"x==s", "x!=s", "x<s", "x>s", "x<=s", "x>=s", "s<x", "s>x", "s<=x", "s>=x", "s!=x"}; return n[i]; }
inline unsigned cmp_expected(double x, double s) { bool r[NCMP] = {x == s, x != s, x < s, x > s, x <= s, x >= s, s < x, s > x, s <= x, s >= x, s != x}; unsigned m = 0; for (int i = 0; i < NCMP; ++i) if (r[i]) m |= 1u << i; return m; }

struct Node { uint8_t kind; uint8_t par; int8_t a; int8_t b; };   // par: leaf index or scalar index
struct Tree {
    Node n[7]; uint8_t cnt = 0; uint8_t depth = 0;
    int root() const { return cnt - 1; }
};
inline Tree t_leaf(int k) { Tree t; t.n[0] = {LEAF, (uint8_t)k, -1, -1}; t.cnt = 1; t.depth = 0; return t; }
inline Tree t_un(int kind, int par, const Tree& c) {
    if (c.cnt + 1 > 7) throw std::logic_error("tree too large");
    Tree t = c; t.n[t.cnt] = {(uint8_t)kind, (uint8_t)par, (int8_t)c.root(), -1}; t.cnt++; t.depth = c.depth + 1; return t;
}
inline Tree t_bin(int kind, const Tree& c1, const Tree& c2) {
    if (c1.cnt + c2.cnt + 1 > 7) throw std::logic_error("tree too large");
    Tree t = c1;
    for (int i = 0; i < c2.cnt; ++i) { Node x = c2.n[i]; if (x.a >= 0) x.a += c1.cnt; if (x.b >= 0) x.b += c1.cnt; t.n[t.cnt++] = x; }
    t.n[t.cnt] = {(uint8_t)kind, 0, (int8_t)c1.root(), (int8_t)(c1.cnt + c2.root())}; t.cnt++;
    t.depth = std::max(c1.depth, c2.depth) + 1; return t;
}
inline Tree subtree(const Tree& t, int idx) {
    const Node& x = t.n[idx];
    switch (info(x.kind).ar) {
    case A_LEAF: return t_leaf(x.par);
    case A_EE: return t_bin(x.kind, subtree(t, x.a), subtree(t, x.b));
    default: return t_un(x.kind, x.par, subtree(t, x.a));
    }
}
inline bool contains(const Tree& t, int kind) { for (int i = 0; i < t.cnt; ++i) if (t.n[i].kind == kind) return true; return false; }

inline void to_string(const Tree& t, int idx, std::string& o) {
    const Node& x = t.n[idx];
    const KindInfo& ki = info(x.kind);
    switch (ki.ar) {
    case A_LEAF: o += 'x'; o += char('0' + x.par); return;
    case A_U: o += ki.name; o += '('; to_string(t, x.a, o); o += ')'; return;
    case A_ES: o += ki.name; o += '('; to_string(t, x.a, o); o += ",c"; o += char('0' + x.par); o += ')'; return;
    case A_SE: o += ki.name; o += "(c"; o += char('0' + x.par); o += ','; to_string(t, x.a, o); o += ')'; return;
    case A_EE: o += ki.name; o += '('; to_string(t, x.a, o); o += ','; to_string(t, x.b, o); o += ')'; return;
    }
}
inline std::string to_string(const Tree& t) { std::string s; to_string(t, t.root(), s); return s; }

struct Parser {
    const std::string& s; size_t p = 0;
    explicit Parser(const std::string& s_) : s(s_) {}
    [[noreturn]] void fail(const char* m) { throw std::runtime_error(std::string("bad tree '") + s + "': " + m + " at " + std::to_string(p)); }
    void expect(char c) { if (p >= s.size() || s[p] != c) fail("unexpected character"); ++p; }
    int digit(int lim) { if (p >= s.size() || s[p] < '0' || s[p] >= '0' + lim) fail("index out of range"); return s[p++] - '0'; }
    int scalar() { expect('c'); return digit(NSCAL_ALL); }
    Tree tree() {
        if (p < s.size() && s[p] == 'x' && p + 1 < s.size() && s[p + 1] >= '0' && s[p + 1] <= '9') { ++p; return t_leaf(digit(NLEAF)); }
        size_t q = p; while (q < s.size() && s[q] != '(') ++q;
        std::string name = s.substr(p, q - p); p = q;
        int kind = -1; for (int k = 1; k < NKINDS; ++k) if (name == info(k).name) kind = k;
        if (kind < 0) fail("unknown operator");
        expect('(');
        Tree r;
        switch (info(kind).ar) {
        case A_U: r = t_un(kind, 0, tree()); break;
        case A_ES: { Tree c = tree(); expect(','); int sc = scalar(); r = t_un(kind, sc, c); break; }
        case A_SE: { int sc = scalar(); expect(','); r = t_un(kind, sc, tree()); break; }
        default: { Tree a = tree(); expect(','); Tree b = tree(); r = t_bin(kind, a, b); }
        }
        expect(')');
        return r;
    }
};
inline Tree parse_tree(const std::string& s) { Parser ps(s); Tree t = ps.tree(); if (ps.p != s.size()) ps.fail("trailing characters"); return t; }

// --------------------------------------------------- reference oracle -----
// Independent dual number.  v, d[i]: value and partials by the calculus rules.
// vs, ds[i]: first-order bound on how far a correctly rounded double
// evaluation may drift, in units of the machine epsilon ("error scale"):
// vs >= |v|, ds[i] >= |d[i]|, larger where the expression is ill-conditioned
// (cancellation, steep functions).  Tolerances are relative to the scales, so
// x - x*(1+eps) style cancellation never raises a false alarm while a wrong
// slot / missing chain-rule factor (an O(1) relative error) always does.
struct Dual { double v = 0, vs = 0; std::vector<double> d, ds; };

enum Skip { SK_OK = 0, SK_DOMAIN, SK_KINK, SK_ILLCOND, SK_RANGE };
inline const char* skip_name(int s) { static const char* n[] = {"ok", "skipped_outside_domain", "skipped_on_kink", "skipped_ill_conditioned", "skipped_out_of_range"}; return n[s]; }
// set by ref_eval when the tree contains atan2(x, y) with y == 0 exactly (x != 0):
// inside the mathematical domain (partials -y'/x), but singular for the
// 1/(1 + x^2/y^2)/y^2 form of the derivative (a defect found and fixed through
// this check); main keys a mismatch there separately.
inline bool& ref_saw_atan2_y0() { static bool f = false; return f; }

constexpr double BIG = 1e60, SMALL = 1e-60;

// f(u) with f'(u), f''(u): unary chain rule incl. error scale
inline void chain(const Dual& u, double f, double f1, double f2, Dual& o) {
    const size_t n = u.d.size();
    o.v = f; o.vs = std::fabs(f1) * u.vs + std::fabs(f);
    o.d.resize(n); o.ds.resize(n);
    for (size_t i = 0; i < n; ++i) {
        o.d[i] = f1 * u.d[i];
        o.ds[i] = std::fabs(f2) * u.vs * std::fabs(u.d[i]) + std::fabs(f1) * u.ds[i] + std::fabs(o.d[i]);
    }
}
inline Dual constant(double c, size_t n) { Dual k; k.v = c; k.vs = std::fabs(c); k.d.assign(n, 0.0); k.ds.assign(n, 0.0); return k; }

inline Skip ref_add(const Dual& a, const Dual& b, double sg, Dual& o) {
    const size_t n = a.d.size();
    o.v = a.v + sg * b.v; o.vs = a.vs + b.vs; o.d.resize(n); o.ds.resize(n);
    for (size_t i = 0; i < n; ++i) { o.d[i] = a.d[i] + sg * b.d[i]; o.ds[i] = a.ds[i] + b.ds[i]; }
    return SK_OK;
}
inline Skip ref_mul(const Dual& a, const Dual& b, Dual& o) {
    const size_t n = a.d.size();
    o.v = a.v * b.v; o.vs = std::fabs(a.v) * b.vs + std::fabs(b.v) * a.vs; o.d.resize(n); o.ds.resize(n);
    for (size_t i = 0; i < n; ++i) {
        o.d[i] = a.d[i] * b.v + a.v * b.d[i];
        o.ds[i] = a.ds[i] * std::fabs(b.v) + std::fabs(a.d[i]) * b.vs + a.vs * std::fabs(b.d[i]) + std::fabs(a.v) * b.ds[i];
    }
    return SK_OK;
}
inline Skip ref_div(const Dual& a, const Dual& b, Dual& o) {
    if (b.v == 0) return SK_DOMAIN;
    if (std::fabs(b.v) < SMALL) return SK_RANGE;
    const size_t n = a.d.size();
    const double ib = 1.0 / b.v, aib = std::fabs(ib);
    o.v = a.v / b.v; o.vs = a.vs * aib + std::fabs(a.v) * b.vs * ib * ib; o.d.resize(n); o.ds.resize(n);
    for (size_t i = 0; i < n; ++i) {
        // (a/b)' = a'/b - a b'/b^2
        o.d[i] = a.d[i] * ib - a.v * b.d[i] * ib * ib;
        o.ds[i] = a.ds[i] * aib + std::fabs(a.d[i]) * b.vs * ib * ib + a.vs * std::fabs(b.d[i]) * ib * ib + std::fabs(a.v) * b.ds[i] * ib * ib
                  + 2 * std::fabs(a.v * b.d[i]) * b.vs * aib * ib * ib;
    }
    return SK_OK;
}
inline Skip ref_pow(const Dual& f, const Dual& g, Dual& o) {
    // f^g, f > 0
    if (!(f.v > 0)) return SK_DOMAIN;
    const size_t n = f.d.size();
    const double v = std::pow(f.v, g.v), lf = std::log(f.v);
    o.v = v; o.vs = std::fabs(g.v * v / f.v) * f.vs + std::fabs(v * lf) * g.vs + std::fabs(v) * (1 + std::fabs(g.v * lf));
    o.d.resize(n); o.ds.resize(n);
    for (size_t i = 0; i < n; ++i) {
        const double T = g.v * f.d[i] / f.v + lf * g.d[i];
        o.d[i] = v * T;
        o.ds[i] = o.vs * std::fabs(T)
                  + std::fabs(v) * (std::fabs(f.d[i] / f.v) * g.vs + std::fabs(g.v / f.v) * f.ds[i] + std::fabs(g.v * f.d[i] / (f.v * f.v)) * f.vs
                                    + std::fabs(g.d[i] / f.v) * f.vs + std::fabs(lf) * g.ds[i])
                  + std::fabs(o.d[i]);
    }
    return SK_OK;
}
inline Skip ref_pow_const_exp(const Dual& f, double c, Dual& o) {
    // f^c, c constant: f > 0, or f < 0 with integer c (c x^(c-1) is then still the derivative); f == 0 is singular in general
    if (f.v == 0) return SK_DOMAIN;
    if (f.v < 0 && c != std::floor(c)) return SK_DOMAIN;
    const double v = std::pow(f.v, c);
    chain(f, v, c * v / f.v, c * (c - 1) * v / (f.v * f.v), o);
    return SK_OK;
}
inline Skip ref_atan2(const Dual& x, const Dual& y, Dual& o) {
    if (x.v == 0 && y.v == 0) return SK_DOMAIN;
    if (x.v == 0 && y.v < 0) return SK_KINK;                // branch cut: +-pi depending on the sign of the zero (x - x vs -(x - x))
    if (y.v == 0) ref_saw_atan2_y0() = true;                // still inside the domain: r2 = x^2 > 0
    else if (std::fabs(y.v) < SMALL) return SK_RANGE;       // y*y underflows in any double formula
    if (std::fabs(x.v) > BIG || std::fabs(y.v) > BIG || (std::fabs(x.v) < SMALL && y.v == 0)) return SK_RANGE;
    const size_t n = x.d.size();
    const double r2 = x.v * x.v + y.v * y.v;
    o.v = std::atan2(x.v, y.v);
    o.vs = (std::fabs(y.v) * x.vs + std::fabs(x.v) * y.vs) / r2 + std::fabs(o.v);
    const double r2s = 2 * std::fabs(x.v) * x.vs + 2 * std::fabs(y.v) * y.vs;
    o.d.resize(n); o.ds.resize(n);
    for (size_t i = 0; i < n; ++i) {
        const double N = y.v * x.d[i] - x.v * y.d[i];
        const double Ns = y.vs * std::fabs(x.d[i]) + std::fabs(y.v) * x.ds[i] + x.vs * std::fabs(y.d[i]) + std::fabs(x.v) * y.ds[i];
        o.d[i] = N / r2;
        o.ds[i] = Ns / r2 + std::fabs(N) * r2s / (r2 * r2) + std::fabs(o.d[i]);
    }
    return SK_OK;
}
inline Skip ref_unary(int kind, const Dual& u, Dual& o) {
    const double x = u.v;
    switch (kind) {
    case NEG: chain(u, -x, -1, 0, o); return SK_OK;
    case ABS: if (x == 0) return SK_KINK; chain(u, std::fabs(x), x > 0 ? 1 : -1, 0, o); return SK_OK;
    case SQRT: { if (x < 0) return SK_DOMAIN; if (x == 0) return SK_DOMAIN; const double r = std::sqrt(x); chain(u, r, 0.5 / r, -0.25 / (r * x), o); return SK_OK; }
    case EXP: { const double e = std::exp(x); chain(u, e, e, e, o); return SK_OK; }
    case LOG: if (!(x > 0)) return SK_DOMAIN; chain(u, std::log(x), 1 / x, -1 / (x * x), o); return SK_OK;
    case LOG10: { if (!(x > 0)) return SK_DOMAIN; const double l10 = std::log(10.0); chain(u, std::log10(x), 1 / (x * l10), -1 / (x * x * l10), o); return SK_OK; }
    case SIN: chain(u, std::sin(x), std::cos(x), -std::sin(x), o); return SK_OK;
    case COS: chain(u, std::cos(x), -std::sin(x), -std::cos(x), o); return SK_OK;
    case TAN: { const double t = std::tan(x); chain(u, t, 1 + t * t, 2 * t * (1 + t * t), o); return SK_OK; }
    case ASIN: case ACOS: {
        if (!(std::fabs(x) < 1)) return SK_DOMAIN;
        if (std::fabs(x) > 0.99) return SK_ILLCOND;         // 1 - x*x cancels: the derivative formula itself loses digits
        const double w = 1 - x * x, s = std::sqrt(w), sg = kind == ASIN ? 1.0 : -1.0;
        chain(u, kind == ASIN ? std::asin(x) : std::acos(x), sg / s, sg * x / (w * s), o); return SK_OK; }
    case ATAN: { const double w = 1 + x * x; chain(u, std::atan(x), 1 / w, -2 * x / (w * w), o); return SK_OK; }
    case SINH: chain(u, std::sinh(x), std::cosh(x), std::sinh(x), o); return SK_OK;
    case COSH: chain(u, std::cosh(x), std::sinh(x), std::cosh(x), o); return SK_OK;
    case ASINH: { const double w = x * x + 1, s = std::sqrt(w); chain(u, std::asinh(x), 1 / s, -x / (w * s), o); return SK_OK; }
    case ACOSH: {
        if (!(x > 1)) return SK_DOMAIN;
        if (x < 1.01) return SK_ILLCOND;                     // x*x - 1 cancels
        const double w = x * x - 1, s = std::sqrt(w); chain(u, std::acosh(x), 1 / s, -x / (w * s), o); return SK_OK; }
    }
    throw std::logic_error("ref_unary: bad kind");
}
inline Skip ref_minmax(bool is_min, const Dual& a, const Dual& b, Dual& o) {
    if (a.v == b.v) return SK_KINK;
    o = ((a.v < b.v) == is_min) ? a : b; return SK_OK;
}
inline bool in_range(const Dual& o) {
    if (!std::isfinite(o.v) || !std::isfinite(o.vs) || o.vs > BIG) return false;
    for (size_t i = 0; i < o.d.size(); ++i) if (!std::isfinite(o.d[i]) || !std::isfinite(o.ds[i]) || o.ds[i] > BIG) return false;
    return true;
}

inline Skip ref_eval(const Tree& t, int idx, int n, Dual& o) {
    const Node& x = t.n[idx];
    const Arity ar = info(x.kind).ar;
    if (ar == A_LEAF) {
        o.v = leaf_value(x.par); o.vs = std::fabs(o.v); o.d.resize(n); o.ds.resize(n);
        for (int i = 0; i < n; ++i) { o.d[i] = leaf_deriv(x.par, i); o.ds[i] = std::fabs(o.d[i]); }
        return SK_OK;
    }
    Dual a, b;
    Skip s = ref_eval(t, x.a, n, a); if (s != SK_OK) return s;
    if (ar == A_EE) { s = ref_eval(t, x.b, n, b); if (s != SK_OK) return s; }
    else if (ar == A_ES) b = constant(scalar_value(x.par), n);
    else if (ar == A_SE) { b = a; a = constant(scalar_value(x.par), n); }     // scalar is the FIRST operand
    switch (x.kind) {
    case ADD_EE: case ADD_ES: case ADD_SE: case ADDEQ_E: case ADDEQ_S: s = ref_add(a, b, 1.0, o); break;
    case SUB_EE: case SUB_ES: case SUB_SE: case SUBEQ_E: case SUBEQ_S: s = ref_add(a, b, -1.0, o); break;
    case MUL_EE: case MUL_ES: case MUL_SE: case MULEQ_E: case MULEQ_S: s = ref_mul(a, b, o); break;
    case DIV_EE: case DIV_ES: case DIV_SE: case DIVEQ_E: case DIVEQ_S: s = ref_div(a, b, o); break;
    case POW_EE: s = ref_pow(a, b, o); break;
    case POW_SE: s = ref_pow(a, b, o); break;                                 // constant base lifted: derivative part of the base is zero
    case POW_ES: s = ref_pow_const_exp(a, scalar_value(x.par), o); break;
    case ATAN2_EE: case ATAN2_ES: case ATAN2_SE: s = ref_atan2(a, b, o); break;
    case MIN_EE: case MIN_ES: case MIN_SE: s = ref_minmax(true, a, b, o); break;
    case MAX_EE: case MAX_ES: case MAX_SE: s = ref_minmax(false, a, b, o); break;
    // aliasing forms: the mathematics does not know about object identity
    case ADDEQ_SELF: case ADD_SELF: s = ref_add(a, a, 1.0, o); break;          // 2x
    case SUBEQ_SELF: case SUB_SELF: s = ref_add(a, a, -1.0, o); break;         // 0, zero partials
    case MULEQ_SELF: case MUL_SELF: s = ref_mul(a, a, o); break;               // x^2, 2 x x'
    case DIVEQ_SELF: case DIV_SELF: s = ref_div(a, a, o); break;               // 1, zero partials
    case POW_SELF: s = ref_pow(a, a, o); break;
    case ATAN2_SELF: s = ref_atan2(a, a, o); break;
    case ADDEQ_OWNV: s = ref_add(a, constant(a.v, a.d.size()), 1.0, o); break; // scalar = the value, a constant
    case SUBEQ_OWNV: s = ref_add(a, constant(a.v, a.d.size()), -1.0, o); break;
    case MULEQ_OWNV: s = ref_mul(a, constant(a.v, a.d.size()), o); break;      // x^2, x x'
    case DIVEQ_OWNV: s = ref_div(a, constant(a.v, a.d.size()), o); break;      // 1, x'/x
    default: s = ref_unary(x.kind, a, o);
    }
    if (s != SK_OK) return s;
    if (!in_range(o)) return SK_RANGE;
    return SK_OK;
}

// ------------------------------------------------ variant (type-erased) ---
struct Variant {
    std::string name;      // static9, generic14, dynamic12
    std::string cls;       // static9, generic14, dynamic      (violation-key class)
    int n = 0;             // number of derivatives
    bool dynamic = false;
    // evaluate subtree idx of t with the real Evaluation type; out[0] = value, out[1+i] = derivative(i)
    void (*eval)(const Tree& t, int idx, int n, double* out) = nullptr;
    // same for the root, but the (mixed) root operator replaced by its all-Evaluation twin, scalar lifted to a constant
    void (*eval_lifted)(const Tree& t, int n, double* out) = nullptr;
    // root must be a mixed form: its scalar is passed with C++ type `stype` (value double -> that type); false: the headers do not provide the form for that type
    bool (*eval_typed)(const Tree& t, int n, int stype, double* out) = nullptr;
    // the 11 comparison forms of (subtree result, scalar of C++ type stype) as a bit mask
    unsigned (*cmp_typed)(const Tree& t, int n, int stype, double s) = nullptr;
};

} // namespace c16
