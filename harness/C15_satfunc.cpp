// C15 — saturation functions: tables, end-point scaling, hysteresis.
//
// One binary, three sub-parts (all bounded-exhaustive on the real
// EclMaterialLawManager built from a parsed deck):
//   a  unscaled   : every combination of a small alphabet of SWOF/SGOF node
//                   layouts, family I deck and the equivalent family II deck
//                   (SWFN/SGFN/SOF3 generated on the family I nodes);
//                   node reproduction, bracketing/monotone interpolation,
//                   range, family I == family II == SWOF/SLGOF twin; the end-points the
//                   satfunc initialisers derive and fieldProps' defaulted end-point arrays
//                   (incl. I-arrays) == values read off the nodes; the same on ENDSCALE
//                   decks with all arrays defaulted, and for two-phase oil/water
//                   (SWOF | SWFN+SOF2) and oil/gas (SGOF | SGFN+SOF2) decks.
//   b  eps        : ENDSCALE, every subset (size <= 2 quick / <= 3 thorough)
//                   of 17 end-point arrays x 2 shifted values each x two/three
//                   point scaling; scaled end-points map onto the table's
//                   end-points (saturation map and kr/pc values), explicit and
//                   defaulted own end-points are the identity.
//   c  hysteresis : explicit-state BFS over updateHysteresis() histories
//                   (events = 45 points of the 9-level (Sw,Sg) triangle),
//                   state key = hysteresis getters of both two-phase laws,
//                   reference model = running extremes of the histories.
//   d  hyst x eps : the product of b and c: the BFS of part c on cells of an ENDSCALE deck
//                   (two-point / three-point SCALECRS) whose drainage and imbibition (I-)
//                   end-point arrays move the connate, critical and maximum nodes; oracles of c
//                   in scaled saturation against a hysteresis-free manager with the same
//                   end-points; forward and inverse saturation maps are mutual inverses (also in b).
//   e  3-phase x eps: three-phase oil relperm model {default, STONE1, STONE1+STONE1EX, STONE2} x ENDSCALE
//                   end-point sets (identity, SWL / SGL / SGU / critical saturations moved, vertical,
//                   all) x two/three-point x {no hysteresis, Carlson}: public API on a 41-level triangle
//                   against the cell's scaled two-phase curves, the scaled gas-oil end-points and the
//                   closed form of each model with the cell's SWL.      replay: "e <base> <mode> <set> <model> <hyst>"
// Case strings (replay):  "a <listsize> <idx> <partner> <nreg> <field> <es>", "a2 <phases> <listsize> <idx> <es>"
//                         "b <base> <mode> <k>:<v>,<k>:<v>..."
//                         "c <table> <model> <flag> <imb> <levels> <e,e,e...>"
//                         "d <model> <flag> <mode> <endpointset> <imb> <levels> <e,e,e...>"
#include "config.h"
#include "vf.hpp"

#include <opm/material/fluidmatrixinteractions/EclEpsGridProperties.hpp>
#include <opm/material/fluidmatrixinteractions/EclMaterialLawManager.hpp>
#include <opm/material/fluidstates/SimpleModularFluidState.hpp>

#include <opm/input/eclipse/Deck/Deck.hpp>
#include <opm/input/eclipse/EclipseState/EclipseState.hpp>
#include <opm/input/eclipse/EclipseState/Grid/EclipseGrid.hpp>
#include <opm/input/eclipse/EclipseState/Grid/FieldPropsManager.hpp>
#include <opm/input/eclipse/EclipseState/Grid/SatfuncPropertyInitializers.hpp>
#include <opm/input/eclipse/EclipseState/Tables/TableManager.hpp>
#include <opm/input/eclipse/Parser/Parser.hpp>

#include <array>
#include <cmath>
#include <memory>

using Scalar = double;
using Traits = Opm::ThreePhaseMaterialTraits<Scalar, 0, 1, 2>;
using FS = Opm::SimpleModularFluidState<Scalar, 3, 3, void, false, false, false, false, true, false, false, false>;
using Mgr = Opm::EclMaterialLawManager<Traits>;
using Law = Mgr::MaterialLaw;
using OWLaw = Law::OilWaterMaterialLaw;
using GOLaw = Law::GasOilMaterialLaw;
using OWEps = OWLaw::EffectiveLaw;
using GOEps = GOLaw::EffectiveLaw;
using OWParams = OWLaw::Params;
using GOParams = GOLaw::Params;
static constexpr auto DefaultApproach = Opm::EclMultiplexerApproach::Default;

static vf::Run* R;
static const double BAR = 1.0e5;
static const double PSI = 0.45359237 * 9.80665 / (0.0254 * 0.0254);

static std::function<std::vector<int>(const Opm::FieldPropsManager&, const std::string&, bool)> g_lookup =
    [](const Opm::FieldPropsManager& fp, const std::string& kw, bool tr) {
        std::vector<int> d;
        for (int v : fp.get_int(kw)) d.push_back(v - (tr ? 1 : 0));
        return d;
    };
static std::function<unsigned(unsigned)> g_ident = [](unsigned e) { return e; };

// ------------------------------------------------------------ tables -------
// SWOF: x = Sw, a = krw, b = krow, pc = pcow.   SGOF: x = Sg, a = krg, b = krog, pc = pcgo.
struct Tab { std::vector<double> x, a, b, pc; };

// the boring reference: piecewise linear, constant outside the node range
static double pl(const std::vector<double>& x, const std::vector<double>& y, double s) {
    if (s <= x.front()) return y.front();
    if (s >= x.back()) return y.back();
    size_t i = 0;
    while (x[i + 1] < s) ++i;
    const double v = y[i] + (s - x[i]) * ((y[i + 1] - y[i]) / (x[i + 1] - x[i]));
    return std::min(std::max(v, std::min(y[i], y[i + 1])), std::max(y[i], y[i + 1]));   // rounding must not leave the bracket
}
static double sq(double v) { return v * v; }
static double r4(double v) { return std::round(v * 1e4) / 1e4; }
static std::string g17(double v) { return vf::fmt17(v); }

static Tab genSwof(int c, int critW, int critO, int nint, int kw, int ko, int pcs, int swu, int tight = 0) {
    const double S0 = c ? 0.15 : 0.0, Su = swu ? 0.9 : 1.0;
    const double a = critW ? S0 + 0.1 : S0, b = critO ? Su - 0.15 : Su;
    const double kwm = kw ? 0.7 : 1.0, kom = ko ? 0.8 : 1.0;
    Tab t;
    t.x.push_back(S0);
    if (critW) t.x.push_back(a);
    for (int k = 1; k <= nint; ++k) t.x.push_back(tight && k == 2 ? a + (b - a) / 3 + 0.002 : a + (b - a) * k / (nint + 1));   // tight: a 0.002 wide segment
    if (critO) t.x.push_back(b);
    t.x.push_back(Su);
    for (double s : t.x) {
        t.a.push_back(s <= a ? 0.0 : (s >= Su ? kwm : r4(kwm * sq((s - a) / (Su - a)))));
        t.b.push_back(s >= b ? 0.0 : (s <= S0 ? kom : r4(kom * sq((b - s) / (b - S0)))));
        const double u = (s - S0) / (Su - S0);
        t.pc.push_back(pcs == 0 ? 0.0 : pcs == 1 ? r4(2.0 * sq(1.0 - u)) : r4(1.5 - 2.0 * sq(u)));
    }
    return t;
}
static Tab genSgof(double Swco, int critG, int critOG, int nint, int kg, int ko, int pcg, int sgu, int tight = 0) {
    const double Smax = 1.0 - Swco, Su = sgu ? Smax - 0.1 : Smax;
    const double a = critG ? 0.05 : 0.0, b = critOG ? Su - 0.2 : Su;
    const double kgm = kg ? 0.9 : 1.0, kom = ko ? 0.8 : 1.0;
    Tab t;
    t.x.push_back(0.0);
    if (critG) t.x.push_back(a);
    for (int k = 1; k <= nint; ++k) t.x.push_back(tight && k == 2 ? a + (b - a) / 3 + 0.002 : a + (b - a) * k / (nint + 1));   // tight: a 0.002 wide segment
    if (critOG) t.x.push_back(b);
    t.x.push_back(Su);
    for (double s : t.x) {
        t.a.push_back(s <= a ? 0.0 : (s >= Su ? kgm : r4(kgm * sq((s - a) / (Su - a)))));
        t.b.push_back(s >= b ? 0.0 : (s <= 0.0 ? kom : r4(kom * sq((b - s) / b))));
        t.pc.push_back(pcg == 0 ? 0.0 : r4(0.5 * sq(s / Su)));
    }
    return t;
}

// table end-points as the harness reads them off the nodes
struct EndPts { double swl, swcr, swu, sgl, sgcr, sgu, sowcr, sogcr, krw, krwr, kro, krorw, krorg, krg, krgr, pcw, pcg; };
static EndPts tableEndPts(const Tab& w, const Tab& g) {
    EndPts e{};
    e.swl = w.x.front(); e.swu = w.x.back();
    e.swcr = w.x.front(); for (size_t i = 0; i < w.x.size(); ++i) if (w.a[i] == 0.0) e.swcr = w.x[i]; else break;
    double swo = w.x.back(); for (size_t i = 0; i < w.x.size(); ++i) if (w.b[i] == 0.0) { swo = w.x[i]; break; }
    e.sowcr = 1.0 - swo;
    e.sgl = g.x.front(); e.sgu = g.x.back();
    e.sgcr = g.x.front(); for (size_t i = 0; i < g.x.size(); ++i) if (g.a[i] == 0.0) e.sgcr = g.x[i]; else break;
    double sgo = g.x.back(); for (size_t i = 0; i < g.x.size(); ++i) if (g.b[i] == 0.0) { sgo = g.x[i]; break; }
    e.sogcr = 1.0 - e.swl - sgo;
    e.krw = w.a.back(); e.kro = w.b.front(); e.krg = g.a.back();
    e.krwr = pl(w.x, w.a, 1.0 - e.sowcr - e.sgl);
    e.krorw = pl(w.x, w.b, e.swcr + e.sgl);
    e.krgr = pl(g.x, g.a, 1.0 - e.sogcr - e.swl);
    e.krorg = pl(g.x, g.b, e.sgcr);
    e.pcw = w.pc.front(); e.pcg = g.pc.back();
    return e;
}

// ------------------------------------------------------------ decks --------
struct DeckSpec {
    int ncell = 1, nreg = 1;
    bool field = false, family2 = false, endscale = false, threept = false;
    int form = 0;                        // 0: family I SWOF/SGOF, 1: family II SWFN/SGFN/SOF3 (SOF2), 2: family I with SLGOF instead of SGOF
    int phases = 0;                      // 0: oil/gas/water, 1: oil/water, 2: oil/gas
    std::string ehystr;                  // record body of EHYSTR ("" = no hysteresis)
    std::vector<Tab> swof, sgof;         // per region
    std::string satnum, imbnum;          // REGIONS data (text), imbnum may be empty
    std::string props_extra;
};
static void rows(std::string& o, const std::vector<std::vector<double>>& cols) {
    for (size_t i = 0; i < cols[0].size(); ++i) { for (auto& c : cols) { o += ' '; o += g17(c[i]); } o += '\n'; }
    o += "/\n";
}
static std::string deck_text(const DeckSpec& d) {
    const int form = d.family2 ? 1 : d.form;
    std::string o = "RUNSPEC\nDIMENS\n " + std::to_string(d.ncell) + " 1 1 /\nTABDIMS\n " + std::to_string(d.nreg) + " /\nOIL\n";
    if (d.phases != 1) o += "GAS\n";
    if (d.phases != 2) o += "WATER\n";
    o += d.field ? "FIELD\n" : "METRIC\n";
    if (d.endscale) o += "ENDSCALE\n/\n";
    if (!d.ehystr.empty()) o += "SATOPTS\n HYSTER /\n";
    const std::string n = std::to_string(d.ncell) + "*";
    o += "GRID\nDX\n " + n + "100 /\nDY\n " + n + "100 /\nDZ\n " + n + "10 /\nTOPS\n " + n + "2000 /\nPORO\n " + n + "0.2 /\nPROPS\n";
    const bool water = d.phases != 2, gas = d.phases != 1;
    auto slgof = [&]() {
        o += "SLGOF\n";
        for (auto& t : d.sgof) {
            std::vector<double> sl, krg, krog, pc;
            for (size_t i = t.x.size(); i-- > 0;) { sl.push_back(1.0 - t.x[i]); krg.push_back(t.a[i]); krog.push_back(t.b[i]); pc.push_back(t.pc[i]); }
            rows(o, {sl, krg, krog, pc});
        }
    };
    if (form != 1) {
        if (water) { o += "SWOF\n"; for (auto& t : d.swof) rows(o, {t.x, t.a, t.b, t.pc}); }
        if (gas) { if (form == 2) slgof(); else { o += "SGOF\n"; for (auto& t : d.sgof) rows(o, {t.x, t.a, t.b, t.pc}); } }
    } else {
        if (water) { o += "SWFN\n"; for (auto& t : d.swof) rows(o, {t.x, t.a, t.pc}); }
        if (gas) { o += "SGFN\n"; for (auto& t : d.sgof) rows(o, {t.x, t.a, t.pc}); }
        if (water && gas) {
            o += "SOF3\n";
            for (size_t r = 0; r < d.swof.size(); ++r) {
                const Tab& w = d.swof[r]; const Tab& g = d.sgof[r];
                const double swco = w.x.front();
                std::vector<double> so;
                for (double s : w.x) so.push_back(1.0 - s);
                for (double s : g.x) so.push_back((1.0 - swco) - s);
                std::sort(so.begin(), so.end());
                std::vector<double> u;
                for (double s : so) if (u.empty() || s - u.back() > 1e-9) u.push_back(s);
                std::vector<double> krow, krog;
                for (double s : u) { krow.push_back(pl(w.x, w.b, 1.0 - s)); krog.push_back(pl(g.x, g.b, (1.0 - swco) - s)); }
                rows(o, {u, krow, krog});
            }
        } else {
            // two-phase: SOF2 on the nodes of the one family I table (So = 1 - Sw resp. 1 - Sg)
            o += "SOF2\n";
            for (auto& t : (water ? d.swof : d.sgof)) {
                std::vector<double> so, kro;
                for (size_t i = t.x.size(); i-- > 0;) { so.push_back(1.0 - t.x[i]); kro.push_back(t.b[i]); }
                rows(o, {so, kro});
            }
        }
    }
    if (d.threept) o += "SCALECRS\n YES /\n";
    if (!d.ehystr.empty()) o += "EHYSTR\n " + d.ehystr + " /\n";
    o += d.props_extra;
    o += "REGIONS\nSATNUM\n " + d.satnum + " /\n";
    if (!d.imbnum.empty()) o += "IMBNUM\n " + d.imbnum + " /\n";
    return o;
}

struct World {
    std::unique_ptr<Opm::EclipseState> es;
    std::unique_ptr<Mgr> mgr;
};
static Opm::Parser& parser() { static Opm::Parser p; return p; }
static long long g_worlds = 0;
static World build(const std::string& text, int ncell) {
    World w;
    auto deck = parser().parseString(text);
    w.es = std::make_unique<Opm::EclipseState>(deck);
    w.mgr = std::make_unique<Mgr>();
    w.mgr->initFromState(*w.es);
    w.mgr->initParamsForElements(*w.es, ncell, g_lookup, g_ident);
    ++g_worlds;
    return w;
}

struct Out { std::array<double, 3> kr, pc; };
static Out evalAt(Mgr& m, unsigned cell, double sw, double so, double sg) {
    FS fs; fs.setSaturation(0, sw); fs.setSaturation(1, so); fs.setSaturation(2, sg);
    Out o; o.kr = {0, 0, 0}; o.pc = {0, 0, 0};
    Law::relativePermeabilities(o.kr, m.materialLawParams(cell), fs);
    Law::capillaryPressures(o.pc, m.materialLawParams(cell), fs);
    return o;
}
static bool close_(double a, double b, double scale = 1.0) {
    if (std::isnan(a) || std::isnan(b)) return false;
    return std::fabs(a - b) <= 1e-12 * std::max(1.0, std::max(std::fabs(scale), std::max(std::fabs(a), std::fabs(b))));
}
static std::string rp_(const std::string& c) { return "{\"case\": " + vf::jstr(c) + "}"; }

// Labelled observation vector through the public three-phase API: 1-D lattices
// (Sg = 0; Sw = swco) with 101 points and the 21-level (Sw,Sg) triangle.
struct Obs { std::vector<double> v; std::vector<const char*> q; };
// off: lattice offset (used for cells with moved end-points, so that no lattice point coincides with an end-point:
// with KRWR/KRORW/KRGR/KRORG and two-point horizontal scaling the scaled curve jumps at the displacing critical saturation)
static void obsPublic(Obs& o, Mgr& m, unsigned cell, double swco, double off = 0.0) {
    for (int k = 0; k <= 100; ++k) {
        const double sw = k / 100.0 + off;
        if (sw > 1.0) break;
        Out r = evalAt(m, cell, sw, 1.0 - sw, 0.0);
        o.v.push_back(r.kr[0]); o.q.push_back("krw");
        o.v.push_back(r.kr[1]); o.q.push_back("krow");
        o.v.push_back(-r.pc[0]); o.q.push_back("pcow");
    }
    for (int k = 0; k <= 100; ++k) {
        const double sg = k / 100.0 + off, so = (1.0 - swco) - sg;
        if (so < 0) break;
        Out r = evalAt(m, cell, swco, so, sg);
        o.v.push_back(r.kr[2]); o.q.push_back("krg");
        o.v.push_back(r.kr[1]); o.q.push_back("krog");
        o.v.push_back(r.pc[2]); o.q.push_back("pcgo");
    }
    for (int i = 0; i <= 20; ++i) for (int j = 0; i + j <= 20; ++j) {
        const double sw = i / 20.0 + off, sg = j / 20.0 + off;
        if (sw + sg > 1.0) continue;
        Out r = evalAt(m, cell, sw, 1.0 - sw - sg, sg);
        o.v.push_back(r.kr[0]); o.q.push_back("tri-krw");
        o.v.push_back(r.kr[1]); o.q.push_back("tri-kro");
        o.v.push_back(r.kr[2]); o.q.push_back("tri-krg");
        o.v.push_back(-r.pc[0]); o.q.push_back("tri-pcow");
        o.v.push_back(r.pc[2]); o.q.push_back("tri-pcgo");
    }
}
static uint64_t obsHash(const Obs& o) { return vf::fnv(o.v.data(), o.v.size() * sizeof(double)); }
static double obsScale(const Obs& o, const char* q) {
    double s = 1.0; for (size_t i = 0; i < o.v.size(); ++i) if (o.q[i] == q && std::fabs(o.v[i]) > s) s = std::fabs(o.v[i]); return s;
}

enum Arr { SWL, SWCR, SWU, SGL, SGCR, SGU, SOWCR, SOGCR, KRW, KRWR, KRO, KRORW, KRORG, KRG, KRGR, PCW, PCG, NARR };
static const char* ARRN[NARR] = {"SWL", "SWCR", "SWU", "SGL", "SGCR", "SGU", "SOWCR", "SOGCR", "KRW", "KRWR", "KRO", "KRORW", "KRORG", "KRG", "KRGR", "PCW", "PCG"};
static const double SHIFT[NARR][2] = {{0.10, 0.12}, {0.22, 0.30}, {0.95, 0.88}, {0.02, 0.04}, {0.08, 0.12}, {0.80, 0.78}, {0.18, 0.22}, {0.16, 0.24},
                                      {0.5, 0.9}, {0.2, 0.4}, {0.6, 0.95}, {0.3, 0.5}, {0.3, 0.5}, {0.6, 0.95}, {0.3, 0.5}, {1.0, 3.0}, {0.2, 0.8}};
static double& fld(EndPts& e, int a) {
    switch (a) { case SWL: return e.swl; case SWCR: return e.swcr; case SWU: return e.swu; case SGL: return e.sgl; case SGCR: return e.sgcr; case SGU: return e.sgu;
                 case SOWCR: return e.sowcr; case SOGCR: return e.sogcr; case KRW: return e.krw; case KRWR: return e.krwr; case KRO: return e.kro; case KRORW: return e.krorw;
                 case KRORG: return e.krorg; case KRG: return e.krg; case KRGR: return e.krgr; case PCW: return e.pcw; default: return e.pcg; }
}

// ------------------------------------------------- derived end-points ------
// What the satfunc initialisers derive from the tables (raw end-points, function values) and what
// EclipseState.fieldProps() hands out for a defaulted end-point array (also the I-arrays) must equal the
// values read off the generated nodes.  mask: arrays that are meaningful for the phase set.
static const char* FORMN[3] = {"famI", "famII", "slgof"};
static unsigned maskOf(int phases) {
    unsigned m = 0;
    auto on = [&](std::initializer_list<int> l) { for (int a : l) m |= 1u << a; };
    if (phases != 2) on({SWL, SWCR, SWU, SOWCR, KRW, KRWR, KRORW, PCW});
    if (phases != 1) on({SGL, SGCR, SGU, SOGCR, KRG, KRGR, KRORG, PCG});
    on({KRO});
    return m;
}
static void checkDerived(World& w, int region, const std::vector<unsigned>& cells, EndPts T, int phases, double unit, int form, const std::string& keyPrefix, const std::string& cs) {
    const auto& rs = w.es->runspec();
    const auto rtep = Opm::satfunc::getRawTableEndpoints(w.es->getTableManager(), rs.phases(), rs.saturationFunctionControls().minimumRelpermMobilityThreshold());
    const auto rf = Opm::satfunc::getRawFunctionValues(w.es->getTableManager(), rs.phases(), rtep);
    const int r = region;
    const double raw[NARR] = {rtep.connate.water[r], rtep.critical.water[r], rtep.maximum.water[r], rtep.connate.gas[r], rtep.critical.gas[r], rtep.maximum.gas[r],
                              rtep.critical.oil_in_water[r], rtep.critical.oil_in_gas[r], rf.krw.max[r], rf.krw.r[r], rf.kro.max[r], rf.kro.rw[r], rf.kro.rg[r],
                              rf.krg.max[r], rf.krg.r[r], rf.pc.w[r], rf.pc.g[r]};
    const unsigned mask = maskOf(phases);
    for (int a = 0; a < NARR; ++a) {
        if (!(mask >> a & 1)) continue;
        const double want = fld(T, a) * (a == PCW || a == PCG ? unit : 1.0);
        if (!close_(raw[a], want, want))
            R->violation(keyPrefix + ARRN[a] + ":table-derived:" + FORMN[form], std::string("satfunc initialisers derive ") + ARRN[a] + " = " + g17(raw[a]) + " for region " + std::to_string(r + 1) + ", the table's own value is " + g17(want) + " (" + FORMN[form] + ") [" + cs + "]", rp_(cs));
        if (!cells.empty()) for (const char* pre : {"", "I"}) {
            const auto& arr = w.es->fieldProps().get_double(std::string(pre) + ARRN[a]);
            for (unsigned c : cells) {
                if (!close_(arr[c], want, want)) {
                    R->violation(keyPrefix + ARRN[a] + ":defaulted-array:" + FORMN[form], std::string("fieldProps ") + pre + ARRN[a] + "[" + std::to_string(c) + "] defaults to " + g17(arr[c]) + ", the table's own value is " + g17(want) + " (region " + std::to_string(r + 1) + ", " + FORMN[form] + ") [" + cs + "]", rp_(cs));
                    break;
                }
            }
        }
        R->count("derived_endpoint_checks");
    }
}

// ============================================================ part a =======
struct Combo { int c, critW, critO, nint, kw, ko, pcs, swu, critG, critOG, nintg, kg, pcg, sgu, tw, tg; };
static std::vector<Combo> combosA(bool thorough) {
    std::vector<Combo> v;
    for (int swu = 0; swu < (thorough ? 2 : 1); ++swu) for (int sgu = 0; sgu < (thorough ? 2 : 1); ++sgu)
    for (int c = 0; c < 2; ++c) for (int critW = 0; critW < 2; ++critW) for (int critO = 0; critO < 2; ++critO) for (int nint = 1; nint <= 2; ++nint) {
        if (critW && critO && nint == 2) continue;                       // 3..5 nodes
        for (int tw = 0; tw < (thorough && nint == 2 ? 2 : 1); ++tw)
        for (int kw = 0; kw < 2; ++kw) for (int ko = 0; ko < 2; ++ko) for (int pcs = 0; pcs < 3; ++pcs)
        for (int critG = 0; critG < 2; ++critG) for (int critOG = 0; critOG < 2; ++critOG) for (int nintg = 1; nintg <= 2; ++nintg) {
            if (critG && critOG && nintg == 2) continue;
            for (int tg = 0; tg < (thorough && nintg == 2 ? 2 : 1); ++tg)
            for (int kg = 0; kg < 2; ++kg) for (int pcg = 0; pcg < 2; ++pcg)
                v.push_back({c, critW, critO, nint, kw, ko, pcs, swu, critG, critOG, nintg, kg, pcg, sgu, tw, tg});
        }
    }
    return v;
}
static Tab swofOf(const Combo& k) { return genSwof(k.c, k.critW, k.critO, k.nint, k.kw, k.ko, k.pcs, k.swu, k.tw); }
static Tab sgofOf(const Combo& k) { return genSgof(k.c ? 0.15 : 0.0, k.critG, k.critOG, k.nintg, k.kg, k.ko, k.pcg, k.sgu, k.tg); }
static std::string comboStr(const Combo& k) {
    char b[128];
    std::snprintf(b, sizeof b, "swof[c%d cw%d co%d n%d t%d kw%d ko%d pc%d su%d] sgof[cg%d cog%d n%d t%d kg%d pc%d su%d]", k.c, k.critW, k.critO, k.nint, k.tw, k.kw, k.ko, k.pcs, k.swu, k.critG, k.critOG, k.nintg, k.tg, k.kg, k.pcg, k.sgu);
    return b;
}

static std::string g_pfxA = "C15:unscaled:";       // key prefix of the curve checks ("C15:eps-default:" on ENDSCALE decks with defaulted arrays)
// node / bracket / monotone / range checks of one tabulated curve
//   f(s): value through the real code; x,y: nodes (y already in SI); dir: +1 non-decreasing, -1 non-increasing
template <class F>
static void checkCurve(const char* q, F&& f, const std::vector<double>& x, const std::vector<double>& y, int dir, bool is_kr, double lo, double hi,
                       const std::string& cs, const std::string& where) {
    const std::string K = g_pfxA + q;
    double ymin = y[0], ymax = y[0]; for (double v : y) { ymin = std::min(ymin, v); ymax = std::max(ymax, v); }
    const double sc = std::max(1.0, std::max(std::fabs(ymin), std::fabs(ymax)));
    const double tol = 1e-12 * sc;
    for (size_t i = 0; i < x.size(); ++i) {
        if (x[i] < lo || x[i] > hi) continue;
        const double got = f(x[i]);
        if (!close_(got, y[i], sc)) R->violation(K + ":node", where + ": " + q + " at table node " + g17(x[i]) + " is " + g17(got) + ", tabulated " + g17(y[i]) + " [" + cs + "]", rp_(cs));
    }
    double prev = 0; bool have = false;
    for (int k = 0; k <= 100; ++k) {
        const double s = k / 100.0;
        if (s < lo || s > hi) continue;
        const double got = f(s);
        if (std::isnan(got)) { R->violation(K + ":range", where + ": " + q + "(" + g17(s) + ") is NaN [" + cs + "]", rp_(cs)); continue; }
        const double rlo = is_kr ? 0.0 : ymin;
        if (got < rlo - tol || got > ymax + tol) R->violation(K + ":range", where + ": " + q + "(" + g17(s) + ") = " + g17(got) + " outside [" + g17(rlo) + ", " + g17(ymax) + "] [" + cs + "]", rp_(cs));
        // bracketing by the two neighbouring nodes (or the end node outside the table range)
        double b0, b1;
        if (s <= x.front()) b0 = b1 = y.front();
        else if (s >= x.back()) b0 = b1 = y.back();
        else { size_t i = 0; while (x[i + 1] < s) ++i; b0 = std::min(y[i], y[i + 1]); b1 = std::max(y[i], y[i + 1]); }
        if (got < b0 - tol || got > b1 + tol) R->violation(K + ":monotone", where + ": " + q + "(" + g17(s) + ") = " + g17(got) + " is not between the neighbouring node values " + g17(b0) + " and " + g17(b1) + " [" + cs + "]", rp_(cs));
        if (have && dir * (got - prev) < -tol) R->violation(K + ":monotone", where + ": " + q + " not monotone at " + g17(s) + ": " + g17(prev) + " -> " + g17(got) + " [" + cs + "]", rp_(cs));
        prev = got; have = true;
    }
}

// all arrays explicit (= table's own value of region `T`) in one extra cell: every other cell gets the library's defaults
static std::string allArraysInCell(const EndPts& T, int cell1, int phases) {
    std::string o = "EQUALS\n"; EndPts t = T; const unsigned mask = maskOf(phases);
    for (int a = 0; a < NARR; ++a) if (mask >> a & 1) o += std::string(" ") + ARRN[a] + " " + g17(fld(t, a)) + " " + std::to_string(cell1) + " " + std::to_string(cell1) + " 1 1 1 1 /\n";
    return o + "/\n";
}

static void familyCompare(const Obs& o1, const Obs& o2, const char* what, const std::string& desc, const std::string& cs) {
    for (size_t k = 0; k < o1.v.size(); ++k) {
        const bool pc = std::strstr(o1.q[k], "pc") != nullptr;
        const double sc = pc ? std::max(obsScale(o1, o1.q[k]), 1.0) : 1.0;
        if (!close_(o1.v[k], o2.v[k], sc)) {
            R->violation(g_pfxA + o1.q[k] + ":" + what, std::string("family I (SWOF/SGOF) gives ") + g17(o1.v[k]) + ", " + what + " deck " + g17(o2.v[k]) + " for " + o1.q[k] + " (lattice entry " + std::to_string(k) + ") " + desc + " [" + cs + "]", rp_(cs));
            break;
        }
    }
}

// es: 0 no ENDSCALE, 2/3: ENDSCALE (two-/three-point) with every end-point array present but defaulted in the checked cells
static void runA(const std::vector<Combo>& all, size_t i, size_t j, int nreg, bool field, int es = 0) {
    char cb[96]; std::snprintf(cb, sizeof cb, "a %zu %zu %zu %d %d %d", all.size(), i, j, nreg, field ? 1 : 0, es);
    const std::string cs = cb;
    R->current(cs);
    g_pfxA = es ? "C15:eps-default:" : "C15:unscaled:";
    DeckSpec d; d.nreg = nreg; d.ncell = nreg + (es ? 1 : 0); d.field = field;
    d.swof.push_back(swofOf(all[i])); d.sgof.push_back(sgofOf(all[i]));
    if (nreg == 2) { d.swof.push_back(swofOf(all[j])); d.sgof.push_back(sgofOf(all[j])); }
    d.satnum = nreg == 2 ? "1 2" : "1";
    if (es) { d.satnum += " 1"; d.endscale = true; d.threept = es == 3; d.props_extra = allArraysInCell(tableEndPts(d.swof[0], d.sgof[0]), d.ncell, 0); }
    d.imbnum = d.satnum;      // explicit: fieldProps' IMBNUM defaults to 1, not to SATNUM (the I-arrays are observed, too)
    const double unit = field ? PSI : BAR;
    World w[3];
    try {
        for (int f = 0; f < 3; ++f) { d.form = f; w[f] = build(deck_text(d), d.ncell); }
    } catch (const std::exception& e) {
        R->violation(g_pfxA + "setup-exception", std::string("building the material law manager threw: ") + e.what() + " [" + cs + "] " + comboStr(all[i]), rp_(cs));
        return;
    }
    R->evaluations++;
    for (int r = 0; r < nreg; ++r) {
        const Tab& tw = d.swof[r]; const Tab& tg = d.sgof[r];
        const double swco = tw.x.front();
        const EndPts T = tableEndPts(tw, tg);
        std::vector<double> pcw_si, pcg_si; for (double v : tw.pc) pcw_si.push_back(v * unit); for (double v : tg.pc) pcg_si.push_back(v * unit);
        Obs o[3];
        for (int f = 0; f < 3; ++f) {
            Mgr& m = *w[f].mgr;
            const std::string where = std::string(FORMN[f]) + " region " + std::to_string(r + 1) + " " + comboStr(all[r == 0 ? i : j]);
            checkCurve("krw", [&](double s) { return evalAt(m, r, s, 1.0 - s, 0.0).kr[0]; }, tw.x, tw.a, +1, true, 0.0, 1.0, cs, where);
            checkCurve("krow", [&](double s) { return evalAt(m, r, s, 1.0 - s, 0.0).kr[1]; }, tw.x, tw.b, -1, true, swco, 1.0, cs, where);
            checkCurve("pcow", [&](double s) { return -evalAt(m, r, s, 1.0 - s, 0.0).pc[0]; }, tw.x, pcw_si, -1, false, 0.0, 1.0, cs, where);
            const double sgmax = 1.0 - swco;
            checkCurve("krg", [&](double s) { return evalAt(m, r, swco, (1.0 - swco) - s, s).kr[2]; }, tg.x, tg.a, +1, true, 0.0, sgmax, cs, where);
            checkCurve("krog", [&](double s) { return evalAt(m, r, swco, (1.0 - swco) - s, s).kr[1]; }, tg.x, tg.b, -1, true, 0.0, sgmax, cs, where);
            checkCurve("pcgo", [&](double s) { return evalAt(m, r, swco, (1.0 - swco) - s, s).pc[2]; }, tg.x, pcg_si, +1, false, 0.0, sgmax, cs, where);
            obsPublic(o[f], m, r, swco);
            // derived end-points (after the manager is built: fieldProps queries may create arrays)
            checkDerived(w[f], r, {unsigned(r)}, T, 0, unit, f, "C15:endpoints:", cs);
        }
        familyCompare(o[0], o[1], "family", "family II, region " + std::to_string(r + 1) + " " + comboStr(all[r == 0 ? i : j]), cs);
        familyCompare(o[0], o[2], "slgof-twin", "SWOF/SLGOF, region " + std::to_string(r + 1) + " " + comboStr(all[r == 0 ? i : j]), cs);
        R->observe(obsHash(o[0]) ^ (es * 0x9e3779b97f4a7c15ull));
        R->count(es ? "a_region_checks_endscale_defaulted" : "a_region_checks");
    }
    if (R->samples.size() < 2 && R->shard == 0) R->sample_str(cs + " : " + comboStr(all[i]));
}

// two-phase decks: oil/water (SWOF | SWFN+SOF2) and oil/gas (SGOF | SGFN+SOF2 | SLGOF), one region, optional ENDSCALE with defaulted arrays
struct Lay { int c, crit1, crit2, nint, k1, ko, pcs, su, tight; };
static std::vector<Lay> laysA2(int phases, bool thorough) {
    std::vector<Lay> v;
    for (int su = 0; su < (thorough ? 2 : 1); ++su) for (int c = 0; c < (phases == 1 ? 2 : 1); ++c) for (int c1 = 0; c1 < 2; ++c1) for (int c2 = 0; c2 < 2; ++c2) for (int n = 1; n <= 2; ++n) {
        if (c1 && c2 && n == 2) continue;
        for (int t = 0; t < (thorough && n == 2 ? 2 : 1); ++t) for (int k1 = 0; k1 < 2; ++k1) for (int ko = 0; ko < 2; ++ko) for (int pcs = 0; pcs < (phases == 1 ? 3 : 2); ++pcs) v.push_back({c, c1, c2, n, k1, ko, pcs, su, t});
    }
    return v;
}
static void runA2(int phases, const std::vector<Lay>& lays, size_t i, int es) {
    char cb[96]; std::snprintf(cb, sizeof cb, "a2 %d %zu %zu %d", phases, lays.size(), i, es);
    const std::string cs = cb; R->current(cs);
    g_pfxA = std::string(es ? "C15:eps-default:" : "C15:unscaled:") + (phases == 1 ? "oil-water-2p:" : "gas-oil-2p:");
    const Lay& L = lays[i];
    const Tab dummyG{{0.0, 1.0}, {0.0, 1.0}, {1.0, 0.0}, {0.0, 0.0}}, dummyW{{0.0, 1.0}, {0.0, 1.0}, {1.0, 0.0}, {0.0, 0.0}};
    const Tab t = phases == 1 ? genSwof(L.c, L.crit1, L.crit2, L.nint, L.k1, L.ko, L.pcs, L.su, L.tight) : genSgof(0.0, L.crit1, L.crit2, L.nint, L.k1, L.ko, L.pcs, L.su, L.tight);
    EndPts T = phases == 1 ? tableEndPts(t, dummyG) : tableEndPts(dummyW, t);
    if (phases == 2) T.kro = t.b.front();      // maximum oil relperm of a gas-oil run: krog at Sg = 0
    DeckSpec d; d.nreg = 1; d.ncell = es ? 2 : 1; d.phases = phases; d.satnum = es ? "1 1" : "1";
    if (phases == 1) d.swof = {t}; else d.sgof = {t};
    if (es) { d.endscale = true; d.threept = es == 3; d.props_extra = allArraysInCell(T, 2, phases); }
    d.imbnum = d.satnum;
    // oil/gas with SLGOF alone is refused by the library (findMaxKro: "Valid family I tables must be provided" -- only SGOF is
    // consulted for the maximum oil relperm of a gas-oil run), so the two-phase SLGOF twin is not part of the alphabet
    const int nform = 2;
    World w[3];
    char lb[96]; std::snprintf(lb, sizeof lb, "%s layout[c%d a%d b%d n%d t%d k%d ko%d pc%d su%d]", phases == 1 ? "SWOF" : "SGOF", L.c, L.crit1, L.crit2, L.nint, L.tight, L.k1, L.ko, L.pcs, L.su);
    try {
        for (int f = 0; f < nform; ++f) { d.form = f; w[f] = build(deck_text(d), d.ncell); }
    } catch (const std::exception& e) {
        R->violation(g_pfxA + "setup-exception", std::string("building the material law manager threw: ") + e.what() + " [" + cs + "] " + lb, rp_(cs));
        return;
    }
    R->evaluations++;
    std::vector<double> pc_si; for (double v : t.pc) pc_si.push_back(v * BAR);
    Obs o[3];
    for (int f = 0; f < nform; ++f) {
        Mgr& m = *w[f].mgr;
        const std::string where = std::string(FORMN[f]) + " two-phase " + lb;
        // oil/water: everything is a function of Sw; oil/gas: of So = 1 - Sg
        auto ev = [&](double s) { return phases == 1 ? evalAt(m, 0, s, 1.0 - s, 0.0) : evalAt(m, 0, 0.0, 1.0 - s, s); };
        if (phases == 1) {
            checkCurve("krw", [&](double s) { return ev(s).kr[0]; }, t.x, t.a, +1, true, 0.0, 1.0, cs, where);
            checkCurve("krow", [&](double s) { return ev(s).kr[1]; }, t.x, t.b, -1, true, 0.0, 1.0, cs, where);
            checkCurve("pcow", [&](double s) { Out r = ev(s); return r.pc[1] - r.pc[0]; }, t.x, pc_si, -1, false, 0.0, 1.0, cs, where);
        } else {
            checkCurve("krg", [&](double s) { return ev(s).kr[2]; }, t.x, t.a, +1, true, 0.0, 1.0, cs, where);
            checkCurve("krog", [&](double s) { return ev(s).kr[1]; }, t.x, t.b, -1, true, 0.0, 1.0, cs, where);
            checkCurve("pcgo", [&](double s) { Out r = ev(s); return r.pc[2] - r.pc[1]; }, t.x, pc_si, +1, false, 0.0, 1.0, cs, where);
        }
        for (int k = 0; k <= 100; ++k) { Out r = ev(k / 100.0); for (int p = 0; p < 3; ++p) { o[f].v.push_back(r.kr[p]); o[f].q.push_back("kr"); } for (int p = 0; p < 3; ++p) { o[f].v.push_back(r.pc[p]); o[f].q.push_back("pc"); } }
        checkDerived(w[f], 0, {0u}, T, phases, BAR, f, std::string("C15:endpoints:") + (phases == 1 ? "oil-water-2p:" : "gas-oil-2p:"), cs);
    }
    familyCompare(o[0], o[1], "family", std::string("family II (SOF2) ") + lb, cs);
    if (nform == 3) familyCompare(o[0], o[2], "slgof-twin", std::string("SLGOF ") + lb, cs);
    R->observe(obsHash(o[0]) ^ (es * 0x9e3779b97f4a7c15ull) ^ phases);
    R->count("a2_two_phase_decks");
}

static void partA(bool thorough) {
    const auto quickSet = combosA(false);
    const auto all = combosA(thorough);
    const size_t N = all.size();
    R->count("a_combos", R->shard == 0 ? (long long)N : 0);
    // two-region decks: region 1 = combo i, region 2 = combo i + stride (different table, every combo sits once in each region)
    const size_t stride = 131;
    for (size_t i = 0; i < N; ++i) {
        if (R->timed_out()) return;
        if (!R->mine()) continue;
        runA(all, i, (i + stride) % N, 2, false);
    }
    if (thorough) {
        // the quick alphabet again as single-region decks, in FIELD units (pc conversion psi -> Pa), and on ENDSCALE decks with defaulted arrays
        for (size_t i = 0; i < quickSet.size(); ++i) {
            if (R->timed_out()) return;
            if (R->mine()) runA(quickSet, i, i, 1, false);
            if (R->mine()) runA(quickSet, i, (i + stride) % quickSet.size(), 2, true);
            if (R->mine()) runA(quickSet, i, (i + stride) % quickSet.size(), 2, false, 2 + int(i % 2));
        }
    } else {
        // every 8th combination also single-region, in FIELD units, and on an ENDSCALE deck with defaulted arrays
        for (size_t i = 0; i < N; i += 8) {
            if (R->timed_out()) return;
            if (R->mine()) runA(all, i, i, 1, false);
            if (R->mine()) runA(all, i, (i + stride) % N, 2, true);
            if (R->mine()) runA(all, i + (i / 8) % 8 < N ? i + (i / 8) % 8 : i, (i + stride) % N, 2, false, 2 + int((i / 8) % 2));
        }
    }
    // two-phase forms
    for (int phases = 1; phases <= 2; ++phases) {
        const auto lays = laysA2(phases, thorough);
        for (size_t i = 0; i < lays.size(); ++i) for (int es : {0, 2, 3}) {
            if (R->timed_out()) return;
            if (R->mine()) runA2(phases, lays, i, es);
        }
    }
}

// ============================================================ part b =======
struct BaseB { Tab w, g; };
static std::vector<BaseB> basesB(bool thorough) {
    std::vector<BaseB> v;
    //                 c cw co n kw ko pc su            cg cog n kg ko pc su
    v.push_back({genSwof(1, 1, 1, 1, 1, 1, 1, 0), genSgof(0.15, 1, 1, 1, 1, 1, 1, 0)});
    v.push_back({genSwof(1, 1, 1, 2, 0, 0, 1, 1), genSgof(0.15, 1, 1, 2, 0, 0, 1, 1)});
    v.push_back({genSwof(1, 1, 1, 2, 1, 0, 2, 0), genSgof(0.15, 1, 1, 1, 0, 0, 1, 1)});
    if (thorough) {
        v.push_back({genSwof(1, 1, 1, 1, 0, 1, 1, 1), genSgof(0.15, 1, 1, 2, 1, 1, 1, 0)});
        v.push_back({genSwof(1, 1, 1, 2, 1, 1, 2, 1), genSgof(0.15, 1, 1, 2, 1, 1, 1, 1)});
        v.push_back({genSwof(1, 1, 1, 1, 0, 0, 1, 0), genSgof(0.15, 1, 1, 1, 1, 0, 1, 0)});
    }
    return v;
}
static bool consistent(const EndPts& e, const bool* has) {
    // ordering of the horizontal anchors; the displacing-phase relperms only matter when their array is present
    return e.swl < e.swcr && e.swcr < 1.0 - e.sowcr - e.sgl && 1.0 - e.sowcr - e.sgl < e.swu && e.swu <= 1.0 &&
           e.sgl < e.sgcr && e.sgcr < 1.0 - e.sogcr - e.swl && 1.0 - e.sogcr - e.swl < e.sgu && e.sgu <= 1.0 - e.swl + 1e-12 &&
           e.swcr + e.sgl < 1.0 - e.sowcr && e.sogcr < 1.0 - e.sgcr - e.swl &&
           (!has[KRWR] || e.krwr < e.krw) && (!has[KRORW] || e.krorw < e.kro) && (!has[KRORG] || e.krorg < e.kro) && (!has[KRGR] || e.krgr < e.krg) && e.pcw > 0 && e.pcg > 0;
}

struct RefB { World w; std::vector<Obs> obs; };
static std::map<int, RefB> g_refB;                 // base -> unscaled world (no ENDSCALE), cells: 0..2 region 1, 3 region 2

// forward (cell -> table) and inverse (table -> cell) saturation maps are mutual inverses between the outer anchors
template <class S2U, class U2S, class Pts>
static void checkInverse(const std::string& key, const char* what, S2U&& s2u, U2S&& u2s, const Pts& up, const Pts& sp, const std::string& cs) {
    for (int k = 0; k <= 64; ++k) {
        const double u = up[0] + (up[2] - up[0]) * k / 64.0, s = sp[0] + (sp[2] - sp[0]) * k / 64.0;
        const double u2 = s2u(u2s(u)), s2 = u2s(s2u(s));
        if (!close_(u2, u)) { R->violation(key, std::string(what) + ": scaledToUnscaled(unscaledToScaled(" + g17(u) + ")) = " + g17(u2) + " (anchors table " + g17(up[0]) + "," + g17(up[1]) + "," + g17(up[2]) + " cell " + g17(sp[0]) + "," + g17(sp[1]) + "," + g17(sp[2]) + ") [" + cs + "]", rp_(cs)); return; }
        if (!close_(s2, s)) { R->violation(key, std::string(what) + ": unscaledToScaled(scaledToUnscaled(" + g17(s) + ")) = " + g17(s2) + " (anchors table " + g17(up[0]) + "," + g17(up[1]) + "," + g17(up[2]) + " cell " + g17(sp[0]) + "," + g17(sp[1]) + "," + g17(sp[2]) + ") [" + cs + "]", rp_(cs)); return; }
    }
}
template <class Eps, class P>
static void checkInverseAll(const std::string& prefix, const std::string& M, const char* sys, const P& p, const std::string& cs) {
    const auto& U = p.unscaledPoints(); const auto& S = p.scaledPoints();
    checkInverse(prefix + "inverse-map-krw-" + sys + M, "krw saturation map", [&](double s) { return Eps::scaledToUnscaledSatKrw(p, s); }, [&](double u) { return Eps::unscaledToScaledSatKrw(p, u); }, U.saturationKrwPoints(), S.saturationKrwPoints(), cs);
    checkInverse(prefix + "inverse-map-krn-" + sys + M, "krn saturation map", [&](double s) { return Eps::scaledToUnscaledSatKrn(p, s); }, [&](double u) { return Eps::unscaledToScaledSatKrn(p, u); }, U.saturationKrnPoints(), S.saturationKrnPoints(), cs);
    checkInverse(prefix + "inverse-map-pc-" + sys + M, "pc saturation map", [&](double s) { return Eps::scaledToUnscaledSatPc(p, s); }, [&](double u) { return Eps::unscaledToScaledSatPc(p, u); }, U.saturationPcPoints(), S.saturationPcPoints(), cs);
}

static void expectB(bool ok, const std::string& key, const std::string& what, const std::string& cs) { if (!ok) R->violation(key, what + " [" + cs + "]", rp_(cs)); }

static void runBform(const std::vector<BaseB>& bases, int b, int mode, const std::vector<std::pair<int, int>>& sub, int form, std::vector<Obs>& out) {
    std::string cs = "b " + std::to_string(b) + " " + std::to_string(mode) + " ";
    for (size_t k = 0; k < sub.size(); ++k) cs += (k ? "," : "") + std::to_string(sub[k].first) + ":" + std::to_string(sub[k].second);
    if (sub.empty()) cs += "-";
    R->current(cs);
    const BaseB& B = bases[b]; const BaseB& B2 = bases[(b + 1) % bases.size()];
    const EndPts T = tableEndPts(B.w, B.g);
    EndPts S = T;                                        // effective scaled end-points of cell 0
    bool has[NARR] = {};
    for (auto& [a, v] : sub) { fld(S, a) = SHIFT[a][v]; has[a] = true; }
    if (!consistent(S, has)) { R->count("b_skipped_inconsistent"); if (R->counters["b_skipped_inconsistent"] <= 3) R->sample_str("skipped (end-points not ordered): " + cs); return; }
    const std::string M = std::string(mode == 3 ? ":3pt" : ":2pt") + (form ? std::string(":") + FORMN[form] : std::string());

    DeckSpec d; d.ncell = 4; d.nreg = 2; d.endscale = true; d.threept = mode == 3; d.form = form;
    d.swof = {B.w, B2.w}; d.sgof = {B.g, B2.g}; d.satnum = "1 1 1 2";
    if (!sub.empty()) {
        d.props_extra = "EQUALS\n";
        EndPts own = T;
        for (auto& [a, v] : sub) {
            d.props_extra += std::string(" ") + ARRN[a] + " " + g17(SHIFT[a][v]) + " 1 1 1 1 1 1 /\n";
            d.props_extra += std::string(" ") + ARRN[a] + " " + g17(fld(own, a)) + " 2 2 1 1 1 1 /\n";
        }
        d.props_extra += "/\n";
    }
    World w;
    try {
        w = build(deck_text(d), 4);
        if (!g_refB.count(b)) {
            DeckSpec u = d; u.endscale = false; u.threept = false; u.props_extra.clear(); u.form = 0;     // the reference is always the family I deck
            RefB rb; rb.w = build(deck_text(u), 4);
            rb.obs.resize(4);
            for (int c = 0; c < 4; ++c) obsPublic(rb.obs[c], *rb.w.mgr, c, (c == 3 ? B2.w : B.w).x.front());
            g_refB[b] = std::move(rb);
        }
    } catch (const std::exception& e) {
        R->violation("C15:eps:setup-exception", std::string("building the material law manager threw: ") + e.what() + " [" + cs + "]", rp_(cs));
        return;
    }
    R->evaluations++;
    Mgr& m = *w.mgr;
    // ---- identity: cells 1 (explicit own values), 2 (defaulted), 3 (defaulted, region 2)
    const char* idn[4] = {"", "identity-explicit", "identity-default", "identity-default-region2"};
    out.assign(4, Obs{});
    for (int c = 1; c < 4; ++c) {
        Obs& o = out[c]; obsPublic(o, m, c, (c == 3 ? B2.w : B.w).x.front());
        const Obs& ref = g_refB[b].obs[c];
        for (size_t k = 0; k < o.v.size(); ++k) {
            const bool pc = std::strstr(o.q[k], "pc") != nullptr;
            if (!close_(o.v[k], ref.v[k], pc ? obsScale(ref, ref.q[k]) : 1.0)) {
                R->violation(std::string("C15:eps:") + idn[c] + ":" + o.q[k] + M, std::string("end-points equal to the table's own are not the identity: ") + o.q[k] + " = " + g17(o.v[k]) + " with ENDSCALE, " + g17(ref.v[k]) + " unscaled (cell " + std::to_string(c) + ", lattice entry " + std::to_string(k) + ") [" + cs + "]", rp_(cs));
                break;
            }
        }
        R->count("b_identity_cells");
    }
    // ---- what the manager and fieldProps hold as end-points: cell 0 the given values, cells 1-3 the table's own
    {
        const EndPts T2 = tableEndPts(B2.w, B2.g);
        for (unsigned c = 0; c < 4; ++c) {
            EndPts E = c == 0 ? S : c == 3 ? T2 : T;
            const auto& inf = m.oilWaterScaledEpsInfoDrainage(c);
            const double got[NARR] = {inf.Swl, inf.Swcr, inf.Swu, inf.Sgl, inf.Sgcr, inf.Sgu, inf.Sowcr, inf.Sogcr, inf.maxKrw, inf.Krwr, inf.maxKrow, inf.Krorw, inf.Krorg, inf.maxKrg, inf.Krgr, inf.maxPcow, inf.maxPcgo};
            for (int a = 0; a < NARR; ++a) {
                const double want = fld(E, a) * (a == PCW || a == PCG ? BAR : 1.0);
                if (!close_(got[a], want, want)) R->violation(std::string("C15:eps:") + ARRN[a] + ":scaled-info-" + (c == 0 ? "given" : c == 1 ? "explicit-own" : "defaulted") + M, std::string("the manager's scaled end-point info of cell ") + std::to_string(c) + " holds " + ARRN[a] + " = " + g17(got[a]) + ", expected " + g17(want) + " [" + cs + "]", rp_(cs));
                if (!close_(inf.maxKrog, fld(E, KRO))) R->violation(std::string("C15:eps:KRO:scaled-info-krog") + M, "maxKrog " + g17(inf.maxKrog) + " != " + g17(fld(E, KRO)) + " [" + cs + "]", rp_(cs));
                if (has[a]) {
                    const double fv = w.es->fieldProps().get_double(ARRN[a])[c];
                    if (!close_(fv, want, want)) R->violation(std::string("C15:eps:") + ARRN[a] + ":array-value-" + (c == 0 ? "given" : c == 1 ? "explicit-own" : "defaulted") + M, std::string("fieldProps ") + ARRN[a] + "[" + std::to_string(c) + "] = " + g17(fv) + ", expected " + g17(want) + " [" + cs + "]", rp_(cs));
                }
            }
        }
        // the raw table end-points of both regions
        checkDerived(w, 0, {}, T, 0, BAR, form, "C15:endpoints:", cs);
        checkDerived(w, 1, {}, T2, 0, BAR, form, "C15:endpoints:", cs);
    }
    // ---- cell 0: scaled end-points map onto table end-points
    const auto& rp = m.materialLawParams(0).template getRealParams<DefaultApproach>();
    const auto& ow = rp.oilWaterParams(); const auto& go = rp.gasOilParams();
    const auto& owd = ow.drainageParams(); const auto& god = go.drainageParams();
    auto krw = [&](double sw) { return evalAt(m, 0, sw, 1.0 - sw, 0.0).kr[0]; };
    auto krow = [&](double sw) { return OWLaw::twoPhaseSatKrn(ow, sw); };
    auto pcow = [&](double sw) { return -evalAt(m, 0, sw, 1.0 - sw, 0.0).pc[0]; };
    auto krg = [&](double sg) { return evalAt(m, 0, S.swl, (1.0 - S.swl) - sg, sg).kr[2]; };
    auto krog = [&](double so) { return GOLaw::twoPhaseSatKrw(go, so); };
    auto pcgo = [&](double sg) { return evalAt(m, 0, S.swl, (1.0 - S.swl) - sg, sg).pc[2]; };
    auto val = [&](int arr, const char* what, double got, double want, double scale = 1.0) {
        expectB(close_(got, want, scale), std::string("C15:eps:") + ARRN[arr] + ":" + what + M, std::string(what) + ": got " + g17(got) + ", expected " + g17(want), cs);
    };
    expectB(close_(rp.Swl(), S.swl), "C15:eps:SWL:three-phase-swl" + M, "three-phase law's connate water " + g17(rp.Swl()) + " != scaled SWL " + g17(S.swl), cs);
    // saturation maps (scaled anchor -> table anchor); the middle anchor only with three-point scaling
    val(SWCR, "satmap-krw", OWEps::scaledToUnscaledSatKrw(owd, S.swcr), T.swcr);
    val(SWU, "satmap-krw", OWEps::scaledToUnscaledSatKrw(owd, S.swu), T.swu);
    val(SWL, "satmap-krow", OWEps::scaledToUnscaledSatKrn(owd, S.swl + S.sgl), T.swl + T.sgl);
    val(SOWCR, "satmap-krow", OWEps::scaledToUnscaledSatKrn(owd, 1.0 - S.sowcr), 1.0 - T.sowcr);
    val(SWL, "satmap-pcow", OWEps::scaledToUnscaledSatPc(owd, S.swl), T.swl);
    val(SWU, "satmap-pcow", OWEps::scaledToUnscaledSatPc(owd, S.swu), T.swu);
    // gas-oil law: wetting saturation is So = 1 - Swl - Sg
    val(SGCR, "satmap-krg", GOEps::scaledToUnscaledSatKrn(god, 1.0 - S.swl - S.sgcr), 1.0 - T.swl - T.sgcr);
    val(SGU, "satmap-krg", GOEps::scaledToUnscaledSatKrn(god, 1.0 - S.swl - S.sgu), 1.0 - T.swl - T.sgu);
    val(SOGCR, "satmap-krog", GOEps::scaledToUnscaledSatKrw(god, S.sogcr), T.sogcr);
    val(SGL, "satmap-krog", GOEps::scaledToUnscaledSatKrw(god, 1.0 - S.swl - S.sgl), 1.0 - T.swl - T.sgl);
    val(SGL, "satmap-pcgo", GOEps::scaledToUnscaledSatPc(god, 1.0 - S.swl - S.sgl), 1.0 - T.swl - T.sgl);
    val(SGU, "satmap-pcgo", GOEps::scaledToUnscaledSatPc(god, 1.0 - S.swl - S.sgu), 1.0 - T.swl - T.sgu);
    if (mode == 3) {
        val(SOWCR, "satmap-krw-mid", OWEps::scaledToUnscaledSatKrw(owd, 1.0 - S.sowcr - S.sgl), 1.0 - T.sowcr - T.sgl);
        val(SWCR, "satmap-krow-mid", OWEps::scaledToUnscaledSatKrn(owd, S.swcr + S.sgl), T.swcr + T.sgl);
        val(SOGCR, "satmap-krg-mid", GOEps::scaledToUnscaledSatKrn(god, S.sogcr), T.sogcr);
        val(SGCR, "satmap-krog-mid", GOEps::scaledToUnscaledSatKrw(god, 1.0 - S.swl - S.sgcr), 1.0 - T.swl - T.sgcr);
    }
    checkInverseAll<OWEps>("C15:eps:", M, "oil-water", owd, cs);
    checkInverseAll<GOEps>("C15:eps:", M, "gas-oil", god, cs);
    // values at the scaled end-points
    val(SWCR, "krw-at-scaled-critical", krw(S.swcr), 0.0);
    val(KRW, "krw-at-scaled-max", krw(S.swu), S.krw);
    val(SOWCR, "krow-at-scaled-critical", krow(1.0 - S.sowcr), 0.0);
    val(KRO, "krow-at-scaled-max", krow(S.swl + S.sgl), S.kro);
    val(SGCR, "krg-at-scaled-critical", krg(S.sgcr), 0.0);
    val(KRG, "krg-at-scaled-max", krg(S.sgu), S.krg);
    val(SOGCR, "krog-at-scaled-critical", krog(S.sogcr), 0.0);
    val(KRO, "krog-at-scaled-max", krog(1.0 - S.swl - S.sgl), S.kro);
    val(PCW, "pcow-at-scaled-swl", pcow(S.swl), S.pcw * BAR, S.pcw * BAR);
    val(PCW, "pcow-at-scaled-swu", pcow(S.swu), B.w.pc.back() * BAR * (S.pcw / T.pcw), S.pcw * BAR);
    val(PCG, "pcgo-at-scaled-sgu", pcgo(S.sgu), S.pcg * BAR, S.pcg * BAR);
    val(PCG, "pcgo-at-scaled-sgl", pcgo(S.sgl), B.g.pc.front() * BAR * (S.pcg / T.pcg), S.pcg * BAR);
    if (mode == 3) {
        // three-point vertical scaling: kr at the displacing phase's critical saturation
        if (has[KRWR]) val(KRWR, "krw-at-scaled-displacing", krw(1.0 - S.sowcr - S.sgl), S.krwr);
        if (has[KRORW]) val(KRORW, "krow-at-scaled-displacing", krow(S.swcr + S.sgl), S.krorw);
        if (has[KRGR]) val(KRGR, "krg-at-scaled-displacing", krg(1.0 - S.sogcr - S.swl), S.krgr);
        if (has[KRORG]) val(KRORG, "krog-at-scaled-displacing", krog(1.0 - S.sgcr - S.swl), S.krorg);
    }
    // public three-phase oil relperm agrees with the two-phase curves where the table alone decides
    val(KRO, "public-kro-vs-krow", evalAt(m, 0, 0.5, 0.5, 0.0).kr[1], krow(0.5));
    val(KRO, "public-kro-vs-krog", evalAt(m, 0, S.swl, 0.4, (1.0 - S.swl) - 0.4).kr[1], krog(0.4));
    Obs& o = out[0]; obsPublic(o, m, 0, S.swl, 0.00371);
    R->observe(obsHash(o) ^ form);
    if (form == 0 && R->samples.size() < 4 && R->shard == 0 && sub.size() >= 2) R->sample_str(cs + " : " + d.props_extra);
}
// every case in family I (SWOF/SGOF) and family II (SWFN/SGFN/SOF3), cases with <= 1 (quick) / <= 2 (thorough) arrays also with SLGOF; the decks describe the
// same curves, so all four cells must agree between the forms
static void runB(const std::vector<BaseB>& bases, int b, int mode, const std::vector<std::pair<int, int>>& sub) {
    std::string cs = "b " + std::to_string(b) + " " + std::to_string(mode) + " ";
    for (size_t k = 0; k < sub.size(); ++k) cs += (k ? "," : "") + std::to_string(sub[k].first) + ":" + std::to_string(sub[k].second);
    if (sub.empty()) cs += "-";
    std::vector<Obs> o0, of;
    runBform(bases, b, mode, sub, 0, o0);
    if (o0.empty()) return;
    for (int form = 1; form <= (sub.size() <= (R->thorough() ? 2u : 1u) ? 2 : 1); ++form) {
        runBform(bases, b, mode, sub, form, of);
        if (of.empty()) continue;
        for (int c = 0; c < 4; ++c) {
            bool bad = false;
            for (size_t k = 0; k < o0[c].v.size() && !bad; ++k) {
                const bool pc = std::strstr(o0[c].q[k], "pc") != nullptr;
                if (!close_(o0[c].v[k], of[c].v[k], pc ? obsScale(o0[c], o0[c].q[k]) : 1.0)) {
                    bad = true;
                    R->violation(std::string("C15:eps:family:") + o0[c].q[k] + (mode == 3 ? ":3pt:" : ":2pt:") + FORMN[form], std::string("ENDSCALE, cell ") + std::to_string(c) + (c == 0 ? " (moved end-points)" : c == 1 ? " (explicit own end-points)" : " (defaulted end-points)") + ": family I gives " + o0[c].q[k] + " = " + g17(o0[c].v[k]) + ", the " + FORMN[form] + " deck " + g17(of[c].v[k]) + " (lattice entry " + std::to_string(k) + ") [" + cs + "]", rp_(cs));
                }
            }
        }
        R->count("b_family_comparisons");
    }
}

static void partB(bool thorough) {
    const auto bases = basesB(thorough);
    const int maxk = thorough ? 3 : 2;
    long long ncase = 0;
    for (int b = 0; b < (int)bases.size(); ++b) for (int mode = 2; mode <= 3; ++mode) {
        // all subsets of size <= maxk, every assignment of the two shifted values
        std::vector<int> idx;
        std::function<void(int)> rec = [&](int start) {
            const int k = idx.size();
            for (int mask = 0; mask < (1 << k); ++mask) {
                ++ncase;
                if (R->timed_out()) return;
                if (!R->mine()) continue;
                std::vector<std::pair<int, int>> sub;
                for (int t = 0; t < k; ++t) sub.push_back({idx[t], (mask >> t) & 1});
                runB(bases, b, mode, sub);
            }
            if (k == maxk) return;
            for (int a = start; a < NARR; ++a) { idx.push_back(a); rec(a + 1); idx.pop_back(); }
        };
        rec(0);
    }
    if (R->shard == 0) R->count("b_cases", ncase);
}

// ============================================================ part c =======
struct HystTabs { Tab dw, dg; std::vector<Tab> iw, ig; std::string name; };   // drainage + imbibition variants (index 2,3)
static std::vector<HystTabs> hystTables(bool thorough) {
    std::vector<HystTabs> v;
    Tab iwA{{0.125, 0.25, 0.5, 0.625, 1.0}, {0, 0, 0.2, 0.35, 0.8}, {0.9, 0.5, 0.1, 0, 0}, {1.5, 0.7, 0.3, 0.15, 0}};
    Tab igA{{0, 0.25, 0.5, 0.625, 0.875}, {0, 0, 0.25, 0.5, 0.95}, {0.9, 0.3, 0.05, 0, 0}, {0, 0.1, 0.2, 0.3, 0.5}};
    Tab iwB{{0.125, 0.375, 0.6875, 1.0}, {0, 0.05, 0.3, 0.8}, {0.9, 0.35, 0, 0}, {2.0, 0.8, 0.2, 0}};
    Tab igB{{0, 0.1875, 0.4375, 0.6875, 0.875}, {0, 0, 0.2, 0.6, 0.95}, {0.9, 0.4, 0.1, 0, 0}, {0, 0.05, 0.15, 0.3, 0.5}};
    {   // D1: strictly monotone between the end-points
        HystTabs h; h.name = "D1";
        h.dw = {{0.125, 0.25, 0.5, 0.75, 1.0}, {0, 0, 0.15, 0.45, 0.8}, {0.9, 0.6, 0.2, 0, 0}, {2.0, 1.0, 0.5, 0.2, 0}};
        h.dg = {{0, 0.0625, 0.25, 0.5, 0.625, 0.875}, {0, 0, 0.1, 0.4, 0.6, 0.95}, {0.9, 0.7, 0.3, 0.05, 0, 0}, {0, 0.05, 0.1, 0.2, 0.3, 0.5}};
        h.iw = {iwA, iwB}; h.ig = {igA, igB};
        v.push_back(h);
    }
    {   // D2: plateau of the non-wetting relperm at its maximum (as in SPE1: krow = 1 on the first two nodes)
        HystTabs h; h.name = "D2-plateau";
        h.dw = {{0.125, 0.25, 0.5, 0.75, 1.0}, {0, 0, 0.15, 0.45, 0.8}, {0.9, 0.9, 0.3, 0, 0}, {2.0, 1.0, 0.5, 0.2, 0}};
        h.dg = {{0, 0.0625, 0.25, 0.5, 0.75, 0.875}, {0, 0, 0.1, 0.5, 0.95, 0.95}, {0.9, 0.7, 0.3, 0.05, 0, 0}, {0, 0.05, 0.1, 0.2, 0.3, 0.5}};
        h.iw = {iwA, iwB}; h.ig = {igA, igB};
        v.push_back(h);
    }
    if (thorough) {   // D3: no connate water, no critical gas
        HystTabs h; h.name = "D3-noconnate";
        h.dw = {{0, 0.25, 0.5, 0.875, 1.0}, {0, 0.05, 0.2, 0.7, 1.0}, {1.0, 0.55, 0.2, 0, 0}, {1.0, 0.6, 0.3, 0.1, 0}};
        h.dg = {{0, 0.25, 0.5, 0.75, 1.0}, {0, 0.1, 0.3, 0.6, 1.0}, {1.0, 0.5, 0.15, 0, 0}, {0, 0.1, 0.2, 0.3, 0.4}};
        Tab iw{{0, 0.25, 0.5, 0.75, 1.0}, {0, 0.1, 0.3, 0.6, 1.0}, {1.0, 0.4, 0.1, 0, 0}, {0.8, 0.4, 0.2, 0.1, 0}};
        Tab ig{{0, 0.125, 0.5, 0.625, 1.0}, {0, 0, 0.3, 0.45, 1.0}, {1.0, 0.6, 0.05, 0, 0}, {0, 0.1, 0.2, 0.3, 0.4}};
        Tab iw2{{0, 0.375, 0.6875, 1.0}, {0, 0.1, 0.45, 1.0}, {1.0, 0.3, 0, 0}, {0.9, 0.3, 0.1, 0}};
        Tab ig2{{0, 0.1875, 0.5, 0.8125, 1.0}, {0, 0, 0.25, 0.7, 1.0}, {1.0, 0.5, 0.1, 0, 0}, {0, 0.1, 0.2, 0.3, 0.4}};
        h.iw = {iw, iw2}; h.ig = {ig, ig2};
        v.push_back(h);
    }
    return v;
}

static const int KFRESH = 192;                // cells per imbibition choice: cell 0 work cell, the others fresh replay cells
struct Event { double sw, sg; };
static std::vector<Event> g_ev8, g_ev16;      // 9-level and 17-level (Sw,Sg) triangles
static const std::vector<Event>& eventsOf(int levels) { return levels == 16 ? g_ev16 : g_ev8; }
static const int NL = 64;                     // refined lattice (9 levels x 8)

struct Snap { OWParams ow; GOParams go; };
struct Ref { double owKrn = 2.0, owKrw = -2.0, owPc = 2.0, goKrn = 2.0, goKrw = -2.0, goPc = 2.0; bool owRev = false, goRev = false; };

// canonical key of the dynamic hysteresis state of one two-phase law: every public getter of a member that
// update()/updateDynamicParams_() writes (raw bits; NaN canonicalised)
static void kd(std::string& k, double v) { if (std::isnan(v)) v = std::numeric_limits<double>::quiet_NaN(); if (v == 0.0) v = 0.0; char b[8]; std::memcpy(b, &v, 8); k.append(b, 8); }
template <class P> static void keyOf(std::string& k, const P& p) {
    kd(k, p.krnSwMdc()); kd(k, p.krwSwMdc()); kd(k, p.pcSwMdc()); kd(k, p.pcSwMic()); k += p.initialImb() ? '1' : '0';
    kd(k, p.deltaSwImbKrn()); kd(k, p.Sncrt()); kd(k, p.Swcrt()); kd(k, p.KrwdHy()); kd(k, p.krnWght()); kd(k, p.Krwd_sncrt());
    kd(k, p.SnTrapped(false)); kd(k, p.SnTrapped(true)); kd(k, p.SwTrapped());
}

struct CfgC { int table, model; bool both; int imb; int levels = 8; };          // imb: 0 same region, 1 textual copy, 2 variant A, 3 variant B
struct DeckC { World w, ref; std::vector<double> owDrain, goDrain; double swco; };

static DeckC buildC(const HystTabs& h, int model, bool both) {
    DeckSpec d; d.ncell = 4 * KFRESH; d.nreg = 4;
    d.swof = {h.dw, h.dw, h.iw[0], h.iw[1]}; d.sgof = {h.dg, h.dg, h.ig[0], h.ig[1]};
    d.satnum = std::to_string(d.ncell) + "*1";
    const std::string K = std::to_string(KFRESH);
    d.imbnum = K + "*1 " + K + "*2 " + K + "*3 " + K + "*4";
    d.ehystr = "0.1 " + std::to_string(model) + " 1.0 0.1 " + (both ? "BOTH" : "KR");
    DeckC dc;
    dc.w = build(deck_text(d), d.ncell);
    DeckSpec u = d; u.ehystr.clear(); u.imbnum.clear(); u.ncell = 1; u.satnum = "1";
    dc.ref = build(deck_text(u), 1);
    dc.swco = h.dw.x.front();
    const auto& rr = dc.ref.mgr->materialLawParams(0).template getRealParams<DefaultApproach>();
    for (int k = 0; k <= NL; ++k) {
        dc.owDrain.push_back(OWLaw::twoPhaseSatKrn(rr.oilWaterParams(), double(k) / NL));
        dc.goDrain.push_back(GOLaw::twoPhaseSatKrn(rr.gasOilParams(), double(k) / NL));
    }
    return dc;
}

static std::string histStr(const std::vector<int>& h) { return vf::join_ints(h); }
static const char* modelName(int m) { return m == 0 ? "carlson0" : m == 1 ? "carlson1" : m == 2 ? "killough2" : m == 3 ? "killough3" : "killough4"; }

// options used by part d (hysteresis x end-point scaling); part c runs with the defaults
struct BfsOpt {
    const std::vector<Event>* events = nullptr;   // own event alphabet
    std::vector<int> enabled; bool haveEnabled = false;
    int wc = -1, nfresh = KFRESH, refCell = 0, identical = -1;
    bool numericPlateau = false;
    std::string tag, csPrefix, cp = "c_", label;
};
struct BfsC {
    const HystTabs& H; CfgC cfg; DeckC& D; int maxdepth;
    const std::vector<Event>& g_events;
    Mgr& m; unsigned wc;                          // work cell
    BfsOpt opt; bool identical; std::string cp;
    std::vector<double> owDrain, goDrain;         // drainage curves of the reference (hysteresis-free) manager, same end-points
    std::string tag, csPrefix;
    Snap pristine;
    struct St { std::vector<int> hist; Snap snap; Ref ref; uint64_t beh; };
    std::unordered_map<std::string, St> states;
    std::deque<std::string> frontier;
    std::vector<double> obs0;                     // behaviour of the initial state (for the Carlson identity check)
    unsigned nextFresh = 1;
    uint64_t ntrans = 0, nfreshval = 0, nsnapval = 0, nrevisit = 0;
    std::vector<int> enabled;                     // events inside the tables' domain (Sw >= connate water)

    BfsC(const HystTabs& h, CfgC c, DeckC& d, int md, BfsOpt o = {}) : H(h), cfg(c), D(d), maxdepth(md), g_events(o.events ? *o.events : eventsOf(c.levels)), m(*d.w.mgr), wc(o.wc >= 0 ? o.wc : c.imb * KFRESH), opt(o) {
        tag = opt.tag.empty() ? std::string("C15:hyst:") + modelName(cfg.model) : opt.tag;
        csPrefix = !opt.csPrefix.empty() ? opt.csPrefix : "c " + std::to_string(cfg.table) + " " + std::to_string(cfg.model) + " " + (cfg.both ? "BOTH" : "KR") + " " + std::to_string(cfg.imb) + " " + std::to_string(cfg.levels) + " ";
        identical = opt.identical >= 0 ? opt.identical != 0 : cfg.imb <= 1;
        cp = opt.cp;
        pristine = take(wc);
        if (opt.haveEnabled) enabled = opt.enabled;
        else for (int e = 0; e < (int)g_events.size(); ++e) if (g_events[e].sw >= D.swco) enabled.push_back(e);
        for (int k = 0; k <= NL; ++k) {
            owDrain.push_back(OWLaw::twoPhaseSatKrn(refReal().oilWaterParams(), double(k) / NL));
            goDrain.push_back(GOLaw::twoPhaseSatKrn(refReal().gasOilParams(), double(k) / NL));
        }
    }
    const Law::DefaultMaterial::Params& refReal() { return D.ref.mgr->materialLawParams(opt.refCell).template getRealParams<DefaultApproach>(); }
    auto& real(unsigned cell) { return m.materialLawParams(cell).template getRealParams<DefaultApproach>(); }
    Snap take(unsigned cell) { auto& r = real(cell); return Snap{r.oilWaterParams(), r.gasOilParams()}; }
    void put(unsigned cell, const Snap& s) { auto& r = real(cell); r.oilWaterParams() = s.ow; r.gasOilParams() = s.go; }
    std::string key(unsigned cell) { std::string k; auto& r = real(cell); keyOf(k, r.oilWaterParams()); keyOf(k, r.gasOilParams()); return k; }
    bool apply(unsigned cell, int e) {
        FS fs; const Event& ev = g_events[e];
        fs.setSaturation(0, ev.sw); fs.setSaturation(1, 1.0 - ev.sw - ev.sg); fs.setSaturation(2, ev.sg);
        return m.updateHysteresis(fs, cell);
    }
    static void refStep(Ref& r, const Event& ev, double swco, bool pcOn) {
        const double so = 1.0 - ev.sw - ev.sg;
        const double owKrn = 1.0 - so, goKrn = 1.0 - swco - ev.sg;
        if (owKrn > r.owKrn) r.owRev = true;
        if (goKrn > r.goKrn) r.goRev = true;
        r.owKrn = std::min(r.owKrn, owKrn); r.owKrw = std::max(r.owKrw, ev.sw); if (pcOn) r.owPc = std::min(r.owPc, ev.sw);
        r.goKrn = std::min(r.goKrn, goKrn); r.goKrw = std::max(r.goKrw, so); if (pcOn) r.goPc = std::min(r.goPc, so);
    }
    // behaviour vector of the work cell: non-wetting relperm of both two-phase laws on the refined lattice,
    // wetting relperm, and the public API on the 9-level triangle
    void behaviour(std::vector<double>& v, std::vector<char>& kind) {
        auto& r = real(wc);
        for (int k = 0; k <= NL; ++k) { v.push_back(OWLaw::twoPhaseSatKrn(r.oilWaterParams(), double(k) / NL)); kind.push_back('n'); }
        for (int k = 0; k <= NL; ++k) { v.push_back(GOLaw::twoPhaseSatKrn(r.gasOilParams(), double(k) / NL)); kind.push_back('g'); }
        for (int k = 0; k <= NL; ++k) { v.push_back(OWLaw::twoPhaseSatKrw(r.oilWaterParams(), double(k) / NL)); kind.push_back('w'); }
        for (int k = 0; k <= NL; ++k) { v.push_back(GOLaw::twoPhaseSatKrw(r.gasOilParams(), double(k) / NL)); kind.push_back('w'); }
        for (int i = 0; i <= 8; ++i) for (int j = 0; i + j <= 8; ++j) {
            Out o = evalAt(m, wc, i / 8.0, 1.0 - (i + j) / 8.0, j / 8.0);
            for (int p = 0; p < 3; ++p) { v.push_back(o.kr[p]); kind.push_back('k'); }
            v.push_back(o.pc[0]); kind.push_back('p'); v.push_back(o.pc[2]); kind.push_back('p');
        }
    }
    template <class LawT, class P>
    void checkSystem(const char* sys, const P& p, const std::vector<double>& drain, double refMin, bool reversed, const std::vector<double>& krn, const std::string& cs) {
        // (1) on the drainage side of the turning point the non-wetting relperm is the drainage curve, exactly
        for (int k = 0; k <= NL; ++k) {
            const double s = double(k) / NL;
            if (s <= refMin && krn[k] != drain[k]) {
                R->violation(tag + ":" + sys + (reversed ? ":drainage-side-changed-after-reversal" : ":not-on-drainage-before-first-reversal"), std::string("krn(") + g17(s) + ") = " + g17(krn[k]) + " but drainage curve gives " + g17(drain[k]) + " (turning point " + g17(refMin) + ") [" + cs + "]", rp_(cs));
                break;
            }
        }
        // (2) scanning curve starts continuously at the reversal point
        if (refMin <= 1.0) {
            const double at = LawT::twoPhaseSatKrn(p, refMin);
            const double just = LawT::twoPhaseSatKrn(p, std::nextafter(refMin, 2.0));
            if (!(std::fabs(at - just) <= 1e-10)) {
                const bool plateau = onPlateau(sys, refMin);
                R->violation(tag + ":" + sys + ":scanning-curve-discontinuous-at-reversal" + (plateau ? ":reversal-on-max-plateau" : ""), std::string("krn at the reversal point ") + g17(refMin) + " is " + g17(at) + " on the drainage curve but " + g17(just) + " immediately after it on the scanning curve [" + cs + "]", rp_(cs));
            }
        }
        // (3) monotone in saturation (non-increasing in the wetting saturation) across drainage + scanning curve
        for (int k = 0; k < NL; ++k) {
            if (!(krn[k + 1] <= krn[k] + 1e-12)) {
                R->violation(tag + ":" + sys + ":scanning-curve-not-monotone", std::string("krn(") + g17(double(k) / NL) + ") = " + g17(krn[k]) + " < krn(" + g17(double(k + 1) / NL) + ") = " + g17(krn[k + 1]) + " (turning point " + g17(refMin) + ") [" + cs + "]", rp_(cs));
                break;
            }
        }
    }
    bool onPlateau(const char* sys, double s) {
        // is s inside / at the end of a flat, non-zero segment of the drainage non-wetting curve?
        if (opt.numericPlateau) {
            const double lo = std::max(0.0, s - 1.0 / 128);
            const double a = sys[0] == 'o' ? OWLaw::twoPhaseSatKrn(refReal().oilWaterParams(), s) : GOLaw::twoPhaseSatKrn(refReal().gasOilParams(), s);
            const double b = sys[0] == 'o' ? OWLaw::twoPhaseSatKrn(refReal().oilWaterParams(), lo) : GOLaw::twoPhaseSatKrn(refReal().gasOilParams(), lo);
            return a != 0.0 && a == b;
        }
        std::vector<double> x, y;
        if (sys[0] == 'o') { x = H.dw.x; y = H.dw.b; }
        else { for (size_t i = H.dg.x.size(); i-- > 0;) { x.push_back((1.0 - D.swco) - H.dg.x[i]); y.push_back(H.dg.a[i]); } }
        for (size_t i = 0; i + 1 < x.size(); ++i) if (y[i] == y[i + 1] && y[i] != 0.0 && s >= x[i] - 1e-12 && s <= x[i + 1] + 1e-12) return true;
        return s < x.front() && y.front() != 0.0;
    }
    // reference model vs. getters (cheap; every transition)
    void checkRef(const Ref& ref, const std::string& cs) {
        auto& r = real(wc);
        const auto& ow = r.oilWaterParams(); const auto& go = r.gasOilParams();
        if (ow.krnSwMdc() != ref.owKrn) R->violation(tag + ":oil-water:turning-point-not-history-minimum", std::string("krnSwMdc = ") + g17(ow.krnSwMdc()) + ", minimum wetting saturation of the history = " + g17(ref.owKrn) + " [" + cs + "]", rp_(cs));
        if (go.krnSwMdc() != ref.goKrn) R->violation(tag + ":gas-oil:turning-point-not-history-minimum", std::string("krnSwMdc = ") + g17(go.krnSwMdc()) + ", minimum wetting saturation of the history = " + g17(ref.goKrn) + " [" + cs + "]", rp_(cs));
        if (ow.krwSwMdc() != ref.owKrw || go.krwSwMdc() != ref.goKrw)
            R->violation(tag + ":wetting-turning-point-not-history-maximum", "krwSwMdc (ow " + g17(ow.krwSwMdc()) + ", go " + g17(go.krwSwMdc()) + ") != maxima of the history (" + g17(ref.owKrw) + ", " + g17(ref.goKrw) + ") [" + cs + "]", rp_(cs));
        if (ow.pcSwMdc() != ref.owPc || go.pcSwMdc() != ref.goPc)
            R->violation(tag + ":pc-turning-point-not-history-minimum", "pcSwMdc (ow " + g17(ow.pcSwMdc()) + ", go " + g17(go.pcSwMdc()) + ") != minima of the history (" + g17(ref.owPc) + ", " + g17(ref.goPc) + ") [" + cs + "]", rp_(cs));
        // before the first reversal the current saturation sits on the drainage curve (exactly)
        if (!ref.owRev && ref.owKrn <= 1.0) {
            R->count(cp + "transitions_before_first_reversal_ow");
            if (OWLaw::twoPhaseSatKrn(ow, ref.owKrn) != OWLaw::twoPhaseSatKrn(refReal().oilWaterParams(), ref.owKrn))
                R->violation(tag + ":oil-water:not-on-drainage-before-first-reversal", "krn at the current saturation " + g17(ref.owKrn) + " differs from the drainage curve although the saturation never reversed [" + cs + "]", rp_(cs));
        }
        if (!ref.goRev && ref.goKrn <= 1.0) {
            R->count(cp + "transitions_before_first_reversal_go");
            if (GOLaw::twoPhaseSatKrn(go, ref.goKrn) != GOLaw::twoPhaseSatKrn(refReal().gasOilParams(), ref.goKrn))
                R->violation(tag + ":gas-oil:not-on-drainage-before-first-reversal", "krn at the current saturation " + g17(ref.goKrn) + " differs from the drainage curve although the saturation never reversed [" + cs + "]", rp_(cs));
        }
    }
    // state invariants on the state currently held by the work cell (expensive; once per distinct state + sampled revisits)
    uint64_t checkState(const Ref& ref, const std::string& cs) {
        auto& r = real(wc);
        std::vector<double> v; std::vector<char> kind; behaviour(v, kind);
        std::vector<double> kn(v.begin(), v.begin() + NL + 1), kg(v.begin() + NL + 1, v.begin() + 2 * NL + 2);
        checkSystem<OWLaw>("oil-water", r.oilWaterParams(), owDrain, ref.owKrn, ref.owRev, kn, cs);
        checkSystem<GOLaw>("gas-oil", r.gasOilParams(), goDrain, ref.goKrn, ref.goRev, kg, cs);
        if (opt.numericPlateau) {
            // vacuity guard of part d: turning points whose tabulated image lies strictly between the table's and the cell's middle krn node
            const auto& oi = r.oilWaterParams().imbibitionParams(); const auto& gi = r.gasOilParams().imbibitionParams();
            auto between = [](double u, double a, double b) { return a != b && u > std::min(a, b) && u < std::max(a, b); };
            if (ref.owKrn <= 1.0 && between(OWEps::scaledToUnscaledSatKrn(oi, ref.owKrn), oi.unscaledPoints().saturationKrnPoints()[1], oi.scaledPoints().saturationKrnPoints()[1])) R->count(cp + "states_turning_point_between_table_and_cell_mid_node_ow");
            if (ref.goKrn <= 1.0 && between(GOEps::scaledToUnscaledSatKrn(gi, ref.goKrn), gi.unscaledPoints().saturationKrnPoints()[1], gi.scaledPoints().saturationKrnPoints()[1])) R->count(cp + "states_turning_point_between_table_and_cell_mid_node_go");
        }
        // (4) Carlson with identical drainage and imbibition curves: nothing changes
        if (cfg.model <= 1 && identical && !obs0.empty()) {
            for (size_t k = 0; k < v.size(); ++k) {
                if (kind[k] == 'p' && cfg.both) continue;            // pc hysteresis is Killough's model, not Carlson's
                if (!close_(v[k], obs0[k])) {
                    const char* q = kind[k] == 'n' ? "krn-oil-water" : kind[k] == 'g' ? "krn-gas-oil" : kind[k] == 'w' ? "krw" : kind[k] == 'k' ? "public-kr" : "pc";
                    bool plateau = false;
                    if (kind[k] == 'n' || kind[k] == 'k') plateau = plateau || onPlateau("oil-water", ref.owKrn);
                    if (kind[k] == 'g' || kind[k] == 'k') plateau = plateau || onPlateau("gas-oil", ref.goKrn);
                    R->violation(tag + ":identical-curves-change-" + q + (plateau ? ":reversal-on-max-plateau" : ""), std::string("identical drainage and imbibition curves (") + (cfg.imb == 0 ? "IMBNUM = SATNUM" : "IMBNUM region is a copy of the SATNUM region") + (opt.label.empty() ? "" : ", " + opt.label) + "), yet " + q + " entry " + std::to_string(k) + " changed from " + g17(obs0[k]) + " to " + g17(v[k]) + " (turning points ow " + g17(ref.owKrn) + " go " + g17(ref.goKrn) + ") [" + cs + "]", rp_(cs));
                    break;
                }
            }
        }
        return vf::fnv(v.data(), v.size() * sizeof(double));
    }
    void run() {
        put(wc, pristine);
        {
            std::vector<char> kind; behaviour(obs0, kind);
            St s0; s0.snap = pristine; s0.beh = checkState(s0.ref, csPrefix + "-");
            const std::string k0 = key(wc);
            states.emplace(k0, std::move(s0)); frontier.push_back(k0);
        }
        while (!frontier.empty()) {
            if (R->timed_out()) break;
            const std::string k = frontier.front(); frontier.pop_front();
            const St cur = states.at(k);
            if ((int)cur.hist.size() >= maxdepth) continue;
            for (int e : enabled) {
                std::vector<int> h2 = cur.hist; h2.push_back(e);
                std::string cs;                                   // rendered lazily (hot loop)
                auto CS = [&]() -> const std::string& { if (cs.empty()) cs = csPrefix + histStr(h2); return cs; };
                put(wc, cur.snap);
                apply(wc, e);
                ++ntrans;
                Ref ref = cur.ref; refStep(ref, g_events[e], real(wc).Swl(), cfg.both);
                const std::string k2 = key(wc);
                auto it = states.find(k2);
                if (it == states.end() || (ntrans & 31) == 0) { R->current(CS()); checkRef(ref, CS()); }
                else {
                    // the cheap part inline: turning points are the running extremes
                    auto& r = real(wc);
                    if (r.oilWaterParams().krnSwMdc() != ref.owKrn || r.gasOilParams().krnSwMdc() != ref.goKrn || r.oilWaterParams().krwSwMdc() != ref.owKrw ||
                        r.gasOilParams().krwSwMdc() != ref.goKrw || r.oilWaterParams().pcSwMdc() != ref.owPc || r.gasOilParams().pcSwMdc() != ref.goPc) checkRef(ref, CS());
                }
                if (it == states.end()) {
                    St n; n.hist = h2; n.snap = take(wc); n.ref = ref; n.beh = checkState(ref, CS());
                    // validate the new state by replaying its whole history from scratch
                    unsigned cell = 0; bool fresh = false;
                    if (nextFresh < (unsigned)opt.nfresh) { cell = wc + nextFresh++; fresh = true; }
                    else { cell = wc; put(wc, pristine); }
                    for (int ee : h2) apply(cell, ee);
                    if (key(cell) != k2) R->violation(tag + ":replay-from-scratch-differs", "state reached by snapshot/restore differs from the state reached by replaying the history on a fresh cell [" + CS() + "]", rp_(CS()));
                    if (fresh) ++nfreshval; else ++nsnapval;
                    R->observe(n.beh);
                    states.emplace(k2, std::move(n)); frontier.push_back(k2);
                } else if ((ntrans & 31) == 0) {
                    // sampled revisit: the same key must behave identically (the key is canonical)
                    ++nrevisit;
                    if (checkState(ref, CS()) != it->second.beh)
                        R->violation("C15:hyst:harness:state-key-not-canonical", "two histories with the same hysteresis getters behave differently: [" + histStr(it->second.hist) + "] vs [" + CS() + "]", rp_(CS()));
                }
            }
        }
        R->states += states.size(); R->transitions += ntrans; R->traces_validated += nfreshval + nsnapval; R->evaluations += ntrans;
        R->count(cp + "frontier_left", frontier.size());
        R->count(cp + "replayed_on_fresh_cell", nfreshval);
        R->count(cp + "replayed_from_pristine_snapshot", nsnapval);
        R->count(cp + "revisits_behaviour_rechecked", nrevisit);
        for (auto& [kk, s] : states) R->count(cp + "states_first_reached_at_depth_" + std::to_string(s.hist.size()));
        if (R->samples.size() < 6 && !states.empty()) {
            const St* deep = nullptr; for (auto& [kk, s] : states) if (!deep || s.hist.size() > deep->hist.size()) deep = &s;
            R->sample_str(csPrefix + histStr(deep->hist) + " (" + H.name + ", " + modelName(cfg.model) + (opt.label.empty() ? "" : ", " + opt.label) + "): " + std::to_string(states.size()) + " states, " + std::to_string(ntrans) + " transitions");
        }
    }
    // replay of one history with all checks along the path
    void replay(const std::vector<int>& hist) {
        put(wc, pristine);
        { std::vector<char> kind; behaviour(obs0, kind); }
        Ref ref; std::vector<int> h;
        checkState(ref, csPrefix + "-");
        for (int e : hist) {
            h.push_back(e); apply(wc, e); refStep(ref, g_events[e], real(wc).Swl(), cfg.both);
            checkRef(ref, csPrefix + histStr(h));
            checkState(ref, csPrefix + histStr(h));
            R->evaluations++;
        }
    }
};

static std::vector<CfgC> configsC(bool thorough, int ntables) {
    std::vector<CfgC> v;
    std::vector<int> models = thorough ? std::vector<int>{0, 1, 2, 3, 4} : std::vector<int>{0, 1, 2, 3};
    for (int t = 0; t < ntables; ++t) for (int model : models) for (int both = 0; both < 2; ++both) for (int imb = 0; imb < 4; ++imb) v.push_back({t, model, both != 0, imb, 8});
    // thorough: the same configurations again on the 17-level lattice
    if (thorough) for (int t = 0; t < ntables; ++t) for (int model : models) for (int both = 0; both < 2; ++both) for (int imb = 0; imb < 4; ++imb) v.push_back({t, model, both != 0, imb, 16});
    return v;
}

static void partC(bool thorough) {
    const auto tabs = hystTables(thorough);
    const int depth = thorough ? 6 : 5;
    const auto cfgs = configsC(thorough, tabs.size());
    // shard by configuration, keeping the four imbibition choices of one deck spread over four shards
    std::map<std::string, DeckC> decks;
    for (size_t i = 0; i < cfgs.size(); ++i) {
        if (R->timed_out()) return;
        if (!R->mine()) continue;
        const CfgC& c = cfgs[i];
        // one deck per (table, model, flag, lattice): its four imbibition columns are used by one configuration each, so every BFS starts on untouched cells
        const std::string dk = std::to_string(c.table) + "/" + std::to_string(c.model) + "/" + (c.both ? "B" : "K") + "/" + std::to_string(c.levels);
        R->current("c " + std::to_string(c.table) + " " + std::to_string(c.model) + " " + (c.both ? "BOTH" : "KR") + " " + std::to_string(c.imb) + " " + std::to_string(c.levels) + " -");
        try {
            if (!decks.count(dk)) decks.emplace(dk, buildC(tabs[c.table], c.model, c.both));
        } catch (const std::exception& e) {
            R->violation("C15:hyst:setup-exception", std::string("building the material law manager threw: ") + e.what() + " [" + dk + "]", rp_("c " + dk));
            continue;
        }
        BfsC b(tabs[c.table], c, decks.at(dk), depth);
        b.run();
        R->count("c_configs");
        R->count(std::string("c_states_flag_") + (c.both ? "BOTH" : "KR") + "_levels_" + std::to_string(c.levels + 1), b.states.size());
    }
}

// ============================================================ part d =======
// hysteresis x end-point scaling: the BFS of part c on cells whose drainage AND imbibition end-points are moved.
static const int KD = 48;                     // cells per column (work cell + fresh replay cells)
struct EpVal { const char* arr; double drain, imbA; };          // value of the drainage array; value of the I-array for the genuine imbibition table
struct EpSet { const char* name; std::vector<EpVal> v; };
// drainage table: SWL .125 SWCR .375 SWU 1 SGL 0 SGCR .125 SGU .875 SOWCR .25 SOGCR .375
// imbibition table A: ISWL .125 ISWCR .375 ISWU 1 ISGL 0 ISGCR .25 ISGU .875 ISOWCR .375 ISOGCR .375
static std::vector<EpSet> epSets() {
    return {
        {"identity", {{"SWL", .125, .125}, {"SWCR", .375, .375}, {"SWU", 1.0, 1.0}, {"SGCR", .125, .25}, {"SGU", .875, .875}, {"SOWCR", .25, .375}, {"SOGCR", .375, .375}}},
        {"critical-up", {{"SWCR", .5, .5}, {"SOWCR", .3125, .4375}, {"SGCR", .1875, .3125}, {"SOGCR", .5, .5}}},
        {"critical-down", {{"SWCR", .25, .25}, {"SOWCR", .125, .25}, {"SGCR", .0625, .1875}, {"SOGCR", .25, .25}}},
        {"connate-down", {{"SWL", .0625, .0625}}},
        {"maximum-down", {{"SWU", .9375, .9375}, {"SGU", .75, .75}}},
        {"all-moved", {{"SWL", .0625, .0625}, {"SWCR", .5, .5}, {"SWU", .9375, .9375}, {"SGCR", .1875, .3125}, {"SGU", .8125, .8125}, {"SOWCR", .125, .25}, {"SOGCR", .25, .25}}},
    };
}
static HystTabs tabsD() {
    HystTabs h; h.name = "D4";
    h.dw = {{0.125, 0.375, 0.5625, 0.75, 1.0}, {0, 0, 0.2, 0.5, 0.8}, {0.9, 0.55, 0.25, 0, 0}, {2.0, 1.0, 0.5, 0.2, 0}};
    h.dg = {{0, 0.125, 0.3125, 0.5, 0.6875, 0.875}, {0, 0, 0.15, 0.4, 0.7, 0.95}, {0.9, 0.6, 0.2, 0, 0, 0}, {0, 0.05, 0.1, 0.2, 0.3, 0.5}};
    Tab iw{{0.125, 0.375, 0.5, 0.625, 1.0}, {0, 0, 0.2, 0.35, 0.8}, {0.9, 0.4, 0.15, 0, 0}, {1.5, 0.7, 0.3, 0.15, 0}};
    Tab ig{{0, 0.25, 0.375, 0.5, 0.6875, 0.875}, {0, 0, 0.15, 0.3, 0.6, 0.95}, {0.9, 0.35, 0.1, 0, 0, 0}, {0, 0.1, 0.15, 0.2, 0.3, 0.5}};
    h.iw = {iw, iw}; h.ig = {ig, ig};
    return h;
}
struct CfgD { int model; bool both; int mode, eset, imb, levels; };     // mode 2|3; imb 0: IMBNUM = SATNUM and I-arrays = arrays (identical curves), 1: imbibition table A with its own moved I-arrays
static std::string csD(const CfgD& c) { return "d " + std::to_string(c.model) + " " + (c.both ? "BOTH" : "KR") + " " + std::to_string(c.mode) + " " + std::to_string(c.eset) + " " + std::to_string(c.imb) + " " + std::to_string(c.levels) + " "; }
static unsigned colD(const CfgD& c) { return (c.eset * 2 + c.imb) * KD; }

static DeckC buildD(const HystTabs& h, int model, bool both, int mode) {
    const auto sets = epSets();
    DeckSpec d; d.ncell = int(sets.size()) * 2 * KD; d.nreg = 4; d.endscale = true; d.threept = mode == 3;
    d.swof = {h.dw, h.dw, h.iw[0], h.iw[1]}; d.sgof = {h.dg, h.dg, h.ig[0], h.ig[1]};
    d.satnum = std::to_string(d.ncell) + "*1";
    std::string drainEq = "EQUALS\n", imbEq = "EQUALS\n";
    for (size_t e = 0; e < sets.size(); ++e) for (int imb = 0; imb < 2; ++imb) {
        const int c0 = (int(e) * 2 + imb) * KD + 1, c1 = c0 + KD - 1;
        const std::string box = " " + std::to_string(c0) + " " + std::to_string(c1) + " 1 1 1 1 /\n";
        d.imbnum += std::to_string(KD) + "*" + (imb ? "3 " : "1 ");
        for (auto& v : sets[e].v) {
            drainEq += std::string(" ") + v.arr + " " + g17(v.drain) + box;
            imbEq += std::string(" I") + v.arr + " " + g17(imb ? v.imbA : v.drain) + box;
        }
    }
    drainEq += "/\n"; imbEq += "/\n";
    d.props_extra = drainEq + imbEq;
    d.ehystr = "0.1 " + std::to_string(model) + " 1.0 0.1 " + (both ? "BOTH" : "KR");
    DeckC dc;
    dc.w = build(deck_text(d), d.ncell);
    DeckSpec u = d; u.ehystr.clear(); u.imbnum.clear(); u.props_extra = drainEq;       // same cells, same drainage end-points, no hysteresis
    dc.ref = build(deck_text(u), d.ncell);
    dc.swco = h.dw.x.front();
    return dc;
}
// events of one column: oil-water moves (Sg = 0), gas-oil moves (Sw = the cell's SWL) on the 1/levels lattice inside the
// cell's scaled domain [SWL, 1] x [0, SGU], and (thorough) three genuine three-phase points
static bool g_threePhaseEventsD = false;        // thorough only
static std::vector<Event> eventsD(const EpSet& es, int levels) {
    double swl = .125, sgu = .875;
    for (auto& v : es.v) { if (std::string(v.arr) == "SWL") swl = v.drain; if (std::string(v.arr) == "SGU") sgu = v.drain; }
    std::vector<Event> ev;
    for (int k = 0; k <= levels; ++k) { const double sw = double(k) / levels; if (sw >= swl) ev.push_back({sw, 0.0}); }
    for (int k = 1; k <= levels; ++k) { const double sg = double(k) / levels; if (sg <= sgu && sg <= 1.0 - swl) ev.push_back({swl, sg}); }
    if (g_threePhaseEventsD) { ev.push_back({0.25, 0.25}); ev.push_back({0.25, 0.5}); ev.push_back({0.5, 0.25}); }
    return ev;
}
static void runD(const CfgD& c, DeckC& dc, const HystTabs& h, int depth, const std::vector<int>* replay = nullptr) {
    const auto sets = epSets();
    const std::vector<Event> ev = eventsD(sets[c.eset], c.levels);
    BfsOpt o; o.events = &ev; o.haveEnabled = true; for (int e = 0; e < (int)ev.size(); ++e) o.enabled.push_back(e);
    o.wc = colD(c); o.refCell = colD(c); o.nfresh = KD; o.identical = c.imb == 0; o.numericPlateau = true; o.cp = "d_";
    o.tag = std::string("C15:hyst-eps:") + modelName(c.model) + (c.mode == 3 ? ":3pt" : ":2pt");
    o.csPrefix = csD(c);
    o.label = std::string(c.mode == 3 ? "three-point" : "two-point") + " scaling, end-point set " + sets[c.eset].name + (c.imb ? ", imbibition table A" : ", I-arrays = drainage arrays");
    Mgr& m = *dc.w.mgr;
    // the maps of this cell (drainage and imbibition parameter objects) are mutual inverses
    {
        const auto& rp = m.materialLawParams(o.wc).template getRealParams<DefaultApproach>();
        const std::string M = c.mode == 3 ? ":3pt" : ":2pt", cs = o.csPrefix + "-";
        checkInverseAll<OWEps>("C15:hyst-eps:drainage-", M, "oil-water", rp.oilWaterParams().drainageParams(), cs);
        checkInverseAll<OWEps>("C15:hyst-eps:imbibition-", M, "oil-water", rp.oilWaterParams().imbibitionParams(), cs);
        checkInverseAll<GOEps>("C15:hyst-eps:drainage-", M, "gas-oil", rp.gasOilParams().drainageParams(), cs);
        checkInverseAll<GOEps>("C15:hyst-eps:imbibition-", M, "gas-oil", rp.gasOilParams().imbibitionParams(), cs);
    }
    BfsC b(h, CfgC{0, c.model, c.both, c.imb, c.levels}, dc, depth, o);
    if (replay) { b.replay(*replay); return; }
    b.run();
    R->count("d_configs");
    R->count(std::string("d_states_flag_") + (c.both ? "BOTH" : "KR") + "_levels_" + std::to_string(c.levels + 1), b.states.size());
}
static void partD(bool thorough) {
    const HystTabs h = tabsD();
    const int depth = thorough ? 6 : 5;
    std::vector<CfgD> cfgs;
    const int nsets = epSets().size();
    std::vector<int> models = thorough ? std::vector<int>{0, 1, 2, 3, 4} : std::vector<int>{0, 1, 2, 3};
    for (int model : models) for (int both = 0; both < (thorough ? 2 : 1); ++both) for (int mode = 2; mode <= 3; ++mode) for (int e = 0; e < nsets; ++e) for (int imb = 0; imb < 2; ++imb)
        cfgs.push_back({model, both != 0, mode, e, imb, 16});
    if (thorough) for (int model : models) for (int mode = 2; mode <= 3; ++mode) for (int e = 0; e < nsets; ++e) for (int imb = 0; imb < 2; ++imb) cfgs.push_back({model, false, mode, e, imb, 32});
    std::map<std::string, DeckC> decks;
    for (auto& c : cfgs) {
        if (R->timed_out()) return;
        if (!R->mine()) continue;
        const std::string dk = std::to_string(c.model) + "/" + (c.both ? "B" : "K") + "/" + std::to_string(c.mode) + "/" + std::to_string(c.levels);
        R->current(csD(c) + "-");
        try {
            if (!decks.count(dk)) decks.emplace(dk, buildD(h, c.model, c.both, c.mode));
        } catch (const std::exception& e) {
            R->violation("C15:hyst-eps:setup-exception", std::string("building the material law manager threw: ") + e.what() + " [" + dk + "]", rp_(csD(c) + "-"));
            continue;
        }
        runD(c, decks.at(dk), h, depth);
    }
}

// ============================================================ part e =======
// three-phase oil relperm model x end-point scaling.  model: 0 default (ECLIPSE), 1 STONE1, 2 STONE1 + STONE1EX (eta = 2), 3 STONE2
static const char* MODELN[4] = {"default", "stone1", "stone1ex", "stone2"};
struct SetE { const char* name; std::vector<std::pair<int, double>> v; };      // (array, value); arrays not listed keep the table's own value
static std::vector<SetE> setsE() {
    return {
        {"identity", {}},                                                             // all eight saturation arrays explicit = own (filled in runE)
        {"swl-down", {{SWL, 0.10}}}, {"swl-down2", {{SWL, 0.12}}},
        {"sgl-up", {{SGL, 0.04}}}, {"sgu-down", {{SGU, 0.78}}}, {"sgl-sgu", {{SGL, 0.02}, {SGU, 0.80}}},
        {"critical-up", {{SWCR, 0.30}, {SOWCR, 0.22}, {SGCR, 0.12}, {SOGCR, 0.24}}},
        {"critical-down", {{SWCR, 0.22}, {SOWCR, 0.18}, {SGCR, 0.08}, {SOGCR, 0.16}}},
        {"swl-vertical", {{SWL, 0.10}, {KRG, 0.6}, {KRO, 0.95}, {PCG, 0.8}, {KRW, 0.5}}},
        {"all-moved", {{SWL, 0.12}, {SWCR, 0.30}, {SWU, 0.95}, {SGL, 0.02}, {SGCR, 0.12}, {SGU, 0.80}, {SOWCR, 0.18}, {SOGCR, 0.16}}},
    };
}
template <Opm::EclMultiplexerApproach A> static double swlOf(const Law::Params& p) { return p.template getRealParams<A>().Swl(); }
template <Opm::EclMultiplexerApproach A, class F> static auto withReal(Law::Params& p, F&& f) { return f(p.template getRealParams<A>()); }

static void runE(const std::vector<BaseB>& bases, int b, int mode, int set, int model, bool hyst) {
    const std::string cs = "e " + std::to_string(b) + " " + std::to_string(mode) + " " + std::to_string(set) + " " + std::to_string(model) + " " + (hyst ? "1" : "0");
    R->current(cs);
    const auto sets = setsE();
    const BaseB& B = bases[b];
    const EndPts T = tableEndPts(B.w, B.g);
    EndPts S = T; bool has[NARR] = {};
    std::vector<std::pair<int, double>> arrs = sets[set].v;
    if (arrs.empty()) for (int a : {SWL, SWCR, SWU, SGL, SGCR, SGU, SOWCR, SOGCR}) { EndPts t = T; arrs.push_back({a, fld(t, a)}); }
    for (auto& [a, v] : arrs) { fld(S, a) = v; has[a] = true; }
    if (!consistent(S, has)) { R->count("e_skipped_inconsistent"); return; }
    const std::string K = std::string("C15:eps3p:") + MODELN[model] + (mode == 3 ? ":3pt" : ":2pt") + (hyst ? ":hyst:" : ":");

    DeckSpec d; d.ncell = 2; d.nreg = 1; d.endscale = true; d.threept = mode == 3;
    d.swof = {B.w}; d.sgof = {B.g}; d.satnum = "1 1";
    if (model == 1 || model == 2) d.props_extra += "STONE1\n";
    if (model == 2) d.props_extra += "STONE1EX\n 2.0 /\n";
    if (model == 3) d.props_extra += "STONE2\n";
    d.props_extra += "EQUALS\n";
    for (auto& [a, v] : arrs) {
        d.props_extra += std::string(" ") + ARRN[a] + " " + g17(v) + " 1 1 1 1 1 1 /\n";
        if (hyst) d.props_extra += std::string(" I") + ARRN[a] + " " + g17(v) + " 1 1 1 1 1 1 /\n";
    }
    d.props_extra += "/\n";
    if (hyst) { d.ehystr = "0.1 0 1.0 0.1 KR"; d.imbnum = "1 1"; }
    World w;
    try { w = build(deck_text(d), 2); }
    catch (const std::exception& e) { R->violation(K + "setup-exception", std::string("building the material law manager threw: ") + e.what() + " [" + cs + "]", rp_(cs)); return; }
    R->evaluations++;
    Mgr& m = *w.mgr;
    auto& P = m.materialLawParams(0);
    const auto want = model == 0 ? Opm::EclMultiplexerApproach::Default : model == 3 ? Opm::EclMultiplexerApproach::Stone2 : Opm::EclMultiplexerApproach::Stone1;
    if (P.approach() != want) { R->violation(K + "model-not-selected", std::string("the deck selects ") + MODELN[model] + " but the cell's parameters use approach " + std::to_string(int(P.approach())) + " [" + cs + "]", rp_(cs)); return; }
    // the cell's two-phase laws (verified against the end-points in part b) and the connate water the three-phase law uses
    const OWParams* owp; const GOParams* gop; double swlLaw, eta = 1.0;
    if (model == 0) { auto& r = P.template getRealParams<Opm::EclMultiplexerApproach::Default>(); owp = &r.oilWaterParams(); gop = &r.gasOilParams(); swlLaw = r.Swl(); }
    else if (model == 3) { auto& r = P.template getRealParams<Opm::EclMultiplexerApproach::Stone2>(); owp = &r.oilWaterParams(); gop = &r.gasOilParams(); swlLaw = r.Swl(); }
    else { auto& r = P.template getRealParams<Opm::EclMultiplexerApproach::Stone1>(); owp = &r.oilWaterParams(); gop = &r.gasOilParams(); swlLaw = r.Swl(); eta = r.eta(); }
    auto bad = [&](const std::string& key, const std::string& what) { R->violation(K + key, what + " (" + sets[set].name + ") [" + cs + "]", rp_(cs)); };
    if (!close_(swlLaw, S.swl)) bad("three-phase-swl", "the three-phase law's connate water is " + g17(swlLaw) + ", the cell's SWL is " + g17(S.swl));
    if (model == 2 && !close_(eta, 2.0)) bad("stone1-exponent", "STONE1EX 2.0 but eta = " + g17(eta));
    const double swco = S.swl;                                        // the CELL's connate water
    auto krw2 = [&](double sw) { return OWLaw::twoPhaseSatKrw(*owp, sw); };
    auto krow2 = [&](double sw) { return OWLaw::twoPhaseSatKrn(*owp, sw); };
    auto pcow2 = [&](double sw) { return OWLaw::twoPhaseSatPcnw(*owp, sw); };
    auto krg2 = [&](double sg) { return GOLaw::twoPhaseSatKrn(*gop, (1.0 - swco) - sg); };
    auto krog2 = [&](double sg) { return GOLaw::twoPhaseSatKrw(*gop, (1.0 - swco) - sg); };
    auto pcgo2 = [&](double sg) { return GOLaw::twoPhaseSatPcnw(*gop, (1.0 - swco) - sg); };
    const double krocw = krow2(swco);
    // closed forms of the three models (ECLIPSE manual), evaluated with the scaled two-phase values and the cell's Swco
    auto kroRef = [&](double sw, double sg) -> double {
        if (model == 0) {
            const double swp = std::max(sw, swco), so = 1.0 - sg - swp;
            const double den = sg + swp - swco;
            const double kog = GOLaw::twoPhaseSatKrw(*gop, so), kow = krow2(sg + swp);
            if (den < 1e-5) return std::nan("");                      // regularised corner of the implementation, not judged
            return (sg * kog + (swp - swco) * kow) / den;
        }
        if (model == 3) return std::max(krocw * ((krow2(sw) / krocw + krw2(sw)) * (krog2(sg) / krocw + krg2(sg)) - krw2(sw) - krg2(sg)), 0.0);
        double beta = 1.0;
        if (sw > swco) {
            const double ssw = (sw - swco) / (1.0 - swco), ssg = sg / (1.0 - swco), sso = 1.0 - ssw - ssg;
            if (!(ssw >= 1.0 || ssg >= 1.0)) beta = std::pow(sso / ((1.0 - ssw) * (1.0 - ssg)), eta);
        }
        return std::max(0.0, std::min(1.0, beta * krow2(sw) * krog2(sg) / krocw));
    };
    const double off = has[SWL] || set == 0 ? 0.0 : 0.0;
    (void)off;
    std::vector<double> obs;
    // (a) two-phase boundaries and (c) interior, on the 41-level (Sw,Sg) triangle shifted onto the cell's SWL
    for (int i = 0; i <= 40; ++i) for (int j = 0; i + j <= 40; ++j) {
        const double sw = swco + (1.0 - swco) * i / 40.0, sg = (1.0 - swco) * j / 40.0;
        if (sw + sg > 1.0 + 1e-12) continue;
        Out o = evalAt(m, 0, sw, 1.0 - sw - sg, sg);
        for (int p = 0; p < 3; ++p) { obs.push_back(o.kr[p]); obs.push_back(o.pc[p]); }
        if (!close_(o.kr[0], krw2(sw))) { bad("krw-not-oil-water-curve", "krw(Sw=" + g17(sw) + ",Sg=" + g17(sg) + ") = " + g17(o.kr[0]) + ", scaled oil-water curve " + g17(krw2(sw))); }
        if (!close_(o.kr[2], krg2(sg))) { bad("krg-not-gas-oil-curve", "krg(Sw=" + g17(sw) + ",Sg=" + g17(sg) + ") = " + g17(o.kr[2]) + ", scaled gas-oil curve at Sg (So = 1 - SWL_cell - Sg) " + g17(krg2(sg))); }
        if (!close_(-o.pc[0], pcow2(sw), S.pcw * BAR)) bad("pcow-not-oil-water-curve", "pcow(Sw=" + g17(sw) + ") = " + g17(-o.pc[0]) + ", scaled curve " + g17(pcow2(sw)));
        if (!close_(o.pc[2], pcgo2(sg), S.pcg * BAR)) bad("pcgo-not-gas-oil-curve", "pcgo(Sg=" + g17(sg) + ") = " + g17(o.pc[2]) + ", scaled curve " + g17(pcgo2(sg)));
        const double ref = kroRef(sw, sg);
        if (!std::isnan(ref) && !close_(o.kr[1], ref)) bad(j == 0 ? "kro-at-sg0-not-krow" : i == 0 ? "kro-at-swl-not-krog" : "kro-interior-closed-form", "kro(Sw=" + g17(sw) + ",Sg=" + g17(sg) + ") = " + g17(o.kr[1]) + ", closed form of the " + MODELN[model] + " model with the scaled two-phase curves and the cell's Swco gives " + g17(ref));
        // boundaries, model independent: Sg = 0 -> krow(Sw); Sw = SWL_cell -> krog(Sg)
        if (j == 0 && i > 0 && !close_(o.kr[1], krow2(sw))) bad("kro-at-sg0-not-krow", "kro(Sw=" + g17(sw) + ",Sg=0) = " + g17(o.kr[1]) + ", scaled krow " + g17(krow2(sw)));
        if (i == 0 && j > 0 && !close_(o.kr[1], krog2(sg))) bad("kro-at-swl-not-krog", "kro(Sw=SWL_cell,Sg=" + g17(sg) + ") = " + g17(o.kr[1]) + ", scaled krog " + g17(krog2(sg)));
    }
    // (b) scaled gas-oil end-points in three-phase evaluation (Sw = the cell's SWL)
    auto at = [&](double sg) { return evalAt(m, 0, swco, (1.0 - swco) - sg, sg); };
    if (!close_(at(S.sgcr).kr[2], 0.0)) bad("krg-at-scaled-sgcr", "krg at the cell's SGCR " + g17(S.sgcr) + " is " + g17(at(S.sgcr).kr[2]) + ", expected 0");
    if (!close_(at(S.sgu).kr[2], S.krg)) bad("krg-at-scaled-sgu", "krg at the cell's SGU " + g17(S.sgu) + " is " + g17(at(S.sgu).kr[2]) + ", expected " + g17(S.krg));
    if (!close_(at(S.sgu).pc[2], S.pcg * BAR, S.pcg * BAR)) bad("pcgo-at-scaled-sgu", "pcgo at the cell's SGU is " + g17(at(S.sgu).pc[2]) + ", expected " + g17(S.pcg * BAR));
    if (!close_(at((1.0 - swco) - S.sogcr).kr[1], 0.0)) bad("kro-at-scaled-sogcr", "kro at Sw = SWL_cell, So = SOGCR is " + g17(at((1.0 - swco) - S.sogcr).kr[1]) + ", expected 0");
    if (!close_(evalAt(m, 0, 1.0 - S.sowcr, S.sowcr, 0.0).kr[1], 0.0)) bad("kro-at-scaled-sowcr", "kro at Sg = 0, So = SOWCR is " + g17(evalAt(m, 0, 1.0 - S.sowcr, S.sowcr, 0.0).kr[1]) + ", expected 0");
    if (!close_(evalAt(m, 0, S.swcr, 1.0 - S.swcr, 0.0).kr[0], 0.0)) bad("krw-at-scaled-swcr", "krw at the cell's SWCR is " + g17(evalAt(m, 0, S.swcr, 1.0 - S.swcr, 0.0).kr[0]) + ", expected 0");
    // hysteresis: the gas-oil turning point after an update at a three-phase state is 1 - SWL_cell - Sg for every model
    if (hyst) {
        const double sw = swco + 0.2, sg = 0.25;
        FS fs; fs.setSaturation(0, sw); fs.setSaturation(1, 1.0 - sw - sg); fs.setSaturation(2, sg);
        m.updateHysteresis(fs, 0);
        const double goT = gop->krnSwMdc(), owT = owp->krnSwMdc();
        if (!close_(goT, (1.0 - swco) - sg)) bad("hysteresis-gas-oil-turning-point", "after updateHysteresis at Sg = 0.25 the gas-oil turning point is " + g17(goT) + ", expected 1 - SWL_cell - Sg = " + g17((1.0 - swco) - sg));
        if (!close_(owT, sw + sg)) bad("hysteresis-oil-water-turning-point", "after updateHysteresis the oil-water turning point is " + g17(owT) + ", expected 1 - So = " + g17(sw + sg));
        // Carlson with identical curves: nothing changes (kr on the boundaries)
        for (int k = 0; k <= 40; ++k) {
            const double sg2 = (1.0 - swco) * k / 40.0;
            if (!close_(at(sg2).kr[2], krg2(sg2))) { bad("hysteresis-identical-curves-change-krg", "krg(Sg=" + g17(sg2) + ") changed after an update although IMBNUM = SATNUM and I-arrays = arrays"); break; }
        }
    }
    R->observe(vf::fnv(obs.data(), obs.size() * sizeof(double)));
    R->count("e_cases");
    if (R->shard == 0 && R->samples.size() < 9 && model == 3 && set == 1) R->sample_str(cs + " : " + d.props_extra);
}
static void partE(bool thorough) {
    const auto bases = basesB(thorough);
    const int nb = thorough ? (int)bases.size() : 2;
    const int nsets = setsE().size();
    for (int b = 0; b < nb; ++b) for (int mode = 2; mode <= 3; ++mode) for (int set = 0; set < nsets; ++set) for (int model = 0; model < 4; ++model) for (int hyst = 0; hyst < 2; ++hyst) {
        if (R->timed_out()) return;
        if (R->mine()) runE(bases, b, mode, set, model, hyst != 0);
    }
}

// ============================================================ main =========
int main(int argc, char** argv) {
    vf::Run run("C15", argc, argv); R = &run;
    for (int i = 0; i <= 8; ++i) for (int j = 0; i + j <= 8; ++j) g_ev8.push_back({i / 8.0, j / 8.0});
    for (int i = 0; i <= 16; ++i) for (int j = 0; i + j <= 16; ++j) g_ev16.push_back({i / 16.0, j / 16.0});
    const bool T = run.thorough();
    run.max_samples = 10;
    g_threePhaseEventsD = T;
    run.rule = std::string("(a) every combination of the SWOF/SGOF node-layout alphabet {connate water, critical != connate, residual oil, 1-2 interior nodes, end-point kr < 1, 3 pc shapes") + (T ? ", Swu/Sgu below maximum" : "") + "}, 3-5 nodes, two regions per deck (plus single-region and FIELD-unit decks), three decks per case on the same nodes: family I SWOF/SGOF, family II SWFN/SGFN/SOF3, family I SWOF/SLGOF: node reproduction, bracketing by neighbouring nodes + monotone + range on the 101-point lattice, all three decks equal (1e-12) on the 1-D lattices and the 21-level (Sw,Sg) triangle; per deck and region the raw table end-points and function values of satfunc::getRawTableEndpoints/getRawFunctionValues (SWL SWCR SWU SGL SGCR SGU SOWCR SOGCR KRW KRWR KRO KRORW KRORG KRG KRGR PCW PCG) and the defaulted fieldProps arrays incl. the I-arrays == the values read off the generated nodes (critical oil in water != critical oil in gas, critical != connate, maxima at different saturations in most layouts); every 8th combination (thorough: the whole quick alphabet) again on an ENDSCALE deck (two-/three-point alternating) with all 17 arrays present but defaulted in the checked cells (identity); two-phase oil/water (SWOF | SWFN+SOF2) and oil/gas (SGOF | SGFN+SOF2) single-table layouts x {no ENDSCALE, ENDSCALE two-point, three-point with defaulted arrays} with the same oracles; "
               "(b) ENDSCALE: all subsets of size <= " + (T ? "3" : "2") + " of 17 end-point arrays x 2 shifted values each in one cell, two- and three-point (SCALECRS) scaling, " + (T ? "6" : "3") + " base tables: scaled end-points -> table end-points (saturation maps, kr = 0 at scaled critical, kr = scaled max at scaled maximum, KR*R at the displacing critical saturation with three-point scaling, PCW/PCG), explicit and defaulted own end-points are the identity (1e-12) on the same lattices, scaledToUnscaledSat{Krw,Krn,Pc} and unscaledToScaledSat{Krw,Krn,Pc} are mutual inverses (1e-12) on 65 points between the outer anchors in both directions; every case as family I and family II deck (cases with <= " + (T ? "2" : "1") + " arrays also SWOF/SLGOF): all checks per deck, the manager's scaled end-point info and the fieldProps arrays of all four cells == given / own values, raw table end-points of both regions, and all four cells equal between the decks (1e-12; the moved cell on a lattice offset by 0.00371); "
               "(c) BFS over updateHysteresis(fluidState, cell) histories to depth " + (T ? "6" : "5") + " (closed earlier: frontier 0), events = all points of the 9-level (Sw,Sg) triangle with Sw >= connate water (36-45 events)" + (T ? ", and again the 17-level triangle (120-153 events)" : "") + ", EHYSTR models " + (T ? "0-4" : "0-3") + " x {KR,BOTH} x " + (T ? "3" : "2") + " drainage tables x 4 IMBNUM choices (same region, copied region, 2 genuine imbibition tables), state key = all hysteresis getters of both two-phase laws; per transition: turning points (krnSwMdc, krwSwMdc, pcSwMdc) = running extremes of the history, krn at the current saturation == drainage curve while the saturation never reversed; per distinct state: krn == drainage curve (bitwise, manager without hysteresis) on the drainage side of the turning point, continuity at the reversal point (1e-10, one ulp past it), krn monotone on the 65-point lattice, Carlson + identical curves => all kr unchanged (1e-12); "
               "(d) product of (b) and (c): the same BFS and per-state oracles in SCALED saturation on ENDSCALE decks, EHYSTR models " + (T ? "0-4 x {KR,BOTH}" : "0-3 x KR") + " x {two-point, three-point SCALECRS} x 6 per-cell end-point sets {identity (control), critical saturations up, critical down, connate water down, maxima down, all moved} given as drainage arrays and I-arrays x 2 imbibition choices {IMBNUM = SATNUM with I-arrays = arrays (identical curves), genuine imbibition table with its own moved I-arrays}; events = oil-water moves (Sg = 0) and gas-oil moves (Sw = the cell's SWL) on the 17-level lattice inside the cell's scaled domain" + (T ? " plus three three-phase points, and again on the 33-level lattice (KR)" : "") + " (table nodes on 1/8, moved nodes 1/16-1/8 away, so reversal points fall between the table's and the cell's nodes: counted in d_states_turning_point_between_table_and_cell_mid_node_*); drainage oracle = manager of the same deck without hysteresis (same cell, same end-points); per cell the drainage and imbibition saturation maps are mutual inverses; "
               "(e) three-phase oil relperm model {default (ECLIPSE), STONE1, STONE1 + STONE1EX 2.0, STONE2} x ENDSCALE {two-point, three-point} x " + (T ? "6" : "2") + " base tables x 10 end-point sets in one cell {identity (all eight saturation arrays = own), SWL moved (2 values), SGL moved, SGU moved, SGL+SGU, critical saturations up, down, SWL + KRG/KRO/KRW/PCG, all moved} x {no hysteresis, Carlson KR with I-arrays = arrays}: through relativePermeabilities/capillaryPressures on the 41-level (Sw,Sg) triangle anchored at the cell's SWL: krw/pcow == the cell's scaled oil-water curves and krg/pcgo == the scaled gas-oil curves at So = 1 - SWL_cell - Sg for every model (1e-12), kro == krow(Sw) at Sg = 0 and == krog(Sg) at Sw = SWL_cell, kro in the interior == the manual's closed form of the model (default: saturation-weighted, Stone 1 with exponent, Stone 2) evaluated with the scaled two-phase values and the CELL's connate water; the three-phase law's Swl == the cell's SWL; krg = 0 at the cell's SGCR, = KRG/table maximum at SGU, pcgo = PCG at SGU, kro = 0 at SOGCR/SOWCR, krw = 0 at SWCR; with hysteresis the gas-oil turning point after updateHysteresis at a three-phase state == 1 - SWL_cell - Sg and identical curves change nothing";
    run.assumptions = {"reference model of (a): piecewise-linear interpolation of the generated nodes; family II tables are generated on the family I nodes (SOF3 on the union of both node sets, interpolated values)",
                       "table end-points of (b) are read off the nodes by the harness (last kr = 0 node etc.); anchors of the two/three-point maps are those of the ECLIPSE manual (SWCR, 1-SOWCR-SGL, SWU; SWL+SGL, SWCR+SGL, 1-SOWCR; SGCR, 1-SOGCR-SWL, SGU; SOGCR, 1-SGCR-SWL, 1-SWL-SGL; pc: SWL,SWU / SGL,SGU); shifted values are chosen so that every combination stays ordered",
                       "three-phase oil relperm: the default (Baker-type) model; krow is observed at Sg = 0, krog at Sw = Swco, or through the two-phase law of the cell's parameter object",
                       "(c) states are restored by assigning a saved copy of the two hysteresis parameter objects of a cell; every new state is re-derived by replaying its history on a fresh cell (or from the pristine snapshot once the 191 fresh cells of a configuration are used up); invariants of a state are evaluated at its first visit and at every 32nd transition (same key must give the same behaviour hash); events below connate water are outside the tables' domain and excluded; imbibition tables share connate saturation and the maximum non-wetting relperm with the drainage table",
                       "pc hysteresis (always Killough in opm) is exempt from the Carlson no-change claim",
                       "(e) the two-phase curves are taken from the cell's own two-phase parameter objects (their end-point behaviour is judged in (b)) at saturations computed by the harness from the cell's SWL, never from the three-phase law's Swl; residual oil Som of Stone 1 is 0 as in opm; the default model's regularised corner (Sg + Sw - Swco < 1e-5) is not compared with the closed form",
                       "decks of (a) give IMBNUM = SATNUM explicitly: fieldProps' IMBNUM defaults to 1 (not SATNUM), so the I-arrays of a deck without IMBNUM default from region 1; two-phase oil/gas with SLGOF alone is refused by the library (findMaxKro consults SGOF only) and is not in the alphabet; with KRWR/KRORW/KRGR/KRORG and two-point horizontal scaling the scaled curve jumps at the displacing critical saturation, so the family comparison of the moved cell uses an offset lattice (no lattice point on an end-point)",
                       "(d) scaling 'none' x hysteresis is part (c); SGL is not moved and gas events stay at Sg <= SGU of the cell (a moved SGL or Sg beyond SGU creates an in-domain maximum plateau of the non-wetting relperm, i.e. the known Carlson plateau finding); no vertical (KR*/PC*) arrays in (d); the scanning curve is NOT required to lie between the drainage and the imbibition curve (not in the property text and not true for Carlson's shifted curve with non-parallel tables)"};

    if (!run.replay_path.empty()) {
        std::istringstream ss(run.replay_path); std::string part; ss >> part;
        if (part == "a") {
            size_t n, i, j; int nreg, field, es = 0; ss >> n >> i >> j >> nreg >> field >> es;
            auto all = combosA(false); if (all.size() != n) all = combosA(true);      // the list is identified by its size
            if (all.size() == n && std::max(i, j) < n) runA(all, i, j, nreg, field != 0, es);
        } else if (part == "a2") {
            int phases, es; size_t n, i; ss >> phases >> n >> i >> es;
            auto lays = laysA2(phases, false); if (lays.size() != n) lays = laysA2(phases, true);
            if (lays.size() == n && i < n) runA2(phases, lays, i, es);
        } else if (part == "b") {
            int b, mode; std::string s; ss >> b >> mode >> s;
            auto bases = basesB(T); if (b >= (int)bases.size()) bases = basesB(true);
            std::vector<std::pair<int, int>> sub;
            if (s != "-") { std::istringstream t(s); std::string tok; while (std::getline(t, tok, ',')) { int a = 0, v = 0; std::sscanf(tok.c_str(), "%d:%d", &a, &v); sub.push_back({a, v}); } }
            runB(bases, b, mode, sub);
        } else if (part == "e") {
            int b, mode, set, model, hy; ss >> b >> mode >> set >> model >> hy;
            runE(basesB(true), b, mode, set, model, hy != 0);
        } else if (part == "d") {
            CfgD c{}; std::string flag, hs; ss >> c.model >> flag >> c.mode >> c.eset >> c.imb >> c.levels >> hs; c.both = flag == "BOTH";
            std::vector<int> hist; if (hs != "-" && !hs.empty()) { std::istringstream q(hs); std::string tok; while (std::getline(q, tok, ',')) hist.push_back(std::atoi(tok.c_str())); }
            try {
                const HystTabs h = tabsD();
                DeckC dc = buildD(h, c.model, c.both, c.mode);
                runD(c, dc, h, 99, &hist);
            } catch (const std::exception& e) { run.violation("C15:hyst-eps:setup-exception", e.what(), rp_(run.replay_path)); }
        } else if (part == "c") {
            int t, model, imb, levels; std::string flag, hs; ss >> t >> model >> flag >> imb >> levels >> hs;
            auto tabs = hystTables(true);
            std::vector<int> hist; if (hs != "-" && !hs.empty()) { std::istringstream q(hs); std::string tok; while (std::getline(q, tok, ',')) hist.push_back(std::atoi(tok.c_str())); }
            try {
                DeckC dc = buildC(tabs.at(t), model, flag == "BOTH");
                BfsC bf(tabs.at(t), CfgC{t, model, flag == "BOTH", imb, levels}, dc, 99);
                bf.replay(hist);
            } catch (const std::exception& e) { run.violation("C15:hyst:setup-exception", e.what(), rp_(run.replay_path)); }
        }
        return run.finish();
    }

    double t = run.elapsed();
    partA(T); run.notes["shard0_seconds_part_a"] = std::to_string(run.elapsed() - t); t = run.elapsed();
    partB(T); run.notes["shard0_seconds_part_b"] = std::to_string(run.elapsed() - t); t = run.elapsed();
    partC(T); run.notes["shard0_seconds_part_c"] = std::to_string(run.elapsed() - t); t = run.elapsed();
    partD(T); run.notes["shard0_seconds_part_d"] = std::to_string(run.elapsed() - t); t = run.elapsed();
    partE(T); run.notes["shard0_seconds_part_e"] = std::to_string(run.elapsed() - t);
    run.count("worlds_built", g_worlds);
    return run.finish();
}
