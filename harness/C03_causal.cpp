// C03 — schedule causality.  E2 over SCHEDULE histories: for every history h
// and every single-event extension h·e, the closed report steps of build(h·e)
// equal those of build(h) — by canon() (all serialized members), by the public
// query sweep obs::sched_state(), with operator== reported.
#include "vf.hpp"
#include "canon.hpp"
#include "obs.hpp"
#include "schedgen.hpp"
#include <opm/input/eclipse/Deck/Deck.hpp>
#include <opm/input/eclipse/EclipseState/EclipseState.hpp>
#include <opm/input/eclipse/Parser/Parser.hpp>
#include <opm/input/eclipse/Python/Python.hpp>
#include <opm/input/eclipse/Schedule/Schedule.hpp>
#include <opm/common/OpmLog/OpmLog.hpp>
#include "sched_includes.hpp"
#include <optional>

using namespace Opm;

static vf::Run* R;
static Parser* g_parser;
static std::shared_ptr<Python> g_python;
static std::unique_ptr<EclipseState> g_es;

struct Built {
    std::unique_ptr<Schedule> s;              // never copy/move a Schedule: its wells point at its own unit system
    std::vector<std::string> canon, obs;      // per snapshot
};

static std::string g_prelude;
static const std::vector<schedgen::Ev>* g_alpha;

static Built build(const std::vector<int>& h) {
    Built b;
    try {
        auto deck = g_parser->parseString(schedgen::render(*g_alpha, h, "METRIC", g_prelude));
        b.s = std::make_unique<Schedule>(deck, *g_es, g_python);
    } catch (const std::exception&) { return b; }
    for (std::size_t i = 0; i < b.s->size(); ++i) { b.canon.push_back(vf::canon((*b.s)[i])); b.obs.push_back(obs::sched_state(*b.s, i)); }
    return b;
}

static std::string hist_str(const std::vector<int>& h) { std::string o; for (int e : h) { o += (*g_alpha)[e].name; o += ' '; } return o; }
static int closed(const std::vector<int>& h) { int k = 0; for (int e : h) if ((*g_alpha)[e].time) ++k; return k; }

static const char* member_name(int i) {
    static const char* n[] = {"gconsale","gconsump","gecon","guide_rate","wlist_manager","well_order","group_order","actions","udq","udq_active","pavg","wtest_config","glo","network","network_balance","rescoup","rpt_config","rft_config","rst_config","bhp_defaults","source","vfpprod","vfpinj","groups","wells","aqufluxs","bcprop","target_wellpi","next_tstep","start_time","end_time","sim_step","month_num","year_num","first_in_year","first_in_month","save_step","tuning","nupcol","oilvap","events","wellgroup_events","geo_keywords","message_limits","whistctl_mode","sumthin","rptonly"};
    return (i >= 0 && i < (int)(sizeof n / sizeof *n)) ? n[i] : "member?";
}
static std::string first_diff(const std::string& a, const std::string& b) {
    size_t p = 0; while (p < a.size() && p < b.size() && a[p] == b[p]) ++p;
    size_t s = p > 120 ? p - 120 : 0;
    return "…" + a.substr(s, 200) + "  VS  …" + b.substr(s, 200);
}

// one extension check; returns false if h·e does not build
static bool check_ext(const std::string& regime, const std::vector<int>& h, const Built& P, int e, Built& C) {
    std::vector<int> h2 = h; h2.push_back(e);
    R->current(regime + " " + vf::join_ints(h2, " "));
    C = build(h2);
    R->evaluations++;
    if (!C.s) { R->count("extensions_rejected_by_library"); return false; }
    R->transitions++;
    int k = closed(h);                       // states 0..k-1 closed in h
    const std::string ename = (*g_alpha)[e].name;
    std::string rp = "{\"case\": " + vf::jstr(regime + " " + vf::join_ints(h2, " ")) + ", \"history\": " + vf::jstr(hist_str(h2)) + "}";
    if ((int)C.canon.size() < k || (int)P.canon.size() < k) { R->violation("C03:" + regime + ":snapshots-lost", "extension " + ename + " removed closed report steps in [" + hist_str(h2) + "]", rp); return true; }
    for (int i = 0; i < k; ++i) {
        bool ceq = P.canon[i] == C.canon[i], oeq = P.obs[i] == C.obs[i];
        if (!ceq) R->violation("C03:" + regime + ":closed-state-changed:" + ename + ":" + member_name(vf::first_diff_member(P.canon[i], C.canon[i])), "closed state " + std::to_string(i) + " of [" + hist_str(h) + "] changes when " + ename + " is appended (serialized members differ): " + first_diff(P.canon[i], C.canon[i]), rp);
        else if (!oeq) R->violation("C03:" + regime + ":closed-state-queries-changed:" + ename, "closed state " + std::to_string(i) + " of [" + hist_str(h) + "] answers public queries differently when " + ename + " is appended: " + first_diff(P.obs[i], C.obs[i]), rp);
        else if (!((*P.s)[i] == (*C.s)[i])) R->count("representation_only_operator_eq_differences");
    }
    uint64_t hh = vf::fnv(C.canon.back());
    R->observe(hh);
    return true;
}

static void dfs(const std::string& regime, std::vector<int>& h, const Built& P, int depth, int maxdepth, int maxtime) {
    if (depth >= maxdepth || R->timed_out()) return;
    if (R->counters["violations_total"] > 60) { R->exhaustive = false; R->cap_note = "stopped after >60 violations; "; return; }
    for (int e = 0; e < (int)g_alpha->size(); ++e) {
        if ((*g_alpha)[e].time && closed(h) >= maxtime) continue;
        if (depth == 1 && !R->mine()) continue;          // shard on the second event
        Built C;
        if (depth == 0 && R->shard != 0) {               // depth-1 extensions are checked by shard 0 only; others just build to descend
            std::vector<int> h2 = h; h2.push_back(e); C = build(h2); if (!C.s) continue;
        } else if (!check_ext(regime, h, P, e, C)) continue;
        h.push_back(e);
        if (R->samples.size() < 3 && depth + 1 == maxdepth && closed(h) >= 2) R->sample_str(regime + ": " + hist_str(h));
        dfs(regime, h, C, depth + 1, maxdepth, maxtime);
        h.pop_back();
    }
}

int main(int argc, char** argv) {
    vf::Run run("C03", argc, argv); R = &run;
    OpmLog::removeAllBackends();
    Parser parser; g_parser = &parser; g_python = std::make_shared<Python>();
    { auto bd = parser.parseString(schedgen::base_deck() + "END\n"); g_es = std::make_unique<EclipseState>(bd); }
    auto deep = schedgen::deep_alphabet();
    deep.push_back({"DATES_same", "", true});      // a DATES record repeating the date already reached (C03 only; appended so that recorded replays keep their indices)
    auto broad = schedgen::broad_alphabet();
    const int deep_depth = run.thorough() ? 5 : 4;
    run.rule = "deep: all histories over " + std::to_string(deep.size()) + " colliding SCHEDULE events (same well/group) up to depth " + std::to_string(deep_depth) + " with <=3 time advances, pruned where the library rejects the input; broad: prelude(3 wells, 3 groups) T a T b " + (run.thorough() ? "T c (all ordered triples over the stateful subset)" : "(all ordered pairs)") + " and a b T (same step), plus every dependent snippet d (valid only after an enabling one e): prelude T e T d, T e d, T e T x T d for every x, over " + std::to_string(broad.size()) + " snippets covering every SCHEDULE handler keyword; oracle per single-event extension: closed report steps unchanged by canon() and by obs::sched_state(); distinct = distinct canon of the newest state";
    run.assumptions = {"event alphabets in engine/schedgen.hpp; values outside them not covered", "canon() normalises UnitSystem caches, DeckItem raw/SI flag and KeywordLocation (representation only, DESIGN 2.5)", "by induction over single-event extensions every (prefix, cut point, tail) inside the bound is covered"};

    if (!run.replay_path.empty()) {
        std::istringstream ss(run.replay_path); std::string regime; ss >> regime; std::vector<int> h; int x; while (ss >> x) h.push_back(x);
        g_alpha = regime == "deep" ? &deep : &broad; g_prelude = regime == "deep" ? "" : schedgen::prelude_wells();
        int e = h.back(); h.pop_back(); Built P = build(h), C;
        if (P.s) check_ext(regime, h, P, e, C);
        return run.finish();
    }

    // ---- deep regime
    g_alpha = &deep; g_prelude = "";
    { std::vector<int> h; Built P = build(h); if (!P.s) { run.violation("C03:harness:base-deck", "base deck does not build"); return run.finish(); } dfs("deep", h, P, 0, deep_depth, 3); }
    run.states = run.hashes.size();

    // ---- broad regime
    g_alpha = &broad; g_prelude = schedgen::prelude_wells();
    {
        const int T = 0;     // DATES
        std::vector<int> ok;  // snippets valid after the prelude
        for (int a = 1; a < (int)broad.size(); ++a) { Built b = build({T, a}); if (b.s) ok.push_back(a); else if (run.shard == 0) run.notes["broad_snippets_rejected"] += broad[a].name + " "; }
        if (run.shard == 0) run.count("broad_snippets_valid", ok.size());
        // dependent snippets: valid only after another one (devices of a multi-segment well need its segments).  Each is
        // tried after every enabling snippet at an EARLIER step, directly and with every other valid snippet in between
        // (so that the object it modifies was last touched at an intermediate step).
        {
            std::vector<int> dep; for (int a = 1; a < (int)broad.size(); ++a) if (std::find(ok.begin(), ok.end(), a) == ok.end()) dep.push_back(a);
            for (int d : dep) for (int en : ok) {
                Built Pen = build({T, en, T});
                if (!Pen.s || !build({T, en, T, d}).s) continue;
                if (run.shard == 0) run.count("dependent_snippet_pairs");
                if (run.mine()) { Built C; check_ext("broad", {T, en, T}, Pen, d, C); Built Pe = build({T, en}); Built C2; if (Pe.s) check_ext("broad", {T, en}, Pe, d, C2); }
                for (int x : ok) { if (!run.mine()) continue; if (run.timed_out()) break; Built Px = build({T, en, T, x, T}); if (!Px.s) continue; Built C; check_ext("broad", {T, en, T, x, T}, Px, d, C); }
            }
        }
        for (int a : ok) {
            Built Pa = build({T, a}), PaT = build({T, a, T});
            if (!PaT.s) continue;
            for (int b : ok) {
                if (!run.mine()) continue;
                if (run.timed_out()) break;
                Built C;
                check_ext("broad", {T, a, T}, PaT, b, C);            // b in the next step
                Built C2; check_ext("broad", {T, a}, Pa, b, C2);     // b in the same step (closed: state 0)
                if (C2.s) { Built C3; check_ext("broad", {T, a, b}, C2, T, C3); }
                if (run.thorough() && C.s) {
                    Built CT; if (!check_ext("broad", {T, a, T, b}, C, T, CT)) continue;
                    for (int c : ok) { if ((c + a + b) % 4 != 0 && !(broad[c].name.rfind("W", 0) == 0 || broad[c].name.rfind("G", 0) == 0 || broad[c].name.rfind("COMP", 0) == 0)) continue; Built D; check_ext("broad", {T, a, T, b, T}, CT, c, D); }
                }
            }
        }
    }
    return run.finish();
}
