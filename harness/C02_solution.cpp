// C02-s (E2): the output-side unit bookkeeping of data::Solution / RestartValue.
// A Solution carries a flag saying whether its arrays currently hold SI or deck-unit values;
// convertToSI()/convertFromSI() are no-ops when the flag says there is nothing to do.  What is
// written to the restart/INIT files is the content after convertFromSI().  Every history of
// <= D operations over {insert pressure array, insert temperature array (offset unit), insert
// dimensionless array, insert integer array, convertToSI, convertFromSI} x 4 unit systems x
// {constructed as SI, constructed as deck units} x {Solution, RestartValue wrapper} is executed
// on the real class; after every step every array must equal the physical reference:
// the value the array had when inserted (interpreted by the representation the container was in
// at that moment) expressed in the representation the container is in now.
#include "vf.hpp"
#include <opm/input/eclipse/Units/UnitSystem.hpp>
#include <opm/output/data/Solution.hpp>
#include <opm/output/eclipse/RestartValue.hpp>
#include <cmath>

using namespace Opm;

namespace {
struct Kind { const char* name; UnitSystem::measure dim; std::vector<double> si; bool is_int; };
const std::vector<Kind>& kinds() {
    static const std::vector<Kind> k = {
        {"PRESSURE", UnitSystem::measure::pressure, {2.5e7, 1.0e5, 0.0}, false},
        {"TEMP", UnitSystem::measure::temperature, {350.0, 273.15, 400.5}, false},
        {"SWAT", UnitSystem::measure::identity, {0.25, 0.5, 1.0}, false},
        {"FIPNUM", UnitSystem::measure::identity, {1, 2, 3}, true},
        {"PERMX", UnitSystem::measure::permeability, {1.0e-13, 9.869233e-16, 5e-12}, false},
    };
    return k;
}
const char* opname(int o) { static const char* n[] = {"ins(PRESSURE)", "ins(TEMP)", "ins(SWAT)", "ins(FIPNUM:int)", "ins(PERMX)", "toSI", "fromSI"}; return n[o]; }
bool close(double a, double b) { if (a == b) return true; const double s = std::max(std::fabs(a), std::fabs(b)); return std::fabs(a - b) <= 1e-12 * s + 1e-300; }
}

int main(int argc, char** argv) {
    vf::Run run("C02", argc, argv);
    const int D = run.thorough() ? 7 : 5;
    const int NOP = 7;
    run.rule = "E2: every history of <= " + std::to_string(D) + " operations over {insert pressure / temperature / dimensionless / integer / permeability array, convertToSI, convertFromSI} x {METRIC, FIELD, LAB, PVT-M} x {Solution(si=true), Solution(si=false)} x {data::Solution, RestartValue::convert*} on the real classes; after every step each array is compared (1e-12 relative) with the value it had when inserted, read in the representation the container was in then, expressed in the representation the container is in now; plus RestartValue::addExtra through all four overloads x every measure x 4 unit systems; distinct = distinct (history, configuration) executed";
    run.assumptions = {"an inserted array is in the representation the container is in at the time of the insert (that is how RestartIO::load and the simulators use it)", "RestartValue extra vectors carry no flag: they are covered by one convertFromSI + convertToSI per overload x measure x unit system, not by histories", "the factors themselves are decided by C02_units"};
    const UnitSystem::UnitType types[4] = {UnitSystem::UnitType::UNIT_TYPE_METRIC, UnitSystem::UnitType::UNIT_TYPE_FIELD, UnitSystem::UnitType::UNIT_TYPE_LAB, UnitSystem::UnitType::UNIT_TYPE_PVT_M};
    const char* tname[4] = {"METRIC", "FIELD", "LAB", "PVT-M"};
    std::vector<int> h;
    auto run_history = [&](int ut, int init_si, int wrap) {
        const UnitSystem units(types[ut]);
        const std::string cs = std::string("SOL ") + std::to_string(ut) + " " + std::to_string(init_si) + " " + std::to_string(wrap) + " " + vf::join_ints(h, " ");
        run.current(cs);
        run.evaluations++;
        const std::string rp = "{\"case\": " + vf::jstr(cs) + "}";
        RestartValue rv{data::Solution(init_si != 0), data::Wells{}, data::GroupAndNetworkValues{}, data::Aquifers{}};
        data::Solution& sol = rv.solution;
        bool si = init_si != 0;                       // reference flag
        std::map<std::string, std::vector<double>> truth;   // SI truth of every array present
        std::string hs;
        for (int o : h) {
            hs += std::string(hs.empty() ? "" : " ; ") + opname(o);
            run.transitions++;
            if (o < 5) {
                const Kind& k = kinds()[o];
                std::vector<double> v = k.si;         // numbers handed over: SI if the container is SI, else the same physical value in deck units
                if (!si && !k.is_int) for (auto& x : v) x = units.from_si(k.dim, x);
                if (!truth.count(k.name)) truth[k.name] = k.si;
                if (k.is_int) sol.insert(k.name, std::vector<int>(v.begin(), v.end()), data::TargetType::RESTART_SOLUTION);
                else sol.insert(k.name, k.dim, v, data::TargetType::RESTART_SOLUTION);
            } else if (o == 5) { if (wrap) rv.convertToSI(units); else sol.convertToSI(units); si = true; }
            else { if (wrap) rv.convertFromSI(units); else sol.convertFromSI(units); si = false; }
            // oracle on every array
            for (const auto& k : kinds()) {
                if (!truth.count(k.name)) { if (sol.has(k.name)) run.violation("C02:solution:array-appears", std::string(k.name) + " present without insert after [" + hs + "]; case " + cs, rp); continue; }
                if (!sol.has(k.name)) { run.violation("C02:solution:array-lost", std::string(k.name) + " lost after [" + hs + "]; case " + cs, rp); continue; }
                if (k.is_int) { const auto& d = sol.data<int>(k.name); for (size_t i = 0; i < d.size(); ++i) if (d[i] != (int)k.si[i]) run.violation("C02:solution:int-array-changed", std::string(k.name) + " changed after [" + hs + "]; case " + cs, rp); continue; }
                const auto& d = sol.data<double>(k.name);
                for (size_t i = 0; i < d.size(); ++i) {
                    const double want = si ? truth[k.name][i] : units.from_si(k.dim, truth[k.name][i]);
                    if (!close(d[i], want)) {
                        run.violation(std::string("C02:solution:") + (si ? "si" : "deck") + "-value-wrong:" + k.name, std::string(tname[ut]) + ": after [" + hs + "] on a Solution constructed with si=" + std::to_string(init_si) + (wrap ? " (through RestartValue)" : "") + " the container is in " + (si ? "SI" : "deck") + " representation, " + k.name + "[" + std::to_string(i) + "] = " + vf::fmt17(d[i]) + ", expected " + vf::fmt17(want) + " (SI value " + vf::fmt17(truth[k.name][i]) + "); case " + cs, rp);
                        break;
                    }
                }
            }
        }
        run.observe(vf::fnv(cs));
        if (run.samples.size() < 2 && h.size() == 4 && h[0] == 2 && h[1] == 5) run.sample_str(std::string(tname[ut]) + " si=" + std::to_string(init_si) + ": " + hs);
    };
    if (!run.replay_path.empty()) {
        std::istringstream ss(run.replay_path); std::string tag; int ut, init_si, wrap; ss >> tag >> ut >> init_si >> wrap; int x; while (ss >> x) h.push_back(x);
        run_history(ut, init_si, wrap);
        return run.finish();
    }
    // RestartValue extra vectors: every addExtra overload x every measure x every unit system; convertFromSI must give the
    // values converted with the scalar from_si of that measure, convertToSI must bring them back
    if (run.shard == 0) {
        const std::vector<double> si = {2.5e7, 1.0e5, 350.0, 0.0};
        for (int ut = 0; ut < 4; ++ut) for (int m = 0; m < static_cast<int>(UnitSystem::measure::_count); ++m) for (int ov = 0; ov < 4; ++ov) {
            const UnitSystem units(types[ut]);
            const auto meas = static_cast<UnitSystem::measure>(m);
            double probe; try { probe = units.from_si(meas, 1.0); (void)probe; } catch (const std::exception&) { continue; }
            const std::string cs = "EXTRA " + std::to_string(ut) + " " + std::to_string(m) + " " + std::to_string(ov);
            run.current(cs); run.evaluations++;
            const std::string rp = "{\"case\": " + vf::jstr(cs) + "}";
            try {
                RestartValue rv{data::Solution(true), data::Wells{}, data::GroupAndNetworkValues{}, data::Aquifers{}};
                const bool with_measure = ov < 2, as_float = (ov % 2) == 1;
                if (with_measure) { if (as_float) rv.addExtra("EXTRA", meas, std::vector<float>(si.begin(), si.end())); else rv.addExtra("EXTRA", meas, si); }
                else { if (as_float) rv.addExtra("EXTRA", std::vector<float>(si.begin(), si.end())); else rv.addExtra("EXTRA", si); }
                rv.convertFromSI(units);
                const auto& got = rv.getExtra("EXTRA");
                for (size_t i = 0; i < si.size(); ++i) {
                    const double in = as_float ? double(float(si[i])) : si[i];
                    const double want = with_measure ? units.from_si(meas, in) : in;
                    if (!close(got[i], want)) { run.violation(std::string("C02:extra:") + (as_float ? "float" : "double") + (with_measure ? "-measure" : "-plain") + ":from-si", std::string(tname[ut]) + ": extra vector added with " + (with_measure ? "measure " + std::to_string(m) : std::string("no measure")) + " through the " + (as_float ? "float" : "double") + " overload holds " + vf::fmt17(got[i]) + " after convertFromSI, expected " + vf::fmt17(want) + "; case " + cs, rp); break; }
                }
                rv.convertToSI(units);
                const auto& back = rv.getExtra("EXTRA");
                for (size_t i = 0; i < si.size(); ++i) { const double in = as_float ? double(float(si[i])) : si[i]; if (!close(back[i], in) && std::fabs(back[i] - in) > 1e-9 * (1 + std::fabs(in))) { run.violation("C02:extra:roundtrip", std::string(tname[ut]) + ": extra vector does not return to its SI value after convertFromSI/convertToSI (" + vf::fmt17(back[i]) + " vs " + vf::fmt17(in) + "); case " + cs, rp); break; } }
                run.count("extra_vector_cases");
            } catch (const std::exception& e) { run.violation("C02:extra:throws", std::string("extra vector case throws: ") + e.what() + "; case " + cs, rp); }
        }
    }
    std::function<void()> rec = [&]() {
        if (!h.empty() && run.mine()) for (int ut = 0; ut < 4; ++ut) for (int init_si = 0; init_si < 2; ++init_si) for (int wrap = 0; wrap < 2; ++wrap) run_history(ut, init_si, wrap);
        if ((int)h.size() == D) return;
        for (int o = 0; o < NOP; ++o) {
            // an insert of a name already present is a no-op of std::map::emplace: prune (same state)
            if (o < 5 && std::find(h.begin(), h.end(), o) != h.end()) continue;
            h.push_back(o); rec(); h.pop_back();
        }
    };
    rec();
    run.states = run.evaluations; run.traces_validated = run.evaluations;
    return run.finish();
}
