// C16 variant TU: unrolled specialisation Evaluation<double,2> (opm/material/densead/Evaluation2.hpp)
#include "C16_impl.hpp"
C16_STATIC_TU(2, "static")
