// C09 — summary vectors obey their definitions, accumulation and group
// hierarchy laws.  Bounded-exhaustive enumeration of small well/group models
// (group forests x well placement x WEFAC/GEFAC x well kind x dynamic status x
// unit system x evaluation sequences) on the real out::Summary::eval, judged
// by a reference model written here (no library unit factors, no library
// hierarchy code).
//
// Case string (also the --replay argument):
//   T:<parent of G1>.<..>  P:<group of W1>.<W2>.<W3>  WE:i.i.i  GE:i.. K:k.k.k
//   U:u D:d X:x N:n O:o H:g.c0.c1.c2 M:r.g.p S:s.s.s I:i Q:<len><a|s>...
//   parent -1 = FIELD; WE/GE index into the per-entity efficiency alphabets;
//   K 0 producer (WCONHIST) 1 water injector 2 gas injector (WCONINJH);
//   U 0 METRIC 1 FIELD 2 LAB 3 PVT-M; D start date index; X 1 = every efficiency factor moves to the next value of its
//   alphabet at the second report step; N well naming (0: declared in name order, 1-5: other permutations of A B C,
//   6: W_2 W_9 W_10); M tree change: a GRUPTREE after r TSTEPs (r >= 1; 0 = none) hangs group index g under p (-1 FIELD);
//   H GEFAC history of group index g (-1: none): record k is issued at schedule step k, code = 3 * factor index + transfer flag
//   (0 item 3 defaulted, 1 YES, 2 NO), -1 no record; it replaces GE/X for that group;
//   O how the vectors enter the configuration: 0 listed in SUMMARY, 1 not listed (only the mandatory restart vectors are then
//   evaluated), 2 SUMMARY lists none and a second SummaryConfig (built from a deck fragment listing all) is merge()d in,
//   3 listed and merged, 4 not listed but required by an ACTIONX condition;
//   S 0 open 1 shut 2 stop (cross-flow) 3 open with all computed rates exactly 0 4 stop with all rates 0;
//   I 1 = evaluate report step 0 at t=0 first; Q evaluation sequence, element
//   = length index (0: 1 d, 1: 10 d, 2: 0.5 d) + 'a' (closes its report step)
//   or 's' (ministep, the report step continues with the next element).
#include "vf.hpp"
#include <opm/output/eclipse/Summary.hpp>
#include <opm/output/data/Wells.hpp>
#include <opm/output/data/Groups.hpp>
#include <opm/output/data/Aquifer.hpp>
#include <opm/output/eclipse/Inplace.hpp>
#include <opm/input/eclipse/EclipseState/EclipseState.hpp>
#include <opm/input/eclipse/EclipseState/SummaryConfig/SummaryConfig.hpp>
#include <opm/input/eclipse/EclipseState/Grid/EclipseGrid.hpp>
#include <opm/input/eclipse/Schedule/Schedule.hpp>
#include <opm/input/eclipse/Schedule/SummaryState.hpp>
#include <opm/input/eclipse/Schedule/Well/Well.hpp>
#include <opm/input/eclipse/Python/Python.hpp>
#include <opm/input/eclipse/Parser/Parser.hpp>
#include <opm/input/eclipse/Deck/Deck.hpp>
#include <opm/common/utility/TimeService.hpp>
#include <opm/common/OpmLog/OpmLog.hpp>
#include <array>
#include <cmath>
#include <memory>

using namespace Opm;

static vf::Run* R;
static Parser* g_parser;
static std::shared_ptr<Python> g_python;

// ------------------------------------------------------------- alphabets ---
static const char* USYS[4] = {"METRIC", "FIELD", "LAB", "PVT-M"};
// efficiency factors: nominal {1, 0.5, 0.25}, made distinct per entity so that
// every product identifies the entities it was built from
static const double WEF[3][3] = {{1, 0.5, 0.25}, {1, 0.53, 0.29}, {1, 0.59, 0.31}};
static const double GEF[4][3] = {{1, 0.61, 0.37}, {1, 0.67, 0.41}, {1, 0.71, 0.43}, {1, 0.73, 0.47}};
static const double LEN[3] = {1.0, 10.0, 0.5};                    // days
struct StartDate { int d; const char* mon; int m; int y; };
static const StartDate STARTS[3] = {{25, "DEC", 12, 2019}, {20, "FEB", 2, 2020}, {22, "FEB", 2, 2021}};
// well names by declaration slot (WELSPECS always declares slot 0, 1, 2): naming 0 has declaration order = name order,
// 1..5 are the other permutations of A, B, C (1 = reverse alphabetical, 2 = B A C), 6 is declared in numeric order
// whose lexicographic order differs (W_10 < W_2 < W_9)
static const char* WNAMES[7][3] = {{"W1", "W2", "W3"}, {"OP_C", "OP_B", "OP_A"}, {"OP_B", "OP_A", "OP_C"}, {"OP_A", "OP_C", "OP_B"},
                                   {"OP_B", "OP_C", "OP_A"}, {"OP_C", "OP_A", "OP_B"}, {"W_2", "W_9", "W_10"}};
static const char* GN[4] = {"G1", "G2", "G3", "G4"};

struct Case {
    int ng = 3;
    int par[4] = {-1, -1, -1, -1};
    int wg[3] = {0, 1, 2};
    int we[3] = {0, 0, 0};
    int ge[4] = {0, 0, 0, 0};
    int kind[3] = {0, 0, 0};
    int us = 0, start = 0, xe = 0, naming = 0;
    const char* wn(int w) const { return WNAMES[naming][w]; }
    int status[3] = {0, 0, 0};
    int origin = 0;                  // how the vectors got into the SummaryConfig: 0 listed in SUMMARY, 1 not listed (mandatory restart vectors only), 2 merged in from a second SummaryConfig,
                                     // 3 listed and merged, 4 required by an ACTIONX condition only
    int mr = 0, mg = 0, mp = -1;     // tree change: from schedule step mr >= 1 on (keyword after mr TSTEPs) group mg hangs under mp (-1 FIELD); mr = 0: none
    int parent(int g, int r) const { return (mr > 0 && r >= mr && g == mg) ? mp : par[g]; }
    int init = 0;
    std::vector<std::pair<int, int>> seq = {{0, 0}};     // (length index, ministep flag)

    std::string str() const {
        std::string s = "T:";
        for (int i = 0; i < ng; ++i) s += (i ? "." : "") + std::to_string(par[i]);
        s += " P:"; for (int i = 0; i < 3; ++i) s += (i ? "." : "") + std::to_string(wg[i]);
        s += " WE:"; for (int i = 0; i < 3; ++i) s += (i ? "." : "") + std::to_string(we[i]);
        s += " GE:"; for (int i = 0; i < ng; ++i) s += (i ? "." : "") + std::to_string(ge[i]);
        s += " K:"; for (int i = 0; i < 3; ++i) s += (i ? "." : "") + std::to_string(kind[i]);
        s += " U:" + std::to_string(us) + " D:" + std::to_string(start) + " X:" + std::to_string(xe) + " N:" + std::to_string(naming);
        s += " O:" + std::to_string(origin);
        s += " H:" + std::to_string(hg) + "." + std::to_string(hc[0]) + "." + std::to_string(hc[1]) + "." + std::to_string(hc[2]);
        s += " M:" + std::to_string(mr) + "." + std::to_string(mg) + "." + std::to_string(mp);
        s += " S:"; for (int i = 0; i < 3; ++i) s += (i ? "." : "") + std::to_string(status[i]);
        s += " I:" + std::to_string(init) + " Q:";
        for (auto& e : seq) { s += std::to_string(e.first); s += e.second ? 's' : 'a'; }
        return s;
    }
    // everything the deck depends on
    std::string static_key() const {
        std::string s = str(); s = s.substr(0, s.find(" S:"));
        s += " R:"; for (double l : report_lengths()) s += vf::fmt17(l) + ",";
        return s;
    }
    std::vector<double> report_lengths() const {
        std::vector<double> r; double acc = 0;
        for (size_t i = 0; i < seq.size(); ++i) { acc += LEN[seq[i].first]; if (!seq[i].second || i + 1 == seq.size()) { r.push_back(acc); acc = 0; } }
        return r;
    }
    static std::vector<int> ints(const std::string& s) { std::vector<int> v; std::string t; std::istringstream ss(s); while (std::getline(ss, t, '.')) v.push_back(std::atoi(t.c_str())); return v; }
    static Case parse(const std::string& s) {
        Case c; std::istringstream ss(s); std::string tok;
        while (ss >> tok) {
            size_t p = tok.find(':'); if (p == std::string::npos) throw std::runtime_error("bad case token " + tok);
            std::string k = tok.substr(0, p), v = tok.substr(p + 1);
            auto iv = ints(v);
            if (k == "T") { c.ng = (int)iv.size(); for (int i = 0; i < c.ng; ++i) c.par[i] = iv[i]; }
            else if (k == "P") for (int i = 0; i < 3; ++i) c.wg[i] = iv.at(i);
            else if (k == "WE") for (int i = 0; i < 3; ++i) c.we[i] = iv.at(i);
            else if (k == "GE") for (size_t i = 0; i < iv.size() && i < 4; ++i) c.ge[i] = iv[i];
            else if (k == "K") for (int i = 0; i < 3; ++i) c.kind[i] = iv.at(i);
            else if (k == "U") c.us = iv.at(0);
            else if (k == "D") c.start = iv.at(0);
            else if (k == "X") c.xe = iv.at(0);
            else if (k == "H") { c.hg = iv.at(0); for (int i = 0; i < 3; ++i) c.hc[i] = iv.at(1 + i); }
            else if (k == "O") { c.origin = iv.at(0); if (c.origin < 0 || c.origin > 4) throw std::runtime_error("bad origin"); }
            else if (k == "M") { c.mr = iv.at(0); c.mg = iv.at(1); c.mp = iv.at(2); }
            else if (k == "N") { c.naming = iv.at(0); if (c.naming < 0 || c.naming > 6) throw std::runtime_error("bad naming"); }
            else if (k == "S") for (int i = 0; i < 3; ++i) c.status[i] = iv.at(i);
            else if (k == "I") c.init = iv.at(0);
            else if (k == "Q") { c.seq.clear(); for (size_t i = 0; i + 1 < v.size(); i += 2) c.seq.push_back({v[i] - '0', v[i + 1] == 's'}); }
            else throw std::runtime_error("bad case key " + k);
        }
        if (c.seq.empty()) throw std::runtime_error("empty sequence");
        return c;
    }
    int wei(int w, int r) const { return (xe && r >= 1) ? (we[w] + 1) % 3 : we[w]; }     // efficiency index of well w in schedule step r
    // GEFAC history of one group: record k (k = 0, 1, 2) is issued at schedule step k; code = 3 * factor index + flag (0 item 3 defaulted, 1 YES, 2 NO)
    int hg = -1; int hc[3] = {-1, -1, -1};
    int gei(int g, int r) const {
        if (g == hg) { int f = 0; for (int k = 0; k < 3 && k <= r; ++k) if (hc[k] >= 0) f = hc[k] / 3; return f; }     // factor of the last record so far, whatever its flag
        return (xe && r >= 1) ? (ge[g] + 1) % 3 : ge[g];
    }
    // admissible re-parenting: a real change, no cycle, and the new parent holds no wells (the library rejects mixed children)
    bool move_ok(int g, int p) const {
        if (g < 0 || g >= ng || p < -1 || p >= ng || p == g || p == par[g]) return false;
        for (int a = p; a >= 0; a = par[a]) if (a == g) return false;
        for (int w = 0; w < 3; ++w) if (wg[w] == p) return false;
        return true;
    }
    bool leaf(int g) const { for (int i = 0; i < ng; ++i) if (par[i] == g) return false; return true; }
    bool valid() const {                       // acyclic tree, wells only in leaf groups (the library rejects mixed children)
        for (int i = 0; i < ng; ++i) { int g = i, n = 0; while (g >= 0) { g = par[g]; if (++n > ng) return false; } }
        for (int w = 0; w < 3; ++w) if (wg[w] < 0 || wg[w] >= ng || !leaf(wg[w])) return false;
        if (hg >= 0) {
            if (hg >= ng || hc[0] < 0) return false;
            int n = 0; for (int k = 0; k < 3; ++k) { if (hc[k] > 8) return false; if (hc[k] >= 0) { if (n != k) return false; ++n; } }
            if ((int)report_lengths().size() < n) return false;
        }
        if (mr > 0 && (!move_ok(mg, mp) || (int)report_lengths().size() <= mr)) return false;
        return true;
    }
};

// ---------------------------------------------------------- fingerprints ---
// SI rates handed to the evaluator (data::Rates: negative = production).
// q: 0 oil 1 water 2 gas 3 resv oil 4 resv water 5 resv gas.  k: evaluation index.
static double fp_mag(int w, int q, int k) {
    static const double base[6] = {1.0e-3, 2.0e-3, 0.5, 1.5e-3, 2.1e-3, 4.0e-3};
    return base[q] * (1.0 + 0.137 * w + 0.0213 * q + 0.00711 * w * q) * (1.0 + 0.05 * k);
}
static double fp_rate(int w, int q, int k, int kind, int status) {
    int ph = q % 3;
    if (status >= 3) return 0.0;                                                 // OPEN (3) / STOP (4) with all computed rates exactly zero
    if (status == 2) return (ph == 1 ? +0.01 : -0.01) * fp_mag(w, q, k);        // stopped: cross-flow, water in, oil+gas out
    if (kind == 0) return -fp_mag(w, q, k);
    if (kind == 1) return ph == 1 ? fp_mag(w, q, k) : 0.0;
    return ph == 2 ? fp_mag(w, q, k) : 0.0;
}
// observed (history) rates written to WCONHIST / WCONINJH in DECK units, per report step r (0-based)
static double fp_hist(int w, int ph, int r) { return 100.0 + 17.0 * w + 3.1 * ph + 0.7 * w * ph + 1.9 * r + 0.3 * r * w; }

// ------------------------------------------------------------------ deck ---
static std::string num(double v) { char b[40]; std::snprintf(b, sizeof b, "%.15g", v); return b; }

static std::string g_summary_section;      // set once the keyword catalogue is known

static std::string render_schedule(const Case& c) {
    std::string s = "SCHEDULE\nGRUPTREE\n";
    for (int i = 0; i < c.ng; ++i) s += std::string(" '") + GN[i] + "' '" + (c.par[i] < 0 ? "FIELD" : GN[c.par[i]]) + "' /\n";
    s += "/\nWELSPECS\n";
    for (int w = 0; w < 3; ++w) s += std::string(" '") + c.wn(w) + "' '" + GN[c.wg[w]] + "' " + std::to_string(w + 1) + " " + std::to_string(w + 1) + " 1* " + (c.kind[w] == 0 ? "OIL" : c.kind[w] == 1 ? "WATER" : "GAS") + " /\n";
    s += "/\nCOMPDAT\n";
    for (int w = 0; w < 3; ++w) s += std::string(" '") + c.wn(w) + "' " + std::to_string(w + 1) + " " + std::to_string(w + 1) + " 1 2 OPEN 1* 1* 0.2 /\n";
    s += "/\n";
    auto lens = c.report_lengths();
    for (size_t r = 0; r < lens.size(); ++r) {
        std::string hp, hi;
        for (int w = 0; w < 3; ++w) {
            if (c.kind[w] == 0) hp += std::string(" '") + c.wn(w) + "' OPEN ORAT " + num(fp_hist(w, 0, r)) + " " + num(fp_hist(w, 1, r)) + " " + num(fp_hist(w, 2, r)) + " /\n";
            else hi += std::string(" '") + c.wn(w) + "' " + (c.kind[w] == 1 ? "WATER" : "GAS") + " OPEN " + num(fp_hist(w, c.kind[w], r)) + " /\n";
        }
        if (!hp.empty()) s += "WCONHIST\n" + hp + "/\n";
        if (!hi.empty()) s += "WCONINJH\n" + hi + "/\n";
        if (r == 0 && c.origin == 4) {       // vectors needed only because an (never true) ACTIONX condition mentions them
            s += std::string("ACTIONX\n 'ACT1' 1 /\n WOPT '") + c.wn(0) + "' > 1.0E+30 AND /\n WOPR '" + c.wn(1) + "' > 1.0E+30 AND /\n WWIT '" + c.wn(1) + "' > 1.0E+30 AND /\n WLPT '" + c.wn(2) + "' > 1.0E+30 AND /\n WGITH '" + c.wn(2) + "' > 1.0E+30 AND /\n" +
                 " GOPT 'G1' > 1.0E+30 AND /\n GGITH 'G2' > 1.0E+30 AND /\n GLPR 'G1' > 1.0E+30 AND /\n GWCT 'G2' > 1.0E+30 AND /\n FOPT > 1.0E+30 AND /\n FOPR > 1.0E+30 AND /\n FWITH > 1.0E+30 AND /\n FLPT > 1.0E+30 /\n/\nWELOPEN\n '" + c.wn(0) + "' OPEN /\n/\nENDACTIO\n";
        }
        if (r == 0) {
            std::string we, ge;
            for (int w = 0; w < 3; ++w) if (c.we[w]) we += std::string(" '") + c.wn(w) + "' " + num(WEF[w][c.we[w]]) + " /\n";
            for (int g = 0; g < c.ng; ++g) if (c.ge[g] && g != c.hg) ge += std::string(" '") + GN[g] + "' " + num(GEF[g][c.ge[g]]) + " /\n";
            if (!we.empty()) s += "WEFAC\n" + we + "/\n";
            if (!ge.empty()) s += "GEFAC\n" + ge + "/\n";
        }
        if (r == 1 && c.xe) {
            s += "WEFAC\n"; for (int w = 0; w < 3; ++w) s += std::string(" '") + c.wn(w) + "' " + num(WEF[w][c.wei(w, 1)]) + " /\n";
            s += "/\nGEFAC\n"; for (int g = 0; g < c.ng; ++g) if (g != c.hg) s += std::string(" '") + GN[g] + "' " + num(GEF[g][c.gei(g, 1)]) + " /\n";
            s += "/\n";
        }
        if (c.hg >= 0 && r < 3 && c.hc[r] >= 0)
            s += std::string("GEFAC\n '") + GN[c.hg] + "' " + num(GEF[c.hg][c.hc[r] / 3]) + (c.hc[r] % 3 == 1 ? " YES" : c.hc[r] % 3 == 2 ? " NO" : "") + " /\n/\n";
        if (c.mr > 0 && (int)r == c.mr) s += std::string("GRUPTREE\n '") + GN[c.mg] + "' '" + (c.mp < 0 ? "FIELD" : GN[c.mp]) + "' /\n/\n";
        // LAB decks give time in hours
        s += "TSTEP\n " + num(c.us == 2 ? lens[r] * 24.0 : lens[r]) + " /\n";
    }
    return s + "END\n";
}

static std::string render_head(int us, int start) {
    const StartDate& sd = STARTS[start];
    return std::string("RUNSPEC\nDIMENS\n 3 3 3 /\nOIL\nWATER\nGAS\n") + USYS[us] + "\nWELLDIMS\n 4 5 6 4 /\nACTDIMS\n 2 50 80 20 /\nSTART\n " + std::to_string(sd.d) + " " + sd.mon + " " + std::to_string(sd.y) +
           " /\nGRID\nDX\n 27*100 /\nDY\n 27*100 /\nDZ\n 27*10 /\nTOPS\n 9*2000 /\nPORO\n 27*0.3 /\nPERMX\n 27*100 /\nPERMY\n 27*100 /\nPERMZ\n 27*10 /\n";
}
static const char* MIN_SUMMARY = "TIMESTEP\nDATE\n";
static const std::string& section_for(const Case& c) { static const std::string m = MIN_SUMMARY; return (c.origin == 0 || c.origin == 3) ? g_summary_section : m; }
static std::string render(const Case& c, const std::string& summary) { return render_head(c.us, c.start) + "SUMMARY\n" + summary + render_schedule(c); }

// ------------------------------------------------------ built real model ---
struct Built {
    std::string key;
    std::unique_ptr<Schedule> sched;        // never copied/moved
    std::unique_ptr<SummaryConfig> cfg;
    std::unique_ptr<out::Summary> sum;
    const EclipseState* es = nullptr;
    std::string error;
};
static std::unique_ptr<EclipseState> g_es[4][3];
static const EclipseState& es_for(int us, int start) {
    if (!g_es[us][start]) { auto d = g_parser->parseString(render_head(us, start) + "SCHEDULE\nEND\n"); g_es[us][start] = std::make_unique<EclipseState>(d); }
    return *g_es[us][start];
}
static std::unique_ptr<Built> g_built;
static uint64_t g_builds = 0;
// The enumeration parses the SCHEDULE part per model and the (constant) SUMMARY
// part once per unit system/start date/group count; replays and diagnosis runs
// use one complete deck (g_full_deck), and a mismatch found with the split
// input must reproduce with the complete deck before it is reported.
static bool g_full_deck = false;
static std::map<std::string, std::unique_ptr<Deck>> g_sumdeck;
static const Deck& summary_fragment(const Case& c, const std::string& section) {     // RUNSPEC+GRID+SUMMARY only, parsed once
    std::string sk = std::to_string(c.us) + "/" + std::to_string(c.start) + "/" + std::to_string(c.ng) + "/" + (&section == &g_summary_section ? "all" : "min");
    auto& sd2 = g_sumdeck[sk];
    if (!sd2) sd2 = std::make_unique<Deck>(g_parser->parseString(render_head(c.us, c.start) + "SUMMARY\n" + section + "SCHEDULE\nEND\n"));
    return *sd2;
}
static Built& build(const Case& c) {
    std::string key = c.static_key() + (g_full_deck ? " full" : "");
    if (g_built && g_built->key == key) return *g_built;
    g_built.reset();                         // Summary refers to Schedule/Config: destroy as a unit
    auto b = std::make_unique<Built>(); b->key = key;
    try {
        b->es = &es_for(c.us, c.start);
        if (g_full_deck) {
            auto deck = g_parser->parseString(render(c, section_for(c)));
            b->sched = std::make_unique<Schedule>(deck, *b->es, g_python);
            b->cfg = std::make_unique<SummaryConfig>(deck, *b->sched, b->es->fieldProps(), b->es->aquifer());
        } else {
            const StartDate& sd = STARTS[c.start];
            auto sdeck = g_parser->parseString(std::string("RUNSPEC\nDIMENS\n 3 3 3 /\nOIL\nWATER\nGAS\n") + USYS[c.us] + "\nWELLDIMS\n 4 5 6 4 /\nACTDIMS\n 2 50 80 20 /\nSTART\n " + std::to_string(sd.d) + " " + sd.mon + " " + std::to_string(sd.y) + " /\n" + render_schedule(c));
            b->sched = std::make_unique<Schedule>(sdeck, *b->es, g_python);
            b->cfg = std::make_unique<SummaryConfig>(summary_fragment(c, section_for(c)), *b->sched, b->es->fieldProps(), b->es->aquifer());
        }
        if (c.origin == 2 || c.origin == 3) {    // a second configuration, built from a deck fragment that lists every vector, merged in
            SummaryConfig second(summary_fragment(c, g_summary_section), *b->sched, b->es->fieldProps(), b->es->aquifer());
            b->cfg->merge(second);
        }
        b->sum = std::make_unique<out::Summary>(*b->cfg, *b->es, b->es->getInputGrid(), *b->sched, "C09");
    } catch (const std::exception& e) { b->error = e.what(); b->sum.reset(); }
    ++g_builds;
    g_built = std::move(b);
    return *g_built;
}

// --------------------------------------------------------- keyword table ---
enum KClass { K_FLOW, K_RATIO, K_CAL, K_EFF };
struct Kw {
    std::string name; char ent;           // W G F or M (miscellaneous)
    KClass cls; char ph = 0, dir = 0; bool total = false, hist = false; int ratio = -1;   // ratio: 0 WCT 1 GOR 2 OGR 3 WGR 4 GLR
};
static std::vector<Kw> g_kws;              // checked keywords (accepted by SummaryConfig, evaluated, reference exists)
static const char* RATIOS[5] = {"WCT", "GOR", "OGR", "WGR", "GLR"};

static std::vector<Kw> candidates() {
    std::vector<Kw> v;
    for (char e : {'W', 'G', 'F'}) {
        for (char ph : {'O', 'W', 'G', 'L', 'V'}) for (char d : {'P', 'I'}) for (const char* q : {"R", "T", "RH", "TH"}) {
            Kw k; k.name = std::string(1, e) + ph + d + q; k.ent = e; k.cls = K_FLOW; k.ph = ph; k.dir = d; k.total = q[0] == 'T'; k.hist = q[1] == 'H'; v.push_back(k);
        }
        for (int r = 0; r < 5; ++r) for (int h = 0; h < 2; ++h) { Kw k; k.name = std::string(1, e) + RATIOS[r] + (h ? "H" : ""); k.ent = e; k.cls = K_RATIO; k.ratio = r; k.hist = h; v.push_back(k); }
    }
    { Kw k; k.name = "GEFF"; k.ent = 'G'; k.cls = K_EFF; v.push_back(k); }      // the group's own efficiency factor
    for (const char* n : {"TIME", "YEARS", "DAY", "MONTH", "YEAR", "TIMESTEP"}) { Kw k; k.name = n; k.ent = 'M'; k.cls = K_CAL; v.push_back(k); }
    return v;
}
static bool has_reference(const Kw& k) { return !(k.cls == K_FLOW && k.hist && k.ph == 'V'); }   // no observed voidage in WCONHIST/WCONINJH

static std::string summary_entry(const Kw& k, int ng) {
    if (k.ent == 'W') return k.name + "\n/\n";
    if (k.ent == 'G') { std::string s = k.name + "\n"; for (int g = 0; g < ng; ++g) s += std::string(" ") + GN[g]; return s + " FIELD /\n"; }
    if (k.name == "TIME" || k.name == "YEARS" || k.name == "MONTH" || k.name == "YEAR") return "";   // always produced / requested through DATE
    if (k.name == "DAY") return "DATE\n";                         // meta keyword: DAY MONTH YEAR
    return k.name + "\n";
}

// --------------------------------------------------------- reference model -
// Units (exact definitions; nothing taken from Units.hpp)
struct RefUnits { double liq, gas, resv, time; };     // SI per deck unit: volume liquid, volume gas, reservoir volume, time
static RefUnits ref_units(int us) {
    const double stb = 0.158987294928, mscf = 28.316846592, day = 86400.0, hour = 3600.0, cc = 1.0e-6;
    switch (us) {
    case 1: return {stb, mscf, stb, day};
    case 2: return {cc, cc, cc, hour};
    default: return {1.0, 1.0, 1.0, day};      // METRIC, PVT-M: sm3, rm3, day
    }
}
static void civil_from_days(long long z, int& y, int& m, int& d) {   // days since 1970-01-01 -> proleptic Gregorian date
    z += 719468; long long era = (z >= 0 ? z : z - 146096) / 146097; unsigned doe = (unsigned)(z - era * 146097);
    unsigned yoe = (doe - doe / 1460 + doe / 36524 - doe / 146096) / 365; y = (int)(yoe + era * 400);
    unsigned doy = doe - (365 * yoe + yoe / 4 - yoe / 100); unsigned mp = (5 * doy + 2) / 153; d = doy - (153 * mp + 2) / 5 + 1; m = mp < 10 ? mp + 3 : mp - 9; y += m <= 2;
}
static long long days_from_civil(int y, int m, int d) {
    y -= m <= 2; long long era = (y >= 0 ? y : y - 399) / 400; unsigned yoe = (unsigned)(y - era * 400);
    unsigned doy = (153 * (m > 2 ? m - 3 : m + 9) + 2) / 5 + d - 1; unsigned doe = yoe * 365 + yoe / 4 - yoe / 100 + doy; return era * 146097 + (long long)doe - 719468;
}

// node index: 0..2 wells, 3..3+ng-1 groups, 3+ng = FIELD
struct Flow { double P[3] = {0, 0, 0}, I[3] = {0, 0, 0}, VP = 0, VI = 0, HP[3] = {0, 0, 0}, HI[3] = {0, 0, 0}; };   // deck units
struct Ref {
    const Case& c; RefUnits u; int nn;
    std::vector<std::vector<double>> totals;                // [kw][node]: accumulated totals
    double elapsed_s = 0;
    explicit Ref(const Case& cc) : c(cc), u(ref_units(cc.us)), nn(3 + cc.ng + 1), totals(g_kws.size(), std::vector<double>(nn, 0.0)) {}

    bool under(int w, int node, int r) const {      // is well w a descendant of node in the tree in force at schedule step r?
        if (node < 3) return node == w;
        if (node == 3 + c.ng) return true;
        for (int g = c.wg[w]; g >= 0; g = c.parent(g, r)) if (g == node - 3) return true;
        return false;
    }
    // efficiency weight of well w in node's RATE: factors of the well and of the groups strictly below node
    double w_rate(int w, int node, int r) const {
        if (node < 3) return 1.0;
        double f = WEF[w][c.wei(w, r)];
        for (int g = c.wg[w]; g >= 0; g = c.parent(g, r)) { if (node != 3 + c.ng && g == node - 3) break; f *= GEF[g][c.gei(g, r)]; }
        return f;
    }
    // weight in any cumulative TOTAL: the well's factor and every group factor up to FIELD (downtime of an ancestor stops the flow)
    double w_total(int w, int r) const { double f = WEF[w][c.wei(w, r)]; for (int g = c.wg[w]; g >= 0; g = c.parent(g, r)) f *= GEF[g][c.gei(g, r)]; return f; }

    Flow flow(int node, bool total_mode, int k, int hist_step) const {
        Flow f;
        for (int w = 0; w < 3; ++w) {
            if (!under(w, node, hist_step) || c.status[w] == 1) continue;           // shut wells contribute nothing; zero-rate OPEN/STOP wells (3, 4) still echo observed rates
            double wt = total_mode ? w_total(w, hist_step) : w_rate(w, node, hist_step);
            for (int q = 0; q < 6; ++q) {
                double v = fp_rate(w, q, k, c.kind[w], c.status[w]) * wt;             // SI, m3/s
                double dv = v / ((q < 3 ? (q == 2 ? u.gas : u.liq) : u.resv) / u.time);   // deck rate unit
                if (q < 3) { if (v > 0) f.I[q] += dv; else f.P[q] -= dv; }
                else { if (v > 0) f.VI += dv; else f.VP -= dv; }
            }
            for (int ph = 0; ph < 3; ++ph) {
                if (c.kind[w] == 0) f.HP[ph] += fp_hist(w, ph, hist_step) * wt;
                else if (c.kind[w] == ph) f.HI[ph] += fp_hist(w, ph, hist_step) * wt;
            }
        }
        return f;
    }
    static double base(const Flow& f, const Kw& k) {
        const double* a = k.hist ? (k.dir == 'P' ? f.HP : f.HI) : (k.dir == 'P' ? f.P : f.I);
        switch (k.ph) {
        case 'O': return a[0]; case 'W': return a[1]; case 'G': return a[2];
        case 'L': return a[0] + a[1];
        default: return k.dir == 'P' ? f.VP : f.VI;
        }
    }
    static double quot(double n, double d) { return d == 0 ? 0.0 : n / d; }
    static double ratio(const Flow& f, const Kw& k) {
        const double* a = k.hist ? f.HP : f.P;
        switch (k.ratio) {
        case 0: return quot(a[1], a[1] + a[0]);
        case 1: return quot(a[2], a[0]);
        case 2: return quot(a[0], a[2]);
        case 3: return quot(a[1], a[2]);
        default: return quot(a[2], a[1] + a[0]);
        }
    }
    // advance by one evaluation (index k, step length dt_s seconds, schedule step hist_step); fills expected values
    void step(int k, double dt_s, int hist_step, std::vector<std::vector<double>>& expect /* [kw][node] */, std::vector<double>& cal) {
        double dt = dt_s / u.time;
        std::vector<Flow> fr(nn), ft(nn);
        for (int n = 0; n < nn; ++n) { fr[n] = flow(n, false, k, hist_step); ft[n] = flow(n, true, k, hist_step); }
        expect.assign(g_kws.size(), std::vector<double>(nn, 0.0));
        for (size_t i = 0; i < g_kws.size(); ++i) {
            const Kw& kw = g_kws[i];
            if (kw.cls == K_CAL) continue;
            for (int n = 0; n < nn; ++n) {
                if (kw.cls == K_EFF) {          // GEFF: the group's own factor in force; Summary.cpp reports 0 for a group without wells below it
                    bool any = false; for (int w = 0; w < 3; ++w) any |= under(w, n, hist_step);
                    expect[i][n] = !any ? 0.0 : (n >= 3 && n < nn - 1) ? GEF[n - 3][c.gei(n - 3, hist_step)] : 1.0;
                }
                else if (kw.cls == K_RATIO) expect[i][n] = ratio(fr[n], kw);
                else if (!kw.total) expect[i][n] = base(fr[n], kw);
                else { double& t = totals[i][n]; t += base(ft[n], kw) * dt; expect[i][n] = t; }
            }
        }
        elapsed_s += dt_s;
        const StartDate& sd = STARTS[c.start];
        int y, m, d; civil_from_days(days_from_civil(sd.y, sd.m, sd.d) + (long long)std::floor(elapsed_s / 86400.0), y, m, d);
        cal = {elapsed_s / u.time, elapsed_s / (365.25 * 86400.0), (double)d, (double)m, (double)y, dt};   // TIME YEARS DAY MONTH YEAR TIMESTEP
    }
};
static int cal_index(const std::string& n) { static const char* N[] = {"TIME", "YEARS", "DAY", "MONTH", "YEAR", "TIMESTEP"}; for (int i = 0; i < 6; ++i) if (n == N[i]) return i; return -1; }

// ------------------------------------------------------------ execution ----
struct Mismatch { int kw; int node; int eval; double got, want; bool missing; };
static std::string node_name(const Case& c, int n) { if (n < 3) return c.wn(n); if (n < 3 + c.ng) return GN[n - 3]; return "FIELD"; }
static bool close_enough(double got, double want) {
    if (std::isnan(got) || std::isnan(want)) return false;
    return std::fabs(got - want) <= 1e-10 * std::max(std::fabs(got), std::fabs(want)) + 1e-13;
}

struct Outcome { std::vector<Mismatch> mm; uint64_t obs = 1469598103934665603ull; long compared = 0, absent = 0; std::string error; };

static Outcome run_case(const Case& c) {
    Outcome o;
    Built& b = build(c);
    if (!b.sum) { o.error = b.error; return o; }
    SummaryState st(TimeService::from_time_t(b.sched->getStartTime()), 0.0);
    Ref ref(c);
    const int nn = ref.nn;
    std::vector<std::vector<double>> expect; std::vector<double> cal;
    // evaluation schedule
    struct Ev { int report; double t; int hist_step; double dt; };
    std::vector<Ev> evs;
    if (c.init) evs.push_back({0, 0.0, 0, 0.0});
    { int rep = 1; double t = 0; for (size_t i = 0; i < c.seq.size(); ++i) { double dt = LEN[c.seq[i].first] * 86400.0; t += dt; evs.push_back({rep, t, rep - 1, dt}); if (!c.seq[i].second) ++rep; } }
    for (size_t k = 0; k < evs.size(); ++k) {
        data::Wells wells;
        for (int w = 0; w < 3; ++w) {
            data::Well dw; using O = data::Rates::opt;
            static const O opts[6] = {O::oil, O::wat, O::gas, O::reservoir_oil, O::reservoir_water, O::reservoir_gas};
            for (int q = 0; q < 6; ++q) dw.rates.set(opts[q], fp_rate(w, q, (int)k, c.kind[w], c.status[w]));
            dw.bhp = 1.0e7;
            dw.dynamicStatus = (c.status[w] == 0 || c.status[w] == 3) ? Well::Status::OPEN : c.status[w] == 1 ? Well::Status::SHUT : Well::Status::STOP;
            wells[c.wn(w)] = dw;
        }
        b.sum->eval(st, evs[k].report, evs[k].t, wells, {}, {}, {}, {}, {});
        ref.step((int)k, evs[k].dt, evs[k].hist_step, expect, cal);
        for (size_t i = 0; i < g_kws.size(); ++i) {
            const Kw& kw = g_kws[i];
            if (kw.cls == K_CAL) {
                bool has = st.has(kw.name); double got = has ? st.get(kw.name) : 0, want = cal[cal_index(kw.name)];
                o.obs = vf::fnv(&got, 8, o.obs); ++o.compared;
                if (!has || !close_enough(got, want)) o.mm.push_back({(int)i, -1, (int)k, got, want, !has});
                continue;
            }
            int n0 = kw.ent == 'W' ? 0 : kw.ent == 'G' ? 3 : nn - 1, n1 = kw.ent == 'W' ? 3 : nn;
            for (int n = n0; n < n1; ++n) {
                bool has; double got = 0;
                if (kw.ent == 'W') { has = st.has_well_var(c.wn(n), kw.name); if (has) got = st.get_well_var(c.wn(n), kw.name); }
                else if (kw.ent == 'G') { std::string g = node_name(c, n); has = st.has_group_var(g, kw.name); if (has) got = st.get_group_var(g, kw.name); }
                else { has = st.has(kw.name); if (has) got = st.get(kw.name); }
                o.obs = vf::fnv(&got, 8, o.obs); ++o.compared;
                if (!has && (c.origin == 1 || c.origin == 4)) { ++o.absent; --o.compared; continue; }      // not requested in this variant: nothing to judge
                if (!has || !close_enough(got, expect[i][n])) o.mm.push_back({(int)i, n, (int)k, got, expect[i][n], !has});
            }
        }
    }
    return o;
}

// ------------------------------------------------- diagnosis of a mismatch -
// Reset one dimension after the other to its default; a reset is kept when the
// keyword still fails.  What cannot be reset names the defect.
static bool fails(const Case& c, int kw) { if (!c.valid()) return false; Outcome o = run_case(c); if (!o.error.empty()) return false; for (auto& m : o.mm) if (m.kw == kw) return true; return false; }

static std::string diagnose(Case& c, int kw, const Mismatch& first) {
    const Kw& k = g_kws[kw];
    if (first.missing) return "missing";
    // order matters only for the label; every reset that keeps the failure is kept, so the reported case is small
    bool need_units = false, need_efac = false, need_status = false, need_kind = false, need_seq = false;
    { Case d = c; d.us = 0; if (c.us != 0) { if (fails(d, kw)) c = d; else need_units = true; } }
    bool need_naming = false, need_move = false, need_origin = false, need_hist = false;
    { Case d = c; d.hg = -1; d.hc[0] = d.hc[1] = d.hc[2] = -1; if (c.hg >= 0) { if (fails(d, kw)) c = d; else need_hist = true; } }
    const int origin0 = c.origin;
    { Case d = c; d.origin = 0; if (c.origin != 0) { if (fails(d, kw)) c = d; else need_origin = true; } }
    { Case d = c; d.mr = 0; d.mg = 0; d.mp = -1; if (c.mr > 0) { if (fails(d, kw)) c = d; else need_move = true; } }
    { Case d = c; d.naming = 0; if (c.naming != 0) { if (fails(d, kw)) c = d; else need_naming = true; } }
    { Case d = c; bool any = false; for (int i = 0; i < 3; ++i) { any |= d.we[i] != 0; d.we[i] = 0; } for (int i = 0; i < 4; ++i) { any |= d.ge[i] != 0; d.ge[i] = 0; } any |= d.xe != 0; d.xe = 0; if (any) { if (fails(d, kw)) c = d; else need_efac = true; } }
    { Case d = c; bool any = false; for (int i = 0; i < 3; ++i) { any |= d.status[i] != 0; d.status[i] = 0; } if (any) { if (fails(d, kw)) c = d; else need_status = true; } }
    { Case d = c; bool any = false; for (int i = 0; i < 3; ++i) { any |= d.kind[i] != 0; d.kind[i] = 0; } if (any) { if (fails(d, kw)) c = d; else need_kind = true; } }
    { Case d = c; d.seq = {{0, 0}}; d.init = 0; if (d.valid() && (c.seq.size() > 1 || c.init || c.seq[0].first != 0)) { if (fails(d, kw)) c = d; else need_seq = true; } }
    { Case d = c; d.start = 0; if (c.start != 0 && fails(d, kw)) c = d; }
    bool need_tree = false;
    { Case d = c; bool any = false; for (int i = 0; i < d.ng; ++i) { any |= d.par[i] != -1; d.par[i] = -1; } if (any && d.valid()) { if (fails(d, kw)) c = d; else need_tree = true; } }
    { Case d = c; d.wg[0] = 0; d.wg[1] = 1; d.wg[2] = 2; if (d.valid() && fails(d, kw)) c = d; }
    if (c.xe) { Case d = c; d.xe = 0; if (fails(d, kw)) c = d; }
    // per-entity minimisation of what is still non-default (smaller reproducer; does not change the label)
    for (int i = 0; i < 3; ++i) {
        if (c.we[i]) { Case d = c; d.we[i] = 0; if (fails(d, kw)) c = d; }
        if (c.status[i]) { Case d = c; d.status[i] = 0; if (fails(d, kw)) c = d; }
        if (c.kind[i]) { Case d = c; d.kind[i] = 0; if (fails(d, kw)) c = d; }
    }
    for (int i = 0; i < c.ng; ++i) if (c.ge[i]) { Case d = c; d.ge[i] = 0; if (fails(d, kw)) c = d; }
    while (c.seq.size() > 1) { Case d = c; d.seq.pop_back(); d.seq.back().second = 0; if (fails(d, kw)) c = d; else break; }
    if (need_units) return std::string("units:") + USYS[c.us];
    if (k.cls == K_CAL) return "calendar";
    if (need_origin) { static const char* ON[5] = {"listed", "mandatory-not-listed", "merged", "listed-and-merged", "actionx-required"}; return std::string("config-origin:") + ON[origin0]; }
    if (need_hist) return "efac:gefac-history";
    if (need_move) return "hierarchy:tree-change";
    if (need_efac) return need_naming ? "efac:declaration-order" : "efac";
    if (need_naming) return "declaration-order";
    if (need_status) {
        bool shut = false, zero = false; for (int i = 0; i < 3; ++i) { shut |= c.status[i] == 1; zero |= c.status[i] >= 3; }
        return shut ? "shut" : zero ? (k.hist ? "history:zero-rate-well" : "zero-rate-well") : "sign";
    }
    if (need_kind) return k.hist ? "history" : "sign";
    if (need_seq) return "accumulate";
    if (need_tree) return "hierarchy";
    if (k.hist) return "history";
    if (k.cls == K_EFF) return "efac";
    if (k.cls == K_RATIO || k.ph == 'L' || k.ph == 'V') return "derived";
    return "definition";          // wrong already in the flat default model: the entry itself (wrong phase/direction/function)
}

static std::map<std::string, int> g_diag_count;
static long g_diag_runs = 0;
static int g_diag_origin[5] = {0, 0, 0, 0, 0};      // diagnoses spent on cases of a non-default configuration origin (one defect there hits many vectors)

static void do_case_report(const Case& c, const Outcome& o);
static void do_case(const Case& c) {
    const std::string cs = c.str();
    R->current(cs);
    Outcome o = run_case(c);
    R->evaluations++;
    if (!o.error.empty()) {
        R->violation("C09:harness:model-rejected", "the library rejects a model of the enumerated space: " + o.error.substr(0, 300), "{\"case\": " + vf::jstr(cs) + "}");
        return;
    }
    R->observe(o.obs);
    R->count("values_compared", o.compared);
    if (o.absent) R->count("values_absent_because_not_requested", o.absent);
    if (R->samples.size() < 2 && (vf::fnv(cs) % 1009) == 0) R->sample_str(cs);
    if (o.mm.empty()) return;
    R->count("mismatching_values", (long long)o.mm.size());
    {   // everything already diagnosed often enough: count only
        bool todo = false;
        if (!(c.origin != 0 && g_diag_origin[c.origin] >= 6))
            for (const auto& m : o.mm) if (g_diag_count[g_kws[m.kw].name] < 3 && g_diag_runs < 400) { todo = true; break; }
        if (!todo) { R->count("cases_with_mismatch_not_diagnosed"); return; }
    }
    if (!g_full_deck) {                        // confirm on one complete deck, diagnose there
        g_full_deck = true; Outcome f = run_case(c);
        bool same = f.error.empty() && f.mm.size() == o.mm.size() && f.obs == o.obs;
        if (!same) { R->violation("C09:harness:split-deck-differs", "mismatch seen with separately parsed SUMMARY/SCHEDULE input does not reproduce identically with the complete deck: " + cs, "{\"case\": " + vf::jstr(cs) + "}"); g_full_deck = false; return; }
        do_case_report(c, f); g_full_deck = false; return;
    }
    do_case_report(c, o);
}
static void do_case_report(const Case& c, const Outcome& o) {
    const std::string cs = c.str();
    std::set<int> seen;
    for (const auto& m : o.mm) {
        if (!seen.insert(m.kw).second) continue;
        const Kw& k = g_kws[m.kw];
        if (g_diag_count[k.name] >= 3 || g_diag_runs >= 400 || (c.origin != 0 && g_diag_origin[c.origin] >= 6)) { R->count("mismatches_not_diagnosed"); continue; }
        ++g_diag_count[k.name]; ++g_diag_runs; if (c.origin != 0) ++g_diag_origin[c.origin];
        Case mc = c; Mismatch first = m;
        std::string what = diagnose(mc, m.kw, m);
        // report on the minimised case
        Outcome mo = run_case(mc);
        for (auto& x : mo.mm) if (x.kw == m.kw) { first = x; break; }
        std::string where = first.node < 0 ? k.name : k.name + ":" + node_name(mc, first.node);
        std::string msg = where + " = " + (first.missing ? std::string("<absent>") : vf::fmt17(first.got)) + " after evaluation " + std::to_string(first.eval) + ", reference " + vf::fmt17(first.want) +
                          " [" + what + "] in " + mc.str() + " (found in " + cs + ")";
        // a defect of the configuration path hits every cumulative total alike: one key for all totals, per keyword otherwise
        const std::string fam = (what.rfind("config-origin:", 0) == 0 && k.total) ? "totals" : k.name;
        R->violation("C09:" + fam + ":" + what, msg, "{\"case\": " + vf::jstr(mc.str()) + ", \"found_in\": " + vf::jstr(cs) + ", \"vector\": " + vf::jstr(where) + ", \"observed\": " + vf::jstr(vf::fmt17(first.got)) + ", \"expected\": " + vf::jstr(vf::fmt17(first.want)) + ", \"deck\": " + vf::jstr(render(mc, g_summary_section)) + "}");
    }
}

// -------------------------------------------------------- keyword catalogue
static bool setup_catalogue() {
    auto cand = candidates();
    std::string not_deck, not_cfg, not_eval, no_ref, checked;
    std::vector<Kw> rec;
    std::vector<Kw> recog;
    for (auto& k : cand) {
        bool date = k.name == "DAY" || k.name == "MONTH" || k.name == "YEAR";
        if (k.name == "TIME" || k.name == "YEARS" || g_parser->isRecognizedKeyword(date ? "DATE" : k.name)) recog.push_back(k); else not_deck += k.name + " ";
    }
    {
        Case c; std::string sec; for (auto& k : recog) sec += summary_entry(k, c.ng);
        try {
            auto deck = g_parser->parseString(render(c, sec));
            Schedule sched(deck, es_for(0, 0), g_python);
            SummaryConfig cfg(deck, sched, es_for(0, 0).fieldProps(), es_for(0, 0).aquifer());
            for (auto& k : recog) { if (k.name == "TIME" || k.name == "YEARS" || cfg.hasKeyword(k.name)) rec.push_back(k); else not_cfg += k.name + " "; }
        } catch (const std::exception& e) { R->violation("C09:harness:catalogue-deck", std::string("deck with all candidate vectors does not build: ") + e.what()); return false; }
    }
    // which of them get a value from the evaluator (default model, one step)
    g_kws.clear();
    {
        // ng-specific summary section is produced in summary_for(); probe with ng = 3
        std::string sec; for (auto& k : rec) sec += summary_entry(k, 3);
        g_summary_section = sec;
        Case c; g_built.reset();
        Built& b = build(c);
        if (!b.sum) { R->violation("C09:harness:base-deck", "default model does not build: " + b.error); return false; }
        SummaryState st(TimeService::from_time_t(b.sched->getStartTime()), 0.0);
        data::Wells wells; for (int w = 0; w < 3; ++w) { data::Well dw; dw.rates.set(data::Rates::opt::oil, -1.0); wells[c.wn(w)] = dw; }
        b.sum->eval(st, 1, 86400.0, wells, {}, {}, {}, {}, {});
        for (auto& k : rec) {
            bool has = k.ent == 'W' ? st.has_well_var("W1", k.name) : k.ent == 'G' ? st.has_group_var("G1", k.name) : st.has(k.name);
            if (!has) { not_eval += k.name + " "; continue; }
            if (!has_reference(k)) { no_ref += k.name + " "; continue; }
            g_kws.push_back(k); checked += k.name + " ";
        }
        g_built.reset(); g_sumdeck.clear();
    }
    if (R->shard == 0) {
        R->notes["vectors_checked"] = checked;
        R->notes["candidates_not_deck_keywords"] = not_deck;
        R->notes["candidates_without_summary_config_node"] = not_cfg;
        R->notes["accepted_but_no_evaluator"] = not_eval;
        R->notes["evaluated_but_no_reference_in_harness"] = no_ref;
        R->count("vectors_checked", (long long)g_kws.size());
    }
    return !g_kws.empty();
}
static std::string g_sec[5];
static void use_summary_for(int ng) {
    if (g_sec[ng].empty()) for (auto& k : g_kws) g_sec[ng] += summary_entry(k, ng);
    g_summary_section = g_sec[ng];
}

// ------------------------------------------------------------ enumeration --
static std::vector<std::array<int, 4>> trees(int ng) {     // all labelled forests under FIELD (parent vectors), acyclic
    std::vector<std::array<int, 4>> v; std::array<int, 4> p{-1, -1, -1, -1};
    std::function<void(int)> rec = [&](int i) {
        if (i == ng) { Case c; c.ng = ng; for (int k = 0; k < ng; ++k) c.par[k] = p[k]; for (int k = 0; k < ng; ++k) { int g = k, n = 0; while (g >= 0) { g = c.par[g]; if (++n > ng) return; } } v.push_back(p); return; }
        for (int q = -1; q < ng; ++q) { if (q == i) continue; p[i] = q; rec(i + 1); }
        p[i] = -1;
    };
    rec(0); return v;
}
static std::vector<std::array<int, 3>> placements(const Case& c) {
    std::vector<std::array<int, 3>> v;
    for (int a = 0; a < c.ng; ++a) for (int b = 0; b < c.ng; ++b) for (int d = 0; d < c.ng; ++d) if (c.leaf(a) && c.leaf(b) && c.leaf(d)) v.push_back({a, b, d});
    return v;
}
static std::vector<std::vector<std::pair<int, int>>> sequences(int maxlen) {
    std::vector<std::vector<std::pair<int, int>>> v;
    for (int n = 1; n <= maxlen; ++n) {
        int nl = 1; for (int i = 0; i < n; ++i) nl *= 3;
        for (int l = 0; l < nl; ++l) for (int s = 0; s < (1 << (n - 1)); ++s) {
            std::vector<std::pair<int, int>> q; int x = l;
            for (int i = 0; i < n; ++i) { q.push_back({x % 3, i + 1 < n ? (s >> i) & 1 : 0}); x /= 3; }
            v.push_back(q);
        }
    }
    return v;
}

int main(int argc, char** argv) {
    vf::Run run("C09", argc, argv); R = &run;
    OpmLog::removeAllBackends();
    Parser parser; g_parser = &parser; g_python = std::make_shared<Python>();
    run.assumptions = {
        "reference model in the harness: hierarchy walk, efficiency weights, sign split, accumulation, ratios, calendar and unit factors (stb = 0.158987294928 m3, Mscf = 28.316846592 m3, day = 86400 s, LAB scc/hr) written independently of Summary.cpp/Units.hpp",
        "efficiency convention as documented in Summary.cpp and pinned by tests/test_Summary.cpp(efficiency_factor): a well's own rate is unweighted, a group's rate carries the factors of wells and groups strictly below it, FIELD rates and every cumulative total carry the well's factor and the factor of every group up to FIELD",
        "dynamically SHUT wells are handed non-zero rates and observed rates so that 'contribute nothing' is not vacuous; STOP wells carry small cross-flow rates of mixed sign and contribute by sign; OPEN/STOP wells whose six computed rates are all exactly 0 contribute 0 to computed vectors but their observed WCONHIST/WCONINJH rates are still echoed in every history rate, ratio and total (history is independent of the computed rates for every well that is not shut)",
        "wells only in leaf groups (the library rejects groups with both wells and sub-groups); at most one group is re-parented (one GRUPTREE at a later report step; the reference sums descendants and efficiency chains over the tree in force at each evaluated step), wells never change group or kind, efficiency factors change at most once (report step 2) except for one group that gets a history of up to 3 GEFAC records with transfer flags; the factor of the last record so far is in force whatever item 3 says (the flag concerns the network only); rates are fingerprints, not physical solutions",
        "configuration origins: 'merged' calls the public SummaryConfig::merge() with a second configuration built from a deck fragment (RUNSPEC+GRID+SUMMARY) against the same Schedule; in the not-listed and ACTIONX variants vectors that are not evaluated at all are skipped, not judged",
        "GEFF (not part of the property families, observed because the GEFAC history acts on it) is judged as the group's own factor of the last GEFAC record, and 0 for a group with no wells below it as Summary.cpp defines it",
        "vectors outside W/G/F x {O,W,G,L,V} x {P,I} x {R,T,RH,TH}, the five ratios (+H) and the time vectors are not covered; connection/segment/region vectors not covered"};
    if (!setup_catalogue()) return run.finish();

    if (!run.replay_path.empty()) {
        Case c = Case::parse(run.replay_path);
        use_summary_for(c.ng); g_full_deck = true;
        if (!c.valid()) run.violation("C09:harness:bad-replay", "case is not in the enumerated space: " + run.replay_path);
        else do_case(c);
        return run.finish();
    }

    auto set_tree = [](Case& c, const std::array<int, 4>& t) { for (int i = 0; i < c.ng; ++i) c.par[i] = t[i]; };
    auto increasing = [](const std::array<int, 4>& t, int ng) { for (int i = 0; i < ng; ++i) if (t[i] >= i) return false; return true; };
    auto exec = [&](const char* regime, const Case& c) {
        if (!run.mine(vf::fnv(c.static_key()))) return;
        run.count(std::string("cases_") + regime);
        do_case(c);
    };
    auto stop = [&] { return run.timed_out() || run.counters["violations_total"] > 300; };
    const auto tr3 = trees(3), tr4 = trees(4);
    const auto seq2 = sequences(2), seq3 = sequences(3);

    // ---- regime A: deviation-bounded exploration, 3 groups, every labelled forest x every leaf placement
    //      default: all open producers, efficiency 1, METRIC, start 0, one 1 d step, no step-0 evaluation
    //      thorough adds the third deviation with a 4-element sequence alphabet (subset of the <= 2-evaluation sequences)
    const std::vector<std::vector<std::pair<int, int>>> seq4 = {{{0, 0}}, {{1, 0}, {2, 0}}, {{0, 1}, {1, 0}}, {{2, 0}, {0, 0}}};
    auto regimeA = [&](int budget, const std::vector<std::vector<std::pair<int, int>>>& seqA, int nstatus, int norigin, int skip_upto, const char* name) {
        const int ng = 3; use_summary_for(ng);
        const auto& tr = tr3;
        vf::explore([&](vf::Chooser& ch) {
            Case c; c.ng = ng;
            set_tree(c, tr[ch.pick((int)tr.size())]);
            auto pl = placements(c);
            int p = ch.pick((int)pl.size()); for (int w = 0; w < 3; ++w) c.wg[w] = pl[p][w];
            // deck-changing deviations first, the evaluation-only ones (step-0 evaluation, status) vary fastest
            c.us = ch.dev(4); c.start = ch.dev(3);
            for (int w = 0; w < 3; ++w) c.kind[w] = ch.dev(3);
            for (int w = 0; w < 3; ++w) c.we[w] = ch.dev(3);
            for (int g = 0; g < ng; ++g) c.ge[g] = ch.dev(3);
            c.xe = ch.dev(2);
            { static const int NA[4] = {0, 1, 2, 6}; c.naming = NA[ch.dev(4)]; }     // name order, reverse, B A C, W_2 W_9 W_10
            c.origin = ch.dev(norigin);                                               // how the vectors entered the configuration
            int mv = ch.dev(1 + ng * (ng + 1));                                       // re-parenting at schedule step 1: (group, new parent) code; inadmissible ones are skipped below
            if (mv) { c.mr = 1; c.mg = (mv - 1) / (ng + 1); c.mp = (mv - 1) % (ng + 1) - 1; }
            c.seq = seqA[ch.dev((int)seqA.size())];
            c.init = ch.dev(2);
            for (int w = 0; w < 3; ++w) c.status[w] = ch.dev(nstatus);
            if (ch.used <= skip_upto) return;          // already executed by the regime with the smaller budget
            if (c.mr && !c.valid()) { return; }        // inadmissible move or no second report step in this sequence
            exec(name, c);
        }, budget, stop);
    };
    regimeA(2, seq2, run.thorough() ? 5 : 4, run.thorough() ? 5 : 1, -1, "A_dev2");      // status alphabet: quick OPEN SHUT STOP OPEN-zero, thorough + STOP-zero
    if (run.thorough()) regimeA(3, seq4, 3, 1, 2, "A_dev3");         // third deviation: OPEN SHUT STOP only

    // ---- regime B: every evaluation sequence (<= 3 evaluations, ministep patterns) x unit system x step-0 evaluation on three rich models
    {
        use_summary_for(3);
        const char* models[3] = {
            "T:-1.0.-1 P:1.1.2 WE:1.2.0 GE:1.2.1 K:0.1.0 S:0.0.2",      // G2 under G1; producer + water injector in G2, stopped producer in G3
            "T:-1.-1.-1 P:0.1.2 WE:0.1.2 GE:2.0.1 K:0.0.2 S:0.1.0",     // star; one shut producer, a gas injector
            "T:2.0.-1 P:1.1.1 WE:2.1.1 GE:1.1.2 K:2.1.0 S:0.0.0"};      // chain G2<G1<G3 with all wells in G2; declared child-before-parent
        for (int m = 0; m < 3; ++m) for (int us = 0; us < 4; ++us) for (size_t q = 0; q < seq3.size(); ++q) for (int init = 0; init < 2; ++init) {
            if (stop()) break;
            Case c = Case::parse(models[m]); c.us = us; c.start = (int)((q + m) % 3); c.seq = seq3[q]; c.init = init; c.xe = (int)((q + m) % 2);
            exec("B_sequences_x_units", c);
        }
    }

    // ---- regime H: GEFAC record histories of one group: <= 2 (quick) / 3 (thorough) records at successive report steps, each
    //      (factor in the group's 3 values) x (item 3 defaulted, YES, NO); the factor of the last record so far is in force
    {
        use_summary_for(3);
        for (auto& t : tr3) {
            Case c; c.ng = 3; set_tree(c, t);
            auto pls = placements(c);
            for (size_t pi = 0; pi < pls.size(); ++pi) {
                const bool rich = pi == 0 || pi + 1 == pls.size();            // first and last placement of every forest
                if (run.quick() && !rich) continue;
                for (int w = 0; w < 3; ++w) { c.wg[w] = pls[pi][w]; c.we[w] = 1; c.ge[w] = 1; }
                c.kind[0] = 0; c.kind[1] = 0; c.kind[2] = 1;
                for (int g = 0; g < 3; ++g) for (int c0 = 0; c0 < 9; ++c0) for (int c1 = -1; c1 < 9; ++c1) for (int c2 = -1; c2 < ((run.thorough() && rich && c1 >= 0) ? 9 : 0); ++c2) {
                    if (stop()) break;
                    c.hg = g; c.hc[0] = c0; c.hc[1] = c1; c.hc[2] = c2;
                    if (c2 >= 0) c.seq = {{0, 0}, {1, 0}, {2, 0}}; else c.seq = {{0, 0}, {2, 0}};
                    exec("H_gefac_history", c);
                }
            }
        }
    }

    // ---- regime G: how the vectors got into the configuration.  The same model evaluated with the vectors listed in SUMMARY (all other
    //      regimes), not listed (mandatory restart vectors only), merged in from a second SummaryConfig, listed and merged, or required
    //      by an ACTIONX condition only: every value present in SummaryState must equal the same reference (each total accumulated once)
    {
        use_summary_for(3);
        static const int KK[3][3] = {{0, 0, 0}, {0, 1, 2}, {2, 0, 1}};
        for (auto& t : tr3) {
            Case c; c.ng = 3; set_tree(c, t);
            int n = 0;
            for (auto& pl : placements(c)) for (int og = 1; og <= 4; ++og) for (int kk = 0; kk < 3; ++kk) for (int e = 0; e < (run.thorough() ? 4 : 2) && !stop(); ++e, ++n) {
                for (int w = 0; w < 3; ++w) { c.wg[w] = pl[w]; c.kind[w] = KK[kk][w]; c.we[w] = e == 0 ? 0 : 1 + ((w + e) & 1); c.ge[w] = e == 0 ? 0 : 1 + ((w + e + 1) & 1); }
                c.origin = og; c.xe = e == 3; c.us = (e == 2) ? 1 : 0;
                c.status[0] = 0; c.status[1] = (n % 3 == 1) ? 3 : 0; c.status[2] = (n % 3 == 2) ? 1 : 0;
                c.init = n & 1;
                c.seq = (n % 2) ? std::vector<std::pair<int, int>>{{1, 1}, {0, 0}, {2, 0}} : std::vector<std::pair<int, int>>{{0, 0}, {2, 0}};
                exec("G_config_origin", c);
            }
        }
    }

    // ---- regime F: group tree changed in time.  A GRUPTREE at schedule step r re-parents one group; evaluations before and after.
    //      every admissible (group, new parent) move of every forest x placement; reference uses the tree in force at each step
    {
        auto run_moves = [&](int ng, const std::vector<std::array<int, 4>>& tr, const std::vector<int>& effs, const std::vector<int>& xes, bool two_seqs, const char* name) {
            use_summary_for(ng);
            for (auto& t : tr) {
                Case c; c.ng = ng; set_tree(c, t);
                for (auto& pl : placements(c)) {
                    for (int w = 0; w < 3; ++w) c.wg[w] = pl[w];
                    for (int g = 0; g < ng; ++g) for (int p = -1; p < ng; ++p) {
                        if (!c.move_ok(g, p)) continue;
                        for (int sq = 0; sq < (two_seqs ? 2 : 1); ++sq) for (int r = 1; r <= (sq ? 1 : 2); ++r) for (int e : effs) for (int xe : xes) {
                            if (stop()) return;
                            c.mr = r; c.mg = g; c.mp = p; c.xe = xe;
                            for (int w = 0; w < 3; ++w) c.we[w] = e < 0 ? 2 : (e >> w) & 1;
                            for (int k = 0; k < ng; ++k) c.ge[k] = e < 0 ? 1 + (k & 1) : (e >> (3 + k)) & 1;
                            c.kind[0] = 0; c.kind[1] = 0; c.kind[2] = 1;
                            if (sq == 0) c.seq = {{0, 0}, {1, 0}, {2, 0}};            // three report steps, one evaluation each
                            else c.seq = {{2, 0}, {0, 1}, {1, 0}};                     // two report steps, the second with a ministep
                            exec(name, c);
                        }
                    }
                }
            }
        };
        if (run.quick()) run_moves(3, tr3, {0, 127, -1}, {0}, false, "F_tree_change_3groups");
        else {
            std::vector<int> all64; for (int e = 0; e < 64; ++e) all64.push_back(e);
            run_moves(3, tr3, all64, {0}, true, "F_tree_change_3groups");
            run_moves(3, tr3, {127, -1}, {1}, false, "F_tree_change_3groups_efac_change");
            run_moves(4, tr4, {127}, {0}, false, "F_tree_change_4groups");
        }
    }

    // ---- regime E: wells whose computed rates are all exactly zero while OPEN (3) or STOP (4): observed rates must still be echoed
    {
        use_summary_for(3);
        static const int KK[3][3] = {{0, 0, 0}, {0, 1, 2}, {1, 0, 0}};
        static const int SS[9][3] = {{3, 0, 0}, {0, 3, 0}, {0, 0, 3}, {4, 0, 0}, {0, 4, 0}, {0, 0, 4}, {3, 3, 3}, {3, 4, 1}, {2, 3, 4}};
        for (auto& t : tr3) {
            Case c; c.ng = 3; set_tree(c, t);
            for (auto& pl : placements(c)) for (int kk = 0; kk < 3; ++kk) for (int ss = 0; ss < 9 && !stop(); ++ss) {
                for (int w = 0; w < 3; ++w) { c.wg[w] = pl[w]; c.we[w] = 1; c.ge[w] = 2; c.kind[w] = KK[kk][w]; c.status[w] = SS[ss][w]; }
                c.seq = {{0, 0}, {2, 0}};
                exec("E_zero_rate_wells", c);
            }
        }
    }

    // ---- regime D: well declaration order vs name order (all 6 non-default namings) x forest x placement x efficiency factors
    //      quick: one pattern with every factor non-unit; thorough: complete 2-valued product (2^6)
    {
        use_summary_for(3);
        for (auto& t : tr3) {
            Case c; c.ng = 3; set_tree(c, t);
            for (auto& pl : placements(c)) for (int nm = 1; nm <= 6; ++nm) for (int e = (run.thorough() ? 0 : 63); e < 64 && !stop(); ++e) {
                for (int w = 0; w < 3; ++w) { c.wg[w] = pl[w]; c.we[w] = (e >> w) & 1; c.ge[w] = (e >> (3 + w)) & 1; }
                c.naming = nm; c.kind[0] = 0; c.kind[1] = 0; c.kind[2] = 1;
                c.seq = {{0, 0}, {2, 0}};
                exec("D_declaration_order", c);
            }
        }
    }

    if (run.thorough()) {
        // ---- C1: 3 groups, forest x placement x complete 3-valued efficiency product (3^6) x two kind assignments
        use_summary_for(3);
        for (auto& t : tr3) {
            Case c; c.ng = 3; set_tree(c, t);
            for (auto& pl : placements(c)) for (int e = 0; e < 729 && !stop(); ++e) for (int kk = 0; kk < 2; ++kk) {
                for (int w = 0; w < 3; ++w) c.wg[w] = pl[w];
                int x = e; for (int w = 0; w < 3; ++w) { c.we[w] = x % 3; x /= 3; } for (int g = 0; g < 3; ++g) { c.ge[g] = x % 3; x /= 3; }
                c.kind[0] = 0; c.kind[1] = kk ? 1 : 0; c.kind[2] = kk ? 2 : 0;
                c.seq = {{1, 1}, {2, 0}};
                exec("C1_efac_product_3groups", c);
            }
        }
        // ---- C2: 3 groups, forest x placement x all 27 kind assignments x all 64 status assignments over {OPEN, SHUT, STOP, OPEN-zero} (efficiency factors all non-unit)
        for (auto& t : tr3) {
            Case c; c.ng = 3; set_tree(c, t);
            for (auto& pl : placements(c)) for (int k = 0; k < 27 && !stop(); ++k) for (int sidx = 0; sidx < 64; ++sidx) {
                for (int w = 0; w < 3; ++w) { c.wg[w] = pl[w]; c.we[w] = 1; c.ge[w] = 1; }
                int x = k; for (int w = 0; w < 3; ++w) { c.kind[w] = x % 3; x /= 3; }
                x = sidx; for (int w = 0; w < 3; ++w) { c.status[w] = x % 4; x /= 4; }
                c.seq = {{0, 0}, {2, 0}};
                exec("C2_kind_x_status_product", c);
            }
        }
        // ---- C3: 4 groups (depth <= 4), every labelled forest x leaf placement x complete 2-valued efficiency product (2^7)
        use_summary_for(4);
        for (auto& t : tr4) {
            Case c; c.ng = 4; set_tree(c, t);
            for (auto& pl : placements(c)) for (int e = 0; e < 128 && !stop(); ++e) {
                for (int w = 0; w < 3; ++w) c.wg[w] = pl[w];
                for (int w = 0; w < 3; ++w) c.we[w] = (e >> w) & 1;
                for (int g = 0; g < 4; ++g) c.ge[g] = (e >> (3 + g)) & 1;
                c.kind[0] = 0; c.kind[1] = 0; c.kind[2] = 1;
                c.seq = {{1, 1}, {2, 0}};
                exec("C3_efac_product_4groups", c);
            }
        }
        // ---- C4: 4 groups, increasing forests x leaf placement x 3-valued efficiency factors with <= 2 non-unit entities
        {
            std::vector<std::array<int, 4>> tr; for (auto& t : tr4) if (increasing(t, 4)) tr.push_back(t);
            vf::explore([&](vf::Chooser& ch) {
                Case c; c.ng = 4;
                set_tree(c, tr[ch.pick((int)tr.size())]);
                auto pl = placements(c);
                int p = ch.pick((int)pl.size()); for (int w = 0; w < 3; ++w) c.wg[w] = pl[p][w];
                for (int w = 0; w < 3; ++w) c.we[w] = ch.dev(3);
                for (int g = 0; g < 4; ++g) c.ge[g] = ch.dev(3);
                c.kind[0] = 0; c.kind[1] = 0; c.kind[2] = 2;
                c.seq = {{0, 0}, {1, 0}};
                exec("C4_efac_dev2_4groups", c);
            }, 2, stop);
        }
    }
    if (run.counters["violations_total"] > 300) { run.exhaustive = false; run.cap_note += "stopped after >300 mismatching vectors; "; }
    run.count("model_builds", (long long)g_builds);
    run.rule = std::string("models: 3 wells (fingerprint rates per well x phase x evaluation, sign by kind) in leaf groups of a group forest under FIELD; dimensions: forest (all 16 labelled forests of 3 groups") +
        (run.thorough() ? "; all 125 of 4 groups, depth <= 4" : "") + ") x leaf placement of the wells x WEFAC/GEFAC in {1, ~0.5, ~0.25} distinct per entity x kind {producer WCONHIST, water injector, gas injector WCONINJH} x dynamic status {OPEN, SHUT, STOP with cross-flow, OPEN with all six computed rates exactly 0, STOP with all rates 0} x {METRIC, FIELD, LAB, PVT-M} x 3 start dates x evaluation sequences over {1 d, 10 d, 0.5 d} with ministep flags x {with, without} step-0 evaluation x {constant, changed at report step 2} efficiency factors x well naming {declared in name order W1 W2 W3; the 5 other permutations of OP_A OP_B OP_C; W_2 W_9 W_10 (numeric, not lexicographic)} x group tree {constant; one group re-parented by a later GRUPTREE} x origin of the vectors in the configuration {listed in SUMMARY; not listed (mandatory restart vectors); merged from a second SummaryConfig; listed and merged; required by an ACTIONX condition}. " +
        "A: every combination with <= 2 deviations from the default (open producers, constant efficiency 1, METRIC, one 1 d step, no step-0 evaluation) over all 105 forest x placement pairs, all 21 sequences of <= 2 evaluations" +
        (run.thorough() ? ", and every combination with exactly 3 deviations where the sequence is one of {1d; 10d,0.5d; 1d(ministep),10d; 0.5d,1d}; " : "; ") +
        "(naming alphabet in A: name order, reverse, B A C, W_2 W_9 W_10; status alphabet in A: " + (run.thorough() ? "all five for <= 2 deviations, OPEN/SHUT/STOP for the third" : "OPEN, SHUT, STOP, OPEN-zero") + "; a re-parenting at schedule step 1 is one more deviation in A, executed where the sequence has >= 2 report steps)" + (run.thorough() ? "; the five configuration origins are one more deviation point for <= 2 deviations" : "") + "; H: one group's GEFAC history: every sequence of <= " + (run.thorough() ? "2 records on all 105 pairs and <= 3 records on the first and last placement of every forest" : "2 records on the first and last placement of every forest") + ", record = (factor in the group's 3 values) x (item 3 defaulted, YES, NO) at successive report steps, every group; G: 4 non-listed configuration origins x 105 pairs x 3 kind assignments x " + (run.thorough() ? "4" : "2") + " efficiency patterns (status, step-0 evaluation and sequence rotated), every value present in SummaryState judged by the same reference; F: every admissible (group, new parent) re-parenting of every forest x placement pair" + (run.thorough() ? " at schedule step 1 or 2 (3 report steps) or 1 (2 report steps, ministep) x complete 2^6 efficiency product, plus efficiency change at step 1, plus all 4-group forests x placements x moves at step 1 or 2" : " at schedule step 1 or 2 (3 report steps, evaluated before and after) x 3 efficiency patterns") + "; E: 105 pairs x 3 kind assignments x 9 status patterns with zero-rate OPEN/STOP wells (one well at a time, all, mixed with SHUT/STOP), all factors non-unit; B: all 129 sequences of <= 3 evaluations x 4 unit systems x step-0 evaluation on 3 fixed rich models" +
        (run.thorough() ? "; D: 6 non-default namings x 105 pairs x complete 2^6 efficiency product" : "; D: 6 non-default namings x 105 pairs x all factors non-unit") +
        (run.thorough() ? "; C1: 105 pairs x complete 3^6 efficiency product x 2 kind assignments; C2: 105 pairs x 27 kind x 64 status assignments over {OPEN, SHUT, STOP, OPEN-zero}; C3: 1420 pairs (4 groups) x complete 2^7 efficiency product; C4: 450 pairs (4 groups, increasing forests) x 3-valued efficiency factors on <= 2 entities" : "") +
        ". Oracle: after every Summary::eval each of the checked vectors (see notes.vectors_checked) at every well/group/FIELD node equals the harness reference (rel 1e-10). distinct = distinct vectors of all observed values";
    return run.finish();
}
