// C16 variant TU: unrolled specialisation Evaluation<double,10> (opm/material/densead/Evaluation10.hpp)
#include "C16_impl.hpp"
C16_STATIC_TU(10, "static")
