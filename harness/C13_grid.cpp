// C13 — grid indexing/geometry coherence, input-form equivalence, corner-point
// volumes (exact, positive, additive), thread independence, EGRID round trip.
//
// Bounded-exhaustive: every element of the stated finite products is executed
// on the real EclipseGrid/EGrid/NNC/MapAxes code and judged against closed
// forms and a boring index model written here.  No sampling, no solver.
#include "vf.hpp"
#include <opm/common/utility/ActiveGridCells.hpp>
#include <opm/input/eclipse/Deck/Deck.hpp>
#include <opm/input/eclipse/EclipseState/EclipseState.hpp>
#include <opm/input/eclipse/EclipseState/Grid/EclipseGrid.hpp>
#include <opm/input/eclipse/EclipseState/Grid/MapAxes.hpp>
#include <opm/input/eclipse/EclipseState/Grid/NNC.hpp>
#include <opm/input/eclipse/Parser/Parser.hpp>
#include <opm/input/eclipse/Units/UnitSystem.hpp>
#include <opm/io/eclipse/EGrid.hpp>
#include <array>
#include <cmath>
#include <numeric>
#include <omp.h>
#include <tuple>

using Opm::EclipseGrid;

static vf::Run* R = nullptr;
static std::string g_dir;
static Opm::Parser* g_parser = nullptr;

// ------------------------------------------------------------- units ------
struct UnitInfo { const char* kw; double f; Opm::UnitSystem::UnitType ty; const char* gridunit; };
static const UnitInfo UNITS[4] = {
    {"METRIC", 1.0, Opm::UnitSystem::UnitType::UNIT_TYPE_METRIC, "METRES"},
    {"FIELD", 0.3048, Opm::UnitSystem::UnitType::UNIT_TYPE_FIELD, "FEET"},
    {"LAB", 0.01, Opm::UnitSystem::UnitType::UNIT_TYPE_LAB, "CM"},
    {"PVT-M", 1.0, Opm::UnitSystem::UnitType::UNIT_TYPE_PVT_M, nullptr}};

// ------------------------------------------------------------- utils ------
static std::string num(double v) { char b[40]; std::snprintf(b, sizeof b, "%.17g", v); return b; }
static std::string S(long long v) { return std::to_string(v); }
static std::string arrkw(const std::string& name, const std::vector<double>& v) {
    std::string s = name + "\n";
    for (size_t i = 0; i < v.size(); ++i) { s += " " + num(v[i]); if (i % 4 == 3) s += "\n"; }
    return s + " /\n";
}
static std::string intkw(const std::string& name, const std::vector<int>& v) {
    std::string s = name + "\n";
    for (size_t i = 0; i < v.size(); ++i) { s += " " + S(v[i]); if (i % 16 == 15) s += "\n"; }
    return s + " /\n";
}
static std::string deck_head(int nx, int ny, int nz, int u) {
    return "RUNSPEC\nDIMENS\n " + S(nx) + " " + S(ny) + " " + S(nz) + " /\n" + UNITS[u].kw + "\nGRID\n";
}
static bool close(double a, double b, double rel, double scale = 0) {
    if (!std::isfinite(a) || !std::isfinite(b)) return false;
    return std::fabs(a - b) <= rel * std::max({std::fabs(a), std::fabs(b), scale});
}
static std::string rpj(const std::string& c) { return "{\"case\": " + vf::jstr(c) + "}"; }
static std::string ijks(int i, int j, int k) { return "(" + S(i) + "," + S(j) + "," + S(k) + ")"; }

// ---------------------------------------------- corner-point container -----
// ZCORN/COORD layout as published in the ECLIPSE manual (x fastest, two values
// per cell and direction, top plane of a layer before its bottom plane).
struct Cpg {
    int nx = 0, ny = 0, nz = 0;
    std::vector<double> coord, zcorn;      // deck units
    void alloc(int x, int y, int z) { nx = x; ny = y; nz = z; coord.assign(6 * size_t(nx + 1) * (ny + 1), 0); zcorn.assign(8 * size_t(nx) * ny * nz, 0); }
    size_t zi(int i, int j, int k, int c) const { return size_t(2 * i + (c & 1)) + size_t(2 * nx) * (2 * j + ((c >> 1) & 1)) + size_t(4 * nx) * ny * (2 * k + ((c >> 2) & 1)); }
    double* pil(int I, int J) { return &coord[6 * size_t(I + J * (nx + 1))]; }
    const double* pil(int I, int J) const { return &coord[6 * size_t(I + J * (nx + 1))]; }
    std::array<double, 3> corner(int i, int j, int k, int c) const {
        const double* p = pil(i + (c & 1), j + ((c >> 1) & 1));
        const double z = zcorn[zi(i, j, k, c)];
        const double t = (p[5] == p[2]) ? 0.0 : (z - p[2]) / (p[5] - p[2]);
        return {p[0] + t * (p[3] - p[0]), p[1] + t * (p[4] - p[1]), z};
    }
    double maxabs() const { double m = 0; for (double v : coord) m = std::max(m, std::fabs(v)); for (double v : zcorn) m = std::max(m, std::fabs(v)); return m; }
    std::string keywords() const { return arrkw("COORD", coord) + arrkw("ZCORN", zcorn); }
};

// HANDEDNESS: hand bit0 mirrors the pillars in x (x -> xmax - x), bit1 in y.  ZCORN and all cell indices stay, so cell
// (i,j,k) of the mirrored grid is the mirror image of cell (i,j,k) of the original (x then DEcreases with I): a legal
// COORD/ZCORN grid, left-handed for exactly one mirrored axis.  A mirror is an isometry: volumes are those of the
// original cells, centres/corners are mirrored, depths and cell sizes unchanged.
static const char* hand_name[4] = {"right-handed", "mirrored in x (left-handed)", "mirrored in y (left-handed)", "mirrored in x and y"};
static const char* hand_tag[4] = {"", "-mirrorX", "-mirrorY", "-mirrorXY"};
struct Mirror { int hand = 0; double xm = 0, ym = 0; };
static Mirror mirror_of(const Cpg& g, int hand) {
    Mirror m; m.hand = hand;
    for (size_t p = 0; p < g.coord.size(); p += 3) { m.xm = std::max(m.xm, g.coord[p]); m.ym = std::max(m.ym, g.coord[p + 1]); }
    return m;
}
static Cpg mirrored(const Cpg& g, const Mirror& m) {
    Cpg r = g;
    for (size_t p = 0; p < r.coord.size(); p += 3) { if (m.hand & 1) r.coord[p] = m.xm - r.coord[p]; if (m.hand & 2) r.coord[p + 1] = m.ym - r.coord[p + 1]; }
    return r;
}

// per-cell observation vector layout
static const int NQ = 35;
static const char* qname(int o) { if (o == 0) return "volume"; if (o <= 3) return "centre"; if (o == 4) return "depth"; if (o <= 7) return "dims"; if (o == 8) return "thickness"; if (o == 9) return "volume-ijk"; if (o == 10) return "activeVolume"; return "corner"; }
static bool qcoord(int o) { return (o >= 1 && o <= 4) || o >= 11; }

static std::vector<double> observe_geom(const EclipseGrid& g) {
    const int nx = g.getNX(), ny = g.getNY(), nz = g.getNZ();
    const size_t n = size_t(nx) * ny * nz;
    std::vector<double> o(n * NQ);
    for (size_t c = 0; c < n; ++c) o[c * NQ] = g.getCellVolume(c);             // before the cache exists
    const std::vector<double>& av = g.activeVolume();
    for (int k = 0; k < nz; ++k) for (int j = 0; j < ny; ++j) for (int i = 0; i < nx; ++i) {
        const size_t c = i + size_t(nx) * (j + size_t(ny) * k);
        double* q = &o[c * NQ];
        auto ce = g.getCellCenter(c); q[1] = ce[0]; q[2] = ce[1]; q[3] = ce[2];
        q[4] = g.getCellDepth(c);
        auto d = g.getCellDims(c); q[5] = d[0]; q[6] = d[1]; q[7] = d[2];
        q[8] = g.getCellThickness(c);
        q[9] = g.getCellVolume(i, j, k);                                       // cached path for active cells
        q[10] = g.cellActive(c) ? av.at(g.activeIndex(c)) : q[0];
        for (int cc = 0; cc < 8; ++cc) { auto p = g.getCornerPos(i, j, k, cc); q[11 + 3 * cc] = p[0]; q[12 + 3 * cc] = p[1]; q[13 + 3 * cc] = p[2]; }
    }
    return o;
}

// expected observation vector from a Cpg with the harness' own corner formula
// (centre = mean of the 8 corners, depth/thickness/dims = face-centre
// differences) and externally supplied exact volumes; everything in deck units.
static std::vector<double> expect_from_cpg(const Cpg& g, const std::vector<double>& vol) {
    const size_t n = size_t(g.nx) * g.ny * g.nz;
    std::vector<double> o(n * NQ);
    for (int k = 0; k < g.nz; ++k) for (int j = 0; j < g.ny; ++j) for (int i = 0; i < g.nx; ++i) {
        const size_t c = i + size_t(g.nx) * (j + size_t(g.ny) * k);
        double* q = &o[c * NQ];
        std::array<std::array<double, 3>, 8> P;
        for (int cc = 0; cc < 8; ++cc) { P[cc] = g.corner(i, j, k, cc); q[11 + 3 * cc] = P[cc][0]; q[12 + 3 * cc] = P[cc][1]; q[13 + 3 * cc] = P[cc][2]; }
        for (int d = 0; d < 3; ++d) { double s = 0; for (int cc = 0; cc < 8; ++cc) s += P[cc][d]; q[1 + d] = s / 8; }
        q[4] = q[3];
        auto fc = [&](int bit, int val, int d) { double s = 0; for (int cc = 0; cc < 8; ++cc) if (((cc >> bit) & 1) == val) s += P[cc][d]; return s / 4; };
        q[5] = std::hypot(fc(0, 1, 0) - fc(0, 0, 0), fc(0, 1, 1) - fc(0, 0, 1));
        q[6] = std::hypot(fc(1, 1, 0) - fc(1, 0, 0), fc(1, 1, 1) - fc(1, 0, 1));
        q[7] = fc(2, 1, 2) - fc(2, 0, 2);
        q[8] = q[7];
        q[0] = q[9] = q[10] = vol[c];
    }
    return o;
}

static void mirror_expect(std::vector<double>& o, const Mirror& m) {
    for (size_t p = 0; p < o.size(); ++p) {
        const int q = p % NQ;
        const bool isx = q == 1 || (q >= 11 && (q - 11) % 3 == 0), isy = q == 2 || (q >= 11 && (q - 11) % 3 == 1);
        if (isx && (m.hand & 1)) o[p] = m.xm - o[p];
        if (isy && (m.hand & 2)) o[p] = m.ym - o[p];
    }
}

// compare obs (SI) with exp (deck units, scaled by f); returns "" or the first
// failing quantity name and fills msg.
static std::string cmp_geom(const std::vector<double>& obs, const std::vector<double>& exp, double f, double rel, double cscale, int nx, int ny, std::string& msg, bool exp_is_si = false) {
    if (obs.size() != exp.size()) { msg = "size " + S(obs.size()) + " vs " + S(exp.size()); return "shape"; }
    for (size_t p = 0; p < obs.size(); ++p) {
        const int o = p % NQ; const size_t c = p / NQ;
        const bool isvol = (o == 0 || o == 9 || o == 10);
        const double e = exp_is_si ? exp[p] : exp[p] * (isvol ? f * f * f : f);
        if (!close(obs[p], e, rel, qcoord(o) ? cscale : 0.0)) {
            msg = std::string(qname(o)) + " of cell " + ijks(c % nx, (c / nx) % ny, c / (size_t(nx) * ny)) + " item " + S(o) + ": library " + vf::fmt17(obs[p]) + " expected " + vf::fmt17(e);
            return qname(o);
        }
    }
    return "";
}

// ====================================================== part D: threads ====
// Grids are queued (exact SI COORD/ZCORN/ACTNUM of the library object) and
// evaluated in re-exec'ed copies of this binary with OMP_NUM_THREADS=T.
struct TRec { std::string cas; int nx, ny, nz; std::vector<double> coord, zcorn; std::vector<int> act; };
static std::vector<TRec> g_batch;
static const int TCOUNTS[4] = {1, 2, 4, 16};

static void child_eval(const TRec& r, std::vector<double>& out, uint32_t& n, uint32_t& na) {
    EclipseGrid g(std::array<int, 3>{r.nx, r.ny, r.nz}, r.coord, r.zcorn, r.act.data());
    n = g.getCartesianSize();
    for (size_t c = 0; c < n; ++c) out.push_back(g.getCellVolume(c));
    const auto& av = g.activeVolume();                     // the OpenMP loop
    na = av.size();
    out.insert(out.end(), av.begin(), av.end());
    for (size_t c = 0; c < n; ++c) out.push_back(g.getCellVolume(c));
}

template <class T> static void wr(std::ofstream& f, const T& v) { f.write(reinterpret_cast<const char*>(&v), sizeof v); }
template <class T> static bool rd(std::ifstream& f, T& v) { f.read(reinterpret_cast<char*>(&v), sizeof v); return bool(f); }

static int child_main(const char* in, const char* out) {
    int team = 0;
    #pragma omp parallel
    {
        #pragma omp single
        team = omp_get_num_threads();
    }
    std::ifstream f(in, std::ios::binary); std::ofstream o(out, std::ios::binary);
    if (!f || !o) return 3;
    wr(o, int32_t(team));
    uint32_t cnt = 0; if (!rd(f, cnt)) return 3;
    for (uint32_t r = 0; r < cnt; ++r) {
        TRec t; int32_t d[3]; uint32_t nc, nzc, na_;
        if (!rd(f, d) || !rd(f, nc) || !rd(f, nzc) || !rd(f, na_)) return 3;
        t.nx = d[0]; t.ny = d[1]; t.nz = d[2]; t.coord.resize(nc); t.zcorn.resize(nzc); t.act.resize(na_);
        f.read(reinterpret_cast<char*>(t.coord.data()), 8 * size_t(nc)); f.read(reinterpret_cast<char*>(t.zcorn.data()), 8 * size_t(nzc)); f.read(reinterpret_cast<char*>(t.act.data()), 4 * size_t(na_));
        if (!f) return 3;
        std::vector<double> v; uint32_t n = 0, na = 0;
        child_eval(t, v, n, na);
        wr(o, n); wr(o, na); o.write(reinterpret_cast<const char*>(v.data()), 8 * v.size());
    }
    o.flush();
    return o ? 0 : 3;
}

[[noreturn]] static void harness_error(const std::string& m) { std::fprintf(stderr, "C13 harness error: %s\n", m.c_str()); std::exit(2); }

static void queue_threads(const std::string& cas, const EclipseGrid& g) {
    TRec r; r.cas = cas; r.nx = g.getNX(); r.ny = g.getNY(); r.nz = g.getNZ();
    r.coord = g.getCOORD(); r.zcorn = g.getZCORN(); r.act = g.getACTNUM();
    g_batch.push_back(std::move(r));
}

static void flush_threads() {
    if (g_batch.empty()) return;
    const std::string in = g_dir + "/tb.in";
    {
        std::ofstream f(in, std::ios::binary);
        wr(f, uint32_t(g_batch.size()));
        for (auto& r : g_batch) {
            int32_t d[3] = {r.nx, r.ny, r.nz}; wr(f, d); wr(f, uint32_t(r.coord.size())); wr(f, uint32_t(r.zcorn.size())); wr(f, uint32_t(r.act.size()));
            f.write(reinterpret_cast<const char*>(r.coord.data()), 8 * r.coord.size()); f.write(reinterpret_cast<const char*>(r.zcorn.data()), 8 * r.zcorn.size()); f.write(reinterpret_cast<const char*>(r.act.data()), 4 * r.act.size());
        }
        if (!f) harness_error("cannot write " + in);
    }
    // in-process reference (this process: OMP_NUM_THREADS as given by vcheck = 1)
    std::vector<std::vector<double>> ref(g_batch.size());
    for (size_t i = 0; i < g_batch.size(); ++i) { uint32_t n, na; child_eval(g_batch[i], ref[i], n, na); }
    for (int T : TCOUNTS) {
        const std::string out = g_dir + "/tb.out" + S(T);
        ::unlink(out.c_str());
        pid_t pid = fork();
        if (pid == 0) {
            setenv("OMP_NUM_THREADS", S(T).c_str(), 1); setenv("OMP_DYNAMIC", "FALSE", 1); setenv("OMP_WAIT_POLICY", "PASSIVE", 1); unsetenv("OMP_THREAD_LIMIT");
            execl("/proc/self/exe", "C13_grid", "--child", in.c_str(), out.c_str(), (char*)nullptr);
            _exit(127);
        }
        int st = 0; waitpid(pid, &st, 0);
        if (WIFSIGNALED(st)) { R->violation("C13:threads:child-crash:signal" + S(WTERMSIG(st)), "volume evaluation with OMP_NUM_THREADS=" + S(T) + " died with signal " + S(WTERMSIG(st)) + " in a batch starting at case " + g_batch[0].cas, rpj(g_batch[0].cas)); continue; }
        if (WEXITSTATUS(st) != 0) harness_error("thread child exit status " + S(WEXITSTATUS(st)));
        std::ifstream f(out, std::ios::binary);
        int32_t team = 0; if (!rd(f, team)) harness_error("short child output");
        if (team != T) harness_error("child ran with a team of " + S(team) + " threads, wanted " + S(T));
        for (size_t i = 0; i < g_batch.size(); ++i) {
            uint32_t n, na; if (!rd(f, n) || !rd(f, na)) harness_error("short child output (record)");
            std::vector<double> v(2 * size_t(n) + na);
            f.read(reinterpret_cast<char*>(v.data()), 8 * v.size()); if (!f) harness_error("short child output (data)");
            R->count("thread_evaluations");
            if (v.size() != ref[i].size() || std::memcmp(v.data(), ref[i].data(), 8 * v.size()) != 0) {
                size_t p = 0; while (p < v.size() && p < ref[i].size() && vf::dbits(v[p]) == vf::dbits(ref[i][p])) ++p;
                const TRec& r = g_batch[i];
                std::string which = p < n ? "getCellVolume(uncached)" : p < n + na ? "activeVolume()" : "getCellVolume(cached)";
                R->violation("C13:threads", which + " differs bitwise between 1 thread (in-process) and OMP_NUM_THREADS=" + S(T) + " on the " + S(r.nx) + "x" + S(r.ny) + "x" + S(r.nz) + " grid of case [" + r.cas + "], element " + S(p) + ": " + (p < ref[i].size() ? vf::fmt17(ref[i][p]) : "-") + " vs " + (p < v.size() ? vf::fmt17(v[p]) : "-"), rpj(r.cas));
            }
        }
        ::unlink(out.c_str());
    }
    for (auto& v : ref) R->observe(vf::fnv(v.data(), 8 * v.size()));
    R->count("thread_grids", g_batch.size());
    g_batch.clear();
    ::unlink(in.c_str());
}

// ======================================================== part A: index ====
static const double A_DX[3] = {20, 30, 50}, A_DY[3] = {70, 110, 130}, A_DZ[3] = {1.7, 1.9, 2.3};   // all products distinct

static std::vector<std::vector<int>> structured(int nx, int ny, int nz) {
    const int n = nx * ny * nz; auto G = [&](int i, int j, int k) { return i + nx * (j + ny * k); };
    std::vector<std::vector<int>> P;
    P.push_back(std::vector<int>(n, 1));
    P.push_back(std::vector<int>(n, 0));
    for (int c = 0; c < 8; ++c) { std::vector<int> v(n, 1); v[G((c & 1) ? nx - 1 : 0, (c & 2) ? ny - 1 : 0, (c & 4) ? nz - 1 : 0)] = 0; P.push_back(v); }
    { std::vector<int> v(n, 1); v[G(nx / 2, ny / 2, nz / 2)] = 0; P.push_back(v); }
    { std::vector<int> v(n), w(n); for (int k = 0; k < nz; ++k) for (int j = 0; j < ny; ++j) for (int i = 0; i < nx; ++i) { v[G(i, j, k)] = (i + j + k) % 2 == 0; w[G(i, j, k)] = (i + j + k) % 2 != 0; } P.push_back(v); P.push_back(w); }
    { std::vector<int> v(n, 1); for (int j = 0; j < ny; ++j) for (int i = 0; i < nx; ++i) v[G(i, j, 0)] = 0; P.push_back(v); }
    { std::vector<int> v(n, 1); for (int k = 0; k < nz; ++k) for (int j = 0; j < ny; ++j) v[G(nx - 1, j, k)] = 0; P.push_back(v); }
    { std::vector<int> v(n, 0); v[G(nx / 2, ny / 2, nz / 2)] = 1; P.push_back(v); }
    return P;     // 16
}
static std::vector<std::vector<int>> patterns(int nx, int ny, int nz) {
    const int n = nx * ny * nz;
    if (n > 8) return structured(nx, ny, nz);
    std::vector<std::vector<int>> P;
    for (int m = 0; m < (1 << n); ++m) { std::vector<int> v(n); for (int g = 0; g < n; ++g) v[g] = (m >> g) & 1; P.push_back(v); }
    return P;
}
static std::string pats(const std::vector<int>& a) { std::string s; for (int v : a) s += char('0' + v); return s; }

// index model + judgement.  expvol: SI volume of every cell (closed form).
static void check_index(const EclipseGrid& g, int nx, int ny, int nz, const std::vector<int>& act, const std::vector<double>& expvol,
                        const std::string& stage, const std::string& ctx, const std::string& cas) {
    auto V = [&](const std::string& what, const std::string& msg) { R->violation("C13:index:" + what + ":" + stage, msg + " [" + ctx + ", ACTNUM " + pats(act) + "]", rpj(cas)); };
    const size_t n = size_t(nx) * ny * nz;
    R->count("index_checks");
    if ((int)g.getNX() != nx || (int)g.getNY() != ny || (int)g.getNZ() != nz || g.getCartesianSize() != n || g.getNXYZ() != std::array<int, 3>{nx, ny, nz}) { V("dims", "grid dimensions are not those given"); return; }
    std::vector<int> rank(n, -1), glob;
    for (size_t c = 0; c < n; ++c) if (act[c] > 0) { rank[c] = glob.size(); glob.push_back(c); }
    const size_t na = glob.size();
    if (g.getNumActive() != na) V("numActive", "getNumActive " + S(g.getNumActive()) + " != " + S(na));
    if (g.allActive() != (na == n)) V("allActive", "allActive() wrong");
    for (int k = 0; k < nz; ++k) for (int j = 0; j < ny; ++j) for (int i = 0; i < nx; ++i) {
        const size_t c = i + size_t(nx) * (j + size_t(ny) * k);
        if (g.getGlobalIndex(i, j, k) != c) V("global-of-ijk", "getGlobalIndex" + ijks(i, j, k) + " = " + S(g.getGlobalIndex(i, j, k)) + " != " + S(c));
        if (g.getIJK(c) != std::array<int, 3>{i, j, k}) V("ijk-of-global", "getIJK(" + S(c) + ") != " + ijks(i, j, k));
        const bool a = act[c] > 0;
        if (g.cellActive(c) != a || g.cellActive(i, j, k) != a || g.isCellActive(i, j, k) != a) V("cellActive", "cellActive of cell " + S(c) + " disagrees with ACTNUM");
        if (a) {
            try {
                const size_t r = rank[c];
                if (g.activeIndex(c) != r || g.activeIndex(i, j, k) != r || g.getActiveIndex(c) != r || g.getActiveIndex(i, j, k) != r)
                    V("active-of-global", "activeIndex of active cell " + S(c) + " = " + S(g.activeIndex(c)) + ", expected rank " + S(r) + " among the active cells in natural order");
                else if (g.getGlobalIndex(g.activeIndex(c)) != c) V("inverse", "getGlobalIndex(activeIndex(" + S(c) + ")) != " + S(c));
            } catch (const std::exception& e) { V("active-of-global", std::string("activeIndex of an active cell throws: ") + e.what()); }
        } else {
            try { const size_t r = g.activeIndex(c); if (r < na) V("inactive-has-active-index", "activeIndex(" + S(c) + ") of an INACTIVE cell returns the valid active index " + S(r)); }
            catch (const std::exception&) { /* declared refusal */ }
        }
    }
    for (size_t a = 0; a < na; ++a) {
        try {
            const size_t c = g.getGlobalIndex(a);
            if (c != (size_t)glob[a]) V("global-of-active", "getGlobalIndex(active " + S(a) + ") = " + S(c) + " != " + S(glob[a]));
            else if (g.activeIndex(c) != a) V("inverse", "activeIndex(getGlobalIndex(" + S(a) + ")) != " + S(a));
        } catch (const std::exception& e) { V("global-of-active", std::string("getGlobalIndex(active) throws: ") + e.what()); }
    }
    if (g.getActiveMap() != glob) V("activeMap", "getActiveMap() is not the ascending list of active global indices");
    {
        const auto& an = g.getACTNUM(); bool ok = an.size() == n;
        for (size_t c = 0; ok && c < n; ++c) ok = (an[c] > 0) == (act[c] > 0);
        if (!ok) V("actnum", "getACTNUM() disagrees with the pattern given");
    }
    try {
        std::vector<int> io(n); std::iota(io.begin(), io.end(), 0);
        if (g.compressedVector(io) != glob) V("compressedVector", "compressedVector(iota) != active global indices");
    } catch (const std::exception& e) { V("compressedVector", std::string("throws: ") + e.what()); }
    {
        Opm::ActiveGridCells agc(nx, ny, nz, g.getActiveMap().data(), g.getActiveMap().size());
        bool ok = true;
        for (int k = 0; k < nz && ok; ++k) for (int j = 0; j < ny && ok; ++j) for (int i = 0; i < nx && ok; ++i) {
            const size_t c = i + size_t(nx) * (j + size_t(ny) * k);
            ok = agc.localCell(c) == rank[c] && agc.localCell(i, j, k) == rank[c] && agc.cellActive(c) == (rank[c] >= 0) && agc.cellActive(i, j, k) == (rank[c] >= 0);
        }
        auto an = agc.actNum(); ok = ok && an.size() == n; for (size_t c = 0; ok && c < n; ++c) ok = (an[c] > 0) == (act[c] > 0);
        if (!ok) V("ActiveGridCells", "ActiveGridCells built from getActiveMap() disagrees with ACTNUM");
    }
    // index maps carry the volumes: activeVolume()[a] belongs to cell getGlobalIndex(a)
    if (!expvol.empty()) {
        try {
            const auto& av = g.activeVolume();
            if (av.size() != na) V("activeVolume", "activeVolume().size() " + S(av.size()) + " != " + S(na));
            else for (size_t a = 0; a < na; ++a) if (!close(av[a], expvol[glob[a]], 1e-12)) { V("activeVolume", "activeVolume()[" + S(a) + "] = " + vf::fmt17(av[a]) + " is not the volume " + vf::fmt17(expvol[glob[a]]) + " of global cell " + S(glob[a])); break; }
            for (size_t c = 0; c < n; ++c) if (!close(g.getCellVolume(c), expvol[c], 1e-12)) { V("cellVolume", "getCellVolume(" + S(c) + ") = " + vf::fmt17(g.getCellVolume(c)) + " != " + vf::fmt17(expvol[c]) + " (after activeVolume())"); break; }
        } catch (const std::exception& e) { V("activeVolume", std::string("throws: ") + e.what()); }
    }
}

// case "A nx ny nz ctor p"
static void case_A(int nx, int ny, int nz, int ctor, int p, const std::string& cas) {
    const size_t n = size_t(nx) * ny * nz;
    auto P = patterns(nx, ny, nz);
    if (p < 0 || p >= (int)P.size()) throw std::runtime_error("bad pattern index");
    const std::vector<int>& act = P[p];
    std::vector<double> dx(n), dy(n), dz(n), tops(size_t(nx) * ny, 100.0), vol(n);
    for (int k = 0; k < nz; ++k) for (int j = 0; j < ny; ++j) for (int i = 0; i < nx; ++i) { const size_t c = i + size_t(nx) * (j + size_t(ny) * k); dx[c] = A_DX[i]; dy[c] = A_DY[j]; dz[c] = A_DZ[k]; vol[c] = A_DX[i] * A_DY[j] * A_DZ[k]; }
    std::vector<int> compl_(n); for (size_t c = 0; c < n; ++c) compl_[c] = 1 - act[c];
    const std::string geo = arrkw("DX", dx) + arrkw("DY", dy) + arrkw("DZ", dz) + arrkw("TOPS", tops);
    static const char* cn[] = {"deck ACTNUM", "deck + actnum pointer", "array constructor", "copy constructor with actnum", "EclipseState::getInputGrid"};
    const std::string ctx = std::string(cn[ctor]) + " " + S(nx) + "x" + S(ny) + "x" + S(nz);
    std::unique_ptr<EclipseGrid> g;
    try {
        if (ctor == 0) { auto deck = g_parser->parseString(deck_head(nx, ny, nz, 0) + geo + intkw("ACTNUM", act) + "END\n"); g = std::make_unique<EclipseGrid>(deck); }
        else if (ctor == 1) { auto deck = g_parser->parseString(deck_head(nx, ny, nz, 0) + geo + intkw("ACTNUM", compl_) + "END\n"); g = std::make_unique<EclipseGrid>(deck, act.data()); }
        else if (ctor == 2) {
            Cpg c; c.alloc(nx, ny, nz);
            std::vector<double> X(nx + 1, 0), Y(ny + 1, 0), Z(nz + 1, 100.0);
            for (int i = 0; i < nx; ++i) X[i + 1] = X[i] + A_DX[i]; for (int j = 0; j < ny; ++j) Y[j + 1] = Y[j] + A_DY[j]; for (int k = 0; k < nz; ++k) Z[k + 1] = Z[k] + A_DZ[k];
            for (int J = 0; J <= ny; ++J) for (int I = 0; I <= nx; ++I) { double* q = c.pil(I, J); q[0] = q[3] = X[I]; q[1] = q[4] = Y[J]; q[2] = Z[0]; q[5] = Z[nz]; }
            for (int k = 0; k < nz; ++k) for (int j = 0; j < ny; ++j) for (int i = 0; i < nx; ++i) for (int cc = 0; cc < 8; ++cc) c.zcorn[c.zi(i, j, k, cc)] = Z[k + (cc >> 2)];
            g = std::make_unique<EclipseGrid>(std::array<int, 3>{nx, ny, nz}, c.coord, c.zcorn, act.data());
        }
        else if (ctor == 3) { auto deck = g_parser->parseString(deck_head(nx, ny, nz, 0) + geo + "END\n"); EclipseGrid src(deck); (void)src.activeVolume(); g = std::make_unique<EclipseGrid>(src, act); }
        else { auto deck = g_parser->parseString(deck_head(nx, ny, nz, 0) + geo + intkw("ACTNUM", act) + arrkw("PORO", std::vector<double>(n, 0.25)) + arrkw("PERMX", std::vector<double>(n, 100.0)) + "PROPS\nSOLUTION\nSCHEDULE\nEND\n"); Opm::EclipseState es(deck); g = std::make_unique<EclipseGrid>(es.getInputGrid()); }
    } catch (const std::exception& e) {
        if (std::count(act.begin(), act.end(), 1) == 0) { R->count("all_inactive_refused"); return; }      // a declared refusal of an empty grid is not a violation
        R->violation("C13:index:throws:ctor", std::string("constructing a valid grid throws: ") + std::string(e.what()).substr(0, 300) + " [" + ctx + ", ACTNUM " + pats(act) + "]", rpj(cas));
        return;
    }
    check_index(*g, nx, ny, nz, act, vol, "ctor", ctx, cas);
    R->observe(vf::fnv(cas + pats(act)));
    if (ctor == 0) {
        // every transition p -> q of resetACTNUM on a copy that already holds the volume cache of p
        for (size_t q = 0; q < P.size(); ++q) {
            EclipseGrid h(*g);
            try { h.resetACTNUM(P[q]); } catch (const std::exception& e) { R->violation("C13:index:throws:reset", std::string("resetACTNUM throws: ") + e.what() + " [" + ctx + "]", rpj(cas)); continue; }
            check_index(h, nx, ny, nz, P[q], vol, "reset", ctx + " after resetACTNUM from " + pats(act), cas);
        }
        EclipseGrid h(*g); h.resetACTNUM();
        check_index(h, nx, ny, nz, std::vector<int>(n, 1), vol, "reset", ctx + " after resetACTNUM() from " + pats(act), cas);
    }
}

// ======================================================== part B: forms ====
static std::vector<double> sizes(int n, int alpha, double U) {
    static const double mix[4] = {1.7, 0.6, 1.3, 0.9};
    std::vector<double> v(n);
    for (int i = 0; i < n; ++i) v[i] = alpha == 0 ? U : alpha == 1 ? U * (1 + 0.5 * i) : U * mix[i % 4];
    return v;
}

struct BModel {
    int nx, ny, nz, top;                  // top: 0 flat, 1 per-column steps (TOPS), 2 planar tilt (DEPTHZ), 3 saddle (DEPTHZ)
    bool percell;                         // DZ varies with (i,j,k) non-separably
    std::vector<double> dxv, dyv, dzv;    // dzv only if !percell
    std::vector<double> dz;               // per cell
    std::vector<double> tops;             // nx*ny   (top <= 1)
    std::vector<double> depthz;           // (nx+1)*(ny+1)   (top == 0, 2, 3)
    std::vector<double> X, Y;             // pillar positions
    size_t n() const { return size_t(nx) * ny * nz; }
    size_t ci(int i, int j, int k) const { return i + size_t(nx) * (j + size_t(ny) * k); }
    double ztop(int i, int j, int k, int cx, int cy) const {       // top z of corner column (cx,cy) of cell
        double z = top <= 1 ? tops[i + nx * j] : depthz[(i + cx) + (nx + 1) * (j + cy)];
        for (int kk = 0; kk < k; ++kk) z += dz[ci(i, j, kk)];
        return z;
    }
};

static BModel make_b(int nx, int ny, int nz, int ax, int ay, int az, int top) {
    BModel m; m.nx = nx; m.ny = ny; m.nz = nz; m.top = top; m.percell = az == 3;
    m.dxv = sizes(nx, ax, 10.3); m.dyv = sizes(ny, ay, 20.7); m.dzv = sizes(nz, az == 3 ? 1 : az, 2.1);
    m.dz.resize(m.n());
    for (int k = 0; k < nz; ++k) for (int j = 0; j < ny; ++j) for (int i = 0; i < nx; ++i) m.dz[m.ci(i, j, k)] = m.dzv[k] * (m.percell ? 1 + 0.1 * ((i + 2 * j + k) % 3) : 1.0);
    m.X.assign(nx + 1, 0); m.Y.assign(ny + 1, 0);
    for (int i = 0; i < nx; ++i) m.X[i + 1] = m.X[i] + m.dxv[i];
    for (int j = 0; j < ny; ++j) m.Y[j + 1] = m.Y[j] + m.dyv[j];
    if (top <= 1) { m.tops.resize(size_t(nx) * ny); for (int j = 0; j < ny; ++j) for (int i = 0; i < nx; ++i) m.tops[i + nx * j] = 100.25 + (top == 1 ? 3.5 * ((i + 2 * j) % 3) : 0.0); }
    if (top != 1) {
        m.depthz.resize(size_t(nx + 1) * (ny + 1));
        for (int J = 0; J <= ny; ++J) for (int I = 0; I <= nx; ++I)
            m.depthz[I + (nx + 1) * J] = top == 0 ? 100.25 : top == 2 ? 100.25 + 0.02 * m.X[I] - 0.01 * m.Y[J] : 100.25 + 0.7 * ((I * J) % 3) + 0.1 * I * J;
    }
    return m;
}

// closed-form expectation (deck units), written without reference to COORD/ZCORN
static std::vector<double> expect_b(const BModel& m) {
    std::vector<double> o(m.n() * NQ);
    for (int k = 0; k < m.nz; ++k) for (int j = 0; j < m.ny; ++j) for (int i = 0; i < m.nx; ++i) {
        const size_t c = m.ci(i, j, k); double* q = &o[c * NQ];
        const double dx = m.dxv[i], dy = m.dyv[j], dz = m.dz[c];
        double zt[4], zm = 0; for (int cc = 0; cc < 4; ++cc) { zt[cc] = m.ztop(i, j, k, cc & 1, cc >> 1); zm += zt[cc] / 4; }
        q[0] = q[9] = q[10] = dx * dy * dz;
        q[1] = m.X[i] + dx / 2; q[2] = m.Y[j] + dy / 2; q[3] = zm + dz / 2; q[4] = q[3];
        q[5] = dx; q[6] = dy; q[7] = dz; q[8] = dz;
        for (int cc = 0; cc < 8; ++cc) { q[11 + 3 * cc] = m.X[i + (cc & 1)]; q[12 + 3 * cc] = m.Y[j + ((cc >> 1) & 1)]; q[13 + 3 * cc] = zt[cc & 3] + ((cc >> 2) ? dz : 0.0); }
    }
    return o;
}

static Cpg cpg_from_b(const BModel& m) {
    Cpg c; c.alloc(m.nx, m.ny, m.nz);
    double zlo = 1e300, zhi = -1e300;
    for (int k = 0; k < m.nz; ++k) for (int j = 0; j < m.ny; ++j) for (int i = 0; i < m.nx; ++i) for (int cc = 0; cc < 8; ++cc) {
        const double z = m.ztop(i, j, k, cc & 1, (cc >> 1) & 1) + ((cc >> 2) ? m.dz[m.ci(i, j, k)] : 0.0);
        c.zcorn[c.zi(i, j, k, cc)] = z; zlo = std::min(zlo, z); zhi = std::max(zhi, z);
    }
    for (int J = 0; J <= m.ny; ++J) for (int I = 0; I <= m.nx; ++I) { double* q = c.pil(I, J); q[0] = q[3] = m.X[I]; q[1] = q[4] = m.Y[J]; q[2] = zlo - 1.5; q[5] = zhi + 2.5; }
    return c;
}

enum BForm { F_DXDYDZ_TOPS, F_DXDYDZ_TOPSFULL, F_DXV_TOPS, F_MIXED_TOPS, F_DXV_DEPTHZ, F_COORD_ZCORN, F_COUNT };
static const char* bform_name[] = {"DX-DY-DZ-TOPS", "DX-DY-DZ-TOPSfull", "DXV-DYV-DZV-TOPS", "DXV-DY-DZV-TOPS", "DXV-DYV-DZV-DEPTHZ", "COORD-ZCORN"};

static std::string b_keywords(const BModel& m, int form) {
    const size_t n = m.n();
    std::vector<double> DX(n), DY(n);
    for (int k = 0; k < m.nz; ++k) for (int j = 0; j < m.ny; ++j) for (int i = 0; i < m.nx; ++i) { DX[m.ci(i, j, k)] = m.dxv[i]; DY[m.ci(i, j, k)] = m.dyv[j]; }
    switch (form) {
    case F_DXDYDZ_TOPS: return arrkw("DX", DX) + arrkw("DY", DY) + arrkw("DZ", m.dz) + arrkw("TOPS", m.tops);
    case F_DXDYDZ_TOPSFULL: {
        std::vector<double> T(n);
        for (int k = 0; k < m.nz; ++k) for (int j = 0; j < m.ny; ++j) for (int i = 0; i < m.nx; ++i) T[m.ci(i, j, k)] = m.ztop(i, j, k, 0, 0);
        return arrkw("DX", DX) + arrkw("DY", DY) + arrkw("DZ", m.dz) + arrkw("TOPS", T);
    }
    case F_DXV_TOPS: return arrkw("DXV", m.dxv) + arrkw("DYV", m.dyv) + arrkw("DZV", m.dzv) + arrkw("TOPS", m.tops);
    case F_MIXED_TOPS: return arrkw("DXV", m.dxv) + arrkw("DY", DY) + arrkw("DZV", m.dzv) + arrkw("TOPS", m.tops);
    case F_DXV_DEPTHZ: return arrkw("DXV", m.dxv) + arrkw("DYV", m.dyv) + arrkw("DZV", m.dzv) + arrkw("DEPTHZ", m.depthz);
    default: return cpg_from_b(m).keywords();
    }
}
static std::vector<int> b_forms(const BModel& m) {
    if (m.top >= 2) return {F_COORD_ZCORN, F_DXV_DEPTHZ};
    if (m.percell) return {F_COORD_ZCORN, F_DXDYDZ_TOPS, F_DXDYDZ_TOPSFULL};
    if (m.top == 1) return {F_COORD_ZCORN, F_DXDYDZ_TOPS, F_DXDYDZ_TOPSFULL, F_DXV_TOPS, F_MIXED_TOPS};
    return {F_COORD_ZCORN, F_DXDYDZ_TOPS, F_DXDYDZ_TOPSFULL, F_DXV_TOPS, F_MIXED_TOPS, F_DXV_DEPTHZ};
}
static bool b_valid(int az, int top) { return !(az == 3 && top >= 2); }

// case "B nx ny nz ax ay az top unit"
static void case_B(int nx, int ny, int nz, int ax, int ay, int az, int top, int u, const std::string& cas) {
    if (!b_valid(az, top)) throw std::runtime_error("not a case: " + cas);
    const BModel m = make_b(nx, ny, nz, ax, ay, az, top);
    const std::vector<double> exp = expect_b(m);
    const double f = UNITS[u].f;
    const double cscale = f * cpg_from_b(m).maxabs();
    std::vector<double> ref;     // observation of the COORD/ZCORN form (SI)
    uint64_t h = 0;
    for (int form : b_forms(m)) {
        const std::string fname = bform_name[form];
        R->count(std::string("form_") + fname);
        try {
            auto deck = g_parser->parseString(deck_head(nx, ny, nz, u) + b_keywords(m, form) + "END\n");
            EclipseGrid g(deck);
            if ((int)g.getNX() != nx || (int)g.getNY() != ny || (int)g.getNZ() != nz || g.getNumActive() != m.n()) { R->violation("C13:forms:" + fname + ":shape", "grid dimensions/active count differ from DIMENS in " + cas, rpj(cas)); continue; }
            const std::vector<double> obs = observe_geom(g);
            std::string msg, q = cmp_geom(obs, exp, f, 1e-12, cscale, nx, ny, msg);
            if (!q.empty()) R->violation("C13:forms:" + fname + ":" + q, "form " + fname + " (" + UNITS[u].kw + "): " + msg + " (closed form DX*DY*DZ / centre coordinates) in case " + cas, rpj(cas));
            if (form == F_COORD_ZCORN) {
                ref = obs;
                // the description itself must survive unchanged
                const Cpg c = cpg_from_b(m); bool ok = g.getCOORD().size() == c.coord.size() && g.getZCORN().size() == c.zcorn.size();
                for (size_t p = 0; ok && p < c.coord.size(); ++p) ok = close(g.getCOORD()[p], c.coord[p] * f, 1e-14);
                for (size_t p = 0; ok && p < c.zcorn.size(); ++p) ok = close(g.getZCORN()[p], c.zcorn[p] * f, 1e-14);
                if (!ok || g.getZcornFixed() != 0) R->violation("C13:forms:COORD-ZCORN:arrays", std::string("getCOORD/getZCORN differ from the deck arrays converted to SI (zcorn_fixed=") + S(g.getZcornFixed()) + ") in case " + cas, rpj(cas));
            } else if (!ref.empty()) {
                q = cmp_geom(obs, ref, 1.0, 1e-12, cscale, nx, ny, msg, true);
                if (!q.empty()) R->violation("C13:forms:" + fname + "-vs-COORD-ZCORN:" + q, "form " + fname + " and the equivalent COORD/ZCORN grid differ (" + UNITS[u].kw + "): " + msg + " in case " + cas, rpj(cas));
            }
            h = vf::fnv(obs.data(), 8 * obs.size(), h ? h : 1469598103934665603ull);
            queue_threads(cas, g);
        } catch (const std::exception& e) {
            R->violation("C13:forms:" + fname + ":throws", "form " + fname + " cannot be built: " + std::string(e.what()).substr(0, 300) + " in case " + cas, rpj(cas));
        }
    }
    // handedness: the COORD/ZCORN description mirrored in x, in y, in both; same closed form up to the mirror, volumes positive
    for (int hand = 1; hand < 4; ++hand) {
        const std::string fname = std::string("COORD-ZCORN") + hand_tag[hand];
        R->count("form_" + fname);
        try {
            const Cpg c0 = cpg_from_b(m); const Mirror mi = mirror_of(c0, hand); const Cpg c = mirrored(c0, mi);
            std::vector<double> expm = exp; mirror_expect(expm, mi);
            auto deck = g_parser->parseString(deck_head(nx, ny, nz, u) + c.keywords() + "END\n");
            EclipseGrid g(deck);
            const std::vector<double> obs = observe_geom(g);
            for (size_t cc = 0; cc < m.n(); ++cc) if (!(obs[cc * NQ] > 0 && obs[cc * NQ + 9] > 0 && obs[cc * NQ + 10] > 0)) { R->violation("C13:forms:" + fname + ":positivity", "volume of cell " + S(cc) + " of the COORD/ZCORN grid " + hand_name[hand] + " is not positive: getCellVolume " + vf::fmt17(obs[cc * NQ]) + ", activeVolume " + vf::fmt17(obs[cc * NQ + 10]) + " (" + UNITS[u].kw + ") in case " + cas, rpj(cas)); break; }
            std::string msg, q = cmp_geom(obs, expm, f, 1e-12, cscale, nx, ny, msg);
            if (!q.empty()) R->violation("C13:forms:" + fname + ":" + q, std::string("COORD/ZCORN grid ") + hand_name[hand] + " (" + UNITS[u].kw + "): " + msg + " (closed form of the DX/DY/DZ description, mirrored) in case " + cas, rpj(cas));
            h = vf::fnv(obs.data(), 8 * obs.size(), h ? h : 1469598103934665603ull);
            queue_threads(cas, g);
        } catch (const std::exception& e) {
            R->violation("C13:forms:" + fname + ":throws", "form " + fname + " cannot be built: " + std::string(e.what()).substr(0, 300) + " in case " + cas, rpj(cas));
        }
    }
    R->observe(h);
}

// case "P nx ny nz az top unit L which": the short input form of DX/DY/DZ - only the first L layers are given and the
// library completes every missing layer from the layer above (EclipseGrid::createDVector).  The model is the B model whose
// layers L..nz-1 repeat layer L-1; the short form must give the same grid as the closed form and as COORD/ZCORN.
// which: 0 = DZ short, 1 = DX, DY and DZ short.
static void case_P(int nx, int ny, int nz, int az, int top, int u, int L, int which, const std::string& cas) {
    if (L < 1 || L > nz || top > 1 || az < 1 || az > 3) throw std::runtime_error("not a case: " + cas);
    BModel m = make_b(nx, ny, nz, 1, 2, az, top);
    for (int k = L; k < nz; ++k) { m.dzv[k] = m.dzv[L - 1]; for (int j = 0; j < ny; ++j) for (int i = 0; i < nx; ++i) m.dz[m.ci(i, j, k)] = m.dz[m.ci(i, j, L - 1)]; }
    const std::vector<double> exp = expect_b(m);
    const double f = UNITS[u].f;
    const double cscale = f * cpg_from_b(m).maxabs();
    const size_t n = m.n(), nl = size_t(nx) * ny * L;
    std::vector<double> DX(n), DY(n);
    for (int k = 0; k < nz; ++k) for (int j = 0; j < ny; ++j) for (int i = 0; i < nx; ++i) { DX[m.ci(i, j, k)] = m.dxv[i]; DY[m.ci(i, j, k)] = m.dyv[j]; }
    auto head = [&](const std::vector<double>& v) { return std::vector<double>(v.begin(), v.begin() + nl); };
    const std::string fname = which == 0 ? "DX-DY-DZshort-TOPS" : "DXshort-DYshort-DZshort-TOPS";
    R->count("form_" + fname);
    try {
        std::vector<double> ref;
        { auto deck = g_parser->parseString(deck_head(nx, ny, nz, u) + cpg_from_b(m).keywords() + "END\n"); EclipseGrid g(deck); ref = observe_geom(g); }
        const std::string kw = (which == 0 ? arrkw("DX", DX) + arrkw("DY", DY) : arrkw("DX", head(DX)) + arrkw("DY", head(DY))) + arrkw("DZ", head(m.dz)) + arrkw("TOPS", m.tops);
        auto deck = g_parser->parseString(deck_head(nx, ny, nz, u) + kw + "END\n");
        EclipseGrid g(deck);
        if ((int)g.getNX() != nx || (int)g.getNY() != ny || (int)g.getNZ() != nz || g.getNumActive() != m.n()) { R->violation("C13:forms:" + fname + ":shape", "grid dimensions/active count differ from DIMENS in " + cas, rpj(cas)); return; }
        const std::vector<double> obs = observe_geom(g);
        std::string msg, q = cmp_geom(obs, exp, f, 1e-12, cscale, nx, ny, msg);
        if (!q.empty()) R->violation("C13:forms:" + fname + ":" + q, "form " + fname + " with " + S(L) + " of " + S(nz) + " layers given (" + UNITS[u].kw + "): " + msg + " (closed form with the missing layers repeating the last given one) in case " + cas, rpj(cas));
        q = cmp_geom(obs, ref, 1.0, 1e-12, cscale, nx, ny, msg, true);
        if (!q.empty()) R->violation("C13:forms:" + fname + "-vs-COORD-ZCORN:" + q, "form " + fname + " with " + S(L) + " of " + S(nz) + " layers given and the equivalent COORD/ZCORN grid differ (" + UNITS[u].kw + "): " + msg + " in case " + cas, rpj(cas));
        R->observe(vf::fnv(obs.data(), 8 * obs.size(), 1469598103934665603ull ^ (uint64_t)(L * 7 + which)));
    } catch (const std::exception& e) {
        R->violation("C13:forms:" + fname + ":throws", "form " + fname + " cannot be built: " + std::string(e.what()).substr(0, 300) + " in case " + cas, rpj(cas));
    }
}

// ========================================================== part C: cpg ====
// Pillars: straight lines from (x',y',ZT) to (cx+(x'-cx)*ax+tx, cy+(y'-cy)*ay+ty, ZB).
//   pil 0..8  : parallel (ax=ay=1), slopes (sx,sy) in {0,0.4,-0.3}^2       -> any planar layer surface allowed
//   pil 9..24 : (ax,ay) in {0.6,1,1.4}^2 \ {(1,1)}, x shear {none,(0.4,-0.3)} -> horizontal cell faces only
// Layer interface m:  z = zbase_m + bx_m*x'/Lx + by_m*y'/Ly + throw(i,j)   (a plane; shear maps planes to planes)
//   surf 4 (parallel pillars only) adds an alternating bilinear saddle: faces are NOT planar; the trilinear cell
//   still has V = DX'*DY'*(mean thickness) and subdivides exactly.  This class goes beyond the property text
//   ("planar faces") and reports under separate ":nonplanar" keys.
// Exact volume: parallel  : DX'*DY'*(mean bottom z - mean top z)            (shear has determinant 1)
//               otherwise : DX'*DY'*H*[G(tb)-G(tt)],  G(t)=t+(a+b)t^2/2+ab t^3/3, a=ax-1, b=ay-1, t=(z-ZT)/H
struct CSpec { int nx, ny, nz, sp, pil, surf, fault; int hand = 0; };
static const double C_ZT = 80.0, C_ZB = 150.0;
static bool c_parallel(const CSpec& s) { return s.pil < 9; }
static bool c_valid(const CSpec& s) { return c_parallel(s) || s.surf == 0; }

struct CGeo { Cpg g; std::vector<double> vol; bool parallel; };

static CGeo build_c(const CSpec& s) {
    static const double SL[3] = {0.0, 0.4, -0.3}, SC[3] = {0.6, 1.0, 1.4}, DZL[3] = {4, 3, 5};
    static const double SPX[3][3] = {{10, 10, 10}, {10, 14, 8}, {3, 25, 9}}, SPY[3][3] = {{12, 12, 12}, {12, 9, 15}, {30, 4, 11}};
    if (!c_valid(s)) throw std::logic_error("invalid CSpec");
    CGeo r; Cpg& g = r.g; g.alloc(s.nx, s.ny, s.nz); r.parallel = c_parallel(s);
    const double H = C_ZB - C_ZT;
    double ax = 1, ay = 1, slx, sly;
    if (s.pil < 9) { slx = SL[s.pil % 3]; sly = SL[s.pil / 3]; }
    else { int q = s.pil - 9, e = q / 2; if (e >= 4) ++e; ax = SC[e % 3]; ay = SC[e / 3]; slx = (q % 2) ? 0.4 : 0.0; sly = (q % 2) ? -0.3 : 0.0; }
    const double tx = slx * H, ty = sly * H;
    std::vector<double> X(s.nx + 1, 0), Y(s.ny + 1, 0), zb(s.nz + 1, 100.0);
    for (int i = 0; i < s.nx; ++i) X[i + 1] = X[i] + SPX[s.sp][i % 3];
    for (int j = 0; j < s.ny; ++j) Y[j + 1] = Y[j] + SPY[s.sp][j % 3];
    for (int k = 0; k < s.nz; ++k) zb[k + 1] = zb[k] + DZL[k % 3];
    const double Lx = X[s.nx], Ly = Y[s.ny], cx = Lx / 2, cy = 0.0;
    for (int J = 0; J <= s.ny; ++J) for (int I = 0; I <= s.nx; ++I) {
        double* p = g.pil(I, J);
        p[0] = X[I]; p[1] = Y[J]; p[2] = C_ZT;
        p[3] = cx + (X[I] - cx) * ax + tx; p[4] = cy + (Y[J] - cy) * ay + ty; p[5] = C_ZB;
    }
    auto beta = [&](int m, double& bx, double& by) {
        switch (s.surf) {
        case 0: case 4: bx = by = 0; break;
        case 1: bx = 1.5; by = -0.9; break;
        case 2: bx = 0.25 * m; by = -0.2 * m; break;
        default: bx = (m % 2 ? -0.6 : 0.6); by = (m % 2 ? 0.4 : -0.4);
        }
    };
    auto thr = [&](int i, int j) -> double {
        switch (s.fault) {
        case 0: return 0;
        case 1: return i >= 1 ? 2.0 : 0.0;
        case 2: return i >= 1 ? 4.0 : 0.0;
        case 3: return j >= 1 ? -10.0 : 0.0;
        case 4: return (i + j) % 2 ? 3.0 : 0.0;
        default: return (i == s.nx - 1 && j == s.ny - 1) ? 6.0 : (i == 0 && j == 0) ? -1.5 : 0.0;
        }
    };
    r.vol.resize(size_t(s.nx) * s.ny * s.nz);
    for (int k = 0; k < s.nz; ++k) for (int j = 0; j < s.ny; ++j) for (int i = 0; i < s.nx; ++i) {
        double z[8];
        for (int c = 0; c < 8; ++c) {
            const int m = k + (c >> 2); double bx, by; beta(m, bx, by);
            z[c] = zb[m] + bx * X[i + (c & 1)] / Lx + by * Y[j + ((c >> 1) & 1)] / Ly + thr(i, j);
            if (s.surf == 4) z[c] += (m % 2 ? -1.0 : 1.0) * (X[i + (c & 1)] / Lx) * (Y[j + ((c >> 1) & 1)] / Ly);     // bilinear saddle: NON-planar faces
            g.zcorn[g.zi(i, j, k, c)] = z[c];
            if (z[c] <= C_ZT + 1 || z[c] >= C_ZB - 1) throw std::logic_error("C alphabet: z outside pillar range");
        }
        for (int c = 0; c < 4; ++c) if (!(z[c + 4] - z[c] > 0.5)) throw std::logic_error("C alphabet: non-positive thickness");
        const double DX = X[i + 1] - X[i], DY = Y[j + 1] - Y[j];
        const double mt = (z[0] + z[1] + z[2] + z[3]) / 4, mb = (z[4] + z[5] + z[6] + z[7]) / 4;
        if (r.parallel) r.vol[i + size_t(s.nx) * (j + size_t(s.ny) * k)] = DX * DY * (mb - mt);
        else {
            const double a = ax - 1, b = ay - 1; auto Gf = [&](double t) { return t + (a + b) * t * t / 2 + a * b * t * t * t / 3; };
            r.vol[i + size_t(s.nx) * (j + size_t(s.ny) * k)] = DX * DY * H * (Gf((mb - C_ZT) / H) - Gf((mt - C_ZT) / H));
        }
    }
    if (s.hand) r.g = mirrored(r.g, mirror_of(r.g, s.hand));      // volumes are those of the unmirrored cells (isometry)
    return r;
}

// 2x2x2 refinement by trilinear subdivision.  Representable as COORD/ZCORN
// (children corners on straight refined pillars), and parent volume = sum of
// children is a theorem of the trilinear cell model, when (i) all pillars are
// parallel (any ZCORN) or (ii) every cell face is horizontal (any straight
// pillars); build_c produces only these two classes.  All pillars share the
// end depths ZT/ZB, so averaging end points averages the lines.
static Cpg refine(const Cpg& p) {
    Cpg f; f.alloc(2 * p.nx, 2 * p.ny, 2 * p.nz);
    for (int J = 0; J <= 2 * p.ny; ++J) for (int I = 0; I <= 2 * p.nx; ++I) {
        double* q = f.pil(I, J);
        const int I0 = I / 2, I1 = (I + 1) / 2, J0 = J / 2, J1 = (J + 1) / 2;
        for (int d = 0; d < 6; ++d) q[d] = (p.pil(I0, J0)[d] + p.pil(I1, J0)[d] + p.pil(I0, J1)[d] + p.pil(I1, J1)[d]) / 4;
    }
    for (int k = 0; k < p.nz; ++k) for (int j = 0; j < p.ny; ++j) for (int i = 0; i < p.nx; ++i) {
        double z[8]; for (int c = 0; c < 8; ++c) z[c] = p.zcorn[p.zi(i, j, k, c)];
        auto tri = [&](double u, double v, double w) {
            double s = 0;
            for (int c = 0; c < 8; ++c) s += z[c] * ((c & 1) ? u : 1 - u) * ((c & 2) ? v : 1 - v) * ((c & 4) ? w : 1 - w);
            return s;
        };
        for (int a = 0; a < 2; ++a) for (int b = 0; b < 2; ++b) for (int cc = 0; cc < 2; ++cc) for (int c = 0; c < 8; ++c)
            f.zcorn[f.zi(2 * i + a, 2 * j + b, 2 * k + cc, c)] = tri((a + (c & 1)) / 2.0, (b + ((c >> 1) & 1)) / 2.0, (cc + ((c >> 2) & 1)) / 2.0);
    }
    return f;
}

static std::string c_np(const CSpec& s) { return s.surf == 4 ? ":nonplanar" : ""; }
static std::string c_class(const CSpec& s) { return std::string(s.surf == 4 ? "NON-planar bilinear faces (trilinear-cell convention), " : "") + std::string(c_parallel(s) ? "parallel sheared pillars" : "converging/diverging pillars, horizontal faces") + ", pil " + S(s.pil) + " surf " + S(s.surf) + " fault " + S(s.fault) + (s.hand ? std::string(", ") + hand_name[s.hand] : std::string()); }

// judge one corner-point grid against exact volumes; returns the library grid
static std::unique_ptr<EclipseGrid> judge_c(const CSpec& s, const CGeo& cg, int u, const std::string& cas, const std::vector<int>* act = nullptr) {
    const double f = UNITS[u].f;
    auto deck = g_parser->parseString(deck_head(s.nx, s.ny, s.nz, u) + cg.g.keywords() + (act ? intkw("ACTNUM", *act) : std::string()) + "END\n");
    auto g = std::make_unique<EclipseGrid>(deck);
    const std::vector<double> obs = observe_geom(*g), exp = expect_from_cpg(cg.g, cg.vol);
    const size_t n = cg.vol.size();
    for (size_t c = 0; c < n; ++c) {
        const double v = obs[c * NQ];
        if (!(std::isfinite(v) && v > 0)) { R->violation("C13:cpg:positivity", "volume " + vf::fmt17(v) + " of cell " + S(c) + " is not positive (" + c_class(s) + ") in case " + cas, rpj(cas)); break; }
    }
    std::string msg, q = cmp_geom(obs, exp, f, 1e-10, f * cg.g.maxabs(), s.nx, s.ny, msg);
    if (!q.empty()) {
        const bool isv = q == "volume" || q == "volume-ijk" || q == "activeVolume";
        R->violation(std::string("C13:cpg:") + (isv ? "volume-exact" : q == "centre" || q == "corner" || q == "depth" ? "corner-geometry" : "celldims") + (q == "activeVolume" || q == "volume-ijk" ? ":" + q : "") + (isv ? c_np(s) : ""),
                     msg + " (exact prism/frustum formula resp. corner formula of the harness; " + c_class(s) + ", " + UNITS[u].kw + ") in case " + cas, rpj(cas));
    }
    if (g->getZcornFixed() != 0) R->violation("C13:cpg:zcorn-fixed", "fixupZCORN changed " + S(g->getZcornFixed()) + " values of a consistent grid in case " + cas, rpj(cas));
    R->observe(vf::fnv(obs.data(), 8 * obs.size()));
    return g;
}

// case "C nx ny nz sp pil surf fault unit"
static void case_C(const CSpec& s, int u, const std::string& cas) {
    const CGeo cg = build_c(s);
    try {
        auto g = judge_c(s, cg, u, cas);
        queue_threads(cas, *g);
        const Cpg fine = refine(cg.g);
        auto deck = g_parser->parseString(deck_head(fine.nx, fine.ny, fine.nz, u) + fine.keywords() + "END\n");
        EclipseGrid gf(deck);
        queue_threads(cas, gf);
        double tot_p = 0, tot_c = 0;
        for (int k = 0; k < s.nz; ++k) for (int j = 0; j < s.ny; ++j) for (int i = 0; i < s.nx; ++i) {
            const double vp = g->getCellVolume(i, j, k); double sum = 0; bool pos = true;
            for (int a = 0; a < 2; ++a) for (int b = 0; b < 2; ++b) for (int c = 0; c < 2; ++c) { const double vc = gf.getCellVolume(2 * i + a, 2 * j + b, 2 * k + c); pos = pos && vc > 0 && std::isfinite(vc); sum += vc; }
            tot_p += vp; tot_c += sum;
            if (!pos) R->violation("C13:cpg:positivity", "a sub-cell of cell " + ijks(i, j, k) + " has non-positive volume (" + c_class(s) + ") in case " + cas, rpj(cas));
            if (!close(sum, vp, 1e-10)) { R->violation("C13:cpg:additivity" + c_np(s), "2x2x2 trilinear subdivision of cell " + ijks(i, j, k) + ": children sum to " + vf::fmt17(sum) + " but the parent has " + vf::fmt17(vp) + " (" + c_class(s) + ", " + UNITS[u].kw + ") in case " + cas, rpj(cas)); break; }
        }
        if (!close(tot_p, tot_c, 1e-10)) R->violation("C13:cpg:additivity" + c_np(s), "total volume " + vf::fmt17(tot_p) + " != total of refined grid " + vf::fmt17(tot_c) + " in case " + cas, rpj(cas));
        R->count("additivity_parent_cells", size_t(s.nx) * s.ny * s.nz);
    } catch (const std::exception& e) {
        R->violation("C13:cpg:throws", "corner-point grid cannot be built/queried: " + std::string(e.what()).substr(0, 300) + " in case " + cas, rpj(cas));
    }
}

// case "D v": 12x12x6 grids for the thread differential (also judged for exact volumes)
static void case_D(int v, const std::string& cas) {
    static const int PIL[4] = {0, 5, 7, 9 + 7}, SURF[4] = {0, 2, 3, 0}, FAULT[4] = {0, 1, 4, 3};
    const int gi = v % 4, ai = (v / 4) % 3;
    CSpec s{12, 12, 6, 1, PIL[gi], SURF[gi], FAULT[gi], v / 12};
    const CGeo cg = build_c(s);
    std::vector<int> act = structured(12, 12, 6)[ai == 0 ? 0 : ai == 1 ? 11 : 13];
    try { auto g = judge_c(s, cg, 0, cas, &act); if (g->getNumActive() != (size_t)std::count(act.begin(), act.end(), 1)) R->violation("C13:index:numActive:ctor", "12x12x6 grid: wrong active count", rpj(cas)); queue_threads(cas, *g); }
    catch (const std::exception& e) { R->violation("C13:cpg:throws", "12x12x6 grid: " + std::string(e.what()).substr(0, 300), rpj(cas)); }
}

// ======================================================== part E: EGRID ====
static const int E_DIMS[5][3] = {{3, 2, 2}, {2, 3, 3}, {1, 1, 1}, {3, 3, 3}, {1, 4, 3}};
static const int E_ACT[5] = {0, 2, 11, 15, 1};           // all, corner inactive, checkerboard, only centre active, none
struct MapSpec { bool on; float v[6]; const char* units; };
static const MapSpec E_MAP[4] = {{false, {0, 0, 0, 0, 0, 0}, nullptr}, {true, {0, 100, 0, 0, 100, 0}, nullptr},
                                 {true, {1000.5f, 2100, 1000.5f, 2000, 1100.5f, 2000}, "FEET"}, {true, {440, 1080, 500, 1000, 580, 1060}, "METRES"}};

static std::string e_geo_keywords(int geo, int nx, int ny, int nz) {
    switch (geo) {
    case 0: return b_keywords(make_b(nx, ny, nz, 2, 1, 3, 1), F_DXDYDZ_TOPS);
    case 1: return b_keywords(make_b(nx, ny, nz, 1, 2, 2, 2), F_DXV_DEPTHZ);
    case 2: return build_c(CSpec{nx, ny, nz, 1, 5, 2, 1}).g.keywords();
    case 3: return build_c(CSpec{nx, ny, nz, 1, 9 + 5, 0, 4}).g.keywords();
    case 4: return build_c(CSpec{nx, ny, nz, 1, 5, 2, 1, 1}).g.keywords();          // geo 2 mirrored in x (left-handed)
    case 5: return build_c(CSpec{nx, ny, nz, 1, 9 + 5, 0, 4, 2}).g.keywords();      // geo 3 mirrored in y (left-handed)
    default: return build_c(CSpec{nx, ny, nz, 1, 5, 2, 1, 3}).g.keywords();         // geo 2 mirrored in x and y
    }
}

static bool g_derive = false;          // case F = case E on a grid derived with EclipseGrid(src, zcorn, actnum)
// case "E geo dim act du su fmt nnc map"
static void case_E(int geo, int di, int ai, int du, int su, int fmt, int nncv, int mp, const std::string& cas) {
    const int nx = E_DIMS[di][0], ny = E_DIMS[di][1], nz = E_DIMS[di][2];
    const size_t n = size_t(nx) * ny * nz;
    const std::vector<int> act = structured(nx, ny, nz)[E_ACT[ai]];
    const std::string fs = fmt ? ":fmt" : ":unf";
    auto V = [&](const std::string& what, const std::string& msg) { R->violation("C13:egrid:" + what + fs, msg + " [deck units " + UNITS[du].kw + ", saved as " + UNITS[su].kw + ", case " + cas + "]", rpj(cas)); };
    std::vector<int> rank(n, -1), glob; for (size_t c = 0; c < n; ++c) if (act[c] > 0) { rank[c] = glob.size(); glob.push_back(c); }
    // NNC deck records (1-based ijk pairs): reversed, duplicate, out of range, possibly inactive
    struct NR { int a[6]; double t; };
    const std::vector<NR> nrec = {{{1, 1, 1, nx, ny, nz}, 1.5}, {{nx, ny, nz, 1, 1, 1}, 2.5}, {{2, 1, 1, 1, 2, nz}, 3.5}, {{1, 1, 1, nx + 1, 1, 1}, 4.5}, {{nx, 1, 1, 1, ny, 1}, 5.5}, {{1, 1, nz, 1, 1, 1}, 6.5}};
    std::string deckstr = deck_head(nx, ny, nz, du) + e_geo_keywords(geo, nx, ny, nz) + intkw("ACTNUM", act);
    const MapSpec& ms = E_MAP[mp];
    if (ms.on) { deckstr += "MAPAXES\n"; for (float x : ms.v) deckstr += " " + num(x); deckstr += " /\n"; if (ms.units) deckstr += std::string("MAPUNITS\n ") + ms.units + " /\n"; }
    if (nncv == 2) { deckstr += "NNC\n"; for (auto& r : nrec) { for (int x : r.a) deckstr += " " + S(x); deckstr += " " + num(r.t) + " /\n"; } deckstr += "/\n"; }
    deckstr += "END\n";
    std::unique_ptr<EclipseGrid> g1; std::vector<Opm::NNCdata> nnc;
    try {
        auto deck = g_parser->parseString(deckstr);
        g1 = std::make_unique<EclipseGrid>(deck);
        if (nncv == 1) nnc = {Opm::NNCdata(n - 1, 0, 1.0), Opm::NNCdata(0, n - 1, 2.0), Opm::NNCdata(1 % n, 2 % n, 3.0), Opm::NNCdata(0, n - 1, 2.0)};
        if (nncv == 2) {
            nnc = Opm::NNC(*g1, deck).input();
            std::vector<std::pair<size_t, size_t>> model;
            for (auto& r : nrec) {
                bool ok = true; size_t gg[2];
                for (int e = 0; e < 2; ++e) { const int i = r.a[3 * e] - 1, j = r.a[3 * e + 1] - 1, k = r.a[3 * e + 2] - 1; if (i < 0 || i >= nx || j < 0 || j >= ny || k < 0 || k >= nz) { ok = false; break; } gg[e] = i + size_t(nx) * (j + size_t(ny) * k); if (act[gg[e]] <= 0) ok = false; }
                if (ok) model.emplace_back(std::min(gg[0], gg[1]), std::max(gg[0], gg[1]));
            }
            std::sort(model.begin(), model.end());
            bool ok = model.size() == nnc.size(); for (size_t p = 0; ok && p < nnc.size(); ++p) ok = nnc[p].cell1 == model[p].first && nnc[p].cell2 == model[p].second;
            if (!ok) R->violation("C13:nnc:input-model", "NNC::input() is not the ascending list of in-range active cell pairs (cell1<=cell2) of the NNC keyword [case " + cas + "]", rpj(cas));
        }
    } catch (const std::exception& e) { V("build-throws", std::string("grid/NNC cannot be built: ") + std::string(e.what()).substr(0, 300)); return; }
    if (g1->getActiveMap() != glob) { V("build-actnum", "deck ACTNUM not honoured"); return; }
    if (g_derive) {
        // case F: the grid saved is DERIVED from the deck grid with a new ZCORN (how a simulator hands back a processed grid):
        // every depth stretched about the shallowest corner, same pillars, same ACTNUM.  What is saved must be the derived grid.
        try {
            std::vector<double> z = g1->getZCORN(); double z0 = 1e300; for (double v : z) z0 = std::min(z0, v);
            for (double& v : z) v = z0 + 1.25 * (v - z0);
            g1 = std::make_unique<EclipseGrid>(*g1, z.data(), act);
            bool ok = g1->getZCORN().size() == z.size(); for (size_t p = 0; ok && p < z.size(); ++p) ok = close(g1->getZCORN()[p], z[p], 1e-14);
            if (!ok) { V("derived-zcorn", "EclipseGrid(src, zcorn, actnum) does not carry the ZCORN it was given"); return; }
        } catch (const std::exception& e) { V("build-throws", std::string("derived grid cannot be built: ") + std::string(e.what()).substr(0, 300)); return; }
    }

    const std::string fn = g_dir + (fmt ? "/E.FEGRID" : "/E.EGRID");
    const Opm::UnitSystem us(UNITS[su].ty);
    const double fsu = UNITS[su].f;
    double cmax = 0; for (double v : g1->getCOORD()) cmax = std::max(cmax, std::fabs(v)); for (double v : g1->getZCORN()) cmax = std::max(cmax, std::fabs(v));
    const double FT = 2.5e-7, delta = FT * cmax;
    const std::vector<double> o1 = observe_geom(*g1);
    for (size_t c = 0; c < n; ++c) if (!(o1[c * NQ] > 0 && o1[c * NQ + 10] > 0)) { V("build-volume-positivity", "volume of cell " + S(c) + " of the grid to be saved is not positive: " + vf::fmt17(o1[c * NQ]) + (geo >= 4 ? std::string(" (corner-point grid ") + hand_name[geo == 4 ? 1 : geo == 5 ? 2 : 3] + ")" : std::string())); break; }
    for (int pass = 1; pass <= 2; ++pass) {       // first save uses the input COORD/ZCORN copy (if any), the second the processed arrays
        const std::string ps = " (save #" + S(pass) + ")";
        ::unlink(fn.c_str());
        try { g1->save(fn, fmt, nnc, us); }
        catch (const std::exception& e) {
            if (su == 3) { R->count("unsupported_by_writer_PVT-M"); if (::access(fn.c_str(), F_OK) == 0) R->count("refusal_left_a_file"); return; }
            V("save-throws", std::string("save throws: ") + std::string(e.what()).substr(0, 300) + ps); return;
        }
        if (su == 3) R->count("PVT-M_written");
        R->count("egrid_files");
        try {
            Opm::EclIO::EGrid eg(fn);
            { std::ifstream bf(fn, std::ios::binary); std::stringstream ss; ss << bf.rdbuf(); R->observe(vf::fnv(ss.str())); }
            const std::string wantunit = UNITS[su].gridunit ? UNITS[su].gridunit : "METRES";
            if (!eg.hasKey("GRIDUNIT") || eg.get<std::string>("GRIDUNIT").empty() || eg.get<std::string>("GRIDUNIT")[0] != wantunit) V("gridunit", "GRIDUNIT is not " + wantunit + ps);
            if (eg.dimension() != std::array<int, 3>{nx, ny, nz} || eg.totalNumberOfCells() != (int)n) V("dims", "EGrid::dimension() wrong" + ps);
            const auto& cf = eg.get<float>("COORD"); const auto& zf = eg.get<float>("ZCORN");
            bool ok = cf.size() == g1->getCOORD().size(); for (size_t p = 0; ok && p < cf.size(); ++p) ok = close(cf[p], g1->getCOORD()[p] / fsu, FT);
            if (!ok) V("coord", "COORD in the file is not the grid's COORD in " + wantunit + " to float precision" + ps);
            ok = zf.size() == g1->getZCORN().size(); for (size_t p = 0; ok && p < zf.size(); ++p) ok = close(zf[p], g1->getZCORN()[p] / fsu, FT);
            if (!ok) V("zcorn", "ZCORN in the file is not the grid's ZCORN in " + wantunit + " to float precision" + ps);
            ok = eg.hasKey("ACTNUM"); if (ok) { const auto& an = eg.get<int>("ACTNUM"); ok = an.size() == n; for (size_t c = 0; ok && c < n; ++c) ok = (an[c] > 0) == (act[c] > 0); }
            if (!ok) V("actnum", "ACTNUM in the file differs" + ps);
            ok = eg.activeCells() == (int)glob.size();
            for (int k = 0; ok && k < nz; ++k) for (int j = 0; ok && j < ny; ++j) for (int i = 0; ok && i < nx; ++i) { const size_t c = i + size_t(nx) * (j + size_t(ny) * k); ok = eg.global_index(i, j, k) == (int)c && eg.active_index(i, j, k) == rank[c] && eg.ijk_from_global_index(c) == std::array<int, 3>{i, j, k}; }
            for (size_t a = 0; ok && a < glob.size(); ++a) { const int c = glob[a]; ok = eg.ijk_from_active_index(a) == std::array<int, 3>{c % nx, (c / nx) % ny, c / (nx * ny)}; }
            if (!ok) V("egrid-index", "EGrid index maps (global/active/ijk) disagree with ACTNUM" + ps);
            // map axes
            if (eg.hasKey("MAPAXES") != ms.on) V("mapaxes", std::string("MAPAXES array ") + (ms.on ? "missing" : "present without MAPAXES in the deck") + ps);
            else if (ms.on) { const auto& mv = eg.get_mapaxes(); if (mv.size() != 6 || !std::equal(mv.begin(), mv.end(), ms.v)) V("mapaxes", "MAPAXES values differ" + ps); }
            if (eg.hasKey("MAPUNITS") != (ms.on && ms.units)) V("mapunits", "MAPUNITS presence differs" + ps);
            else if (ms.on && ms.units && eg.get_mapunits() != ms.units) V("mapunits", "MAPUNITS is '" + eg.get_mapunits() + "', wanted " + ms.units + ps);
            // NNC list, in order
            {
                auto lst = eg.get_nnc_ijk(); ok = lst.size() == nnc.size();
                for (size_t p = 0; ok && p < nnc.size(); ++p) { const size_t c1 = nnc[p].cell1, c2 = nnc[p].cell2; ok = std::get<0>(lst[p]) == int(c1 % nx) && std::get<1>(lst[p]) == int((c1 / nx) % ny) && std::get<2>(lst[p]) == int(c1 / (size_t(nx) * ny)) && std::get<3>(lst[p]) == int(c2 % nx) && std::get<4>(lst[p]) == int((c2 / nx) % ny) && std::get<5>(lst[p]) == int(c2 / (size_t(nx) * ny)); }
                if (ok && !nnc.empty()) { const auto& n1 = eg.get<int>("NNC1"); const auto& n2 = eg.get<int>("NNC2"); const auto& nh = eg.get<int>("NNCHEAD"); ok = n1.size() == nnc.size() && n2.size() == nnc.size() && nh[0] == (int)nnc.size(); for (size_t p = 0; ok && p < nnc.size(); ++p) ok = n1[p] == int(nnc[p].cell1) + 1 && n2[p] == int(nnc[p].cell2) + 1; }
                if (ok && nnc.empty()) ok = !eg.hasKey("NNC1") || eg.get<int>("NNC1").empty();
                if (!ok) V("nnc", "NNC list read back (" + S(lst.size()) + " entries) differs from the " + S(nnc.size()) + " entries saved" + ps);
            }
            // corner geometry through EGrid (file units)
            ok = true;
            for (size_t c = 0; ok && c < n; ++c) { std::array<double, 8> X, Y, Z; eg.getCellCorners(int(c), X, Y, Z); const double* q = &o1[c * NQ]; for (int cc = 0; ok && cc < 8; ++cc) ok = std::fabs(X[cc] * fsu - q[11 + 3 * cc]) <= 8 * delta && std::fabs(Y[cc] * fsu - q[12 + 3 * cc]) <= 8 * delta && std::fabs(Z[cc] * fsu - q[13 + 3 * cc]) <= 8 * delta; }
            if (!ok) V("egrid-corners", "EGrid::getCellCorners (file units) differs from the grid's corners beyond float precision" + ps);
        } catch (const std::exception& e) { V("read-throws", std::string("EGrid reader throws: ") + std::string(e.what()).substr(0, 300) + ps); }
        // E2 over the reader's own state: every sequence of <= 3 queries on ONE fresh EGrid object; the answer of every query must
        // be the one a fresh reader gives (corner sweep of a fresh object = reference), whatever was asked before
        if (pass == 1 && mp == 0 && nncv == 0) try {
            std::vector<std::array<double, 24>> ref(n);
            { Opm::EclIO::EGrid fresh(fn); for (size_t c = 0; c < n; ++c) { std::array<double, 8> X, Y, Z; fresh.getCellCorners(int(c), X, Y, Z); for (int q = 0; q < 8; ++q) { ref[c][q] = X[q]; ref[c][8 + q] = Y[q]; ref[c][16 + q] = Z[q]; } } }
            static const char* opn[] = {"getCellCorners(first)", "getCellCorners(last)", "getXYZ_layer(0,top)", "getXYZ_layer(0,bottom)", "getXYZ_layer(nz-1,bottom)", "load_grid_data", "getXYZ_layer(nz-1,top)"};
            const int NOP = 7;
            auto run_seq = [&](const std::vector<int>& seq) {
                Opm::EclIO::EGrid eg(fn);
                std::string sname;
                for (int o : seq) {
                    sname += std::string(sname.empty() ? "" : " ; ") + opn[o];
                    bool ok = true;
                    if (o == 0 || o == 1) {
                        const size_t c = o == 0 ? 0 : n - 1; std::array<double, 8> X, Y, Z; eg.getCellCorners(int(c), X, Y, Z);
                        for (int q = 0; ok && q < 8; ++q) ok = X[q] == ref[c][q] && Y[q] == ref[c][8 + q] && Z[q] == ref[c][16 + q];
                    } else if (o == 5) eg.load_grid_data();
                    else {
                        const int layer = (o == 2 || o == 3) ? 0 : nz - 1; const bool bottom = (o == 3 || o == 4);
                        std::vector<std::array<float, 3>> xyz;
                        try { xyz = eg.getXYZ_layer(layer, bottom); }
                        catch (const std::exception& e) {       // documented refusal: no partial ZCORN load from a formatted file
                            if (fmt && std::string(e.what()).find("partial loading") != std::string::npos) { R->count("egrid_partial_load_refused_formatted"); return; }
                            throw;
                        }
                        ok = xyz.size() == size_t(nx) * ny * 4;
                        for (int j = 0; ok && j < ny; ++j) for (int i = 0; ok && i < nx; ++i) for (int q = 0; ok && q < 4; ++q) {
                            const size_t c = i + size_t(nx) * (j + size_t(ny) * layer); const auto& p = xyz[(size_t(j) * nx + i) * 4 + q]; const int r = q + (bottom ? 4 : 0);
                            ok = p[0] == float(ref[c][r]) && p[1] == float(ref[c][8 + r]) && p[2] == float(ref[c][16 + r]);
                        }
                    }
                    if (!ok) { V("egrid-access-order", "EGrid query " + std::string(opn[o]) + " answers differently from a fresh reader after the sequence [" + sname + "] on one object"); return; }
                }
                R->count("egrid_access_sequences");
            };
            std::vector<int> seq;
            std::function<void()> rec = [&]() { if (!seq.empty()) run_seq(seq); if (seq.size() == 3) return; for (int o = 0; o < NOP; ++o) { seq.push_back(o); rec(); seq.pop_back(); } };
            rec();
        } catch (const std::exception& e) { V("egrid-access-order-throws", std::string("EGrid query sequence throws: ") + std::string(e.what()).substr(0, 300)); }
        try {
            EclipseGrid g2(fn);
            if (g2.getNXYZ() != std::array<int, 3>{nx, ny, nz}) { V("load-dims", "EclipseGrid(file) has other dimensions" + ps); continue; }
            if (g2.getActiveMap() != glob || g2.getNumActive() != glob.size()) V("load-actnum", "EclipseGrid(file) has a different active set" + ps);
            else check_index(g2, nx, ny, nz, act, {}, "egrid-load", "EclipseGrid(file)", cas);
            bool ok = g2.getCOORD().size() == g1->getCOORD().size(); for (size_t p = 0; ok && p < g2.getCOORD().size(); ++p) ok = close(g2.getCOORD()[p], g1->getCOORD()[p], FT);
            if (!ok) V("load-coord", "COORD (SI) after load differs beyond float precision" + ps);
            ok = g2.getZCORN().size() == g1->getZCORN().size(); for (size_t p = 0; ok && p < g2.getZCORN().size(); ++p) ok = close(g2.getZCORN()[p], g1->getZCORN()[p], FT);
            if (!ok) V("load-zcorn", "ZCORN (SI) after load differs beyond float precision" + ps);
            const std::vector<double> o2 = observe_geom(g2);
            for (size_t c = 0; c < n; ++c) {
                const double *a = &o1[c * NQ], *b = &o2[c * NQ];
                const double tv = 16 * std::fabs(a[0]) * delta * (1 / a[5] + 1 / a[6] + 1 / a[7]);
                std::string bad;
                if (!(std::fabs(a[0] - b[0]) <= tv) || !(std::fabs(a[10] - b[10]) <= tv)) bad = "volume";
                else if (!(std::fabs(a[1] - b[1]) <= 8 * delta && std::fabs(a[2] - b[2]) <= 8 * delta && std::fabs(a[3] - b[3]) <= 8 * delta)) bad = "centre";
                else if (!(std::fabs(a[4] - b[4]) <= 8 * delta)) bad = "depth";
                else if (!(std::fabs(a[5] - b[5]) <= 8 * delta && std::fabs(a[6] - b[6]) <= 8 * delta && std::fabs(a[7] - b[7]) <= 8 * delta)) bad = "celldims";
                if (!bad.empty()) { V("load-" + bad, bad + " of cell " + S(c) + " after load: " + vf::fmt17(bad == "volume" ? b[0] : bad == "depth" ? b[4] : b[1]) + " vs " + vf::fmt17(bad == "volume" ? a[0] : bad == "depth" ? a[4] : a[1]) + " before" + ps); break; }
            }
            const auto& m1 = g1->getMapAxes(); const auto& m2 = g2.getMapAxes();
            if (m1.has_value() != ms.on) V("build-mapaxes", "deck MAPAXES not internalised");
            if (m2.has_value() != ms.on) V("load-mapaxes", std::string("map axes ") + (ms.on ? "lost" : "invented") + " on load" + ps);
            else if (ms.on) {
                double x1 = 123.0, y1 = 45.0, x2 = 123.0, y2 = 45.0; m1->transform(x1, y1); m2->transform(x2, y2);
                if (!(*m1 == *m2) || m2->input().size() != 6 || !std::equal(ms.v, ms.v + 6, m2->input().begin()) || m2->mapunits().has_value() != (ms.units != nullptr) || (ms.units && m2->mapunits().value() != ms.units) || !close(x1, x2, 1e-12) || !close(y1, y2, 1e-12))
                    V("load-mapaxes", "map axes (input values / MAPUNITS / transform) differ after load" + ps);
            }
        } catch (const std::exception& e) { V("load-throws", std::string("EclipseGrid(file) throws: ") + std::string(e.what()).substr(0, 300) + ps); }
    }
    ::unlink(fn.c_str());
}

// ================================================================= main ====
static void do_case(const std::string& c) {
    R->current(c);
    R->evaluations++;
    char k = 0; int a[9] = {0};
    const int got = std::sscanf(c.c_str(), "%c %d %d %d %d %d %d %d %d %d", &k, &a[0], &a[1], &a[2], &a[3], &a[4], &a[5], &a[6], &a[7], &a[8]);
    auto need = [&](int m) { if (got < m + 1) throw std::runtime_error("bad case string: " + c); };
    if (k == 'A') { need(5); case_A(a[0], a[1], a[2], a[3], a[4], c); R->count("cases_index"); }
    else if (k == 'B') { need(8); case_B(a[0], a[1], a[2], a[3], a[4], a[5], a[6], a[7], c); R->count("cases_forms"); }
    else if (k == 'P') { need(8); case_P(a[0], a[1], a[2], a[3], a[4], a[5], a[6], a[7], c); R->count("cases_short_forms"); }
    else if (k == 'C') { need(8); case_C(CSpec{a[0], a[1], a[2], a[3], a[4], a[5], a[6], got >= 10 ? a[8] : 0}, a[7], c); if (got >= 10 && a[8]) R->count("cases_cpg_mirrored"); R->count("cases_cpg"); }
    else if (k == 'D') { need(1); case_D(a[0], c); R->count("cases_big_thread_grids"); }
    else if (k == 'E') { need(8); case_E(a[0], a[1], a[2], a[3], a[4], a[5], a[6], a[7], c); R->count("cases_egrid"); }
    else if (k == 'F') { need(8); g_derive = true; try { case_E(a[0], a[1], a[2], a[3], a[4], a[5], a[6], a[7], c); } catch (...) { g_derive = false; throw; } g_derive = false; R->count("cases_egrid_derived"); }
    else throw std::runtime_error("bad case string: " + c);
    if (g_batch.size() >= 1500) flush_threads();
}

int main(int argc, char** argv) {
    if (argc == 4 && std::string(argv[1]) == "--child") return child_main(argv[2], argv[3]);
    vf::Run run("C13", argc, argv); R = &run;
    const char* sc = std::getenv("VERIF_SCRATCH");
    g_dir = std::string(sc ? sc : "/tmp") + "/C13." + std::to_string(getpid());
    if (std::system(("mkdir -p " + g_dir).c_str())) return 2;
    Opm::Parser parser; g_parser = &parser;
    const bool th = run.thorough();
    run.rule =
        "A index: all dims {1,2,3}^3 x ACTNUM (all 2^n patterns for n<=8 cells, 16 structured otherwise) x 5 construction paths, and every resetACTNUM transition p->q of those patterns; model = rank among active cells in natural order. "
        "B forms: dims " + std::string(th ? "{1..4}^3" : "{3x3x3, 2x3x4, 4x1x2, 1x1x1}") + " x per-direction sizes {uniform,increasing,mixed} (+ per-cell DZ) x top {flat, per-column TOPS steps, planar DEPTHZ tilt, DEPTHZ saddle} x 4 unit systems, each in every applicable form of {DX/DY/DZ/TOPS, same with full TOPS, DXV/DYV/DZV/TOPS, DXV/DY/DZV/TOPS, DXV/DYV/DZV/DEPTHZ, COORD/ZCORN}: 1e-12 rel to closed forms and to the COORD/ZCORN form; HANDEDNESS: the COORD/ZCORN form also mirrored in x, in y and in both (pillar x -> xmax - x, same cell indices): volumes positive and equal to the closed form, centres/corners mirrored. EGRID files additionally: every sequence of <= 3 queries {getCellCorners first/last, getXYZ_layer top/bottom of first/last layer, load_grid_data} on one EGrid object must answer like a fresh reader. P short forms: the same dims x DZ {increasing, mixed, per-cell} x top {flat, steps} x every number L=1..nz of given layers of DZ (and of DX, DY, DZ), missing layers completed by the library, against the closed form and COORD/ZCORN. "
        "C cpg: dims " + std::string(th ? "{1,2,3}^3 x 3 spacings" : "{2x2x2,3x2x2,1x1x1,2x3x1} x 2 spacings") + " x 25 pillar configurations (9 parallel shears, 16 converging/diverging) x layer surfaces {horizontal, tilt, wedge, alternating (all planar), bilinear saddle (non-planar, separate :nonplanar keys)}; non-parallel pillars only horizontal x 6 fault-throw patterns x 4 unit systems, and x handedness {mirrored in x, in y, in both} x " + std::string(th ? "{METRIC,FIELD}" : "{METRIC}") + ": exact prism/frustum volume of the unmirrored cell (mirror = isometry), positivity, 2x2x2 trilinear-subdivision additivity (1e-10 rel). "
        "D threads: every grid of B and C (incl. refined) plus 48 12x12x6 grids (4 geometries x 3 ACTNUM x 4 handednesses), OMP_NUM_THREADS in {1,2,4,16} in re-exec'ed children vs in-process, bitwise. "
        "E egrid: 4 geometries x dims x 5 ACTNUM x deck units(4) x save units(4) x {formatted,unformatted} x NNC {none, literal list, NNC keyword} x MAPAXES {none, plain, FEET, rotated METRES} x {first,second save}; plus 3 mirrored geometries (left-handed in x, in y, mirrored in both) x dims x 5 ACTNUM x 4 units x {formatted,unformatted} x MAPAXES {none, rotated}; distinct = distinct observation vectors / file bytes";
    run.assumptions = {
        "index model: active index = rank of the cell among the active cells in natural (i fastest) order; an inactive cell must not map to a valid active index (an exception is accepted)",
        "forms: DX/DY depend only on i resp. j (the TOPS form of the library has no defined geometry for DX varying with k); sizes and depths (~100 length units) chosen so that cancellation keeps rounding below 1e-13; DEPTHZ saddle tops are judged with the vertical-pillar identity V = DX*DY*DZ",
        "cpg: exact volumes for planar-faced cells: parallel sheared pillars with planar layer surfaces (shear has determinant 1) and converging/diverging pillars with horizontal cell faces (frustum integral). Additivity is asserted only where trilinear 2x2x2 subdivision is representable as COORD/ZCORN and parent = sum of children is a theorem of the trilinear cell: parallel pillars, or horizontal cell faces. The bilinear-saddle surface class (parallel pillars) has non-planar faces: it is outside the property text, is judged under the library's documented trilinear (Ponting) cell model and reports under keys ending in :nonplanar",
        "threads: cross-thread-count differential in separate processes (OMP_NUM_THREADS 1,2,4,16; team size verified in the child), NOT a controlled-scheduler exploration: a data race would be caught with high probability only",
        "egrid: geometry compared to float precision of the file (2.5e-7 relative per COORD/ZCORN value; derived quantities with the propagated bound); NNC transmissibilities are not part of an EGRID file and are not compared; PVT-M save refusal with std::exception is counted as unsupported_by_writer, a silent PVT-M write would be judged like METRIC",
        "handedness: a grid whose x (or y) coordinate decreases with I (J) is a legal COORD/ZCORN description; the harness mirrors only the pillars (ZCORN and indices unchanged), so cell (i,j,k) is compared with the mirror image of the same cell; the signed Ponting sum changes sign under one mirror, the volume must not",
        "values outside the size/shear/throw alphabets, LGRs, radial grids, GDFILE, PINCH/MINPV, GRIDUNIT keyword not covered"};

    if (!run.replay_path.empty()) {
        try { do_case(run.replay_path); flush_threads(); } catch (const std::logic_error& e) { harness_error(e.what()); }
        std::system(("rm -rf " + g_dir).c_str());
        return run.finish();
    }
    auto go = [&](const std::string& c) { if (run.timed_out()) return false; if (run.mine()) { do_case(c); if (run.samples.size() < 5 && run.evaluations % 97 == 1) run.sample_str(c); } return true; };
    auto J = [](std::initializer_list<int> v) { std::string s; for (int x : v) s += " " + std::to_string(x); return s; };
    bool alive = true;
    try {
        // A
        for (int nz = 1; nz <= 3 && alive; ++nz) for (int ny = 1; ny <= 3 && alive; ++ny) for (int nx = 1; nx <= 3 && alive; ++nx) {
            const int np = patterns(nx, ny, nz).size();
            for (int p = 0; p < np && alive; ++p) for (int ctor = 0; ctor < 5 && alive; ++ctor) alive = go("A" + J({nx, ny, nz, ctor, p}));
        }
        // B
        std::vector<std::array<int, 3>> bd;
        if (th) { for (int z = 1; z <= 4; ++z) for (int y = 1; y <= 4; ++y) for (int x = 1; x <= 4; ++x) bd.push_back({x, y, z}); }
        else bd = {{3, 3, 3}, {2, 3, 4}, {4, 1, 2}, {1, 1, 1}};
        for (auto& d : bd) for (int ax = 0; ax < 3 && alive; ++ax) for (int ay = 0; ay < 3 && alive; ++ay) for (int az = 0; az < 4 && alive; ++az) for (int top = 0; top < 4 && alive; ++top) {
            if (!b_valid(az, top)) continue;
            for (int u = 0; u < 4 && alive; ++u) alive = go("B" + J({d[0], d[1], d[2], ax, ay, az, top, u}));
        }
        // P: short DX/DY/DZ forms, every number of given layers
        for (auto& d : bd) for (int az = 1; az < 4 && alive; ++az) for (int top = 0; top < 2 && alive; ++top) for (int L = 1; L <= d[2] && alive; ++L) for (int which = 0; which < 2 && alive; ++which)
            for (int u = 0; u < 4 && alive; ++u) { if (!th && u != 0 && u != 1) continue; alive = go("P" + J({d[0], d[1], d[2], az, top, u, L, which})); }
        // C
        std::vector<std::array<int, 3>> cd;
        if (th) { for (int z = 1; z <= 3; ++z) for (int y = 1; y <= 3; ++y) for (int x = 1; x <= 3; ++x) cd.push_back({x, y, z}); }
        else cd = {{2, 2, 2}, {3, 2, 2}, {1, 1, 1}, {2, 3, 1}};
        for (auto& d : cd) for (int sp = 0; sp < (th ? 3 : 2) && alive; ++sp) for (int pil = 0; pil < 25 && alive; ++pil) for (int surf = 0; surf < 5 && alive; ++surf) for (int fault = 0; fault < 6 && alive; ++fault) {
            if (!c_valid(CSpec{d[0], d[1], d[2], sp, pil, surf, fault})) continue;
            for (int u = 0; u < 4 && alive; ++u) alive = go("C" + J({d[0], d[1], d[2], sp, pil, surf, fault, u}));
            // handedness: mirrored in x, in y, in both (quick: METRIC; thorough: METRIC and FIELD)
            for (int hand = 1; hand < 4 && alive; ++hand) for (int u = 0; u < (th ? 2 : 1) && alive; ++u) alive = go("C" + J({d[0], d[1], d[2], sp, pil, surf, fault, u, hand}));
        }
        // D
        for (int v = 0; v < 48 && alive; ++v) alive = go("D" + J({v}));
        // E
        for (int geo = 0; geo < 4 && alive; ++geo) for (int di = 0; di < (th ? 5 : 2) && alive; ++di) for (int ai = 0; ai < 5 && alive; ++ai) for (int du = 0; du < 4 && alive; ++du) for (int su = 0; su < 4 && alive; ++su)
            for (int fmt = 0; fmt < 2 && alive; ++fmt) for (int nn = 0; nn < 3 && alive; ++nn) for (int mp = 0; mp < 4 && alive; ++mp) alive = go("E" + J({geo, di, ai, du, su, fmt, nn, mp}));
        // E on mirrored (left-handed / doubly mirrored) corner-point grids: save units = deck units
        for (int geo = 4; geo < 7 && alive; ++geo) for (int di = 0; di < (th ? 5 : 2) && alive; ++di) for (int ai = 0; ai < 5 && alive; ++ai) for (int du = 0; du < 4 && alive; ++du)
            for (int fmt = 0; fmt < 2 && alive; ++fmt) for (int mp = 0; mp < 4 && alive; mp += 3) alive = go("E" + J({geo, di, ai, du, du, fmt, 0, mp}));
        // F: the same on grids derived with a new ZCORN
        for (int geo = 0; geo < 4 && alive; ++geo) for (int di = 0; di < (th ? 5 : 2) && alive; ++di) for (int ai = 0; ai < 5 && alive; ai += 2) for (int du = 0; du < 4 && alive; ++du)
            for (int fmt = 0; fmt < 2 && alive; ++fmt) alive = go("F" + J({geo, di, ai, du, du, fmt, 0, 0}));
        flush_threads();
    } catch (const std::logic_error& e) { harness_error(e.what()); }
    std::system(("rm -rf " + g_dir).c_str());
    return run.finish();
}
