// C05 — a restarted run continues from the same dynamic state and the same schedule.
//
// Bounded-exhaustive: (model deviations within a budget) x (complete product of unit system x FMTOUT x
// UNIFOUT x write_double x restart step n).  Every case runs the whole loop on the real code
//   generated deck -> Schedule -> [applyAction] -> out::Summary::eval / UDQConfig::eval for report steps 1..n
//   (schedule-consistent SummaryState / UDQState from a FINGERPRINT data::Wells) -> EclipseIO::writeTimeStep(n)
//   -> RstState::load -> Schedule(deck + RESTART + SKIPREST, &rst_state) -> EclipseIO::loadRestart,
//   Action::State::load_rst, UDQState::load_rst
// and is judged by two oracles written here:
//   1 (dynamic)  what was handed over comes back (solution/extra arrays, rates/pressures/active control of the
//                wells open in the schedule state the file describes, their connections and segments, cumulative
//                W/G/F totals, UDQ values, ACTIONX run records)
//   2 (schedule) obs::sched_restart (engine/obs_restart.hpp) of the restarted Schedule equals that of the
//                original Schedule at n and every later report step.
//
// Case string (= --replay argument):  M:<18 model digits, '.'-separated> [H:<whistctl.X1role.X1event.eventblock>] [R:<final-only>:<body.step,...>] [L:<maxwl>:<placement>:<op,op,...>] [G:<group.phase.mode.reinj.void.order.gconprod>] U:<0..3> F:<0|1> X:<0|1> D:<0|1> N:<1..3>
#include "vf.hpp"
#include "canon.hpp"
#include "obs.hpp"
#include "obs_restart.hpp"
#include "sched_includes.hpp"
#include <opm/common/OpmLog/OpmLog.hpp>
#include <opm/output/data/Cells.hpp>
#include <opm/output/data/Groups.hpp>
#include <opm/output/data/Solution.hpp>
#include <opm/output/data/Wells.hpp>
#include <opm/output/eclipse/EclipseIO.hpp>
#include <opm/output/eclipse/Inplace.hpp>
#include <opm/output/eclipse/RestartIO.hpp>
#include <opm/output/eclipse/RestartValue.hpp>
#include <opm/output/eclipse/Summary.hpp>
#include <opm/io/eclipse/ERst.hpp>
#include <opm/io/eclipse/RestartFileView.hpp>
#include <opm/io/eclipse/rst/state.hpp>
#include <opm/input/eclipse/EclipseState/IOConfig/IOConfig.hpp>
#include <opm/input/eclipse/EclipseState/InitConfig/InitConfig.hpp>
#include <opm/input/eclipse/EclipseState/SummaryConfig/SummaryConfig.hpp>
#include <opm/input/eclipse/EclipseState/Grid/RegionSetMatcher.hpp>
#include <opm/input/eclipse/Schedule/Action/ActionResult.hpp>
#include <opm/input/eclipse/Schedule/Action/ActionX.hpp>
#include <opm/input/eclipse/Schedule/Action/SimulatorUpdate.hpp>
#include <opm/input/eclipse/Schedule/Action/State.hpp>
#include <opm/input/eclipse/Schedule/MSW/SegmentMatcher.hpp>
#include <opm/input/eclipse/Schedule/UDQ/UDQState.hpp>
#include <opm/input/eclipse/Schedule/Well/WellTestState.hpp>
#include <filesystem>
#include <iostream>

using namespace Opm;
namespace fs = std::filesystem;

static vf::Run* R;
static Parser* g_parser;
static std::shared_ptr<Python> g_python;
static bool g_verbose = false;

static const char* USYS[4] = {"METRIC", "FIELD", "LAB", "PVT-M"};

// ------------------------------------------------------------------ model ---
// Every dimension: 0 = the full-featured default, other values = one deviation.
enum Dim { D_MSW, D_UDQ, D_ACT, D_P1ST, D_CSHUT, D_INJ, D_PCTL, D_GCTL, D_EFAC, D_NET, D_WLIST, D_HIST, D_DYN, D_CONN, D_WSPEC, D_WGC, D_VFP, D_TREE, NDIM };
static const int DIM_N[NDIM] = {5, 3, 4, 3, 2, 3, 5, 4, 3, 2, 2, 2, 3, 4, 2, 2, 2, 2};
// msw: 0 three segments / two branches, 1 standard well, 2 WSEGVALV, 3 WSEGSICD, 4 six segments with branch-interleaved numbering
static const char* DIM_NAME[NDIM] = {"msw", "udq", "actionx", "P1status", "connshut", "I1kind", "P1ctl", "groupctl", "efac", "network", "wlist", "wconhist", "dynstate", "P1conn", "welspecs", "wgrupcon", "vfp", "gruptree"};
// History-control sub-model (part B, complete product, not under the deviation budget):
//   h[0] WHISTCTL at the top of SCHEDULE: 0 none 1 ORAT 2 LRAT 3 RESV
//   h[1] role of an extra well X1 from block 0 on: 0 no such well, 1 producer (WCONPROD), 2 history producer (WCONHIST ORAT),
//        3 injector (WCONINJE), 4 history injector (WCONINJH)
//   h[2] event on X1 later: 0 none, 1 WCONHIST ORAT, 2 WCONHIST RESV, 3 WCONINJH, 4 WCONPROD LRAT
//   h[3] block of that event: 0 -> block 3 (at or after every restart step), 1 -> block 2 (before restart step 3)
static const int H_N[4] = {4, 5, 5, 2};
static const char* H_WHCTL[4] = {"", "ORAT", "LRAT", "RESV"};
struct Model {
    int d[NDIM] = {0};
    int h[4] = {0, 0, 0, 0};
    // Run-time history (part C): ACTIONX bodies B1..B6 applied with Schedule::applyAction on the ONE original Schedule object
    // between the restart writes.  rt = sequence of (body 1..6, report step at which it triggers); rt_final_only = 1: only the
    // final restart file is written (no intermediate writes that fill the lazily built caches)
    bool rt_on = false; int rt_final_only = 0; std::vector<std::pair<int, int>> rt;
    std::string rtstr() const { std::string s = std::to_string(rt_final_only) + ":"; for (size_t i = 0; i < rt.size(); ++i) s += (i ? "," : "") + std::to_string(rt[i].first) + "." + std::to_string(rt[i].second); return s; }
    // Well-list history (part D): WLIST operations on lists *A,*B,*C over wells P1,P2,P3.  An operation is "<N|A|D|M><list><well digits>"
    // (NEW/ADD/DEL/MOV), e.g. "NA12" = WLIST '*A' NEW P1 P2.  wl_place 0: operation i goes to block min(i,2), restart step n = min(len,3);
    // 1: all operations in block 0, n = 1.  wl_max = WELLDIMS item 11 (max well lists per well).
    bool wl_on = false; int wl_max = 1, wl_place = 0; std::vector<std::string> wl_ops;
    std::string wlstr() const { std::string s = std::to_string(wl_max) + ":" + std::to_string(wl_place) + ":"; for (size_t i = 0; i < wl_ops.size(); ++i) s += (i ? "," : "") + wl_ops[i]; return s; }
    // Group injection controls (part E): gi = {controlled group 0:G2 1:G3, phase 0:WATER 1:GAS, mode 0..5 = NONE RATE RESV REIN VREP FLD,
    // reinjection group, voidage group (0 defaulted, 1..3 = the other groups of the tree, see gi_other()), GRUPTREE order of the siblings
    // (0: G1 before G2, 1: G2 before G1), GCONPROD on the named group(s) 0/1}
    bool gi_on = false; int gi[7] = {0, 0, 0, 0, 0, 0, 0};
    std::string gistr() const { std::string s; for (int i = 0; i < 7; ++i) s += (i ? "." : "") + std::to_string(gi[i]); return s; }
    const char* gi_ctrl() const { return gi[0] ? "G3" : "G2"; }
    const char* gi_other(int k) const { static const char* o2[3] = {"G1", "G3", "FIELD"}; static const char* o3[3] = {"G1", "G2", "FIELD"}; return (gi[0] ? o3 : o2)[k - 1]; }
    int x1_water = 0;     // replay-only (token W:1): X1 declared with WELSPECS preferred phase WATER instead of OIL, see run.assumptions
    std::string hstr() const { return std::to_string(h[0]) + "." + std::to_string(h[1]) + "." + std::to_string(h[2]) + "." + std::to_string(h[3]); }
    std::string str() const { std::string s; for (int i = 0; i < NDIM; ++i) s += (i ? "." : "") + std::to_string(d[i]); return s; }
    std::string describe() const { std::string s; for (int i = 0; i < NDIM; ++i) if (d[i]) s += std::string(s.empty() ? "" : ",") + DIM_NAME[i] + "=" + std::to_string(d[i]); if (gi_on) s += std::string(s.empty() ? "" : ",") + "gconinje=" + gistr(); if (wl_on) s += std::string(s.empty() ? "" : ",") + "wlist=" + wlstr(); if (rt_on) s += std::string(s.empty() ? "" : ",") + "runtime=" + rtstr(); if (h[0] || h[1] || h[2] || h[3]) s += std::string(s.empty() ? "" : ",") + "whistctl/X1role/X1event/eventblock=" + hstr(); return s.empty() ? "default" : s; }
};
struct Case {
    Model m; int us = 0, fmt = 0, unif = 1, dbl = 0, n = 2;
    std::string str() const { return "M:" + m.str() + " H:" + m.hstr() + (m.x1_water ? " W:1" : "") + (m.rt_on ? " R:" + m.rtstr() : "") + (m.wl_on ? " L:" + m.wlstr() : "") + (m.gi_on ? " G:" + m.gistr() : "") + " U:" + std::to_string(us) + " F:" + std::to_string(fmt) + " X:" + std::to_string(unif) + " D:" + std::to_string(dbl) + " N:" + std::to_string(n); }
    static Case parse(const std::string& s) {
        Case c; std::istringstream ss(s); std::string tok;
        while (ss >> tok) {
            auto p = tok.find(':'); if (p == std::string::npos) throw std::runtime_error("bad case token " + tok);
            std::string k = tok.substr(0, p), v = tok.substr(p + 1);
            if (k == "M") { std::istringstream vs(v); std::string t; int i = 0; while (std::getline(vs, t, '.') && i < NDIM) c.m.d[i++] = std::atoi(t.c_str()); }
            else if (k == "H") { std::istringstream vs(v); std::string t; int i = 0; while (std::getline(vs, t, '.') && i < 4) c.m.h[i++] = std::atoi(t.c_str()); }
            else if (k == "W") c.m.x1_water = std::atoi(v.c_str());
            else if (k == "G") { c.m.gi_on = true; c.m.d[D_GCTL] = 1; std::istringstream vs(v); std::string t; int i = 0; while (std::getline(vs, t, '.') && i < 7) c.m.gi[i++] = std::atoi(t.c_str()); }
            else if (k == "L") {
                c.m.wl_on = true; c.m.d[D_UDQ] = 1;
                std::istringstream vs(v); std::string t; int i = 0;
                while (std::getline(vs, t, i < 2 ? ':' : ',')) { if (i == 0) c.m.wl_max = std::atoi(t.c_str()); else if (i == 1) c.m.wl_place = std::atoi(t.c_str()); else if (!t.empty()) c.m.wl_ops.push_back(t); ++i; }
            }
            else if (k == "R") {
                c.m.rt_on = true; c.m.rt_final_only = std::atoi(v.c_str());
                auto q = v.find(':'); std::istringstream vs(q == std::string::npos ? "" : v.substr(q + 1)); std::string t;
                while (std::getline(vs, t, ',')) { int b = 0, kk = 0; if (std::sscanf(t.c_str(), "%d.%d", &b, &kk) == 2) c.m.rt.push_back({b, kk}); }
            }
            else if (k == "U") c.us = std::atoi(v.c_str()); else if (k == "F") c.fmt = std::atoi(v.c_str()); else if (k == "X") c.unif = std::atoi(v.c_str());
            else if (k == "D") c.dbl = std::atoi(v.c_str()); else if (k == "N") c.n = std::atoi(v.c_str());
            else throw std::runtime_error("bad case key " + k);
        }
        return c;
    }
};

// Reference model of well lists: ordered members per list (NEW replaces, ADD appends, DEL removes, MOV removes everywhere then appends)
struct WlModel {
    std::map<char, std::vector<std::string>> lists; int max_membership = 0;
    bool exists(char l) const { return lists.count(l) > 0; }
    void apply(const std::string& op) {
        const char a = op[0], l = op[1]; std::vector<std::string> ws; for (size_t i = 2; i < op.size(); ++i) ws.push_back(std::string("P") + op[i]);
        auto rm = [](std::vector<std::string>& v, const std::string& w) { v.erase(std::remove(v.begin(), v.end(), w), v.end()); };
        if (a == 'N') lists[l] = ws;
        else if (a == 'A') { for (auto& w : ws) if (std::find(lists[l].begin(), lists[l].end(), w) == lists[l].end()) lists[l].push_back(w); }
        else if (a == 'D') { for (auto& w : ws) rm(lists[l], w); }
        else if (a == 'M') { for (auto& w : ws) { for (auto& kv : lists) rm(kv.second, w); lists[l].push_back(w); } }
        for (const char* w : {"P1", "P2", "P3"}) { int c = 0; for (auto& kv : lists) if (std::find(kv.second.begin(), kv.second.end(), std::string(w)) != kv.second.end()) ++c; max_membership = std::max(max_membership, c); }
    }
};
static std::string wl_keyword(const std::string& op) {
    const char* act = op[0] == 'N' ? "NEW" : op[0] == 'A' ? "ADD" : op[0] == 'D' ? "DEL" : "MOV";
    std::string s = std::string("WLIST\n '*") + op[1] + "' " + act; for (size_t i = 2; i < op.size(); ++i) s += std::string(" P") + op[i];
    return s + " /\n/\n";
}

static const int NSTEPS = 4;                         // DATES keywords => report steps 0..4
static const char* MONTHS[] = {"FEB", "MAR", "APR", "MAY"};

static std::string head_text(int us, int fmt, int unif, int restart_n, int maxwl = 1) {
    std::string s = "RUNSPEC\nTITLE\n C05 restart model\nDIMENS\n 3 3 3 /\nOIL\nWATER\nGAS\nDISGAS\n";
    s += std::string(USYS[us]) + "\n";
    if (fmt) s += "FMTOUT\nFMTIN\n";
    if (unif) s += "UNIFOUT\nUNIFIN\n";
    s += "TABDIMS\n 1 1 20 20 3 20 /\nEQLDIMS\n 1 /\nREGDIMS\n 3 /\nWELLDIMS\n 6 4 4 6 " + std::string(maxwl > 1 ? "6* " + std::to_string(maxwl) + " " : "") + "/\nWSEGDIMS\n 2 8 3 /\n"
         "UDQDIMS\n 10 10 4 4 4 4 4 4 4 4 4 /\nUDADIMS\n 10 1* 10 /\nACTDIMS\n 8 10 /\nNETWORK\n 5 4 /\nSTART\n 1 JAN 2020 /\n"
         "GRID\nDX\n 27*100 /\nDY\n 27*100 /\nDZ\n 27*10 /\nTOPS\n 9*2000 /\nPORO\n 27*0.3 /\nPERMX\n 27*100 /\nPERMY\n 27*50 /\nPERMZ\n 27*10 /\n"
         "ACTNUM\n 13*1 0 13*1 /\nPROPS\n"
         "SWOF\n 0.2 0 1 0.4\n 0.5 0.3 0.2 0.1\n 1.0 1.0 0.0 0.0 /\nSGOF\n 0.0 0 1 0\n 0.4 0.4 0.1 0.2\n 0.8 1.0 0.0 0.5 /\n"
         "PVTW\n 200 1.01 4e-5 0.5 0 /\nROCK\n 200 5e-5 /\nDENSITY\n 850 1000 1.1 /\n"
         "PVTO\n 10 20 1.10 1.5\n    60 1.08 1.7 /\n 40 80 1.25 1.1\n    150 1.22 1.2 /\n/\nPVDG\n 20 0.05 0.012\n 80 0.012 0.015\n 150 0.006 0.02 /\n"
         "REGIONS\nFIPNUM\n 9*1 9*2 9*3 /\nSOLUTION\n";
    if (restart_n > 0) s += "RESTART\n 'C05' " + std::to_string(restart_n) + " /\n";
    s += "SUMMARY\n";
    return s;
}

static std::string schedule_text(const Model& M, int restart_n) {
    const int* d = M.d;
    std::string s = "SCHEDULE\n";
    if (restart_n > 0) s += "SKIPREST\n";
    s += "RPTRST\n BASIC=2 /\n";
    const int* h = M.h;
    // WHISTCTL before any well exists (it would flip existing injectors otherwise)
    if (h[0]) s += std::string("WHISTCTL\n ") + H_WHCTL[h[0]] + " /\n";
    auto x1_event = [&]() -> std::string {
        switch (h[1] ? h[2] : 0) {
        case 1: return "WCONHIST\n 'X1' OPEN ORAT 50 60 500 /\n/\n";
        case 2: return "WCONHIST\n 'X1' OPEN RESV 50 60 500 /\n/\n";
        case 3: return "WCONINJH\n 'X1' WATER OPEN 150 /\n/\n";
        case 4: return "WCONPROD\n 'X1' OPEN LRAT 45 2* 90 1* 35 /\n/\n";
        default: return "";
        }
    };
    // ---- block 0
    if (M.gi_on && M.gi[5] == 1) s += "GRUPTREE\n 'G2' 'FIELD' /\n 'G1' 'FIELD' /\n 'G3' 'G2' /\n/\n";
    else s += "GRUPTREE\n 'G1' 'FIELD' /\n 'G2' 'FIELD' /\n 'G3' 'G2' /\n/\n";
    s += std::string("WELSPECS\n 'P1' 'G1' 1 1 2005 OIL ") + (d[D_WSPEC] == 1 ? "50.0 STD STOP NO " : "") + "/\n" + std::string(" 'P2' 'G1' 2 1 1* OIL /\n 'P3' 'G1' 3 1 1* OIL /\n 'I1' 'G3' 3 3 2010 ") + (d[D_INJ] == 1 ? "GAS" : "WATER") + " /\n/\n";
    s += std::string("COMPDAT\n") + (d[D_CONN] == 1 ? " 'P1' 1 1 1 3 OPEN 1* 12.5 0.2 1000 1.5 1* X /\n" : " 'P1' 1 1 1 3 OPEN 1* 1* 0.2 /\n") + (d[D_MSW] == 4 ? " 'P2' 2 1 1 3 OPEN 1* 1* 0.2 /\n" : " 'P2' 2 1 1 2 OPEN 1* 1* 0.2 /\n") + " 'P3' 3 1 1 2 OPEN 1* 12.5 0.25 /\n 'I1' 3 3 1 2 OPEN 1* 25.0 0.2 3* Z /\n/\n";
    // msw = 4: segment numbers interleaved between branches (main stem 1,2,5,6 on branch 1, lateral 3,4 on branch 2 off segment 2):
    // WellSegments keeps branches consecutive (storage order 1 2 5 6 3 4), so storage position != segment number - 1
    if (d[D_MSW] == 4) s += "WELSEGS\n 'P2' 2005 0 1* INC HF- /\n 2 2 1 1 10 10 0.2 0.0001 /\n 3 3 2 2 10 2 0.15 0.0002 /\n 4 4 2 3 10 2 0.15 0.0002 /\n 5 5 1 2 10 5 0.2 0.0001 /\n 6 6 1 5 10 5 0.2 0.0001 /\n/\n"
                            "COMPSEGS\n 'P2' /\n 2 1 1 1 10 20 /\n 2 1 2 2 20 30 /\n 2 1 3 1 20 30 /\n/\n";
    else if (d[D_MSW] != 1) s += "WELSEGS\n 'P2' 2005 0 1* INC HF- /\n 2 2 1 1 10 10 0.2 0.0001 /\n 3 3 2 2 10 5 0.15 0.0002 /\n/\nCOMPSEGS\n 'P2' /\n 2 1 1 1 0 10 /\n 2 1 2 2 10 20 /\n/\n";
    if (d[D_MSW] == 2) s += "WSEGVALV\n 'P2' 3 0.7 0.002 /\n/\n";
    if (d[D_MSW] == 3) s += "WSEGSICD\n 'P2' 3 3 0.001 1.2 /\n/\n";
    if (d[D_CONN] == 3) s += "COMPLUMP\n 'P1' 1 1 1 2 1 /\n 'P1' 1 1 3 3 2 /\n/\n";
    if (d[D_VFP] == 1) s += "VFPPROD\n 3 2000 OIL WCT GOR THP GRAT 1* BHP /\n 1 100 /\n 10 50 /\n 0 0.5 /\n 100 200 /\n 0 /\n 1 1 1 1 100 120 /\n 1 1 2 1 101 121 /\n 1 2 1 1 102 122 /\n 1 2 2 1 103 123 /\n 2 1 1 1 104 124 /\n 2 1 2 1 105 125 /\n 2 2 1 1 106 126 /\n 2 2 2 1 107 127 /\n";
    if (d[D_WGC] == 1) s += "WGRUPCON\n 'P1' YES 1.5 OIL 0.5 /\n 'P2' NO /\n/\n";
    if (d[D_HIST] == 0) s += "WCONHIST\n 'P1' OPEN ORAT 90 10 1000 /\n 'P2' OPEN ORAT 80 20 2000 /\n/\n";
    else s += "WCONPROD\n 'P1' OPEN ORAT 90 4* 40 /\n 'P2' OPEN ORAT 80 4* 45 /\n/\n";
    s += "WCONPROD\n 'P3' STOP ORAT 30 4* 35 /\n/\n";
    if (d[D_INJ] == 0) s += "WCONINJE\n 'I1' WATER OPEN RATE 200 1* 500 /\n/\n";
    else if (d[D_INJ] == 1) s += "WCONINJE\n 'I1' GAS OPEN RATE 20000 1* 500 /\n/\n";
    else s += "WCONINJE\n 'I1' WATER OPEN BHP 200 1* 450 /\n/\n";
    if (M.gi_on) {
        // part E: GCONINJE with every target given, explicit or defaulted reinjection / voidage group, guide rate 12.5 RATE
        static const char* MODE[6] = {"NONE", "RATE", "RESV", "REIN", "VREP", "FLD"};
        const std::string rg = M.gi[3] ? std::string("'") + M.gi_other(M.gi[3]) + "'" : "1*", vg = M.gi[4] ? std::string("'") + M.gi_other(M.gi[4]) + "'" : "1*";
        if (M.gi[6]) {
            std::set<std::string> named; if (M.gi[3]) named.insert(M.gi_other(M.gi[3])); if (M.gi[4]) named.insert(M.gi_other(M.gi[4])); if (named.empty()) named.insert("G1");
            s += "GCONPROD\n"; for (const auto& g : named) s += " '" + g + "' ORAT " + (g == "FIELD" ? "3000" : "1000") + " /\n"; s += "/\n";
        }
        s += std::string("GCONINJE\n '") + M.gi_ctrl() + "' " + (M.gi[1] ? "GAS" : "WATER") + " " + MODE[M.gi[2]] + (M.gi[1] ? " 50000 60000" : " 500 600") + " 0.75 0.875 YES 12.5 RATE " + rg + " " + vg + " /\n/\n";
    }
    if (h[1]) {
        s += std::string("WELSPECS\n 'X1' 'G1' 1 2 1* ") + (M.x1_water ? "WATER" : "OIL") + " /\n/\nCOMPDAT\n 'X1' 1 2 1 2 OPEN 1* 1* 0.2 /\n/\n";
        if (h[1] == 1) s += "WCONPROD\n 'X1' OPEN ORAT 40 4* 30 /\n/\n";
        if (h[1] == 2) s += "WCONHIST\n 'X1' OPEN ORAT 40 5 400 /\n/\n";
        if (h[1] == 3) s += "WCONINJE\n 'X1' WATER OPEN RATE 120 1* 400 /\n/\n";
        if (h[1] == 4) s += "WCONINJH\n 'X1' WATER OPEN 120 /\n/\n";
    }
    if (d[D_EFAC] == 0) s += "WEFAC\n 'P1' 0.8 /\n/\nGEFAC\n 'G1' 0.9 /\n/\n";
    else if (d[D_EFAC] == 2) s += "WEFAC\n 'P1' 0.5 /\n 'I1' 0.75 /\n/\nGEFAC\n 'G1' 0.25 /\n 'G3' 0.5 /\n/\n";
    if (d[D_WLIST] == 0 && !M.wl_on) s += "WLIST\n '*L1' NEW P1 P2 /\n '*L2' NEW I1 /\n/\n";
    auto wl_block = [&](int blk) -> std::string {        // part D: the WLIST operations of this block
        std::string t; if (!M.wl_on) return t;
        for (size_t i = 0; i < M.wl_ops.size(); ++i) if ((M.wl_place == 1 ? 0 : (int)std::min<size_t>(i, 2)) == blk) t += wl_keyword(M.wl_ops[i]);
        return t;
    };
    s += wl_block(0);
    if (d[D_UDQ] != 2) s += "UDQ\n ASSIGN WUOR 95 /\n ASSIGN FUX 3.5 /\n ASSIGN FUGO 1000 /\n ASSIGN WUIR 200 /\n DEFINE GUY GOPR * 2 /\n DEFINE FUY FOPR * 2 + 1 /\n DEFINE WUZ WOPR + WWPR /\n UNITS WUOR SM3/DAY /\n/\n";
    if (M.rt_on) {
        s += "UDQ\n ASSIGN WUO2 77 /\n ASSIGN WUI2 180 /\n ASSIGN WUWR 60 /\n/\n";
        static const char* BODY[6] = {
            "WCONPROD\n 'P1' OPEN ORAT 88 4* 50 /\n/\n",                 // B1: a number replaces the UDA target
            "WCONPROD\n 'P1' OPEN ORAT WUO2 4* 50 /\n/\n",               // B2: another UDA replaces the UDA target
            "WCONINJE\n 'I1' WATER OPEN RATE WUI2 1* 500 /\n/\n",        // B3: same for the injector
            "WELTARG\n 'P1' ORAT 70 /\n/\n",                             // B4: WELTARG number on a UDA-controlled well
            "WELOPEN\n 'P2' SHUT /\n/\n",                                // B5: no UDA involved
            "WCONPROD\n 'P2' OPEN ORAT WUOR WUWR 3* 55 /\n/\n",          // B6: UDAs (same item as P1, and a new item) on a well that had none
        };
        for (int b = 0; b < 6; ++b) s += "ACTIONX\n B" + std::to_string(b + 1) + " 4 /\n FOPR > 0 /\n/\n" + BODY[b] + "ENDACTIO\n";
    }
    if (d[D_ACT] != 2) s += std::string("ACTIONX\n A1 2 /\n WOPR 'P1' > 0 AND /\n ") + (d[D_ACT] == 3 ? "FWCT > 0.0000025" : "FWCT < 0.95") + " /\n/\nWELTARG\n '?' BHP 60 /\n/\nENDACTIO\n";
    if (d[D_NET] == 0) s += "BRANPROP\n 'G1' 'FIELD' 9999 /\n 'G2' 'FIELD' 9999 /\n/\nNODEPROP\n 'FIELD' 20 /\n 'G1' 1* NO /\n 'G2' 1* NO /\n/\n";
    s += std::string("DATES\n 1 ") + MONTHS[0] + " 2020 /\n/\n";
    // ---- block 1
    {
        const std::string orat = d[D_UDQ] == 0 ? "WUOR" : "95";
        switch (d[D_PCTL]) {
        case 0: s += "WCONPROD\n 'P1' OPEN ORAT " + orat + " 4* 50 /\n"; break;
        case 1: s += "WCONPROD\n 'P1' OPEN LRAT " + orat + " 2* 150 1* 50 /\n"; break;
        case 2: s += "WCONPROD\n 'P1' OPEN BHP " + orat + " 4* 50 /\n"; break;
        case 3: s += "WCONPROD\n 'P1' OPEN GRUP " + orat + " 4* 50 /\n"; break;
        default: s += "WCONPROD\n 'P1' OPEN RESV " + orat + " 3* 300 50 /\n"; break;
        }
        s += std::string(" 'P2' OPEN ORAT 85 4* 55 ") + (d[D_VFP] == 1 ? "15 3 0.5 " : "") + "/\n/\n";
        if (d[D_INJ] == 0 && d[D_UDQ] == 0) s += "WCONINJE\n 'I1' WATER OPEN RATE WUIR 1* 500 /\n/\n";
        if (M.rt_on) s += "WCONPROD\n 'P3' STOP ORAT WUOR 4* 35 /\n/\n";      // a second well with a UDA on the same control item as P1
    }
    switch (d[D_GCTL]) {
    case 0: s += std::string("GCONPROD\n 'G1' ORAT ") + (d[D_UDQ] == 0 ? "FUGO" : "1000") + " 2* 1500 RATE /\n/\nGCONINJE\n 'G2' WATER RATE 500 /\n/\n"; break;
    case 1: break;
    case 2: s += "GCONPROD\n 'G1' LRAT 1000 2* 1500 RATE YES 50 OIL /\n/\nGCONINJE\n 'G2' WATER VREP 3* 0.875 /\n/\n"; break;
    default: s += "GCONPROD\n 'FIELD' ORAT 3000 /\n 'G1' GRAT 2* 50000 /\n/\nGCONINJE\n 'G3' GAS REIN 2* 0.75 /\n/\n"; break;
    }
    if (d[D_CONN] == 2) s += "WPIMULT\n 'P1' 2.0 /\n/\n";
    if (d[D_CSHUT] == 0) s += "WELOPEN\n 'P1' SHUT 0 0 2 /\n/\n";
    if (d[D_P1ST] == 1) s += "WELOPEN\n 'P1' SHUT /\n/\n";
    if (d[D_P1ST] == 2) s += "WELOPEN\n 'P1' STOP /\n/\n";
    s += wl_block(1);
    s += std::string("DATES\n 1 ") + MONTHS[1] + " 2020 /\n/\n";
    // ---- block 2
    s += "WELSPECS\n 'I2' 'G3' 1 3 1* GAS /\n/\nCOMPDAT\n 'I2' 1 3 3 3 OPEN 1* 1* 0.2 /\n/\nWCONINJE\n 'I2' GAS OPEN RATE 30000 1* 480 /\n/\n";
    s += "WELOPEN\n 'P3' SHUT /\n/\n";
    if (d[D_WLIST] == 0 && !M.wl_on) s += "WLIST\n '*L1' ADD P3 /\n/\n";
    s += wl_block(2);
    s += "WELTARG\n 'P2' ORAT 66 /\n/\n";
    if (h[3] == 1) s += x1_event();
    s += std::string("DATES\n 1 ") + MONTHS[2] + " 2020 /\n/\n";
    // ---- block 3
    s += "WELOPEN\n 'P3' OPEN /\n/\n";
    if (h[3] == 0) s += x1_event();
    WlModel wlm; if (M.wl_on) for (const auto& op : M.wl_ops) wlm.apply(op);
    if (M.wl_on) { int i = 0; for (const auto& kv : wlm.lists) { if (!kv.second.empty()) s += std::string("WELTARG\n '*") + kv.first + "' ORAT " + std::to_string(61 + 4 * i) + " /\n/\n"; ++i; } }
    if (d[D_TREE] == 1) s += "GRUPTREE\n 'G3' 'FIELD' /\n/\n";
    if (d[D_P1ST] != 0) s += "WELOPEN\n 'P1' OPEN /\n/\n";
    if (d[D_CSHUT] == 0) s += "WELOPEN\n 'P1' OPEN 0 0 2 /\n/\n";
    if (d[D_EFAC] != 1) s += "WEFAC\n 'P1' 0.625 /\n/\n";
    if (d[D_GCTL] != 1) s += "GCONPROD\n 'G1' LRAT 3* 1250 RATE /\n/\n";
    s += std::string("DATES\n 1 ") + MONTHS[3] + " 2020 /\n/\n";
    // ---- block 4
    s += "WCONPROD\n 'P2' OPEN LRAT 70 2* 140 1* 45 /\n/\nWELTARG\n 'I1' BHP 420 /\n/\n";
    if (M.wl_on) { char last = 0; for (const auto& kv : wlm.lists) if (!kv.second.empty()) last = kv.first; if (last) s += std::string("WELOPEN\n '*") + last + "' SHUT /\n/\n"; }
    s += "END\n";
    return s;
}

// --------------------------------------------------------------- fingerprints
// Every scalar handed to the writer is base(quantity) * (1 + w/8 + sub/64 + k/512): dyadic multipliers, so two
// different (quantity, well, connection/segment, step) slots never carry the same number.
enum Q { Q_OIL, Q_WAT, Q_GAS, Q_ROIL, Q_RWAT, Q_RGAS, Q_BHP, Q_THP, Q_TEMP, Q_CPR, Q_SPR, NQ };
static const double QBASE[NQ] = {1.0e-3, 2.0e-3, 0.5, 1.25e-3, 2.125e-3, 3.0e-3, 2.0e7, 5.0e6, 350.0, 1.9e7, 1.8e7};
static double fp(int q, int w, int sub, int k, int dyn) {
    double v = QBASE[q] * (1.0 + w / 8.0 + sub / 64.0 + k / 512.0);
    if (dyn == 2) v *= (q <= Q_RGAS ? 3.0e-3 : 1.0 / 3.0);        // second fingerprint set: other magnitudes, not dyadic
    return v;
}
static const char* WNAMES[6] = {"P1", "P2", "P3", "I1", "I2", "X1"};
static int windex(const std::string& n) { for (int i = 0; i < 6; ++i) if (n == WNAMES[i]) return i; return 7; }

// the dynamic state the "simulator" hands over at report step k (describing schedule state k-1)
static data::Wells make_wells(const Schedule& sched, const Model& M, int k) {
    using O = data::Rates::opt;
    data::Wells wells;
    const int dyn = M.d[D_DYN];
    for (const auto& w : sched.getWells(k - 1)) {
        const int wi = windex(w.name());
        data::Well dw;
        const auto status = w.getStatus();
        dw.dynamicStatus = status;
        const bool flows = status == Well::Status::OPEN;
        const bool prod = w.isProducer();
        const auto itype = prod ? InjectorType::WATER : w.injectorType();
        auto phase_rate = [&](int q, int sub, double scale) -> double {
            if (!flows) return 0.0;
            const int ph = q % 3;                                   // 0 oil 1 water 2 gas
            if (prod) return -scale * fp(q, wi, sub, k, dyn);
            const bool inj_phase = (itype == InjectorType::WATER && ph == 1) || (itype == InjectorType::GAS && ph == 2) || (itype == InjectorType::OIL && ph == 0);
            return inj_phase ? scale * fp(q, wi, sub, k, dyn) : 0.0;
        };
        static const O opts[6] = {O::oil, O::wat, O::gas, O::reservoir_oil, O::reservoir_water, O::reservoir_gas};
        for (int q = 0; q < 6; ++q) dw.rates.set(opts[q], phase_rate(q, 0, 1.0));
        dw.bhp = flows ? fp(Q_BHP, wi, 0, k, dyn) : 0.0;
        dw.thp = flows ? fp(Q_THP, wi, 0, k, dyn) : 0.0;
        dw.temperature = fp(Q_TEMP, wi, 0, k, dyn);
        dw.control = 1;
        // active control: the requested one by default; dyn==1: a different, still legal one (BHP)
        dw.current_control.isProducer = prod;
        if (prod) {
            auto cm = w.getProductionProperties().controlMode;
            if (dyn == 1 && cm != Well::ProducerCMode::BHP) cm = Well::ProducerCMode::BHP;
            else if (dyn == 1) cm = Well::ProducerCMode::ORAT;
            dw.current_control.prod = cm;
        } else {
            auto cm = w.getInjectionProperties().controlMode;
            if (dyn == 1 && cm != Well::InjectorCMode::BHP) cm = Well::InjectorCMode::BHP;
            else if (dyn == 1) cm = Well::InjectorCMode::RATE;
            dw.current_control.inj = cm;
        }
        int ci = 0;
        for (const auto& c : w.getConnections()) {
            data::Connection dc{};
            dc.index = c.global_index();
            const bool copen = flows && c.state() == Connection::State::OPEN;
            for (int q = 0; q < 6; ++q) dc.rates.set(opts[q], copen ? phase_rate(q, ci + 1, 0.25) : 0.0);
            // a STOPped well is shut at the surface but its open connections cross-flow (in through one, out through the next)
            if (status == Well::Status::STOP && c.state() == Connection::State::OPEN)
                for (int q = 0; q < 6; ++q) dc.rates.set(opts[q], (ci % 2 ? 1.0 : -1.0) * 0.015625 * fp(q, wi, ci + 1, k, dyn));
            dc.pressure = fp(Q_CPR, wi, ci + 1, k, dyn);
            dc.reservoir_rate = copen ? dc.rates.get(O::reservoir_oil) + dc.rates.get(O::reservoir_water) + dc.rates.get(O::reservoir_gas) : 0.0;
            dc.cell_pressure = dc.pressure * 1.03125; dc.cell_saturation_water = 0.25; dc.cell_saturation_gas = 0.125;
            dc.effective_Kh = c.Kh(); dc.trans_factor = c.CF(); dc.d_factor = 0.0; dc.compact_mult = 1.0;
            dw.connections.push_back(dc);
            ++ci;
        }
        if (w.isMultiSegment()) {
            for (const auto& sg : w.getSegments()) {
                data::Segment ds{};
                ds.segNumber = sg.segmentNumber();
                for (int q = 0; q < 3; ++q) ds.rates.set(opts[q], phase_rate(q, 8 + sg.segmentNumber(), 0.5));
                ds.pressures[data::SegmentPressures::Value::Pressure] = fp(Q_SPR, wi, sg.segmentNumber(), k, dyn);
                dw.segments[ds.segNumber] = ds;
            }
        }
        wells[w.name()] = dw;
    }
    return wells;
}

static data::GroupAndNetworkValues make_groups(const Schedule& sched, int k) {
    data::GroupAndNetworkValues g;
    for (const auto& gn : sched.groupNames(k - 1)) {
        const auto& grp = sched.getGroup(gn, k - 1);
        auto pc = grp.isProductionGroup() ? grp.prod_cmode() : Group::ProductionCMode::NONE;
        auto wi = grp.hasInjectionControl(Phase::WATER) ? grp.injectionProperties(Phase::WATER).cmode : Group::InjectionCMode::NONE;
        auto gi = grp.hasInjectionControl(Phase::GAS) ? grp.injectionProperties(Phase::GAS).cmode : Group::InjectionCMode::NONE;
        g.groupData[gn].currentControl.set(pc, gi, wi);
        g.nodeData[gn].pressure = 3.0e6;
    }
    return g;
}

struct ArrDef { const char* name; UnitSystem::measure m; data::TargetType target; double base, inc; };
static const ArrDef ARRS[] = {
    {"PRESSURE", UnitSystem::measure::pressure, data::TargetType::RESTART_SOLUTION, 2.0e7, 1.0e4},
    {"SWAT", UnitSystem::measure::identity, data::TargetType::RESTART_SOLUTION, 0.2, 0.0078125},
    {"SGAS", UnitSystem::measure::identity, data::TargetType::RESTART_SOLUTION, 0.1, 0.00390625},
    {"RS", UnitSystem::measure::gas_oil_ratio, data::TargetType::RESTART_SOLUTION, 50.0, 1.5},
    {"RV", UnitSystem::measure::oil_gas_ratio, data::TargetType::RESTART_SOLUTION, 1.0e-4, 3.0e-6},
    {"TEMP", UnitSystem::measure::temperature, data::TargetType::RESTART_SOLUTION, 330.0, 1.25},
    {"FIPOIL", UnitSystem::measure::liquid_surface_volume, data::TargetType::RESTART_SOLUTION, 100.0, 2.5},
    {"SOMAX", UnitSystem::measure::identity, data::TargetType::RESTART_OPM_EXTENDED, 0.6, 0.001953125},
    {"RSSAT", UnitSystem::measure::gas_oil_ratio, data::TargetType::RESTART_AUXILIARY, 70.0, 0.75},
};
struct ExtraDef { const char* name; UnitSystem::measure m; int size; double base, inc; };
static const ExtraDef EXTRAS[] = {
    {"OPMEXTRA", UnitSystem::measure::identity, 1, 43200.0, 0.0},
    {"EXTRAP", UnitSystem::measure::pressure, 3, 1.5e7, 2.0e5},
    {"FLOGASN+", UnitSystem::measure::gas_surface_rate, 5, 0.25, 0.03125},
};
static double arr_value(const ArrDef& a, int cell, int n) { return a.base + a.inc * (cell + 0.5 * n); }
static double extra_value(const ExtraDef& a, int i, int n) { return a.base + a.inc * (i + 0.5 * n); }

// ------------------------------------------------------------------ caches ---
static std::map<int, std::unique_ptr<EclipseState>> g_es;             // base EclipseState per (us, fmt, unif, restart_n)
static const EclipseState& es_for(int us, int fmt, int unif, int rn, int maxwl = 1) {
    int key = (((us * 2 + fmt) * 2 + unif) * 8 + rn) * 4 + maxwl;
    auto& p = g_es[key];
    if (!p) {
        auto d = g_parser->parseString(head_text(us, fmt, unif, rn, maxwl) + "SCHEDULE\nEND\n");
        p = std::make_unique<EclipseState>(d);
        p->getIOConfig().setBaseName("C05");
        p->getIOConfig().setOutputDir(".");
        p->getIOConfig().setEclCompatibleRST(false);
    }
    return *p;
}

// ----------------------------------------------------------------- outcome ---
struct Failure { std::string id, what; };           // id: "dyn:<quantity>" / "sched:<cls>[:later]" / "throws:<stage>"
struct Outcome { std::vector<Failure> fails; uint64_t obs = 1469598103934665603ull; long compared = 0; bool ran = false; };
static void fail(Outcome& o, const std::string& id, const std::string& what) {
    for (auto& f : o.fails) if (f.id == id) return;
    o.fails.push_back({id, what});
    if (g_verbose) std::cout << "FAIL " << id << " : " << what << "\n";
}
static bool close_rel(double a, double b, double rel, double abs_slack = 0.0) {
    if (a == b) return true;
    if (std::isnan(a) || std::isnan(b) || std::isinf(a) || std::isinf(b)) return false;
    return std::fabs(a - b) <= rel * std::max(std::fabs(a), std::fabs(b)) + abs_slack;
}
// tolerances of the current case (a FORMATTED file prints DOUB with 14 and REAL with 8 significant digits)
static double TOL_SAME = 0.0;        // DOUB/INTE data that is not converted: identical (unformatted) / printed precision (formatted)
static double TOL_DBL = 1.0e-14;     // DOUB data that passed a from_si/to_si pair (a few roundings)
static double TOL_SEG = 1.0e-12;     // segment phase rates are rebuilt from total flow and two fractions
static double TOL_REAL = 1.2e-7;     // REAL data: one rounding to 24 bits on the way
static void set_tolerances(bool formatted) {
    TOL_SAME = formatted ? 1.0e-13 : 0.0; TOL_DBL = formatted ? 1.0e-13 : 1.0e-14; TOL_SEG = 1.0e-12; TOL_REAL = formatted ? 2.5e-7 : 1.2e-7;
}

static void cmp_num(Outcome& o, const std::string& id, const std::string& where, double saved, double loaded, double rel, double abs_slack = 0.0) {
    ++o.compared; o.obs = vf::fnv(&loaded, 8, o.obs);
    if (g_verbose) std::cout << "  " << id << " " << where << " saved " << vf::fmt17(saved) << " loaded " << vf::fmt17(loaded) << "\n";
    if (!close_rel(saved, loaded, rel, abs_slack)) fail(o, id, where + ": saved " + vf::fmt17(saved) + " loaded " + vf::fmt17(loaded));
}

static Outcome run_case(const Case& c) {
    Outcome o;
    const Model& M = c.m;
    const int n = c.n;
    std::string stage = "setup";
    set_tolerances(c.fmt != 0);
    for (const auto& e : fs::directory_iterator(".")) { std::error_code ec; fs::remove_all(e.path(), ec); }
    std::unique_ptr<Schedule> sched, rsched;
    bool wl_slots_inconsistent = false;
    try {
        // ------------------------------------------------ original run up to report step n
        stage = "original-schedule";
        const int maxwl = M.wl_on ? M.wl_max : 1;
        const EclipseState& es = es_for(c.us, c.fmt, c.unif, 0, maxwl);
        const auto deck = g_parser->parseString(head_text(c.us, c.fmt, c.unif, 0, maxwl) + schedule_text(M, 0));
        sched = std::make_unique<Schedule>(deck, es, g_python);
        if ((int)sched->size() != NSTEPS + 1) throw std::logic_error("model has " + std::to_string(sched->size()) + " report steps");
        {
            // Defect discriminator: in the ORIGINAL schedule state the file describes, a well is a member of a list that is missing
            // from its per-well slot table (WListManager::getWListNames) - the table the restart writer walks.  (delWListWell
            // decrements the slot counter again for a well that was already dropped from the list by NEW, and clears the table.)
            const auto& wl = (*sched)[n - 1].wlist_manager.get();
            for (const auto& wn : sched->wellNames(n - 1)) for (const char* ln : {"*L1", "*L2", "*L3", "*A", "*B", "*C"}) {
                if (!wl.hasList(ln)) continue;
                const auto ws = wl.getList(ln).wells();
                if (std::find(ws.begin(), ws.end(), wn) == ws.end()) continue;
                bool in_table = false;
                if (wl.hasWList(wn)) { const auto& t = wl.getWListNames(wn); in_table = std::find(t.begin(), t.end(), std::string(ln)) != t.end(); }
                if (!in_table) wl_slots_inconsistent = true;
            }
        }
        Action::State astate;          // the record as it stands "now"; runs are added in time order below
        const bool action_runs = (M.d[D_ACT] == 0 || M.d[D_ACT] == 3) && n >= 2;
        const auto a1_match = Action::Result{true}.wells(std::vector<std::string>{"P1"});
        if (action_runs) {
            // A1 triggers at the end of the time step that reaches report step 1, matching well P1, and (max_run = 2) once more one
            // report step later; its effect on the Schedule is applied here, the run records are added when their time comes
            sched->applyAction(1, (*sched)[1].actions()["A1"], a1_match.matches(), std::unordered_map<std::string, double>{});
            if (n >= 3) sched->applyAction(2, (*sched)[2].actions()["A1"], a1_match.matches(), std::unordered_map<std::string, double>{});
        }
        stage = "summary-eval";
        SummaryConfig sc(deck, *sched, es.fieldProps(), es.aquifer());
        const auto& grid = es.getInputGrid();
        const double udq_undef = (*sched)[0].udq().params().undefinedValue();
        SummaryState st(TimeService::from_time_t(sched->getStartTime()), udq_undef);
        UDQState udq(udq_undef);
        WellTestState wtest;
        data::Wells wells; data::GroupAndNetworkValues grp;
        {
            EclipseIO io(es, grid, *sched, sc);
            const int nact = (int)grid.getNumActive();
            for (int k = 1; k <= n; ++k) {
                stage = "summary-eval";
                wells = make_wells(*sched, M, k);
                grp = make_groups(*sched, k);
                io.summary().eval(st, k, sched->seconds(k), wells, {}, grp, {}, {}, {});
                const auto& uq = (*sched)[k - 1].udq();
                if (uq.size() > 0) uq.eval(k - 1, sched->wellMatcher(k - 1), sched->segmentMatcherFactory(k - 1), []() { return std::unique_ptr<RegionSetMatcher>{}; }, st, udq);
                // every report step is written (a unified file then holds k = 1..n, the restart has to pick n);
                // the action has run once report step 1 is complete
                stage = "save";
                data::Solution sol;
                for (const auto& a : ARRS) { std::vector<double> v(nact); for (int i = 0; i < nact; ++i) v[i] = arr_value(a, i, k); sol.insert(a.name, a.m, v, a.target); }
                RestartValue rv(sol, wells, grp, {});
                for (const auto& x : EXTRAS) { std::vector<double> v(x.size); for (int i = 0; i < x.size; ++i) v[i] = extra_value(x, i, k); rv.addExtra(x.name, x.m, v); }
                if (!M.rt_final_only || k == n) io.writeTimeStep(astate, wtest, st, udq, k, false, sched->seconds(k), rv, c.dbl != 0);
                if (k < n) {
                    // what happens once report step k is complete: action runs are recorded, run-time bodies are applied to this
                    // very Schedule object (that is what the simulator continues with)
                    stage = "applyAction";
                    if (action_runs && k <= 2) astate.add_run((*sched)[k].actions()["A1"], sched->simTime(k), a1_match);
                    for (const auto& ev : M.rt) if (ev.second == k) {
                        const std::string an = "B" + std::to_string(ev.first);
                        const auto res = Action::Result{true};
                        sched->applyAction(k, (*sched)[k].actions()[an], res.matches(), std::unordered_map<std::string, double>{});
                        astate.add_run((*sched)[k].actions()[an], sched->simTime(k), res);
                        R->count("runtime_applications");
                    }
                }
            }
        }
        // ------------------------------------------------ restarted run
        stage = "restart-deck";
        const EclipseState& res = es_for(c.us, c.fmt, c.unif, n, maxwl);
        const auto rdeck = g_parser->parseString(head_text(c.us, c.fmt, c.unif, n, maxwl) + schedule_text(M, n));
        const auto& init = res.getInitConfig();
        const auto fname = res.getIOConfig().getRestartFileName(init.getRestartRootName(), init.getRestartStep(), false);
        if (!fs::exists(fname)) { fail(o, "save:no-restart-file", "writeTimeStep(" + std::to_string(n) + ") produced no file " + fname); return o; }
        stage = "RstState::load";
        auto rst_file = std::make_shared<EclIO::ERst>(fname);
        auto rst_view = std::make_shared<EclIO::RestartFileView>(std::move(rst_file), n);
        const auto rst_state = RestartIO::RstState::load(std::move(rst_view), res.runspec(), *g_parser);
        stage = "restarted-schedule";
        rsched = std::make_unique<Schedule>(rdeck, res, g_python, false, false, true, std::nullopt, &rst_state);
        stage = "loadRestart";
        SummaryConfig rsc(rdeck, *rsched, res.fieldProps(), res.aquifer());
        SummaryState st2(TimeService::from_time_t(rsched->getStartTime()), udq_undef);
        Action::State astate2; UDQState udq2(udq_undef);
        std::vector<RestartKey> skeys, xkeys;
        for (const auto& a : ARRS) skeys.emplace_back(a.name, a.m, true);
        for (const auto& x : EXTRAS) xkeys.emplace_back(x.name, x.m, true);
        RestartValue rv2;
        {
            EclipseIO io2(res, res.getInputGrid(), *rsched, rsc);
            rv2 = io2.loadRestart(astate2, st2, skeys, xkeys);
        }
        stage = "state-load_rst";
        astate2.load_rst((*rsched)[n].actions(), rst_state);
        udq2.load_rst(rst_state);
        o.ran = true;

        // ================================================ oracle 1: dynamic state
        stage = "oracle-dynamic";
        const std::string prec = c.dbl ? "doub" : "real";
        for (const auto& a : ARRS) {
            const std::string id = std::string("dyn:solution.") + a.name;
            if (!rv2.solution.has(a.name)) { fail(o, id, "array not returned"); continue; }
            const auto& v = rv2.solution.data<double>(a.name);
            if ((int)v.size() != (int)grid.getNumActive()) { fail(o, id, "size " + std::to_string(v.size())); continue; }
            const bool ident = a.m == UnitSystem::measure::identity;
            // temperature has an offset: the float rounding acts on the deck value (at most ~1.8*T+460 in magnitude)
            const double slack = (!c.dbl && a.m == UnitSystem::measure::temperature) ? TOL_REAL * 500.0 : 0.0;
            for (int i = 0; i < (int)v.size(); ++i) {
                const double want = arr_value(a, i, n);
                if (c.dbl && ident) cmp_num(o, id, "cell " + std::to_string(i) + " (DOUB, no conversion)", want, v[i], TOL_SAME);
                else cmp_num(o, id, "cell " + std::to_string(i), want, v[i], c.dbl ? TOL_DBL : TOL_REAL, slack);
            }
        }
        for (const auto& x : EXTRAS) {
            const std::string id = std::string("dyn:extra.") + x.name;
            if (!rv2.hasExtra(x.name)) { fail(o, id, "extra array not returned"); continue; }
            const auto& v = rv2.getExtra(x.name);
            if ((int)v.size() != x.size) { fail(o, id, "size " + std::to_string(v.size()) + " != " + std::to_string(x.size)); continue; }
            for (int i = 0; i < x.size; ++i) cmp_num(o, id, "element " + std::to_string(i), extra_value(x, i, n), v[i], TOL_DBL);      // always DOUB
        }
        using O = data::Rates::opt;
        auto check_wells = [&](const data::Wells& loaded, Outcome& o, bool count_skipped) {
        for (const auto& w : sched->getWells(n - 1)) {
            const std::string kind = obs::well_kind(w);
            const auto it = loaded.find(w.name());
            if (w.getStatus() != Well::Status::OPEN) { if (count_skipped) R->count("wells_not_flowing_skipped"); continue; }
            if (it == loaded.end()) { fail(o, "dyn:well.missing:" + kind, w.name() + " not in loaded wells"); continue; }
            const auto& a = wells.at(w.name()); const auto& b = it->second;
            const std::string W = w.name();
            static const O ph[3] = {O::oil, O::wat, O::gas}; static const char* phn[3] = {"oil", "wat", "gas"};
            for (int p = 0; p < 3; ++p) cmp_num(o, std::string("dyn:well.rate.") + phn[p] + ":" + kind, W, a.rates.get(ph[p], 0.0), b.rates.get(ph[p], 0.0), TOL_DBL);
            cmp_num(o, "dyn:well.bhp:" + kind, W, a.bhp, b.bhp, TOL_DBL);
            cmp_num(o, "dyn:well.thp:" + kind, W, a.thp, b.thp, TOL_DBL);
            {
                ++o.compared;
                const auto& ca = a.current_control; const auto& cb = b.current_control;
                const int va = ca.isProducer ? (int)ca.prod : (int)ca.inj, vb = cb.isProducer ? (int)cb.prod : (int)cb.inj;
                o.obs = vf::fnv(&vb, sizeof vb, o.obs);
                if (ca.isProducer != cb.isProducer || va != vb) fail(o, "dyn:well.active_control:" + kind, W + ": saved " + (ca.isProducer ? "prod " : "inj ") + std::to_string(va) + " loaded " + (cb.isProducer ? "prod " : "inj ") + std::to_string(vb));
            }
            if (a.connections.size() != b.connections.size()) fail(o, "dyn:conn.count:" + kind, W + ": " + std::to_string(a.connections.size()) + " saved, " + std::to_string(b.connections.size()) + " loaded");
            for (const auto& ac : a.connections) {
                const auto* bc = b.find_connection(ac.index);
                const std::string C = W + " cell " + std::to_string(ac.index);
                if (!bc) { fail(o, "dyn:conn.missing:" + kind, C); continue; }
                for (int p = 0; p < 3; ++p) cmp_num(o, std::string("dyn:conn.rate.") + phn[p] + ":" + kind, C, ac.rates.get(ph[p], 0.0), bc->rates.get(ph[p], 0.0), TOL_DBL);
                cmp_num(o, "dyn:conn.pressure:" + kind, C, ac.pressure, bc->pressure, TOL_DBL);
            }
            if (w.isMultiSegment()) {
                for (const auto& [sn, as] : a.segments) {
                    const std::string S = W + " segment " + std::to_string(sn);
                    auto bs = b.segments.find(sn);
                    if (bs == b.segments.end()) { fail(o, "dyn:seg.missing", S); continue; }
                    for (int p = 0; p < 3; ++p) cmp_num(o, std::string("dyn:seg.rate.") + phn[p], S, as.rates.get(ph[p], 0.0), bs->second.rates.get(ph[p], 0.0), TOL_SEG);
                    cmp_num(o, "dyn:seg.pressure", S, as.pressures[data::SegmentPressures::Value::Pressure], bs->second.pressures[data::SegmentPressures::Value::Pressure], TOL_DBL);
                }
            }
        }
        };
        check_wells(rv2.wells, o, true);
        // Second reading of the same file: RestartIO::load with the ORIGINAL Schedule (a restarted run that internalises the whole
        // SCHEDULE history instead of rebuilding it from the file; e.g. its WellSegments keep the deck's storage order).
        // A difference seen only here gets the suffix :deck-schedule.
        {
            stage = "load-with-deck-schedule";
            SummaryState st3(TimeService::from_time_t(sched->getStartTime()), udq_undef); Action::State astate3;
            const auto rv3 = RestartIO::load(fname, n, astate3, st3, skeys, res, res.getInputGrid(), *sched, xkeys);
            Outcome o3; o3.obs = o.obs;
            check_wells(rv3.wells, o3, false);
            o.compared += o3.compared; o.obs = o3.obs;
            for (const auto& f : o3.fails) { bool seen = false; for (const auto& g : o.fails) if (g.id == f.id) seen = true; if (!seen) fail(o, f.id + ":deck-schedule", f.what); }
            stage = "oracle-dynamic";
        }
        // cumulative totals (SummaryState holds them in output units on both sides)
        {
            static const char* TOT[] = {"OPT", "WPT", "GPT", "VPT", "WIT", "GIT", "VIT", "OPTH", "WPTH", "GPTH", "WITH", "GITH"};
            for (const auto& wn : sched->wellNames(n - 1)) for (const char* t : TOT) {
                const std::string v = std::string("W") + t;
                if (!st.has_well_var(wn, v)) continue;
                const double x = st.get_well_var(wn, v);
                if (!st2.has_well_var(wn, v)) { fail(o, "dyn:total.W" + std::string(t), wn + ":" + v + " missing after load (saved " + vf::fmt17(x) + ")"); continue; }
                cmp_num(o, "dyn:total.W" + std::string(t), wn, x, st2.get_well_var(wn, v), TOL_SAME);
            }
            for (const auto& gn : sched->groupNames(n - 1)) for (const char* t : TOT) {
                const bool field = gn == "FIELD";
                const std::string v = std::string(field ? "F" : "G") + t;
                const bool has1 = field ? st.has(v) : st.has_group_var(gn, v);
                if (!has1) continue;
                const double x = field ? st.get(v) : st.get_group_var(gn, v);
                const bool has2 = field ? st2.has(v) : st2.has_group_var(gn, v);
                const std::string id = std::string("dyn:total.") + (field ? "F" : "G") + t;
                if (!has2) { fail(o, id, gn + ":" + v + " missing after load (saved " + vf::fmt17(x) + ")"); continue; }
                cmp_num(o, id, gn, x, field ? st2.get(v) : st2.get_group_var(gn, v), TOL_SAME);
            }
        }
        // UDQ values
        if (M.d[D_UDQ] != 2) {
            for (const char* f : {"FUX", "FUGO", "FUY"}) {
                const bool h1 = udq.has(f), h2 = udq2.has(f);
                if (h1 != h2) { fail(o, "dyn:udq.field.defined", std::string(f) + ": UDQState has it " + (h1 ? "before" : "after") + " only"); continue; }
                if (h1) cmp_num(o, "dyn:udq.field.value", f, udq.get(f), udq2.get(f), TOL_SAME);
                if (st.has(f)) { if (!st2.has(f)) fail(o, "dyn:udq.field.summary", std::string(f) + " missing in the loaded SummaryState"); else cmp_num(o, "dyn:udq.field.summary", f, st.get(f), st2.get(f), TOL_SAME); }
            }
            for (const char* f : {"GUY"}) for (const auto& gn : sched->groupNames(n - 1)) {
                const bool h1 = udq.has_group_var(gn, f), h2 = udq2.has_group_var(gn, f);
                const std::string K = std::string(f) + ":" + gn;
                if (h1 != h2) { fail(o, gn == "FIELD" ? "dyn:udq.group.defined:FIELD-node" : "dyn:udq.group.defined", K + ": UDQState has it " + (h1 ? "before" : "after") + " only (value " + vf::fmt17(h1 ? udq.get_group_var(gn, f) : udq2.get_group_var(gn, f)) + ")"); continue; }
                if (h1) cmp_num(o, "dyn:udq.group.value", K, udq.get_group_var(gn, f), udq2.get_group_var(gn, f), TOL_SAME);
                if (st.has_group_var(gn, f)) { if (!st2.has_group_var(gn, f)) fail(o, "dyn:udq.group.summary", K + " missing in the loaded SummaryState"); else cmp_num(o, "dyn:udq.group.summary", K, st.get_group_var(gn, f), st2.get_group_var(gn, f), TOL_SAME); }
            }
            for (const char* f : {"WUOR", "WUIR", "WUZ"}) for (const auto& wn : sched->wellNames(n - 1)) {
                const bool h1 = udq.has_well_var(wn, f), h2 = udq2.has_well_var(wn, f);
                const std::string K = std::string(f) + ":" + wn;
                if (h1 != h2) { fail(o, "dyn:udq.well.defined", K + ": UDQState has it " + (h1 ? "before" : "after") + " only (value " + vf::fmt17(h1 ? udq.get_well_var(wn, f) : udq2.get_well_var(wn, f)) + ")"); continue; }
                if (h1) cmp_num(o, "dyn:udq.well.value", K, udq.get_well_var(wn, f), udq2.get_well_var(wn, f), TOL_SAME);
                if (st.has_well_var(wn, f)) { if (!st2.has_well_var(wn, f)) fail(o, "dyn:udq.well.summary", K + " missing in the loaded SummaryState"); else cmp_num(o, "dyn:udq.well.summary", K, st.get_well_var(wn, f), st2.get_well_var(wn, f), TOL_SAME); }
            }
        }
        // ACTIONX run records (every action of the model)
        for (const auto& a1 : (*sched)[n].actions()) {
            const std::string an = a1.name();
            if (!(*rsched)[n].actions().has(an)) { fail(o, "dyn:actionx.missing", "action " + an + " unknown to the restarted schedule"); continue; }
            const auto& a2 = (*rsched)[n].actions()[an];
            const auto c1 = astate.run_count(a1), c2 = astate2.run_count(a2);
            ++o.compared; o.obs = vf::fnv(&c2, sizeof c2, o.obs);
            if (c1 != c2) fail(o, "dyn:actionx.run_count", an + " ran " + std::to_string(c1) + " time(s), loaded state says " + std::to_string(c2));
            else if (c1 > 0) {
                const auto t1 = astate.run_time(a1), t2 = astate2.run_time(a2);
                ++o.compared;
                if (t1 != t2) fail(o, "dyn:actionx.run_time", an + " last ran at " + std::to_string((long long)t1) + ", loaded state says " + std::to_string((long long)t2));
            }
        }

        // ================================================ oracle 2: schedule
        stage = "oracle-schedule";
        if (rsched->size() != sched->size()) fail(o, "sched:number-of-steps", std::to_string(rsched->size()) + " vs " + std::to_string(sched->size()));
        else for (std::size_t k = n; k < sched->size(); ++k) {
            if ((*sched)[k].start_time() != (*rsched)[k].start_time()) fail(o, "sched:start_time", "step " + std::to_string(k));
            obs::Sweep A, B;
            obs::sched_restart(*sched, k, st, A);
            obs::sched_restart(*rsched, k, st, B);
            if (g_verbose) for (const auto& x : A.items) if (x.key.compare(0, 3, "UDA") == 0 || x.key.find("/ctl.") != std::string::npos) std::cout << "  sched k=" << k << " orig " << x.key << " = " << (x.num ? vf::fmt17(x.v) : x.s) << "\n";
            if (g_verbose) for (const auto& x : B.items) if (x.key.compare(0, 3, "UDA") == 0) std::cout << "  sched k=" << k << " rst  " << x.key << " = " << x.s << "\n";
            const std::string when = k == (std::size_t)n ? "" : ":later";
            // a difference already present at n persists: report it once, as the at-n defect
            // Defect discriminator: the ORIGINAL schedule's UDA table (UDQActive::iuap) lists a control item of a well whose value in
            // the well is a NUMBER (WELTARG <number> over a UDA target: UDAValue::update_value(number) keeps the old UDQ name, so
            // UDQActive registers WELTARG_x <- UDQ and keeps WCONPROD_x <- UDQ).  Differences of exactly such an item get the
            // suffix :number-over-uda.
            auto hybrid_item = [&](const std::string& key) -> bool {
                if (key.compare(0, 2, "W:") != 0) return false;
                const auto sl = key.find('/'); if (sl == std::string::npos) return false;
                const std::string wn = key.substr(2, sl - 2), item = key.substr(sl + 1);
                if (!sched->hasWell(wn, k)) return false;
                const auto& w = sched->getWell(wn, k);
                const UDAValue* u = nullptr; std::vector<UDAControl> ctl;
                if (w.isProducer()) {
                    const auto& p = w.getProductionProperties();
                    if (item == "ctl.oil_rate") { u = &p.OilRate; ctl = {UDAControl::WCONPROD_ORAT, UDAControl::WELTARG_ORAT}; }
                    else if (item == "ctl.water_rate") { u = &p.WaterRate; ctl = {UDAControl::WCONPROD_WRAT, UDAControl::WELTARG_WRAT}; }
                    else if (item == "ctl.gas_rate") { u = &p.GasRate; ctl = {UDAControl::WCONPROD_GRAT, UDAControl::WELTARG_GRAT}; }
                    else if (item == "ctl.liquid_rate") { u = &p.LiquidRate; ctl = {UDAControl::WCONPROD_LRAT, UDAControl::WELTARG_LRAT}; }
                    else if (item == "ctl.resv_rate") { u = &p.ResVRate; ctl = {UDAControl::WCONPROD_RESV, UDAControl::WELTARG_RESV}; }
                    else if (item == "ctl.bhp_limit") { u = &p.BHPTarget; ctl = {UDAControl::WCONPROD_BHP, UDAControl::WELTARG_BHP}; }
                    else if (item == "ctl.thp_limit") { u = &p.THPTarget; ctl = {UDAControl::WCONPROD_THP, UDAControl::WELTARG_THP}; }
                } else {
                    const auto& p = w.getInjectionProperties();
                    if (item == "ctl.surface_rate") { u = &p.surfaceInjectionRate; ctl = {UDAControl::WCONINJE_RATE, UDAControl::WELTARG_ORAT, UDAControl::WELTARG_WRAT, UDAControl::WELTARG_GRAT}; }
                    else if (item == "ctl.reservoir_rate") { u = &p.reservoirInjectionRate; ctl = {UDAControl::WCONINJE_RESV, UDAControl::WELTARG_RESV}; }
                    else if (item == "ctl.bhp_limit") { u = &p.BHPTarget; ctl = {UDAControl::WCONINJE_BHP, UDAControl::WELTARG_BHP}; }
                    else if (item == "ctl.thp_limit") { u = &p.THPTarget; ctl = {UDAControl::WCONINJE_THP, UDAControl::WELTARG_THP}; }
                }
                if (!u || !u->is<double>()) return false;
                for (const auto& r : (*sched)[k].udq_active.get().iuap()) if (r.wgname == wn) for (auto cc : ctl) if (r.control == cc) return true;
                return false;
            };
            // Defect discriminators for group injection items, computed from the ORIGINAL group: the file has one voidage-group slot
            // that the writer fills only under control mode VREP and cannot express FIELD (insert index 0 is turned into the group
            // itself); a control mode FLD comes back as NONE.
            auto ginj_suffix = [&](const std::string& key) -> std::string {
                if (key.compare(0, 2, "G:") != 0) return "";
                const auto sl = key.find("/inj"); if (sl == std::string::npos) return "";
                const std::string gn = key.substr(2, sl - 2); const int phi = key[sl + 4] - '0'; const std::string item = key.substr(sl + 6);
                if (!sched->hasGroup(gn, k)) return "";
                const auto& g = sched->getGroup(gn, k); const Phase ph = static_cast<Phase>(phi);
                if (!g.hasInjectionControl(ph)) return "";
                const auto& ip = g.injectionProperties(ph);
                if (item == "voidage_group") { if (ip.cmode != Group::InjectionCMode::VREP) return ":mode-not-VREP"; if (ip.voidage_group.value_or("") == "FIELD") return ":FIELD"; }
                if (item == "cmode" && ip.cmode == Group::InjectionCMode::FLD) return ":FLD";
                return "";
            };
            auto sfail = [&](const std::string& cls, const std::string& what) {
                if (!when.empty()) for (auto& f : o.fails) if (f.id == "sched:" + cls) return;
                fail(o, "sched:" + cls + when, what);
            };
            std::map<std::string, const obs::Item*> bm; for (const auto& it : B.items) bm[it.key] = &it;
            std::set<std::string> seen;
            for (const auto& x : A.items) {
                ++o.compared; seen.insert(x.key);
                auto f = bm.find(x.key);
                if (f == bm.end()) { sfail(x.cls, "step " + std::to_string(k) + " " + x.key + ": only the original schedule answers (" + (x.num ? vf::fmt17(x.v) : x.s) + ")"); continue; }
                const auto& y = *f->second;
                if (!x.num && !y.num && x.s != y.s && x.key.size() > 10 && x.key.compare(x.key.size() - 10, 10, "/ctl.cmode") == 0) {
                    // The file has one slot for a well's control mode and the writer puts the ACTIVE control there: a restarted well
                    // continues under the control it was operating on (all limits are kept, see ctl.has / ctl.*).  Accepted.
                    const std::string wn = x.key.substr(2, x.key.size() - 12);
                    auto wi = wells.find(wn);
                    if (wi != wells.end() && wi->second.dynamicStatus == Well::Status::OPEN) {
                        const int act = wi->second.current_control.isProducer ? (int)wi->second.current_control.prod : (int)wi->second.current_control.inj;
                        if (y.s == std::to_string(act)) { R->count("requested_cmode_replaced_by_active_control"); continue; }
                    }
                }
                if (x.num != y.num) { sfail(x.cls, "step " + std::to_string(k) + " " + x.key + ": " + (x.num ? vf::fmt17(x.v) : x.s) + " vs " + (y.num ? vf::fmt17(y.v) : y.s)); continue; }
                if (x.num) { o.obs = vf::fnv(&y.v, 8, o.obs); if (!obs::num_equal(x.v, y.v, x.p, c.fmt != 0)) sfail(x.cls + (hybrid_item(x.key) ? ":number-over-uda" : ""), "step " + std::to_string(k) + " " + x.key + ": original " + vf::fmt17(x.v) + " restarted " + vf::fmt17(y.v)); }
                else { o.obs = vf::fnv(y.s, o.obs); if (x.s != y.s) sfail(x.cls + ginj_suffix(x.key), "step " + std::to_string(k) + " " + x.key + ": original [" + x.s.substr(0, 300) + "] restarted [" + y.s.substr(0, 300) + "]"); }
            }
            for (const auto& y : B.items) if (!seen.count(y.key)) sfail(y.cls, "step " + std::to_string(k) + " " + y.key + ": only the restarted schedule answers (" + (y.num ? vf::fmt17(y.v) : y.s) + ")");
        }
    } catch (const std::exception& e) {
        std::string msg = e.what();
        fail(o, "throws:" + stage, "exception in stage " + stage + ": " + msg.substr(0, 300));
    }
    if (wl_slots_inconsistent) {
        // one defect, one key: the membership lost through the slot table and everything that follows from it
        std::vector<Failure> kept; bool have = false;
        for (auto& f : o.fails) {
            auto starts = [&](const char* p) { return f.id.compare(0, std::strlen(p), p) == 0; };
            if (starts("sched:wlist.members") || starts("sched:wlist.of_well") || starts("sched:ctl.") || starts("sched:well.status") || starts("throws:restarted-schedule")) {
                if (!have) { kept.push_back({"sched:wlist:slot-table-lost-member", f.id + " - " + f.what}); have = true; }
            } else kept.push_back(f);
        }
        o.fails = std::move(kept);
    }
    return o;
}

// On the first occurrence of a failure id: in which unit systems / precisions does the same model x flavour fail?
// -> suffix that identifies the defect class instead of the input.
static std::map<std::string, std::string> g_class;
static std::string classify(const Case& c, const std::string& id) {
    auto it = g_class.find(id);
    if (it != g_class.end()) return it->second;
    std::string us, pr;
    int nus = 0;
    for (int u = 0; u < 4; ++u) { Case x = c; x.us = u; auto o = run_case(x); bool f = false; for (auto& ff : o.fails) if (ff.id == id) f = true; if (f) { us += std::string(us.empty() ? "" : "+") + USYS[u]; ++nus; } }
    int npr = 0;
    for (int d = 0; d < 2; ++d) { Case x = c; x.dbl = d; auto o = run_case(x); bool f = false; for (auto& ff : o.fails) if (ff.id == id) f = true; if (f) { pr += d ? "doub" : "real"; ++npr; } }
    std::string cls;
    if (nus > 0 && nus < 4) cls += ":" + us;
    if (npr == 1) cls += ":" + pr;
    return g_class[id] = cls;
}

static void judge(const Case& c) {
    const std::string cs = c.str();
    R->current(cs);
    Outcome o = run_case(c);
    R->evaluations++;
    R->count("values_compared", o.compared);
    if (o.ran) R->count("cases_with_complete_loop");
    R->observe(o.obs);
    if (std::getenv("C05_LIST")) { std::string l = cs + " =>"; for (const auto& f : o.fails) l += " " + f.id; std::fprintf(stderr, "%s\n", l.c_str()); }
    for (const auto& f : o.fails) {
        const std::string key = "C05:" + f.id + classify(c, f.id);
        R->violation(key, f.what + "; model " + c.m.describe() + "; case " + cs, "{\"case\": " + vf::jstr(cs) + "}");
    }
}

int main(int argc, char** argv) {
    vf::Run run("C05", argc, argv); R = &run;
    OpmLog::removeAllBackends();
    Parser parser; g_parser = &parser; g_python = std::make_shared<Python>();
    const char* scr = std::getenv("VERIF_SCRATCH");
    const fs::path dir = fs::path(scr ? scr : "/tmp") / ("C05." + std::to_string((long)getpid()));
    fs::create_directories(dir); fs::current_path(dir);

    const int budget = run.thorough() ? 2 : 1;
    run.rule = "model: 3x3x3 grid with an inactive cell, groups FIELD<-G1,G2<-G3, wells P1 (producer, ORAT+BHP, UDA target), P2 (multi-segment producer, 3 segments / 2 branches; variant: 6 segments numbered 1,2,5,6 / 3,4 across two branches), "
               "P3 (STOP with cross-flow, later SHUT, later OPEN), I1 (water injector, UDA rate), I2 (gas injector introduced at step 2), WCONHIST period, WEFAC/GEFAC, GCONPROD (UDA target)/GCONINJE, WLIST, "
               "UDQ ASSIGN+DEFINE at field/group/well level, ACTIONX run at report step 1 (its WELTARG applied with Schedule::applyAction), BRANPROP/NODEPROP network, WELOPEN on a connection, "
               "later blocks with WELSPECS/COMPDAT/WELTARG/WELOPEN/WEFAC/GCONPROD/WCONPROD acting on the restored objects, 4 report steps; deviations: each of " + std::to_string((int)NDIM) + " features removed/varied (alternatives per feature: ";
    for (int i = 0; i < NDIM; ++i) run.rule += std::string(i ? "," : "") + DIM_NAME[i] + ":" + std::to_string(DIM_N[i]);
    run.rule += "), PART A: every model with <= " + std::to_string(budget) + " deviations x complete product {METRIC,FIELD,LAB,PVT-M} x FMTOUT{0,1} x UNIFOUT{0,1} x write_double{0,1} x restart step n{1,2,3}; "
                "dynamic state = fingerprint values (distinct dyadic multiple per quantity/well/connection/segment/step) passed through the real Summary::eval and UDQConfig::eval for steps 1..n, every report step 1..n written with EclipseIO::writeTimeStep; "
                "oracle 1: loaded solution/extra arrays, rates/bhp/thp/active control of wells OPEN in the schedule state the file describes, their connection rates/pressures, segment rates/pressures, "
                "W/G/F cumulative totals, UDQState + summary UDQ values, ACTIONX run count/time equal the saved ones (identical for untouched DOUB/INTE, 1e-14 rel after a unit-conversion pair, 1.2e-7 rel for REAL); "
                "PART B (history control, complete product on the default model): WHISTCTL {none,ORAT,LRAT,RESV} at the top of SCHEDULE x role of an extra well X1 {WCONPROD producer, WCONHIST producer, WCONINJE injector, WCONINJH injector} "
                "x later event on X1 {none, WCONHIST ORAT, WCONHIST RESV, WCONINJH, WCONPROD LRAT} x restart step n{1,2,3}" + std::string(run.thorough() ? " x event in block {3,2} x 4 unit systems x FMTOUT{0,1}" : " (event in block 3, METRIC, unformatted unified)") + ", same two oracles; "
                "PART C (run-time history on one Schedule object, default model + ACTIONX B1..B6 {WCONPROD number for a UDA, WCONPROD UDA for a UDA, WCONINJE UDA for a UDA, WELTARG number on a UDA well, WELOPEN SHUT, WCONPROD adding two UDAs}): "
                "every sequence of 1.." + std::string(run.thorough() ? "3" : "2") + " Schedule::applyAction calls (body, report step < n, steps non-decreasing) interleaved with the restart writes of every report step x {all writes, final write only} x n{2,3}" + std::string(run.thorough() ? " x {METRIC,FIELD}" : "") + "; the reference is the same Schedule object after these calls; "
                "PART D (well-list histories, default model without UDAs): every sequence of 1.." + std::string(run.thorough() ? "3 WLIST operations over lists *A,*B,*C / wells P1,P2,P3 and 1..4 over *A,*B / P1,P2,P3" : "3 WLIST operations over lists *A,*B / wells P1,P2") +
                " from {NEW {P1,P2}, NEW {P2}, [NEW {P3,P1}], ADD w, DEL w, MOV w} per list (first operation NEW on *A, no ADD/DEL/MOV on an unknown list) x placement {one operation per block with n = min(len,3), all in block 0 with n = 1} x WELLDIMS item 11 in {1,2,3} >= largest membership" + std::string(run.quick() ? " (quick: smallest legal value and 3)" : "") +
                "; after the restart step WELTARG '*L' ORAT through every non-empty list (block 3) and WELOPEN '*L' SHUT through the last one (block 4); compared: members and order of every list, lists of every well, and the controls/status of the wells; "
                "PART E (group injection controls, default model without its own group controls): GCONINJE on " + std::string(run.thorough() ? "{G2,G3}" : "G2") + " x phase {WATER,GAS} x mode {NONE,RATE,RESV,REIN,VREP,FLD} (all four targets, guide rate 12.5 RATE) "
                "x reinjection group x voidage group in {defaulted, each other group of the tree incl. FIELD}" + std::string(run.quick() ? " (quick: varied one at a time)" : " (full product)") + " x GRUPTREE order of the siblings {G1 first, G2 first} x GCONPROD on the named group(s) {no,yes} x n " + std::string(run.quick() ? "{1,3}" : "{1,2,3}") +
                "; compared per phase: cmode, control set, the four targets, reinjection and voidage group, guide rate and its definition, availability for higher-level control, injection_controls; "
                "oracle 2: obs::sched_restart query list equal between Schedule(deck) and Schedule(deck+RESTART+SKIPREST, rst_state) at n..4 (REAL-stored quantities to 1.2e-7 rel)";
    run.assumptions = {
        "a restart file written at report step n describes schedule state n-1 (sim_step); 'flowing well' = Schedule status OPEN in that state",
        "DOUB values that pass from_si at save and to_si at load are compared to 1e-14 relative (rounding of the conversion pair), segment phase rates to 1e-12 (stored as total flow + two fractions)",
        "well temperature is not in the statement's list and is not restored by RestartIO::load (set to 0): not compared",
        "connection CF/Kh are compared by the schedule oracle, not as dynamic state; Connection::wpimult() (accumulated WPIMULT bookkeeping) is not compared, CF carries the multiplier",
        "group/network dynamic values (active group control, node pressures, guide rates) are not listed in the statement: handed to the writer, not compared",
        "solution arrays are REAL/DOUB (an INTE solution array cannot be requested back through a RestartKey)",
        "ACTIONX runs at report step 1 and again at report step 2; for n = 1 the action is still pending (an action triggered while report step n itself is written acts on schedule state n, which the file does not describe)",
        "same numeric deck in every unit system (a different physical model per system)",
        "the well/connection/segment part of oracle 1 is evaluated twice: EclipseIO::loadRestart with the restarted Schedule and RestartIO::load with the original (deck-built) Schedule",
        "the extra well X1 of part B is declared with WELSPECS preferred phase OIL in every role; with WATER (replay token W:1) a well that is an injector in the file and later becomes a producer answers getPreferredPhase() = OIL after restart (RstWell builds WellType with a default phase although IWEL carries it) - DESIGN.md C05 probe fact (iii) classed the injector's preferred phase as not promised, reported to the lead, not enumerated",
        "segments are identified by segment number; the storage order inside WellSegments (deck: branch by branch, restart: by number) is not compared",
        "a FORMATTED restart file prints REAL with 8 and DOUB with 14 significant digits: tolerances 2.5e-7 / 1e-13 there",
        "requested control mode of an open well: the file stores the ACTIVE control in its single slot; the restarted schedule may answer with the saved active control instead of the requested one (counted, not a violation); the set of controls and every limit/target is compared",
        "UDQ ASSIGN definitions are compared through the defined values they give for the wells/groups existing when the assignment was entered",
        "a STOPped well cross-flows through its connections in the handed-over state (the writer derives OPEN/STOP/SHUT from flowing connections)",
    };

    if (!run.replay_path.empty()) {
        g_verbose = std::getenv("C05_VERBOSE") != nullptr;
        Case c = Case::parse(run.replay_path);
        judge(c);
        fs::current_path("/"); std::error_code ec; fs::remove_all(dir, ec);
        return run.finish();
    }

    bool stop = false;
    uint64_t models = 0;
    vf::explore([&](vf::Chooser& ch) {
        Model m; for (int i = 0; i < NDIM; ++i) m.d[i] = ch.dev(DIM_N[i]);
        ++models;
        for (int us = 0; us < 4 && !stop; ++us) for (int fmt = 0; fmt < 2; ++fmt) for (int unif = 0; unif < 2; ++unif) for (int dbl = 0; dbl < 2; ++dbl) for (int n = 1; n <= 3; ++n) {
            if (!run.mine()) continue;
            if (run.timed_out()) { stop = true; break; }
            Case c; c.m = m; c.us = us; c.fmt = fmt; c.unif = unif; c.dbl = dbl; c.n = n;
            judge(c);
            if (run.samples.size() < 3 && us == 1 && fmt == 1 && n == 3) run.sample_str(c.str() + "  (" + m.describe() + ")");
        }
    }, budget, [&]() { return stop; });
    // ---- part B: history-control sub-model, complete product on the otherwise default model
    uint64_t hmodels = 0;
    {
        const int nus = run.thorough() ? 4 : 1, nfmt = run.thorough() ? 2 : 1, nblk = run.thorough() ? 2 : 1;
        for (int w = 0; w < H_N[0] && !stop; ++w) for (int r = 1; r < H_N[1]; ++r) for (int e = 0; e < H_N[2]; ++e) for (int b = 0; b < nblk; ++b) {
            if (e == 0 && b == 1) continue;                    // no event: its block is immaterial
            ++hmodels;
            for (int us = 0; us < nus; ++us) for (int fmt = 0; fmt < nfmt; ++fmt) for (int n = 1; n <= 3; ++n) {
                if (!run.mine()) continue;
                if (run.timed_out()) { stop = true; break; }
                Case c; c.m.h[0] = w; c.m.h[1] = r; c.m.h[2] = e; c.m.h[3] = b; c.us = us; c.fmt = fmt; c.unif = 1; c.dbl = 0; c.n = n;
                judge(c);
                if (run.samples.size() < 5 && w == 1 && r == 4 && e == 2 && n == 3) run.sample_str(c.str() + "  (" + c.m.describe() + ")");
            }
        }
    }
    // ---- part C: run-time histories on ONE Schedule object (default model + actions B1..B6)
    uint64_t rmodels = 0;
    {
        const int L = run.thorough() ? 3 : 2, nus = run.thorough() ? 2 : 1;
        std::vector<std::vector<std::pair<int, int>>> seqs;
        for (int n = 2; n <= 3 && !stop; ++n) {
            seqs.clear();
            // all sequences of 1..L applications (body 1..6, step 1..n-1) with non-decreasing step
            std::vector<std::vector<std::pair<int, int>>> cur = {{}};
            for (int len = 1; len <= L; ++len) {
                std::vector<std::vector<std::pair<int, int>>> nxt;
                for (const auto& q : cur) for (int k = q.empty() ? 1 : q.back().second; k <= n - 1; ++k) for (int b = 1; b <= 6; ++b) { auto q2 = q; q2.push_back({b, k}); nxt.push_back(q2); }
                for (const auto& q : nxt) seqs.push_back(q);
                cur = std::move(nxt);
            }
            for (const auto& q : seqs) for (int fo = 0; fo < 2; ++fo) {
                ++rmodels;
                for (int us = 0; us < nus; ++us) {
                    if (!run.mine()) continue;
                    if (run.timed_out()) { stop = true; break; }
                    Case c; c.m.rt_on = true; c.m.rt = q; c.m.rt_final_only = fo; c.us = us; c.fmt = 0; c.unif = 1; c.dbl = 0; c.n = n;
                    judge(c);
                    if (run.samples.size() < 7 && q.size() == 2 && q[0].first == 1 && q[1].first == 6 && n == 3) run.sample_str(c.str() + "  (" + c.m.describe() + ")");
                }
                if (stop) break;
            }
        }
    }
    // ---- part D: well-list histories
    uint64_t wmodels = 0;
    {
        struct Alpha { std::string lists, wells; int maxlen; };
        std::vector<Alpha> alphas;
        if (run.thorough()) { alphas.push_back({"ABC", "123", 3}); alphas.push_back({"AB", "123", 4}); }
        else alphas.push_back({"AB", "12", 3});
        std::set<std::string> done;                        // a history reachable in two alphabets is run once
        for (const auto& al : alphas) {
            std::vector<std::string> sym;                  // per list: NEW {P1,P2}, NEW {P2}, [NEW {P3,P1}], ADD w, DEL w, MOV w
            for (char l : al.lists) {
                sym.push_back(std::string("N") + l + "12"); sym.push_back(std::string("N") + l + "2");
                if (al.wells.size() > 2) sym.push_back(std::string("N") + l + "31");
                for (char a : std::string("ADM")) for (char w : al.wells) sym.push_back(std::string(1, a) + l + std::string(1, w));
            }
            std::vector<std::vector<std::string>> cur = {{}};
            for (int len = 1; len <= al.maxlen && !stop; ++len) {
                std::vector<std::vector<std::string>> nxt;
                for (const auto& q : cur) {
                    WlModel m; for (const auto& op : q) m.apply(op);
                    for (const auto& op : sym) {
                        if (q.empty() && (op[0] != 'N' || op[1] != 'A')) continue;      // list names are interchangeable: start with NEW on *A
                        if (op[0] != 'N' && !m.exists(op[1])) continue;                  // the library rejects ADD/DEL/MOV on an unknown list
                        auto q2 = q; q2.push_back(op); nxt.push_back(q2);
                    }
                }
                for (const auto& q : nxt) {
                    WlModel m; for (const auto& op : q) m.apply(op);
                    std::string id; for (auto& op : q) id += op + ",";
                    if (!done.insert(id).second) continue;
                    ++wmodels;
                    for (int place = 0; place < 2; ++place) {
                        if (place == 1 && q.size() == 1) continue;                       // identical to placement 0
                        for (int mw = 1; mw <= 3; ++mw) {
                            if (mw < m.max_membership) continue;                         // WELLDIMS item 11 must cover the largest membership
                            if (run.quick() && !(mw == std::max(m.max_membership, 1) || mw == 3)) continue;
                            if (!run.mine()) continue;
                            if (run.timed_out()) { stop = true; break; }
                            Case c; c.m.wl_on = true; c.m.d[D_UDQ] = 1; c.m.wl_ops = q; c.m.wl_place = place; c.m.wl_max = mw;
                            c.us = 0; c.fmt = 0; c.unif = 1; c.dbl = 0; c.n = place == 1 ? 1 : (int)std::min<size_t>(q.size(), 3);
                            judge(c);
                            if (run.samples.size() < 9 && q.size() == 3 && q[2][0] == 'D' && mw == 2) run.sample_str(c.str() + "  (" + c.m.describe() + ")");
                        }
                        if (stop) break;
                    }
                    if (stop) break;
                }
                cur = std::move(nxt);
            }
        }
    }
    // ---- part E: group injection controls
    uint64_t gmodels = 0;
    {
        const int nctrl = run.thorough() ? 2 : 1;
        for (int cg = 0; cg < nctrl && !stop; ++cg) for (int ph = 0; ph < 2; ++ph) for (int md = 0; md < 6; ++md) for (int rg = 0; rg < 4; ++rg) for (int vg = 0; vg < 4; ++vg) for (int ord = 0; ord < 2; ++ord) for (int gp = 0; gp < 2; ++gp) {
            if (run.quick() && rg != 0 && vg != 0) continue;          // quick: reinjection / voidage group varied one at a time
            ++gmodels;
            for (int n = 1; n <= 3; ++n) {
                if (run.quick() && n == 2) continue;
                if (!run.mine()) continue;
                if (run.timed_out()) { stop = true; break; }
                Case c; c.m.gi_on = true; c.m.d[D_GCTL] = 1; c.m.gi[0] = cg; c.m.gi[1] = ph; c.m.gi[2] = md; c.m.gi[3] = rg; c.m.gi[4] = vg; c.m.gi[5] = ord; c.m.gi[6] = gp;
                c.us = 0; c.fmt = 0; c.unif = 1; c.dbl = 0; c.n = n;
                judge(c);
                if (run.samples.size() < 11 && md == 4 && vg == 1 && ord == 1 && n == 3) run.sample_str(c.str() + "  (" + c.m.describe() + ")");
            }
            if (stop) break;
        }
    }
    if (run.shard == 0) run.count("group_injection_models", (long long)gmodels);
    if (run.shard == 0) run.count("wlist_history_models", (long long)wmodels);
    if (run.shard == 0) run.count("runtime_history_models", (long long)rmodels);
    if (run.shard == 0) run.count("history_control_models", (long long)hmodels);
    if (run.shard == 0) run.count("models", (long long)models);
    fs::current_path("/"); std::error_code ec; fs::remove_all(dir, ec);
    return run.finish();
}
