// C14 — stub translation unit.
// In this environment opm/material/components/co2tables.inc and h2tables.inc
// are emptied, so libopmcommon.a does not define the four tabulated-trait
// structs that the CO2/H2 PVT classes (named by Oil/Gas/WaterPvtMultiplexer)
// refer to, and anything instantiating a multiplexer fails to link.  The
// table-based black-oil PVT classes checked by C14 never read these tables
// (the decks never say CO2STORE/H2STORE); zero tables only satisfy the linker.
#include <opm/material/components/CO2Tables.hpp>
#include <opm/material/components/H2.hpp>
namespace Opm {
#define C14_STUB(T)                                                              \
    const char* T::name = "stub";                                                \
    const T::Scalar T::xMin = 280; const T::Scalar T::xMax = 400;                \
    const T::Scalar T::yMin = 1e5; const T::Scalar T::yMax = 1e8;                \
    const T::Scalar T::vals[200][500] = {};
C14_STUB(co2TabulatedDensityTraits)
C14_STUB(co2TabulatedEnthalpyTraits)
C14_STUB(H2TabulatedDensityTraits)
C14_STUB(H2TabulatedEnthalpyTraits)
}
