// C16 variant TU: unrolled specialisation Evaluation<double,5> (opm/material/densead/Evaluation5.hpp)
#include "C16_impl.hpp"
C16_STATIC_TU(5, "static")
