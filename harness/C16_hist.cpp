// C16 (part 2) — OBJECT HISTORIES of Evaluation objects (regime E2).
//
// The tree regime (C16_main.cpp) evaluates expressions on fresh objects.  A
// DynamicEvaluation is backed by FastSmallVector (inline buffer of staticSize
// entries, heap above), so what an object returns may depend on what it held
// BEFORE.  Here ONE target object lives through every sequence of lifecycle
// operations up to a length bound (copy-/move-assignment from small and large
// sources, being moved away, self-assignment, `= scalar`, swap with a second
// long-lived object, compound += *= with matching operands, the
// createVariable/createConstant/createBlank factories), on
//   * Evaluation<double, DynamicSize, S> for S in {0,2,4,8} with derivative
//     counts on both sides of the inline/heap boundary,
//   * Evaluation<double, 3> (static control: storage cannot change),
//   * FastSmallVector<double, N> itself,
// and after every history the object is fully observed: size(), value(),
// every derivative(i), a copy-constructed twin, the fixed expression
// f(x) = x*x + sin(x), the (unchanged) sources and the second object —
// compared with a plain std::vector model replaying the same history.
//
// Every unit runs in a forked child that streams its findings to a scratch
// file, so a null/dangling storage pointer (SIGSEGV, or an ASan report in the
// sanitizer flavour of this part) is reported with the exact history instead
// of killing the shard.
//
//   case string: "hist <unit> <init> <op>,<op>,..."   e.g. "hist dyn4_2_8 L CS"
#include "vf.hpp"
#include "C16_ad.hpp"
#include <opm/material/densead/Evaluation.hpp>
#include <opm/material/densead/Math.hpp>
#include <opm/material/common/FastSmallVector.hpp>
#include <sys/resource.h>
#include <unistd.h>
#include <utility>

using c16::Dual;

static vf::Run* R;

// ---------------------------------------------------------------- alphabet --
enum Op { CS, CL, MS, ML, MV, SELF, SWAP, CW, SC, ADD_S, ADD_L, MUL_S, MUL_L, CVAR_S, CVAR_L, CCONST_S, CCONST_L, CBLANK_S, CBLANK_L, SET, NOPS };
static const char* op_name(int o) {
    static const char* n[NOPS] = {"CS", "CL", "MS", "ML", "MV", "SELF", "SWAP", "CW", "SC", "ADD_S", "ADD_L", "MUL_S", "MUL_L", "CVAR_S", "CVAR_L", "CCONST_S", "CCONST_L", "CBLANK_S", "CBLANK_L", "SET"};
    return n[o];
}
static const char* op_long(int o) {
    static const char* n[NOPS] = {"copy-assign-small", "copy-assign-large", "move-assign-small", "move-assign-large", "moved-away", "self-assign", "swap", "copy-assign-other-object",
                                  "assign-scalar", "add-assign-small", "add-assign-large", "mul-assign-small", "mul-assign-large", "createVariable-small", "createVariable-large",
                                  "createConstant-small", "createConstant-large", "createBlank-small", "createBlank-large", "set-element"};
    return n[o];
}
static const char* init_name(int i) { static const char* n[] = {"D", "S", "L"}; return n[i]; }   // default-constructed, fresh small, fresh large

// fingerprint contents: entry i of fingerprint fp; all positive, all different
static double fpval(int fp, int i) {
    static const double P[25] = {2, 3, 5, 7, 11, 13, 17, 19, 23, 29, 31, 37, 41, 43, 47, 53, 59, 61, 67, 71, 73, 79, 83, 89, 97};
    return 0.5 + 0.25 * fp + P[i] / (16.0 + fp);
}

// plain reference model of one object
struct Model { bool valid = false, known = true; std::vector<double> e; };
static Model model_fp(int n, int fp) { Model m; m.valid = true; m.e.resize(n + 1); for (int i = 0; i <= n; ++i) m.e[i] = fpval(fp, i); return m; }

// ---------------------------------------------------------------- adapters --
template <class E> struct EvalAd {
    using T = E;
    static constexpr bool is_eval = true;
    static T make(int n, int fp) {
        T x = mk_const(n, fpval(fp, 0));
        for (int i = 0; i < n; ++i) x.setDerivative(i, fpval(fp, i + 1));
        return x;
    }
    static T mk_const(int n, double v) { if constexpr (E::numVars < 0) return E::createConstant(n, v); else { (void)n; return E::createConstant(v); } }
    static int n(const T& x) { return x.size(); }
    static double get(const T& x, int i) { return i == 0 ? x.value() : x.derivative(i - 1); }
};
template <unsigned N> struct FsvAd {
    using T = Opm::FastSmallVector<double, N>;
    static constexpr bool is_eval = false;
    static T make(int n, int fp) { T x(n + 1); for (int i = 0; i <= n; ++i) x[i] = fpval(fp, i); return x; }
    static int n(const T& x) { return (int)x.size() - 1; }
    static double get(const T& x, int i) { return x[i]; }
};

struct Unit { std::string name, cls; int ns, nl; bool is_eval; std::string (*run)(const Unit&, int init, const std::vector<int>& ops, uint64_t* obs); };

static bool op_exists(bool is_eval, int o) { return is_eval ? o != SET : (o == CS || o == CL || o == MS || o == ML || o == MV || o == SELF || o == SWAP || o == CW || o == SET); }
// is op enabled in model state (m, mw)?  (ns/nl: small/large derivative counts)
static bool op_enabled(const Unit& u, int o, const Model& m, const Model& mw) {
    if (!op_exists(u.is_eval, o)) return false;
    const int n = (int)m.e.size() - 1;
    switch (o) {
    case CS: case CL: case MS: case ML: case CVAR_S: case CVAR_L: case CCONST_S: case CCONST_L: case CBLANK_S: case CBLANK_L: return true;   // assignments: always (also to an empty / moved-from target)
    case MV: case SELF: case SC: case SET: return m.valid;         // reading or writing through an empty / moved-from object is not promised
    case SWAP: return m.valid || mw.valid;
    case CW: return mw.valid;
    case ADD_S: case MUL_S: return m.valid && n == u.ns;          // operator+= / *= require equal sizes
    case ADD_L: case MUL_L: return m.valid && n == u.nl;
    }
    return false;
}
// model transition
static void op_model(const Unit& u, int o, Model& m, Model& mw) {
    auto arith = [&](const Model& a, bool mul) {
        if (!m.known) return;
        if (!mul) { for (size_t i = 0; i < m.e.size(); ++i) m.e[i] += a.e[i]; return; }
        const double x = m.e[0], v = a.e[0];
        m.e[0] *= v;
        for (size_t i = 1; i < m.e.size(); ++i) m.e[i] = m.e[i] * v + a.e[i] * x;
    };
    switch (o) {
    case CS: m = model_fp(u.ns, 1); break;
    case CL: m = model_fp(u.nl, 2); break;
    case MS: m = model_fp(u.ns, 3); break;
    case ML: m = model_fp(u.nl, 4); break;
    case MV: m.valid = false; m.known = true; m.e.clear(); break;
    case SELF: break;
    case SWAP: std::swap(m, mw); break;
    case CW: m = mw; break;
    case SC: m.known = true; m.e[0] = 3.25; for (size_t i = 1; i < m.e.size(); ++i) m.e[i] = 0; break;
    case ADD_S: arith(model_fp(u.ns, 1), false); break;
    case ADD_L: arith(model_fp(u.nl, 2), false); break;
    case MUL_S: arith(model_fp(u.ns, 1), true); break;
    case MUL_L: arith(model_fp(u.nl, 2), true); break;
    case CVAR_S: case CVAR_L: { int n = o == CVAR_S ? u.ns : u.nl; m = Model(); m.valid = true; m.e.assign(n + 1, 0.0); m.e[0] = 2.5; m.e[n] = 1.0; break; }   // variable index n-1
    case CCONST_S: case CCONST_L: { int n = o == CCONST_S ? u.ns : u.nl; m = Model(); m.valid = true; m.e.assign(n + 1, 0.0); m.e[0] = 1.75; break; }
    case CBLANK_S: case CBLANK_L: { int n = o == CBLANK_S ? u.ns : u.nl; m = Model(); m.valid = true; m.known = false; m.e.assign(n + 1, 0.0); break; }   // contents unspecified
    case SET: m.e.back() = 9.5; break;
    }
}

static bool same(double got, double want) { return std::fabs(got - want) <= 1e-14 * std::fabs(want) + 1e-300; }

// compare a real object with its model: "" or what differs
template <class A> static std::string diff(const typename A::T& x, const Model& m, std::string* detail) {
    if (A::n(x) != (int)m.e.size() - 1) { *detail = "size() " + std::to_string(A::n(x)) + " but model " + std::to_string((int)m.e.size() - 1); return "size"; }
    if (!m.known) return "";
    for (size_t i = 0; i < m.e.size(); ++i)
        if (!same(A::get(x, (int)i), m.e[i])) {
            *detail = (A::is_eval ? (i == 0 ? std::string("value()") : "derivative(" + std::to_string(i - 1) + ")") : "element [" + std::to_string(i) + "]") + " = " + vf::fmt17(A::get(x, (int)i)) + " but model " + vf::fmt17(m.e[i]);
            return A::is_eval ? (i == 0 ? "value" : "deriv") : "element";
        }
    return "";
}

// replay one history on the real type; returns "" or "<what>\t<detail>"
template <class A> static std::string run_history(const Unit& u, int init, const std::vector<int>& ops, uint64_t* obs) {
    using T = typename A::T;
    T a_s = A::make(u.ns, 1), a_l = A::make(u.nl, 2), w = A::make(u.ns, 5);
    Model mw = model_fp(u.ns, 5), m;
    T tgt = init == 0 ? T() : A::make(init == 1 ? u.ns : u.nl, 0);
    if (init) m = model_fp(init == 1 ? u.ns : u.nl, 0);
    std::string detail, what;
    for (int o : ops) {
        switch (o) {
        case CS: tgt = a_s; break;
        case CL: tgt = a_l; break;
        case MS: { T tmp = A::make(u.ns, 3); tgt = std::move(tmp); break; }
        case ML: { T tmp = A::make(u.nl, 4); tgt = std::move(tmp); break; }
        case MV: { T sink(std::move(tgt)); what = diff<A>(sink, m, &detail); if (!what.empty()) return "moved-to-object:" + what + "\t" + detail; break; }
        case SELF: { T& r = tgt; tgt = r; break; }
        case SWAP: std::swap(tgt, w); break;
        case CW: tgt = w; break;
        default:
            if constexpr (!A::is_eval) { if (o == SET) tgt[A::n(tgt)] = 9.5; }
            else {
                switch (o) {
                case SC: tgt = 3.25; break;
                case ADD_S: tgt += a_s; break;
                case ADD_L: tgt += a_l; break;
                case MUL_S: tgt *= a_s; break;
                case MUL_L: tgt *= a_l; break;
                case CVAR_S: tgt = T::createVariable(a_s, 2.5, u.ns - 1); break;
                case CVAR_L: tgt = T::createVariable(a_l, 2.5, u.nl - 1); break;
                case CCONST_S: tgt = T::createConstant(a_s, 1.75); break;
                case CCONST_L: tgt = T::createConstant(a_l, 1.75); break;
                case CBLANK_S: tgt = T::createBlank(a_s); break;
                case CBLANK_L: tgt = T::createBlank(a_l); break;
                }
            }
        }
        op_model(u, o, m, mw);
    }
    // ---- full observation ----
    uint64_t h = vf::fnv(u.name);
    auto mixin = [&](double d) { h = (h ^ vf::dbits(d)) * 0x9E3779B97F4A7C15ull; h ^= h >> 29; };
    if (m.valid) {
        what = diff<A>(tgt, m, &detail); if (!what.empty()) return what + "\t" + detail;
        { T c(tgt); what = diff<A>(c, m, &detail); if (!what.empty()) return "copy-constructed-twin:" + what + "\t" + detail; }
        if (m.known) for (size_t i = 0; i < m.e.size(); ++i) mixin(A::get(tgt, (int)i));
        else mixin(-1.0 - m.e.size());
        if constexpr (A::is_eval) {
            if (m.known) {
                // f(x) = x*x + sin(x) through the public operators / Math.hpp
                T f = tgt * tgt + Opm::DenseAd::sin(tgt);
                const int n = (int)m.e.size() - 1;
                Dual x; x.v = m.e[0]; x.vs = std::fabs(x.v); x.d.assign(m.e.begin() + 1, m.e.end()); x.ds.resize(n); for (int i = 0; i < n; ++i) x.ds[i] = std::fabs(x.d[i]);
                Dual xx, sx, r; c16::ref_mul(x, x, xx); c16::ref_unary(c16::SIN, x, sx); c16::ref_add(xx, sx, 1.0, r);
                if (f.size() != n) return "expression:size\tf(x).size() " + std::to_string(f.size()) + " but model " + std::to_string(n);
                if (!(std::fabs(f.value() - r.v) <= 1e-14 * r.vs)) return "expression:value\tf(x) = x*x + sin(x) gives value " + vf::fmt17(f.value()) + " but reference " + vf::fmt17(r.v);
                for (int i = 0; i < n; ++i) if (!(std::fabs(f.derivative(i) - r.d[i]) <= 1e-12 * r.ds[i] + 1e-300)) return "expression:deriv\tf(x) = x*x + sin(x) gives derivative(" + std::to_string(i) + ") " + vf::fmt17(f.derivative(i)) + " but reference " + vf::fmt17(r.d[i]);
                mixin(f.value());
            }
        }
    } else mixin(-0.5);
    what = diff<A>(a_s, model_fp(u.ns, 1), &detail); if (!what.empty()) return "small-source-modified:" + what + "\t" + detail;
    what = diff<A>(a_l, model_fp(u.nl, 2), &detail); if (!what.empty()) return "large-source-modified:" + what + "\t" + detail;
    if (mw.valid) { what = diff<A>(w, mw, &detail); if (!what.empty()) return "other-object:" + what + "\t" + detail; if (mw.known) for (size_t i = 0; i < mw.e.size(); ++i) mixin(A::get(w, (int)i)); }
    *obs = h;
    return "";
}

template <class A> static Unit unit(const std::string& name, const std::string& cls, int ns, int nl) { return Unit{name, cls, ns, nl, A::is_eval, &run_history<A>}; }

static std::vector<Unit> units() {
    namespace ad = Opm::DenseAd;
    std::vector<Unit> u;
    // name = <class>_<small derivative count>_<large derivative count>; an object with n derivatives stores n+1 entries
    u.push_back(unit<EvalAd<ad::Evaluation<double, ad::DynamicSize, 0>>>("dyn0_1_3", "dyn0", 1, 3));   // no inline buffer: everything on the heap
    u.push_back(unit<EvalAd<ad::Evaluation<double, ad::DynamicSize, 2>>>("dyn2_1_2", "dyn2", 1, 2));   // 2 entries inline | 3 entries heap (exact boundary)
    u.push_back(unit<EvalAd<ad::Evaluation<double, ad::DynamicSize, 2>>>("dyn2_1_5", "dyn2", 1, 5));
    u.push_back(unit<EvalAd<ad::Evaluation<double, ad::DynamicSize, 4>>>("dyn4_3_4", "dyn4", 3, 4));   // 4 entries inline | 5 entries heap (exact boundary)
    u.push_back(unit<EvalAd<ad::Evaluation<double, ad::DynamicSize, 4>>>("dyn4_2_8", "dyn4", 2, 8));
    u.push_back(unit<EvalAd<ad::Evaluation<double, ad::DynamicSize, 8>>>("dyn8_7_8", "dyn8", 7, 8));   // the staticSize used by the tree regime
    u.push_back(unit<EvalAd<ad::Evaluation<double, ad::DynamicSize, 4>>>("dyn4_1_2", "dyn4", 1, 2));   // both inline (same size class, different sizes)
    u.push_back(unit<EvalAd<ad::Evaluation<double, ad::DynamicSize, 2>>>("dyn2_4_6", "dyn2", 4, 6));   // both heap
    u.push_back(unit<EvalAd<ad::Evaluation<double, 3>>>("static3_3_3", "static3", 3, 3));              // control: unrolled static class
    u.push_back(unit<EvalAd<ad::Evaluation<double, 14>>>("generic14_14_14", "generic14", 14, 14));     // control: generic static class
    u.push_back(unit<FsvAd<0>>("fsv0_1_3", "fsv0", 1, 3));
    u.push_back(unit<FsvAd<2>>("fsv2_1_2", "fsv2", 1, 2));
    u.push_back(unit<FsvAd<4>>("fsv4_3_4", "fsv4", 3, 4));
    u.push_back(unit<FsvAd<4>>("fsv4_2_8", "fsv4", 2, 8));
    return u;
}

static std::string case_str(const Unit& u, int init, const std::vector<int>& ops) {
    std::string s = "hist " + u.name + " " + init_name(init) + " ";
    if (ops.empty()) s += "-";
    for (size_t i = 0; i < ops.size(); ++i) { if (i) s += ','; s += op_name(ops[i]); }
    return s;
}

// ---- child side: enumerate the histories of one unit, stream findings ------
struct Sink {
    FILE* f;
    void violation(const std::string& key, const std::string& what, const std::string& cs) { std::fprintf(f, "V\t%s\t%s\t%s\n", key.c_str(), what.c_str(), cs.c_str()); std::fflush(f); }
};
static std::string clean(std::string s) { for (char& c : s) if (c == '\t' || c == '\n') c = ' '; return s; }

// judge one history; minimality: a failing history whose proper prefix already fails is "explained"
static bool judge(const Unit& u, int init, const std::vector<int>& ops, Sink& out, uint64_t* obs, long long* explained) {
    R->current(case_str(u, init, ops));
    std::string r = u.run(u, init, ops, obs);
    if (r.empty()) return true;
    if (!ops.empty()) {
        std::vector<int> pre(ops.begin(), ops.end() - 1); uint64_t dummy;
        if (!u.run(u, init, pre, &dummy).empty()) { ++*explained; return false; }
    }
    const size_t tab = r.find('\t');
    const std::string what = r.substr(0, tab), detail = r.substr(tab + 1);
    const std::string last = ops.empty() ? std::string("construct-") + (init == 0 ? "default" : init == 1 ? "small" : "large") : op_long(ops.back());
    out.violation("C16:hist:" + u.cls + ":" + last + ":" + what,
                  clean("object history [" + case_str(u, init, ops) + "] (" + (u.is_eval ? "derivative counts" : "entries-1") + " small=" + std::to_string(u.ns) + ", large=" + std::to_string(u.nl) + "): after the last operation (" + last + ") " + detail + "; every shorter prefix of this history observes correctly"),
                  case_str(u, init, ops));
    return false;
}

static void enumerate_unit(const Unit& u, int maxlen, const std::string& file) {
    FILE* f = std::fopen(file.c_str(), "w");
    if (!f) _exit(9);
    Sink out{f};
    long long evals = 0, nodes = 0, explained = 0, failing = 0;
    std::unordered_set<uint64_t> hashes;
    bool timeout = false;
    std::vector<int> ops;
    for (int init = 0; init < 3 && !timeout; ++init) {
        // iterative DFS over enabled operation sequences (model-only enabledness), shortest first per length bound
        for (int len = 0; len <= maxlen && !timeout; ++len) {
            ops.assign(len, 0);
            // odometer over NOPS^len, pruned by enabledness
            std::vector<int> idx(len, 0);
            bool done = false;
            while (!done) {
                // enabledness of the whole sequence
                Model m, mw = model_fp(u.ns, 5); if (init) m = model_fp(init == 1 ? u.ns : u.nl, 0);
                int bad = -1;
                for (int k = 0; k < len; ++k) { if (!op_enabled(u, idx[k], m, mw)) { bad = k; break; } op_model(u, idx[k], m, mw); }
                if (bad < 0) {
                    ++nodes;
                    if (R->mine()) {
                        if ((evals & 0x3ff) == 0 && R->timed_out()) { timeout = true; break; }
                        ++evals;
                        uint64_t obs = 0;
                        if (judge(u, init, idx, out, &obs, &explained)) hashes.insert(obs); else ++failing;
                        if (evals % 20011 == 7 + (long long)(vf::fnv(u.name) % 5000)) std::fprintf(f, "S\t%s -> ok\n", case_str(u, init, idx).c_str());
                    }
                }
                // advance: if position `bad` is disabled, skip all extensions of that prefix
                int k = bad >= 0 ? bad : len - 1;
                for (int j = k + 1; j < len; ++j) idx[j] = 0;
                while (k >= 0 && ++idx[k] == NOPS) { idx[k] = 0; --k; }
                if (k < 0) done = true;
                if (len == 0) done = true;
            }
        }
    }
    for (uint64_t h : hashes) std::fprintf(f, "H\t%llx\n", (unsigned long long)h);
    std::fprintf(f, "C\thistories_in_bound\t%lld\nC\thistories_failing\t%lld\nC\thistories_failing_explained_by_prefix\t%lld\nE\t%lld\n", R->shard == 0 ? nodes : 0, failing, explained, evals);
    if (timeout) std::fprintf(f, "T\n");
    std::fprintf(f, "DONE\n");
    std::fclose(f);
}

int main(int argc, char** argv) {
    vf::Run run("C16", argc, argv); R = &run;
#if defined(__SANITIZE_ADDRESS__)
    const bool sanitized = true;       // ASan+UBSan flavour of this part (10x slower): one operation less
#else
    const bool sanitized = false;
#endif
    const int maxlen = (run.thorough() ? 5 : 4) - (sanitized ? 1 : 0);
    const std::vector<Unit> U = units();
    run.rule = std::string(sanitized ? "[ASan+UBSan build] " : "") + "object histories (E2): ONE target object per run, every sequence of <= " + std::to_string(maxlen) + " enabled lifecycle operations from 3 initial states {default-constructed, fresh small, fresh large} over"
               " {copy-assign from small/large lvalue, move-assign from small/large temporary, move the target away, self-assign, = scalar, std::swap with a second long-lived object, copy-assign from that object,"
               " += and *= with the size-matching source, = createVariable/createConstant/createBlank(small/large)} (FastSmallVector: the storage subset + element write);"
               " units: DynamicEvaluation staticSize 0,2,4,8 with derivative counts on both sides of / on one side of the inline-heap boundary (dyn0_1_3 dyn2_1_2 dyn2_1_5 dyn4_3_4 dyn4_2_8 dyn8_7_8 dyn4_1_2 dyn2_4_6),"
               " controls Evaluation<double,3> and Evaluation<double,14>, FastSmallVector<double,0|2|4>;"
               " after each history: size(), value(), every derivative(i), a copy-constructed twin, f(x) = x*x + sin(x), both sources unchanged, the second object — against a plain std::vector model (and the dual-number reference for f);"
               " distinct = distinct final observations";
    run.assumptions = {"reference: plain std::vector model of the object contents written in the harness (assignment = replace, swap = exchange, += / *= element rules), dual-number reference for f(x)",
                       "reading or scalar-assigning an empty (default-constructed or moved-from) object is not promised by the property and is never done: such a target only receives assignments / swaps",
                       "createBlank leaves the contents unspecified: only size() is observed until the next assignment",
                       "+= and *= are applied only when the operand has the target's current number of derivatives (the library asserts equal sizes)"};

    const char* sc = std::getenv("VERIF_SCRATCH");
    const std::string dir = std::string(sc ? sc : "/tmp");

    // replay of one history (in a child as well: it may crash)
    if (!run.replay_path.empty()) {
        char uname[64], iname[8], opsbuf[256] = "";
        if (std::sscanf(run.replay_path.c_str(), "hist %63s %7s %255s", uname, iname, opsbuf) < 2) throw std::runtime_error("replay case must be 'hist <unit> <init> <ops>'");
        const Unit* u = nullptr; for (auto& x : U) if (x.name == uname) u = &x;
        if (!u) throw std::runtime_error(std::string("unknown unit ") + uname);
        int init = iname[0] == 'D' ? 0 : iname[0] == 'S' ? 1 : 2;
        std::vector<int> ops; std::string os = opsbuf;
        if (os != "-" && !os.empty()) { std::stringstream ss(os); std::string t; while (std::getline(ss, t, ',')) { int o = -1; for (int k = 0; k < NOPS; ++k) if (t == op_name(k)) o = k; if (o < 0) throw std::runtime_error("unknown op " + t); ops.push_back(o); } }
        const std::string file = dir + "/C16h." + std::to_string(getpid()) + ".replay";
        int rc = vf::in_child([&] { FILE* f = std::fopen(file.c_str(), "w"); Sink out{f}; uint64_t obs; long long ex = 0; judge(*u, init, ops, out, &obs, &ex);
                                   if (ex) { std::string r = u->run(*u, init, ops, &obs); out.violation("C16:hist:" + u->cls + ":(not-minimal)", clean(r), case_str(*u, init, ops)); }
                                   std::fclose(f); }, 60);
        run.evaluations++;
        std::ifstream in(file); std::string line;
        while (std::getline(in, line)) if (line[0] == 'V') { std::stringstream ss(line); std::string tag, key, what, cs; std::getline(ss, tag, '\t'); std::getline(ss, key, '\t'); std::getline(ss, what, '\t'); std::getline(ss, cs, '\t'); run.violation(key, what, "{\"case\": " + vf::jstr(cs) + "}"); }
        ::unlink(file.c_str());
        if (rc != 0) run.violation("C16:hist:" + u->cls + ":crash", "history [" + run.replay_path + "] " + (rc < 0 ? "killed the process with signal " + std::to_string(-rc) : "ended with a sanitizer report / exit status " + std::to_string(rc)), "{\"case\": " + vf::jstr(run.replay_path) + "}");
        return run.finish();
    }

    for (size_t ui = 0; ui < U.size(); ++ui) {
        const Unit& u = U[ui];
        const std::string file = dir + "/C16h." + std::to_string(getpid()) + "." + std::to_string(ui);
        run.current("hist " + u.name + " (starting)");
        int rc = vf::in_child([&] {
            struct rlimit rl = {0, 0}; setrlimit(RLIMIT_CORE, &rl);
            enumerate_unit(u, maxlen, file);
        }, 3600);
        bool done = false;
        std::ifstream in(file); std::string line;
        while (std::getline(in, line)) {
            if (line.empty()) continue;
            std::stringstream ss(line); std::string tag, a, b, c;
            std::getline(ss, tag, '\t'); std::getline(ss, a, '\t'); std::getline(ss, b, '\t'); std::getline(ss, c, '\t');
            if (tag == "V") run.violation(a, b, "{\"case\": " + vf::jstr(c) + "}");
            else if (tag == "H") run.observe((uint64_t)std::strtoull(a.c_str(), nullptr, 16));
            else if (tag == "C") run.count(a, std::atoll(b.c_str()));
            else if (tag == "E") run.evaluations += std::atoll(a.c_str());
            else if (tag == "S") run.sample_str(a);
            else if (tag == "T") { run.exhaustive = false; run.cap_note += "deadline hit in unit " + u.name + "; "; }
            else if (tag == "DONE") done = true;
        }
        in.close(); ::unlink(file.c_str());
        if (rc != 0 || !done) {
            // the unit's child died: null / dangling storage pointer (SIGSEGV) or a sanitizer report; the history is the published case
            const std::string cur = run.cur ? std::string(run.cur) : std::string("hist " + u.name + " (unknown history: run with --out)");
            run.exhaustive = false; run.cap_note += "unit " + u.name + " aborted; ";
            run.violation("C16:hist:" + u.cls + ":crash",
                          "object history [" + cur + "] " + (rc < 0 ? "killed the process with signal " + std::to_string(-rc) + " (null or dangling storage pointer)" : "ended with a sanitizer report / exit status " + std::to_string(rc)) + "; remaining histories of unit " + u.name + " in this shard not run",
                          "{\"case\": " + vf::jstr(cur) + "}");
        }
        // the case counter must stay in step across units in every shard: the child advanced its own copy only
        // (each unit therefore restarts the round-robin at 0, which is deterministic and equal in all shards)
    }
    run.count("units", run.shard == 0 ? (long long)U.size() : 0);
    return run.finish();
}
