// C16 variant TU: unrolled specialisation Evaluation<double,3> (opm/material/densead/Evaluation3.hpp)
#include "C16_impl.hpp"
C16_STATIC_TU(3, "static")
