// C10 — summary files read back.
//
// Writer : out::Summary on a 17x17x17 grid with N BPR vectors + TIME/YEARS/FOPR/WOPR:P1,
//          driven by an explicit step script over {m: ministep inside the open report step,
//          M: ministep that closes the report step, w: write(false)}; the last data-carrying
//          write is always is_final_summary=true (ExtSmryOutput's 15 s throttle).
// Readers: ESmry::loadData() ("esmry-full"), ESmry::loadData(vectList) + lazy get() ("esmry-select"),
//          ESmry::make_esmry_file() -> ExtESmry ("ext-from-conv"), the writer's own ESMRY -> ExtESmry
//          ("ext-native", unformatted only: the writer refuses ESMRY with FMTOUT).
// Oracle : boring model in the harness: every value is float(SummaryState value handed to add_timestep)
//          and is a fingerprint of (vector, run, ministep); time axis / report steps / units / start date
//          come from the script.  With a base run: base history up to r, then own steps.
//
// Two binaries from this source:
//   C10_smryfiles       (plain build)  the full sweep, all readers in process
//   C10_smryfiles_asan  (-DC10_SELECT_PART, asan build) selective load only, each read in a forked child;
//                       a sanitizer report in the child is the finding (unterminated strtof buffer).
#include "vf.hpp"
#include <opm/output/eclipse/Summary.hpp>
#include <opm/output/eclipse/Inplace.hpp>
#include <opm/output/data/Wells.hpp>
#include <opm/output/data/Groups.hpp>
#include <opm/output/data/Aquifer.hpp>
#include <opm/input/eclipse/EclipseState/EclipseState.hpp>
#include <opm/input/eclipse/EclipseState/SummaryConfig/SummaryConfig.hpp>
#include <opm/input/eclipse/EclipseState/Grid/EclipseGrid.hpp>
#include <opm/input/eclipse/Schedule/Schedule.hpp>
#include <opm/input/eclipse/Schedule/SummaryState.hpp>
#include <opm/input/eclipse/Schedule/Well/Well.hpp>
#include <opm/input/eclipse/Python/Python.hpp>
#include <opm/input/eclipse/Parser/Parser.hpp>
#include <opm/input/eclipse/Deck/Deck.hpp>
#include <opm/common/utility/TimeService.hpp>
#include <opm/io/eclipse/ESmry.hpp>
#include <opm/io/eclipse/ExtESmry.hpp>
#include <opm/io/eclipse/EclFile.hpp>
#include <cmath>
#include <filesystem>
#include <iostream>
#include <memory>
#if defined(__SANITIZE_ADDRESS__)
#include <sanitizer/asan_interface.h>
#endif

namespace fs = std::filesystem;
using namespace Opm;

#ifdef C10_SELECT_PART
// gcc's libasan has no strtof interceptor, so an over-read inside libc's strtof is invisible to the sanitizer.
// The harness therefore interposes strtof in its own (instrumented) executable and, while the guard is on,
// walks exactly the bytes every conforming strtof has to examine for a decimal number
// (ws* sign? digits* ('.' digits*)? ([eE] sign? digits*)? and the one byte that ends the match).
// If that walk leaves the object handed in, AddressSanitizer reports the heap-buffer-overflow here, deterministically.
#include <dlfcn.h>
static volatile bool g_guard_strtof = false;
static volatile size_t g_sink = 0;
extern "C" float strtof(const char* __restrict s, char** __restrict end) noexcept {
    static auto real = reinterpret_cast<float (*)(const char*, char**)>(dlsym(RTLD_NEXT, "strtof"));
    if (g_guard_strtof) {
        const char* p = s;
        while (*p == ' ' || (*p >= '\t' && *p <= '\r')) ++p;
        if (*p == '+' || *p == '-') ++p;
        if ((*p >= '0' && *p <= '9') || *p == '.') {
            while (*p >= '0' && *p <= '9') ++p;
            if (*p == '.') { ++p; while (*p >= '0' && *p <= '9') ++p; }
            if (*p == 'e' || *p == 'E') { ++p; if (*p == '+' || *p == '-') ++p; while (*p >= '0' && *p <= '9') ++p; }
        }
        g_sink = static_cast<size_t>(p - s);
    }
    return real(s, end);
}
#endif

static vf::Run* R;
static std::string g_dir;
static int GX = 17, GY = 17, GZ = 17;   // grid dimensions: 17^3 for the vector-count sweep, 3^3 for the restart-root regime, the shape alphabet for the grid-shape regime
static bool g_conn = false;             // model deck completes P1 in every layer of column (GX,GY) and asks for CPR/COFR of every connection
static void set_grid(int x, int y, int z, bool conn) { GX = x; GY = y; GZ = z; g_conn = conn; }
static const char* BASE_NAME = "C10B";
static const char* RUN_NAME = "C10R";

// ------------------------------------------------------------------ model ---
struct Ms { int rstep; bool sub; double days; };            // one ministep as scripted

struct Series {                                            // what one run handed to add_timestep
    std::vector<Ms> ms;
    std::vector<std::vector<float>> rows;                  // rows[m][idx], canonical vector order
};

struct Vectors {                                           // canonical order: TIME YEARS FOPR WOPR:P1 BPR(c=0..N-1)
    std::vector<std::string> rkey;                         // reader key
    std::vector<std::string> skey;                         // SummaryState key
    std::vector<std::string> unit;
    std::vector<int> gidx;                                 // BPR/CPR/COFR global cell index (1-based), 0 for others
    std::vector<int> kind;                                 // 0 TIME 1 YEARS 2 FOPR 3 WOPR 4 BPR 5 CPR 6 COFR
    std::vector<int> ord;                                  // BPR: c, connection vectors: layer
};

static Vectors make_vectors(int N) {
    Vectors v;
    auto add = [&](const std::string& r, const std::string& s, const std::string& u, int g, int kind, int ord) { v.rkey.push_back(r); v.skey.push_back(s); v.unit.push_back(u); v.gidx.push_back(g); v.kind.push_back(kind); v.ord.push_back(ord); };
    add("TIME", "TIME", "DAYS", 0, 0, 0);
    add("YEARS", "YEARS", "YEARS", 0, 1, 0);
    add("FOPR", "FOPR", "SM3/DAY", 0, 2, 0);
    add("WOPR:P1", "WOPR:P1", "SM3/DAY", 0, 3, 0);
    for (int c = 0; c < N; ++c) {
        int i = c % GX, j = (c / GX) % GY, k = c / (GX * GY);
        int g = i + GX * (j + GY * k) + 1;
        add("BPR:" + std::to_string(i + 1) + "," + std::to_string(j + 1) + "," + std::to_string(k + 1), "BPR:" + std::to_string(g), "BARSA", g, 4, c);
    }
    if (g_conn) for (int kw = 0; kw < 2; ++kw) for (int k = 0; k < GZ; ++k) {
        const int g = (GX - 1) + GX * ((GY - 1) + GY * k) + 1;
        const std::string ijk = std::to_string(GX) + "," + std::to_string(GY) + "," + std::to_string(k + 1), name = kw ? "COFR" : "CPR";
        add(name + ":P1:" + ijk, name + ":P1:" + std::to_string(g), kw ? "SM3/DAY" : "BARSA", g, 5 + kw, k);
    }
    return v;
}

// fingerprints: exactly representable as float and in 8 significant decimal digits
// and no two of them (nor a TIME value) are related by a power of ten: integers whose last digit is 1..9
static double fp_id(int id) { return 10.0 * (id + 7) + 1 + (id % 9); }
static double fp_bpr(int c, int tag, int lm) { return fp_id((c * 2 + tag) * 16 + lm); }            // <= 1 572 309
static double fp_rate(int tag, int lm) { return 10.0 * (200000 + tag * 16 + lm) + 3; }             // 2 000 003 ...
static double fp_conn(int kw, int layer, int tag, int lm) { return fp_id(100000 + kw * 20000 + (layer * 2 + tag) * 16 + lm); }   // 1 000 07x ... (CPR), 1 200 07x ... (COFR)

struct StartDate { const char* deck; int d, m, y, hh, mi, ss; };
static const StartDate START[2] = {{"1 JAN 2020", 1, 1, 2020, 0, 0, 0}, {"5 MAR 2021 06:30:15", 5, 3, 2021, 6, 30, 15}};

static time_point start_tp(const StartDate& s) {
    const auto ts = TimeStampUTC{TimeStampUTC::YMD{s.y, s.m, s.d}}.hour(s.hh).minutes(s.mi).seconds(s.ss);
    return TimeService::from_time_t(asTimeT(ts));
}

// ------------------------------------------------------------------ setup ---
struct Setup {
    int N = 0; bool fmt = false, unif = false; int base = 0; int sv = 0;
    std::unique_ptr<EclipseState> es;
    std::unique_ptr<Schedule> sched;
    std::unique_ptr<SummaryConfig> sc;
    Vectors vec;
};

static std::string deck_text(int N, bool fmt, bool unif, int restart_step, int sv, const std::string& restart_root = BASE_NAME) {
    std::string keys = "FOPR\nWOPR\n 'P1' /\nBPR\n";
    for (int c = 0; c < N; ++c) {
        int i = c % GX, j = (c / GX) % GY, k = c / (GX * GY);
        keys += " " + std::to_string(i + 1) + " " + std::to_string(j + 1) + " " + std::to_string(k + 1) + " /\n";
    }
    keys += "/\n";
    const std::string wi = std::to_string(g_conn ? GX : 1), wj = std::to_string(g_conn ? GY : 1), wk2 = std::to_string(g_conn ? GZ : 1);
    if (g_conn) for (const char* kw : {"CPR", "COFR"}) {
        keys += std::string(kw) + "\n";
        for (int k = 1; k <= GZ; ++k) keys += " 'P1' " + wi + " " + wj + " " + std::to_string(k) + " /\n";
        keys += "/\n";
    }
    const std::string nc = std::to_string(GX * GY * GZ), nl = std::to_string(GX * GY);
    std::string s = "RUNSPEC\nDIMENS\n " + std::to_string(GX) + " " + std::to_string(GY) + " " + std::to_string(GZ) + " /\nOIL\nWATER\nMETRIC\n";
    if (fmt) s += "FMTOUT\n";
    if (unif) s += "UNIFOUT\n";
    s += "WELLDIMS\n 2 20 2 2 /\nSTART\n " + std::string(START[sv].deck) + " /\n";
    s += "GRID\nDX\n " + nc + "*10 /\nDY\n " + nc + "*10 /\nDZ\n " + nc + "*1 /\nTOPS\n " + nl + "*2000 /\nPORO\n " + nc + "*0.3 /\nPERMX\n " + nc + "*100 /\nPERMY\n " + nc + "*100 /\nPERMZ\n " + nc + "*10 /\n";
    s += "PROPS\nSOLUTION\n";
    if (restart_step > 0) s += "RESTART\n '" + restart_root + "' " + std::to_string(restart_step) + " /\n";
    s += "SUMMARY\n" + keys;
    s += "SCHEDULE\nWELSPECS\n 'P1' 'G1' " + wi + " " + wj + " 1* OIL /\n/\nCOMPDAT\n 'P1' " + wi + " " + wj + " 1 " + wk2 + " OPEN 1* 1* 0.2 /\n/\nWCONPROD\n 'P1' OPEN ORAT 100 4* 50 /\n/\nTSTEP\n 12*1 /\nEND\n";
    return s;
}

static std::shared_ptr<Python> g_python;

static std::unique_ptr<Setup> make_setup(int N, bool fmt, bool unif, int restart_step, int sv, const std::string& basename,
                                         const std::string& restart_root = BASE_NAME, const std::string& outdir = std::string()) {
    auto S = std::make_unique<Setup>();
    S->N = N; S->fmt = fmt; S->unif = unif; S->base = restart_step; S->sv = sv;
    Parser parser;
    auto deck = parser.parseString(deck_text(N, fmt, unif, restart_step, sv, restart_root));
    S->es = std::make_unique<EclipseState>(deck);
    S->sched = std::make_unique<Schedule>(deck, *S->es, g_python);
    S->sc = std::make_unique<SummaryConfig>(deck, *S->sched, S->es->fieldProps(), S->es->aquifer());
    S->es->getIOConfig().setOutputDir(outdir.empty() ? g_dir : outdir);
    S->es->getIOConfig().setBaseName(basename);
    S->vec = make_vectors(N);
    return S;
}

// ----------------------------------------------------------------- writer ---
// script: m = substep, M = closing ministep, w = write(false).  A 'w' after which no ministep follows is the
// final data-carrying write and is issued with is_final_summary=true; write(true) closes every script.
static Series run_writer(Setup& S, const std::string& basename, const std::string& script, int first_rstep, double t0_days, int tag, bool esmry) {
    Series out;
    SummaryState st(TimeService::from_time_t(S.sched->getStartTime()), 0.0);
    out::Summary sum(*S.sc, *S.es, S.es->getInputGrid(), *S.sched, basename, esmry);
    const auto& V = S.vec;
    int rstep = first_rstep; double days = t0_days; int lm = 0;
    size_t last_ms = std::string::npos;
    for (size_t i = 0; i < script.size(); ++i) if (script[i] != 'w') last_ms = i;
    for (size_t i = 0; i < script.size(); ++i) {
        const char e = script[i];
        if (e == 'w') { sum.write(last_ms == std::string::npos || i > last_ms); continue; }
        const bool sub = (e == 'm');
        days += 0.5;
        out::Summary::BlockValues bv;
        for (size_t idx = 4; idx < V.rkey.size(); ++idx) if (V.kind[idx] == 4) bv[{"BPR", V.gidx[idx]}] = fp_bpr(V.ord[idx], tag, lm) * 1.0e5;
        data::Wells wells;
        {
            data::Well w; w.rates.set(data::Rates::opt::oil, -(fp_rate(tag, lm) / 86400.0)); w.bhp = 1.0e7; w.dynamicStatus = Well::Status::OPEN; w.current_control.isProducer = true;
            for (size_t idx = 4; idx < V.rkey.size(); ++idx) if (V.kind[idx] == 5) {          // one connection per layer: pressure (CPR) and oil rate (COFR)
                data::Connection cn; cn.index = size_t(V.gidx[idx] - 1); cn.pressure = fp_conn(0, V.ord[idx], tag, lm) * 1.0e5;
                cn.rates.set(data::Rates::opt::oil, -(fp_conn(1, V.ord[idx], tag, lm) / 86400.0));
                w.connections.push_back(cn);
            }
            wells["P1"] = w;
        }
        sum.eval(st, rstep, days * 86400.0, wells, {}, {}, {}, {}, {}, {}, bv);
        sum.add_timestep(st, rstep, sub);
        std::vector<float> row(V.rkey.size());
        for (size_t idx = 0; idx < V.rkey.size(); ++idx) row[idx] = st.has(V.skey[idx]) ? static_cast<float>(st.get(V.skey[idx])) : 0.0f;
        // harness self check: the fingerprints really are what SummaryState holds
        bool ok = row[0] == static_cast<float>(days) && row[2] == static_cast<float>(fp_rate(tag, lm)) && row[3] == row[2];
        for (size_t idx = 4; ok && idx < V.rkey.size(); ++idx) ok = row[idx] == static_cast<float>(V.kind[idx] == 4 ? fp_bpr(V.ord[idx], tag, lm) : fp_conn(V.kind[idx] - 5, V.ord[idx], tag, lm));
        if (!ok) R->violation("C10:harness:fingerprint", "SummaryState does not hold the fingerprint values handed to eval (harness assumption broken) N=" + std::to_string(S.N));
        out.ms.push_back({rstep, sub, days});
        out.rows.push_back(std::move(row));
        ++lm;
        if (!sub) ++rstep;
    }
    sum.write(true);
    return out;
}

// the base run: report steps 1..3, ministeps (1,sub)(1)(2)(3,sub)(3) at 0.5,1,1.5,2,2.5 days
static const char* BASE_SCRIPT = "mMwMmM";

// ----------------------------------------------------------------- oracle ---
struct Expect {
    const Vectors* V = nullptr;
    std::vector<double> days;
    std::vector<std::vector<float>> rows;
    std::vector<int> rs_legacy;      // last ministep of every SEQHDR group (what the SMSPEC/UNSMRY format can express)
    std::vector<int> rs_flag;        // ministeps added with isSubstep=false (what ESMRY's RSTEP array expresses)
    time_point start;
    StartDate sd;
    bool fmt = false;
    std::vector<int> ppos;           // canonical index -> PARAMS position in the run's SMSPEC (messages only)
};

static Expect make_expect(const Setup& S, const Series* base, int r, const Series& own) {
    Expect e; e.V = &S.vec; e.fmt = S.fmt; e.sd = START[S.sv]; e.start = start_tp(e.sd);
    std::vector<Ms> all;
    if (base) for (size_t m = 0; m < base->ms.size(); ++m) if (base->ms[m].rstep <= r) { all.push_back(base->ms[m]); e.rows.push_back(base->rows[m]); }
    for (size_t m = 0; m < own.ms.size(); ++m) { all.push_back(own.ms[m]); e.rows.push_back(own.rows[m]); }
    for (size_t m = 0; m < all.size(); ++m) {
        e.days.push_back(all[m].days);
        if (!all[m].sub) e.rs_flag.push_back(int(m));
        if (m + 1 == all.size() || all[m + 1].rstep != all[m].rstep) e.rs_legacy.push_back(int(m));
    }
    return e;
}

static bool feq(float got, float want, bool fmt, size_t idx) {
    if (std::memcmp(&got, &want, 4) == 0) return true;
    if (fmt && idx == 1) return std::fabs(double(got) - double(want)) <= 2e-7 * std::fabs(double(want));   // YEARS: 8 printed digits
    return false;
}

// over-read signature of the unterminated strtof buffer: the token is right, the exponent got extra digits
// Extra digits can only be APPENDED to the two exponent digits: a value >= 0.1 (exponent E+XX) grows by an exact power of
// ten (or overflows), a value < 0.1 (exponent E-XX) shrinks by one (or underflows).  A wrong offset returns another fingerprint
// (no two fingerprints are related by a power of ten) or a truncated token (which moves the value the other way).
static bool overread_signature(float got, float want) {
    if (!(want > 0) || std::isnan(got) || got < 0) return false;
    const bool up = want >= 0.1f;
    if (std::isinf(got)) return up;
    if (got == 0) return !up;
    const double k = std::log10(double(got) / double(want)), kr = std::round(k);
    if (std::fabs(k - kr) >= 1e-5) return false;
    return up ? kr >= 1 : kr <= -1;
}

struct Ctx { std::string reader, cfg, casestr; bool fmt = false; std::string note; };
static void viol(const Ctx& c, const std::string& what, const std::string& msg) {
    R->violation("C10:" + c.reader + ":" + c.cfg + ":" + what, c.reader + ": " + c.note + msg + "  [" + c.casestr + "]", "{\"case\": " + vf::jstr(c.casestr) + "}");
}

static long long g_values = 0;
static bool g_timing = std::getenv("C10_TIMING") != nullptr;
struct Tm { const char* n; std::chrono::steady_clock::time_point t = std::chrono::steady_clock::now(); Tm(const char* n_) : n(n_) {} ~Tm() { if (g_timing) std::cerr << "  T " << n << " " << std::chrono::duration<double>(std::chrono::steady_clock::now() - t).count() * 1e3 << " ms\n"; } };

// compare the vectors with canonical indices `which` (all if empty)
template <class Rd>
static void check_values(Rd& rd, const Expect& e, const Ctx& c, const std::vector<int>& which) {
    const size_t P = e.V->rkey.size(), n = e.rows.size();
    auto one = [&](size_t idx) {
        const std::vector<float>* pv = nullptr;
        try { pv = &rd.get(e.V->rkey[idx]); }
        catch (const std::exception& ex) { viol(c, "keys", "get(" + e.V->rkey[idx] + ") threw for a vector that was written: " + std::string(ex.what()).substr(0, 120)); return false; }
        const auto& v = *pv;
        if (v.size() != n) { viol(c, "count", "vector " + e.V->rkey[idx] + " has " + std::to_string(v.size()) + " ministeps, expected " + std::to_string(n)); return false; }
        for (size_t m = 0; m < n; ++m) {
            ++g_values;
            if (!feq(v[m], e.rows[m][idx], e.fmt, idx)) {
                const std::string msg = "vector " + e.V->rkey[idx] + " (PARAMS position " + std::to_string(idx < e.ppos.size() ? e.ppos[idx] : int(idx)) + " of " + std::to_string(P) + ") ministep " + std::to_string(m) + ": read " + vf::fmt17(v[m]) + ", written " + vf::fmt17(e.rows[m][idx]);
                if (c.reader.rfind("esmry-select", 0) == 0 && c.fmt && overread_signature(v[m], e.rows[m][idx]))
                    R->violation("C10:esmry-select:fmt:unterminated-strtof:wrong-value", "formatted ESmry::loadData(vectList): " + msg + " (right token, exponent ran on into the bytes behind the 17-byte buffer)  [" + c.casestr + "]", "{\"case\": " + vf::jstr(c.casestr) + "}");
                else viol(c, "value", msg);
                return false;
            }
        }
        return true;
    };
    if (which.empty()) { for (size_t idx = 0; idx < P; ++idx) if (!one(idx)) return; }
    else for (int idx : which) if (!one(size_t(idx))) return;
}

// E2 over the reader's own state: every sequence of <= depth access operations on ONE fresh reader object, then all vectors
// compared.  A reader caches what it loaded, so what a later call returns must not depend on what was asked before.
static int g_order_depth = 2;
template <class Make>
static void access_orders(Make make, const Expect& e, const Ctx& c0) {
    const size_t P = e.V->rkey.size();
    if (P < 4 || P > 8) return;
    const std::string K1 = e.V->rkey[2], K2 = e.V->rkey[3], KL = e.V->rkey[P - 1], T = e.V->rkey[0];
    static const char* opname[] = {"dates", "get(K1)", "get(Klast)", "loadData({K1,K2})", "loadData({K2,K1,K2,Klast})", "loadData({Klast,TIME,K1})", "loadData()", "get_at_rstep(K2)"};
    const int NOP = 8;
    std::vector<int> seq;
    std::function<void()> rec = [&]() {
        if (!seq.empty()) {
            std::string sname; for (int o : seq) sname += std::string(sname.empty() ? "" : " ; ") + opname[o];
            Ctx c = c0; c.reader += "+order";
            try {
                auto rd = make();
                for (int o : seq) switch (o) {
                    case 0: (void)rd->dates(); break;
                    case 1: (void)rd->get(K1); break;
                    case 2: (void)rd->get(KL); break;
                    case 3: rd->loadData({K1, K2}); break;
                    case 4: rd->loadData({K2, K1, K2, KL}); break;
                    case 5: rd->loadData({KL, T, K1}); break;
                    case 6: rd->loadData(); break;
                    case 7: (void)rd->get_at_rstep(K2); break;
                }
                c.note = "after the access sequence [" + sname + "] on one reader object: ";
                check_values(*rd, e, c, {});
                R->count("access_sequences");
            } catch (const std::exception& ex) { viol(c, "throws", "after the access sequence [" + sname + "]: reader threw: " + std::string(ex.what()).substr(0, 200)); }
        }
        if ((int)seq.size() == g_order_depth) return;
        for (int o = 0; o < NOP; ++o) { seq.push_back(o); rec(); seq.pop_back(); }
    };
    rec();
}

template <class Rd>
static void check_axis(Rd& rd, const Expect& e, const Ctx& c, const std::vector<int>& rs, bool legacy_api) {
    const size_t P = e.V->rkey.size(), n = e.rows.size();
    // count
    if (size_t(rd.numberOfVectors()) != P) viol(c, "count", "numberOfVectors " + std::to_string(rd.numberOfVectors()) + ", written " + std::to_string(P));
    else {
        std::vector<std::string> a = rd.keywordList(), b = e.V->rkey;
        std::sort(a.begin(), a.end()); std::sort(b.begin(), b.end());
        if (a != b) {
            std::string missing, dup, extra;
            for (auto& k : b) if (!std::binary_search(a.begin(), a.end(), k)) { missing = k; break; }
            for (size_t i = 1; i < a.size(); ++i) if (a[i] == a[i - 1]) { dup = a[i]; break; }
            for (auto& k : a) if (!std::binary_search(b.begin(), b.end(), k)) { extra = k; break; }
            viol(c, "keys", "keyword list is not the set of vectors written:" + (missing.empty() ? "" : " missing " + missing) + (dup.empty() ? "" : " listed twice " + dup) + (extra.empty() ? "" : " unexpected " + extra));
        }
    }
    if (P <= 100) for (size_t idx = 0; idx < P; ++idx) if (!rd.hasKey(e.V->rkey[idx])) { viol(c, "keys", "hasKey(" + e.V->rkey[idx] + ") is false for a vector that was written"); break; }
    if (rd.numberOfTimeSteps() != n) { viol(c, "count", "numberOfTimeSteps " + std::to_string(rd.numberOfTimeSteps()) + ", expected " + std::to_string(n)); return; }
    // start date
    const bool start_ok = rd.startdate() == e.start;
    if (!start_ok && c.reader.rfind("ext-", 0) == 0 && e.sd.ss != 0 && e.start - rd.startdate() == std::chrono::seconds(e.sd.ss))
        R->violation("C10:extesmry:startdate:seconds-dropped", c.reader + ": ExtESmry::startdate() loses the seconds of START (" + std::string(e.sd.deck) + " reads back " + std::to_string(e.sd.ss) + " s early): ExtESmry's make_date divides the ESMRY START[5] entry, which holds seconds, by 1000000  [" + c.casestr + "]", "{\"case\": " + vf::jstr(c.casestr) + "}");
    else if (!start_ok) viol(c, "startdate", "startdate() is " + std::to_string(TimeService::to_time_t(rd.startdate())) + " (time_t), START of the run is " + std::to_string(TimeService::to_time_t(e.start)) + " = " + e.sd.deck);
    {
        const auto& sv = rd.start_v();
        if (sv.size() < 3 || sv[0] != e.sd.d || sv[1] != e.sd.m || sv[2] != e.sd.y) viol(c, "startdate", "start_v() day/month/year differ from START " + std::string(e.sd.deck));
    }
    // dates and report-step series are derived from vectors (TIME, ...): judged only if those vectors themselves read back right
    // (a wrong vector is reported by check_values under its own key)
    bool derived_ok = true;
    for (size_t idx : {size_t(0), P - 1}) {
        const auto& v = rd.get(e.V->rkey[idx]);
        if (v.size() != n) derived_ok = false;
        else for (size_t m = 0; m < n; ++m) if (!feq(v[m], e.rows[m][idx], e.fmt, idx)) derived_ok = false;
    }
    if (!derived_ok) R->count("derived_axis_checks_skipped_vector_itself_wrong");
    // dates: relative to the reader's own start date, so that a start date defect is reported once
    if (derived_ok) {
        auto d = rd.dates();
        if (d.size() != n) viol(c, "dates", "dates() has " + std::to_string(d.size()) + " entries, expected " + std::to_string(n));
        else for (size_t m = 0; m < n; ++m) {
            const auto want = std::chrono::duration_cast<std::chrono::seconds>(std::chrono::duration<double>(e.days[m] * 86400.0));
            if (d[m] - rd.startdate() != want) { viol(c, "dates", "dates()[" + std::to_string(m) + "] is start + " + std::to_string(std::chrono::duration_cast<std::chrono::seconds>(d[m] - rd.startdate()).count()) + " s, ministep was written at " + std::to_string(want.count()) + " s"); break; }
        }
    }
    // report steps
    if (derived_ok) for (size_t idx : {size_t(0), P - 1}) {
        auto v = rd.get_at_rstep(e.V->rkey[idx]);
        bool ok = v.size() == rs.size();
        for (size_t k = 0; ok && k < rs.size(); ++k) ok = feq(v[k], e.rows[rs[k]][idx], e.fmt, idx);
        if (!ok) {
            std::string want, got; for (int k : rs) want += std::to_string(k) + " "; for (float x : v) got += vf::fmt17(x) + " ";
            viol(c, "rstep", "get_at_rstep(" + e.V->rkey[idx] + ") = [ " + got + "], report steps are at ministep indices [ " + want + "]");
            break;
        }
    }
    // units
    for (size_t idx = 0; idx < P; ++idx) {
        const std::string u = rd.get_unit(e.V->rkey[idx]);
        if (u != e.V->unit[idx] && idx == 1 && u.empty() && c.reader.rfind("ext-native", 0) == 0) {
            R->violation("C10:ext-native:units:years-unit-empty", c.reader + ": the writer's ESMRY gives YEARS the unit '' while the SMSPEC of the same run says 'YEARS' (Summary.cpp configureTimeVector pushes \"\" to valueUnits_ and kw to the SMSPEC parameter)  [" + c.casestr + "]", "{\"case\": " + vf::jstr(c.casestr) + "}");
            continue;
        }
        if (u != e.V->unit[idx]) { viol(c, "units", "unit of " + e.V->rkey[idx] + " is '" + u + "', written '" + e.V->unit[idx] + "'"); break; }
    }
    if (!rd.all_steps_available()) viol(c, "ministep", "all_steps_available() is false for consecutively numbered ministeps");
    (void)legacy_api;
}

static void check_esmry_extra(const EclIO::ESmry& rd, const Expect& e, const Ctx& c) {
    for (size_t k = 0; k < e.rs_legacy.size(); ++k)
        if (rd.timestepIdxAtReportstepStart(int(k) + 1) != e.rs_legacy[k]) { viol(c, "rstep", "timestepIdxAtReportstepStart(" + std::to_string(k + 1) + ") = " + std::to_string(rd.timestepIdxAtReportstepStart(int(k) + 1)) + ", written position " + std::to_string(e.rs_legacy[k])); break; }
    { const auto& v = rd.get("TIME"); if (v.size() != e.rows.size()) return; for (size_t m = 0; m < v.size(); ++m) if (!feq(v[m], e.rows[m][0], e.fmt, 0)) return; }
    auto d = rd.dates_at_rstep();
    bool ok = d.size() == e.rs_legacy.size();
    for (size_t k = 0; ok && k < d.size(); ++k) ok = (d[k] - rd.startdate()) == std::chrono::duration_cast<std::chrono::seconds>(std::chrono::duration<double>(e.days[e.rs_legacy[k]] * 86400.0));
    if (!ok) viol(c, "rstep", "dates_at_rstep() differs from the report step positions written");
}

// PARAMS positions worth a direct seek: first, last, around every multiple of 1000 (block boundary of both encodings)
static std::vector<int> select_positions(int P) {
    std::set<int> s = {0, 1, P - 2, P - 1};
    for (int k = 1000; k - 2 < P; k += 1000) for (int d = -2; d <= 1; ++d) s.insert(k + d);
    std::vector<int> v; for (int p : s) if (p >= 0 && p < P) v.push_back(p);
    return v;
}

// PARAMS position -> canonical index, from the KEYWORDS/WGNAMES/NUMS arrays of the SMSPEC the writer produced
// (only used to choose which vectors sit at the interesting positions, and for messages; empty = SMSPEC does not list exactly the vectors written)
static std::vector<int> params_order(const std::string& spec, const Vectors& V) {
    EclIO::EclFile f(spec);
    f.loadData();
    const auto kw = f.get<std::string>("KEYWORDS"); const auto wg = f.get<std::string>("WGNAMES"); const auto nums = f.get<int>("NUMS");
    std::map<int, int> bpr, cpr, cofr; for (size_t idx = 0; idx < V.rkey.size(); ++idx) if (V.gidx[idx] > 0) (V.kind[idx] == 4 ? bpr : V.kind[idx] == 5 ? cpr : cofr)[V.gidx[idx]] = int(idx);
    std::vector<int> out; std::set<int> used;
    if (kw.size() != V.rkey.size() || wg.size() != kw.size() || nums.size() != kw.size()) return {};
    for (size_t p = 0; p < kw.size(); ++p) {
        int idx = -1;
        if (kw[p] == "TIME") idx = 0; else if (kw[p] == "YEARS") idx = 1; else if (kw[p] == "FOPR") idx = 2; else if (kw[p] == "WOPR" && wg[p] == "P1") idx = 3;
        else if (kw[p] == "BPR") { auto it = bpr.find(nums[p]); if (it != bpr.end()) idx = it->second; }
        else if (kw[p] == "CPR" && wg[p] == "P1") { auto it = cpr.find(nums[p]); if (it != cpr.end()) idx = it->second; }
        else if (kw[p] == "COFR" && wg[p] == "P1") { auto it = cofr.find(nums[p]); if (it != cofr.end()) idx = it->second; }
        if (idx < 0 || !used.insert(idx).second) return {};
        out.push_back(idx);
    }
    return out;
}

static std::string slurp(const std::string& fn) { std::ifstream f(fn, std::ios::binary); std::stringstream ss; ss << f.rdbuf(); return ss.str(); }

static void clean(const std::string& prefix) {
    std::vector<fs::path> del;
    for (auto& f : fs::directory_iterator(g_dir)) if (f.path().filename().string().rfind(prefix, 0) == 0) del.push_back(f.path());
    for (auto& p : del) fs::remove(p);
}

// ---------------------------------------------------- selective load in a child
// returns: 0 ok (verdict lines in resfile), >0 child exit status, <0 signal
static int child_select(const std::string& spec, bool withbase, const Expect& e, const Ctx& c, const std::vector<int>& pos, const std::string& resfile, const std::string& errfile) {
    return vf::in_child([&] {
        int fd = ::open(errfile.c_str(), O_WRONLY | O_CREAT | O_TRUNC, 0644);
        if (fd >= 0) { ::dup2(fd, 2); ::close(fd); }
        vf::Run* saved = R;
        vf::Run local("C10", 0, nullptr); R = &local;
        try {
            EclIO::ESmry sm(spec, withbase);
            std::vector<std::string> vl; for (int p : pos) vl.push_back(e.V->rkey[p]);
#ifdef C10_SELECT_PART
            g_guard_strtof = true;
#endif
            sm.loadData(vl);
#ifdef C10_SELECT_PART
            g_guard_strtof = false;
#endif
            check_values(sm, e, c, pos);
        } catch (const std::exception& ex) { viol(c, "throws", std::string("reader threw: ") + std::string(ex.what()).substr(0, 200)); }
        std::ofstream o(resfile);
        for (auto& v : local.violations) o << v.key << "\t" << v.what << "\n";
        o << "VALUES\t" << g_values << "\n";
        o << "DONE\n";
        o.close();
        R = saved;
    });
}

// ------------------------------------------------------------------- case ---
struct CaseGroup {
    std::unique_ptr<Setup> run;          // the run under test (restart deck if base > 0)
    std::unique_ptr<Setup> baseS;        // the base run's deck (base > 0)
    Series baseSeries;
    std::unordered_set<uint64_t> seen;   // file+model states already read back in this group
    std::string tag;                     // appended to reader names in violation keys ("+shape" for the grid-shape regime)
    std::string prefix;                  // prepended to the case string ("SHAPE dims=4x2x3 ")
};

static std::string case_string(int N, bool fmt, bool unif, int base, const std::string& script) {
    return "N=" + std::to_string(N) + " fmt=" + std::to_string(fmt) + " unif=" + std::to_string(unif) + " base=" + std::to_string(base) + " script=" + script;
}

static std::unique_ptr<CaseGroup> make_group(int N, bool fmt, bool unif, int base) {
    auto G = std::make_unique<CaseGroup>(); Tm t("group-setup");
    const int sv = N % 2;
    clean(BASE_NAME); clean(RUN_NAME);
    if (base > 0) {
        for (int r = 1; r <= 3; ++r) { char b[64]; std::snprintf(b, sizeof b, "%s/%s.X%04d", g_dir.c_str(), BASE_NAME, r); std::ofstream(b) << ""; }   // placeholder restart files
        G->baseS = make_setup(N, fmt, unif, 0, sv, BASE_NAME);
        G->baseSeries = run_writer(*G->baseS, BASE_NAME, BASE_SCRIPT, 1, 0.0, 0, !fmt);
    }
    G->run = make_setup(N, fmt, unif, base, sv, RUN_NAME);
    return G;
}

static int g_reports_printed = 0;

static void run_case(CaseGroup& G, const std::string& script) {
    Setup& S = *G.run;
    const std::string casestr = G.prefix + case_string(S.N, S.fmt, S.unif, S.base, script);
    R->current(casestr);
    R->evaluations++;
    const std::string cfg = std::string(S.fmt ? "fmt" : "unf") + ":" + (S.unif ? "unif" : "multi");
    const bool withbase = S.base > 0;
    const std::string rn_full = "esmry-full" + G.tag, rn_sel = "esmry-select" + G.tag, rn_nat = "ext-native" + G.tag, rn_natcb = "ext-native+convbase" + G.tag, rn_conv = "ext-from-conv" + G.tag;
    clean(RUN_NAME);

    // ---- write
    Series own;
    double t0 = 0.0;
    if (withbase) for (auto& m : G.baseSeries.ms) if (m.rstep <= S.base) t0 = m.days;
    try { Tm t("writer"); own = run_writer(S, RUN_NAME, script, S.base + 1, t0, 1, !S.fmt); }
    catch (const std::exception& ex) { R->violation("C10:writer:" + cfg + ":throws", std::string("writer threw: ") + std::string(ex.what()).substr(0, 200) + "  [" + casestr + "]", "{\"case\": " + vf::jstr(casestr) + "}"); return; }
    if (own.ms.empty()) { R->count("scripts_without_ministep"); return; }          // nothing is written, nothing to read
    Expect e = make_expect(S, withbase ? &G.baseSeries : nullptr, S.base, own);
    if (e.rs_legacy != e.rs_flag) R->count("cases_with_open_last_report_step");
    const std::string spec = g_dir + "/" + RUN_NAME + (S.fmt ? ".FSMSPEC" : ".SMSPEC");
    const int P = int(S.vec.rkey.size());
    std::vector<int> pos;            // canonical indices of the vectors at the interesting PARAMS positions
    {
        std::vector<int> order;
        try { order = params_order(spec, S.vec); } catch (const std::exception&) {}
        if (order.empty()) { R->violation("C10:writer:" + cfg + ":count", "the SMSPEC written does not list exactly the vectors of the run (KEYWORDS/WGNAMES/NUMS)  [" + casestr + "]", "{\"case\": " + vf::jstr(casestr) + "}"); return; }
        e.ppos.assign(P, 0);
        for (int p = 0; p < P; ++p) e.ppos[order[p]] = p;
        for (int p : select_positions(P)) pos.push_back(order[p]);
    }

    // observation = state: every file the writer produced (names + bytes).  The readers are functions of these files;
    // a script whose files AND model are identical to an earlier script of the same group is the same state and is
    // not read again (counted).
    {
        std::vector<std::string> files;
        for (auto& f : fs::directory_iterator(g_dir)) { const std::string n = f.path().filename().string(); if (n.rfind(RUN_NAME, 0) == 0) files.push_back(n); }
        std::sort(files.begin(), files.end());
        uint64_t h = vf::fnv(cfg + std::to_string(S.base));
        for (auto& f : files) h = vf::fnv(f + slurp(g_dir + "/" + f), h);
        R->observe(h);
        for (auto& row : e.rows) h = vf::fnv(row.data(), row.size() * sizeof(float), h);
        h = vf::fnv(e.days.data(), e.days.size() * sizeof(double), h);
        h = vf::fnv(e.rs_legacy.data(), e.rs_legacy.size() * sizeof(int), h);
        h = vf::fnv(std::string("|"), h);
        h = vf::fnv(e.rs_flag.data(), e.rs_flag.size() * sizeof(int), h);
        if (R->samples.size() < 4 && (S.N > 900 || script.size() > 2)) R->sample_str(casestr + " -> P=" + std::to_string(P) + " ministeps=" + std::to_string(e.rows.size()) + " rsteps@" + vf::join_ints(e.rs_legacy) + " files=" + std::to_string(files.size()));
        if (!G.seen.insert(h).second) { R->count("same_files_same_model_as_earlier_script_not_reread"); return; }
        R->count("distinct_file_states_read");
    }

#ifdef C10_SELECT_PART
    // ---- selective load, forked: a sanitizer report (or crash) in the child is the finding
    {
        Ctx c{rn_sel, cfg, casestr, S.fmt};
        const std::string resfile = g_dir + "/child.res", errfile = g_dir + "/child.err";
        fs::remove(resfile); fs::remove(errfile);
        const int rc = child_select(spec, withbase, e, c, pos, resfile, errfile);
        const std::string res = slurp(resfile), err = slurp(errfile);
        R->count("selective_loads_in_child");
        if (res.find("DONE\n") != std::string::npos && rc == 0) {
            std::istringstream is(res); std::string line;
            while (std::getline(is, line)) { if (line == "DONE") break; auto t = line.find('\t'); if (t != std::string::npos && line.substr(0, t) == "VALUES") { R->count("values_compared_in_children", std::atoll(line.c_str() + t + 1)); continue; } if (t != std::string::npos) R->violation(line.substr(0, t), line.substr(t + 1), "{\"case\": " + vf::jstr(casestr) + "}"); }
            R->count("selective_loads_completed");
        } else {
            const bool asan = err.find("ERROR: AddressSanitizer") != std::string::npos;
            const bool ubsan = err.find("runtime error:") != std::string::npos;
            const bool in_select = err.find("ESmry::loadData(std::vector") != std::string::npos || err.find("ESmry8loadData") != std::string::npos;
            const bool overflow = err.find("heap-buffer-overflow") != std::string::npos;
            // deterministic excerpt of the report: summary line, object description and the frame below strtof, addresses removed
            std::string head;
            {
                std::istringstream is(err); std::string line; int kept = 0;
                while (std::getline(is, line) && kept < 6) {
                    const bool want = line.find("ERROR:") != std::string::npos || line.find("READ of size") != std::string::npos || line.find("WRITE of size") != std::string::npos || line.find("is located") != std::string::npos || line.find("    #0 ") != std::string::npos || line.find("    #1 ") != std::string::npos || line.find("runtime error:") != std::string::npos;
                    if (!want) continue;
                    std::string o;
                    for (size_t i = 0; i < line.size(); ++i) {
                        if (line[i] == '0' && i + 1 < line.size() && line[i + 1] == 'x') { o += "0x.."; i += 2; while (i < line.size() && std::isxdigit(static_cast<unsigned char>(line[i]))) ++i; --i; }
                        else if (line[i] == '=' && i + 1 < line.size() && line[i + 1] == '=') { size_t j = i + 2; while (j < line.size() && std::isdigit(static_cast<unsigned char>(line[j]))) ++j; if (j + 1 < line.size() && line[j] == '=' && line[j + 1] == '=') { i = j + 1; } else o += line[i]; }
                        else o += line[i];
                    }
                    if (o.size() > 260) o = o.substr(0, 260) + "...";
                    head += o + " | "; ++kept;
                }
                if (head.empty()) head = err.substr(0, 300);
            }
            if (g_reports_printed < 2) { ++g_reports_printed; std::cerr << "---- child stderr for [" << casestr << "] (exit " << rc << ")\n" << err.substr(0, 4000) << "\n----\n"; }
            R->count("sanitizer_reports");
            if (asan && overflow && S.fmt && (in_select || err.find("17-byte region") != std::string::npos))
                R->violation("C10:esmry-select:fmt:unterminated-strtof", "formatted ESmry::loadData(vectList) reads past its 17-byte column buffer (AddressSanitizer heap-buffer-overflow in the strtof precondition walk: the 17-byte buffer handed to strtof has no terminating NUL, so the conversion runs on into the bytes behind it)  [" + casestr + "]  report: " + head, "{\"case\": " + vf::jstr(casestr) + "}");
            else if (asan || ubsan) viol(c, "sanitizer", "sanitizer report in selective load (child exit " + std::to_string(rc) + "): " + head);
            else viol(c, "crash", "selective load child ended with status " + std::to_string(rc) + " without a verdict: " + head);
        }
    }
    return;
#else
    // ---- reader 1: ESmry, full load
    try {
        Ctx c{rn_full, cfg, casestr, S.fmt}; Tm t("esmry-full");
        EclIO::ESmry sm(spec, withbase);
        sm.loadData();
        check_axis(sm, e, c, e.rs_legacy, true);
        check_esmry_extra(sm, e, c);
        check_values(sm, e, c, {});
        R->count("reads_esmry_full");
    } catch (const std::exception& ex) { viol({rn_full, cfg, casestr, S.fmt}, "throws", std::string("reader threw: ") + std::string(ex.what()).substr(0, 200)); }

    // ---- reader 2: ESmry, selective load of the listed positions, then of all other positions, then lazy get()
    try {
        Ctx c{rn_sel, cfg, casestr, S.fmt}; Tm t("esmry-select");
        EclIO::ESmry sm(spec, withbase);
        std::vector<std::string> vl; for (int p : pos) vl.push_back(S.vec.rkey[p]);
        sm.loadData(vl);
        check_values(sm, e, c, pos);
        check_axis(sm, e, c, e.rs_legacy, true);
        check_esmry_extra(sm, e, c);
        std::vector<std::string> rest; { std::set<int> ps(pos.begin(), pos.end()); for (int p = 0; p < P; ++p) if (!ps.count(p)) rest.push_back(S.vec.rkey[p]); }
        if (!rest.empty()) sm.loadData(rest);               // every other position through the same direct-seek path
        check_values(sm, e, c, {});
        EclIO::ESmry lazy(spec, withbase);                  // get() of a vector that is not loaded: loadData({name})
        check_values(lazy, e, c, pos);
        R->count("reads_esmry_select");
        access_orders([&] { return std::make_unique<EclIO::ESmry>(spec, withbase); }, e, c);
    } catch (const std::exception& ex) { viol({rn_sel, cfg, casestr, S.fmt}, "throws", std::string("reader threw: ") + std::string(ex.what()).substr(0, 200)); }

    // ---- reader 4 (before 3: make_esmry_file refuses to overwrite): the writer's own ESMRY
    const std::string esmry = g_dir + "/" + RUN_NAME + ".ESMRY";
    if (!S.fmt) {
        Ctx c{rn_nat, cfg, casestr, S.fmt}; Tm t("ext-native");
        try {
            if (!fs::exists(esmry)) viol(c, "count", "the writer was asked for ESMRY output and the final write produced no " + std::string(RUN_NAME) + ".ESMRY");
            else {
                {
                    EclIO::ExtESmry ex(esmry, withbase);
                    ex.loadData();
                    check_values(ex, e, c, {});
                    check_axis(ex, e, c, e.rs_flag, false);
                    R->count("reads_ext_native");
                    access_orders([&] { return std::make_unique<EclIO::ExtESmry>(esmry, withbase); }, e, c);
                }
                if (withbase) {
                    // same chain with the base ESMRY made by the conversion instead of by the base run's writer
                    const std::string besmry = g_dir + "/" + BASE_NAME + ".ESMRY", keep = g_dir + "/keep.ESMRY";
                    fs::rename(besmry, keep);
                    try {
                        Ctx c2{rn_natcb, cfg, casestr, S.fmt};
                        EclIO::ESmry bs(g_dir + "/" + BASE_NAME + ".SMSPEC");
                        if (!bs.make_esmry_file()) viol(c2, "throws", "make_esmry_file() of the base run returned false");
                        else {
                            EclIO::ExtESmry ex(esmry, true);
                            // the converted base marks report steps by SEQHDR position; the base script closes every report step, so both conventions agree on the base part
                            check_axis(ex, e, c2, e.rs_flag, false);
                            check_values(ex, e, c2, pos);
                            R->count("reads_ext_native_convbase");
                        }
                    } catch (const std::exception& ex) { viol({rn_natcb, cfg, casestr, S.fmt}, "throws", std::string("reader threw: ") + std::string(ex.what()).substr(0, 200)); }
                    fs::remove(besmry);
                    fs::rename(keep, besmry);
                }
            }
        } catch (const std::exception& ex) { viol(c, "throws", std::string("reader threw: ") + std::string(ex.what()).substr(0, 200)); }
        fs::remove(esmry);
    } else R->count("ext_native_not_available_fmtout");

    // ---- reader 3: SMSPEC -> ESMRY conversion, read with ExtESmry
    try {
        Ctx c{rn_conv, cfg, casestr, S.fmt}; Tm t("ext-from-conv");
        bool made;
        { EclIO::ESmry sm(spec); made = sm.make_esmry_file(); }
        if (!made) viol(c, "throws", "make_esmry_file() returned false although no ESMRY file existed");
        else {
            // own steps (single run view)
            {
                Expect eo = make_expect(S, nullptr, 0, own); eo.ppos = e.ppos;
                EclIO::ExtESmry ex(esmry, false);
                ex.loadData();
                check_axis(ex, eo, c, eo.rs_legacy, false);
                check_values(ex, eo, c, {});
                R->count("reads_ext_from_conv");
                access_orders([&] { return std::make_unique<EclIO::ExtESmry>(esmry, false); }, eo, c);
            }
            if (withbase) {
                // chained view: needs the base ESMRY too (native for unformatted runs, converted for formatted ones)
                const std::string besmry = g_dir + "/" + BASE_NAME + ".ESMRY";
                bool have = fs::exists(besmry), mine = false;
                if (!have) { EclIO::ESmry bs(g_dir + "/" + BASE_NAME + (S.fmt ? ".FSMSPEC" : ".SMSPEC")); have = bs.make_esmry_file(); mine = true; }
                EclIO::ExtESmry ex(esmry, true);
                if (ex.numberOfTimeSteps() == own.ms.size() && e.rows.size() != own.ms.size())
                    R->violation("C10:ext-from-conv:restart-link-dropped", "ESMRY made by ESmry::make_esmry_file() from a restarted run has no RESTART/RSTNUM: ExtESmry(..., loadBaseRunData=true) returns " + std::to_string(own.ms.size()) + " own ministeps instead of base history + own = " + std::to_string(e.rows.size()) + " (ESmry only fills restart_info when loadBaseRunData is set, and make_esmry_file refuses such objects)  [" + casestr + "]", "{\"case\": " + vf::jstr(casestr) + "}");
                else { check_axis(ex, e, c, e.rs_legacy, false); check_values(ex, e, c, pos); R->count("reads_ext_from_conv_chained"); }
                if (mine) fs::remove(besmry);
            }
        }
    } catch (const std::exception& ex) { viol({rn_conv, cfg, casestr, S.fmt}, "throws", std::string("reader threw: ") + std::string(ex.what()).substr(0, 200)); }
    fs::remove(esmry);
#endif
}

// ------------------------------------------------- restart root length regime ---
// The restarted run records the base run's root name (RESTART keyword as given) in the SMSPEC RESTART array, cut into
// 8-character words: 9 words for a root of <= 72 characters, 17 words for 73..132 (OutputStream.cpp restartRoot());
// longer roots are front-truncated to their last 132 characters with a warning.  The writer's own ESMRY stores the
// whole root in one C0nn element.  ESmry::getRstString / ExtESmry reassemble the words and look for the base run next
// to the restarted run (relative root) or at the absolute path.  Here the base run is written to a place whose root
// string has exactly L characters, for every L in a set that straddles every layout boundary, in four forms:
//   n: relative, name only ("QBBB..B")            d: relative, directory + name ("qqq..q/C10B")
//   N: absolute, <scratch>/QBB..B                 D: absolute, <scratch>/qq..q/C10B
#ifndef C10_SELECT_PART
static const int ROOT_MAX = 132;                 // longest root the SMSPEC can hold (17 words, 132 characters used)
static const std::vector<int>& root_lengths(bool thorough) {
    static const std::vector<int> all = {1, 7, 8, 9, 15, 16, 17, 63, 64, 65, 71, 72, 73, 79, 80, 81, 127, 128, 129, 130, 131, 132, 133, 140};
    static const std::vector<int> quick = {1, 8, 9, 64, 71, 72, 73, 80, 127, 128, 129, 130, 131, 132, 133};
    return thorough ? all : quick;
}

struct RootPlace { std::string root, outdir, bname, topdir; bool ok = false; };
static RootPlace place_root(int L, char form) {
    RootPlace p;
    const int G = int(g_dir.size());
    auto name = [](int n) { return std::string("Q") + std::string(size_t(n - 1), 'B'); };
    if (form == 'n') { if (L < 1) return p; p.bname = name(L); p.root = p.bname; p.outdir = g_dir; }
    else if (form == 'd') { if (L < 6) return p; p.topdir = std::string(size_t(L - 5), 'q'); p.bname = BASE_NAME; p.root = p.topdir + "/" + p.bname; p.outdir = g_dir + "/" + p.topdir; }
    else if (form == 'N') { const int n = L - G - 1; if (n < 1) return p; p.bname = name(n); p.root = g_dir + "/" + p.bname; p.outdir = g_dir; }
    else { const int k = L - G - 6; if (k < 1) return p; p.topdir = std::string(size_t(k), 'q'); p.bname = BASE_NAME; p.root = g_dir + "/" + p.topdir + "/" + p.bname; p.outdir = g_dir + "/" + p.topdir; }
    p.ok = int(p.root.size()) == L;
    return p;
}

static std::string root_case_string(int L, char form, bool fmt, bool unif, int r, const std::string& script) {
    return "ROOT len=" + std::to_string(L) + " form=" + std::string(1, form) + " fmt=" + std::to_string(fmt) + " unif=" + std::to_string(unif) + " base=" + std::to_string(r) + " script=" + script;
}

static void run_root_case(int L, char form, bool fmt, bool unif, int r, const std::string& script) {
    const std::string casestr = root_case_string(L, form, fmt, unif, r, script);
    R->current(casestr);
    const RootPlace pl = place_root(L, form);
    if (!pl.ok) { R->count("root_length_not_constructible_in_this_form"); return; }
    R->evaluations++;
    const std::string cfg = std::string(fmt ? "fmt" : "unf") + ":" + (unif ? "unif" : "multi");
    const std::string rp = "{\"case\": " + vf::jstr(casestr) + "}";
    set_grid(3, 3, 3, false);
    const int N = 2, sv = L % 2;
    auto cleanup = [&] {
        clean(RUN_NAME);
        if (!pl.topdir.empty()) fs::remove_all(g_dir + "/" + pl.topdir); else clean(pl.bname + ".");
        set_grid(17, 17, 17, false);
    };
    try {
        clean(RUN_NAME);
        fs::create_directories(pl.outdir);
        for (int k = 1; k <= 3; ++k) { char b[16]; std::snprintf(b, sizeof b, ".X%04d", k); std::ofstream(pl.outdir + "/" + pl.bname + b) << ""; }   // placeholder restart files (EclipseState checks)
        auto baseS = make_setup(N, fmt, unif, 0, sv, pl.bname, BASE_NAME, pl.outdir);
        const Series baseSeries = run_writer(*baseS, pl.bname, BASE_SCRIPT, 1, 0.0, 0, !fmt);
        std::unique_ptr<Setup> S;
        try { S = make_setup(N, fmt, unif, r, sv, RUN_NAME, pl.root); }
        catch (const std::exception& ex) { R->violation("C10:deck+root:" + cfg + ":throws", "deck with RESTART root of " + std::to_string(L) + " characters is refused: " + std::string(ex.what()).substr(0, 200) + "  [" + casestr + "]", rp); cleanup(); return; }
        double t0 = 0.0; for (auto& m : baseSeries.ms) if (m.rstep <= r) t0 = m.days;
        const Series own = run_writer(*S, RUN_NAME, script, r + 1, t0, 1, !fmt);
        Expect e = make_expect(*S, &baseSeries, r, own);
        const Expect eo = make_expect(*S, nullptr, 0, own);
        const std::string spec = g_dir + "/" + RUN_NAME + (fmt ? ".FSMSPEC" : ".SMSPEC");
        const int P = int(S->vec.rkey.size());
        std::vector<int> all(P); for (int i = 0; i < P; ++i) all[i] = i;
        const std::string stored = L <= ROOT_MAX ? pl.root : pl.root.substr(size_t(L - ROOT_MAX));      // documented front truncation

        // (a) the words of the SMSPEC RESTART array reassemble to the root that was given; layout as documented by the writer
        bool words_ok = false;
        {
            Ctx c{"smspec-restart+root", cfg, casestr, fmt};
            EclIO::EclFile f(spec); f.loadData();
            const auto w = f.get<std::string>("RESTART"); const auto dim = f.get<int>("DIMENS");
            std::string got; for (auto& x : w) got += x;
            words_ok = got == stored;
            if (!words_ok) viol(c, "root", "RESTART words reassemble to a string of " + std::to_string(got.size()) + " characters '" + got.substr(0, 24) + "..." + (got.size() > 12 ? got.substr(got.size() - 12) : "") + "', the root given has " + std::to_string(L) + " characters (expected stored form: " + std::to_string(stored.size()) + " characters ending '" + (stored.size() > 12 ? stored.substr(stored.size() - 12) : stored) + "')");
            const size_t nw = L <= 72 ? 9 : 17;
            if (w.size() != nw) viol(c, "layout", "RESTART array has " + std::to_string(w.size()) + " words for a root of " + std::to_string(L) + " characters; the writer documents 9 words up to 72 characters and 17 words above");
            if (dim.size() < 6 || dim[5] != r) viol(c, "rstep", "DIMENS[5] is " + std::to_string(dim.size() < 6 ? -1 : dim[5]) + ", restart step is " + std::to_string(r));
        }
        R->observe(vf::fnv(casestr.substr(0, casestr.find(" script")) + (words_ok ? " ok" : " bad")));

        // (b) the restarted run alone: own steps
        try {
            Ctx c{"esmry-own+root", cfg, casestr, fmt};
            EclIO::ESmry sm(spec, false); sm.loadData();
            check_axis(sm, eo, c, eo.rs_legacy, true); check_values(sm, eo, c, {});
        } catch (const std::exception& ex) { viol({"esmry-own+root", cfg, casestr, fmt}, "throws", std::string("reader threw: ") + std::string(ex.what()).substr(0, 200)); }

        // a reader with base: the chained series, or - only for a root longer than the SMSPEC can hold - a refusal by exception
        const bool too_long = L > ROOT_MAX;
        auto chained = [&](const std::string& reader, bool may_refuse, auto&& body) {
            Ctx c{reader, cfg, casestr, fmt};
            try { body(c); R->count("chained_reads_with_root_length"); }
            catch (const std::exception& ex) {
                if (may_refuse) R->count("root_longer_than_132_refused_by_exception");
                else viol(c, "throws", "root of " + std::to_string(L) + " characters (" + std::string(form == 'n' || form == 'd' ? "relative" : "absolute") + "): reader threw: " + std::string(ex.what()).substr(0, 160));
            }
        };
        // (c) ESmry with base, full and selective
        chained("esmry-full+root", too_long, [&](const Ctx& c) { EclIO::ESmry sm(spec, true); sm.loadData(); check_axis(sm, e, c, e.rs_legacy, true); check_esmry_extra(sm, e, c); check_values(sm, e, c, {}); });
        chained("esmry-select+root", too_long, [&](const Ctx& c) { EclIO::ESmry sm(spec, true); sm.loadData({S->vec.rkey[0], S->vec.rkey[P - 1]}); check_values(sm, e, c, {0, P - 1}); check_values(sm, e, c, {}); check_axis(sm, e, c, e.rs_legacy, true); });
        // (d) writer's ESMRY (holds the whole root in one element) with the base run's ESMRY, then with a converted base ESMRY
        if (!fmt) {
            const std::string esmry = g_dir + "/" + RUN_NAME + ".ESMRY", besmry = pl.outdir + "/" + pl.bname + ".ESMRY";
            if (!fs::exists(esmry) || !fs::exists(besmry)) viol({"ext-native+root", cfg, casestr, fmt}, "count", "ESMRY of the run or of the base run was not written");
            else {
                chained("ext-native+root", false, [&](const Ctx& c) { EclIO::ExtESmry ex(esmry, true); ex.loadData(); check_axis(ex, e, c, e.rs_flag, false); check_values(ex, e, c, {}); });
                fs::remove(besmry);
                chained("ext-native+convbase+root", false, [&](const Ctx& c) {
                    EclIO::ESmry bs(pl.outdir + "/" + pl.bname + ".SMSPEC");
                    if (!bs.make_esmry_file()) { viol(c, "throws", "make_esmry_file() of the base run returned false"); return; }
                    EclIO::ExtESmry ex(esmry, true); check_axis(ex, e, c, e.rs_flag, false); check_values(ex, e, c, {});
                });
            }
        }
        if (R->samples.size() < 6 && L >= 129 && L <= 132) R->sample_str(casestr + " -> root '" + pl.root.substr(0, 20) + "...' stored in " + std::to_string(L <= 72 ? 9 : 17) + " words, chained ministeps=" + std::to_string(e.rows.size()));
    } catch (const std::exception& ex) { R->violation("C10:harness:rootcase", std::string("unexpected exception: ") + ex.what() + " [" + casestr + "]", rp); }
    cleanup();
}
#endif

// ------------------------------------------------------------- enumeration ---
static std::vector<int> n_values(bool thorough) {
    std::vector<int> v;
#ifdef C10_SELECT_PART
    // total PARAMS count P = N + 4
    for (int n : {1, 2, 3}) v.push_back(n);
    for (int P : {999, 1000, 1001}) v.push_back(P - 4);
    if (thorough) for (int P : {1002, 2000, 2001, 3001}) v.push_back(P - 4);
#else
    for (int n = 1; n <= 12; ++n) v.push_back(n);
    const int D = thorough ? 5 : 2;
    // the block boundary of PARAMS is at multiples of 1000 *parameters*; there are 4 parameters besides the BPRs,
    // so N is chosen such that the total count P = N + 4 runs over k*1000 + d
    for (int k = 1; k <= 4; ++k) for (int d = -D; d <= D; ++d) v.push_back(k * 1000 + d - 4);
    v.push_back(4500);
#endif
    return v;
}

static std::vector<std::string> scripts(int maxlen) {
    std::vector<std::string> out, cur = {""};
    for (int l = 1; l <= maxlen; ++l) {
        std::vector<std::string> nx;
        for (auto& s : cur) for (char e : {'m', 'M', 'w'}) nx.push_back(s + e);
        out.insert(out.end(), nx.begin(), nx.end());
        cur = nx;
    }
    return out;
}

int main(int argc, char** argv) {
    vf::Run run("C10", argc, argv); R = &run;
    const char* sc = std::getenv("VERIF_SCRATCH");
    g_dir = std::string(sc ? sc : "/tmp") + "/C10." + std::to_string(getpid());
    fs::create_directories(g_dir);
    if (!run.out.empty()) run.out = fs::absolute(run.out).string();      // the harness changes its working directory
    fs::current_path(g_dir);          // RESTART 'C10B' is resolved relative to the working directory (EclipseState checks that C10B.X000r exists)
    g_python = std::make_shared<Python>();
#ifdef C10_SELECT_PART
    const int maxlen = run.thorough() ? 3 : 2;
    const std::vector<int> bases = {0, 1};
    run.rule = "selective load ESmry::loadData(vectList) in a forked child of the sanitizer build: P=N+4 in {5,6,7,999,1000,1001 (thorough +1002,2000,2001,3001)} x all scripts of length <= " + std::to_string(maxlen) + " over {m,M,w} x FMTOUT x UNIFOUT x {no base, base restarted at 1}; vectors at PARAMS positions first/last/around multiples of 1000; sanitizer report or crash of the child = finding, else value oracle; the same for the grid shapes {3x3x3, 4x2x3, 2x4x3, 5x1x2, 1x5x2, 2x3x1} with one BPR per cell + CPR/COFR per layer";
#else
    const int maxlen = run.thorough() ? 4 : 3;
    g_order_depth = run.thorough() ? 3 : 2;
    const std::vector<int> bases = {0, 1, 2};
    run.rule = "N BPR vectors, N in {1..12} u {k*1000+d-4: k=1..4, |d|<=" + std::string(run.thorough() ? "5" : "2") + "} u {4500} (total PARAMS count P=N+4 straddles every multiple of 1000) x ALL step scripts of length <= " + std::to_string(maxlen) + " (N=1: <= " + std::to_string(maxlen + 2) + ") over {m: substep, M: closing ministep, w: write} x FMTOUT x UNIFOUT x {no base, base run restarted at r=1,2}; readers ESmry full, ESmry selective (+lazy get of every vector), conversion->ExtESmry, writer's ESMRY->ExtESmry (unformatted only); for P in 4..8 additionally every sequence of <= " + std::to_string(run.thorough() ? 3 : 2) + " access operations over {dates, get(K1), get(Klast), loadData({K1,K2}), loadData with a repeated key, loadData with TIME in the middle, loadData(), get_at_rstep} on ONE fresh ESmry / ExtESmry object followed by the comparison of all vectors; all vectors x all ministeps compared with float(SummaryState) fingerprints, dates, report-step positions, units, start date; distinct = distinct file byte strings"
               " || grid shape: dims in {3x3x3 (control), 4x2x3, 2x4x3, 5x1x2, 1x5x2, 2x3x1}, one BPR vector for EVERY cell + CPR and COFR of a well completed in every layer of column (NX,NY), x FMTOUT x UNIFOUT x {no base, base restarted at 1} x scripts {mMm, Mw}; oracle for every reader: the keyword list is exactly the set of KW:i,j,k keys written (none missing, none twice, none unexpected), hasKey of every key, and every key returns the series of ITS cell (per-cell / per-layer fingerprints)"
               " || restart root length: base run written so that the root string stored in the restarted run's RESTART has exactly L characters, L in {" + [&] { std::string t; for (int L : root_lengths(run.thorough())) t += (t.empty() ? "" : ",") + std::to_string(L); return t; }() + "} (word boundaries 8k, the 9-word/17-word switch at 72, the maximum 132, and 133+ which the writer front-truncates) x {relative name, relative dir/name, absolute name, absolute dir/name} x FMTOUT x UNIFOUT x restart step " + std::string(run.thorough() ? "{1,2} x scripts {mM,Mm}" : "and script alternating with L") + " (N=2 on a 3x3x3 grid); oracle: SMSPEC RESTART words reassemble to the root given (last 132 characters beyond the maximum) in 9/17 words, DIMENS[5]=r, run alone = own steps, ESmry with base (full, selective), writer's ESMRY with base ESMRY (native and converted) = base history up to r + own steps with all vectors/dates/report steps; only a root > 132 may be refused by exception";
#endif
    run.assumptions = {"reference model in the harness: series = values handed to add_timestep (float), time axis/report steps from the script",
                       "legacy SMSPEC/UNSMRY can only express 'last ministep of a SEQHDR group' as report step; a trailing open report step therefore reads as a report step in ESmry (accepted, counted), ESMRY's RSTEP flags are compared with the isSubstep flags",
                       "the last data-carrying write() of every script is is_final_summary=true (15 s ESMRY write throttle)",
                       "METRIC units only; START alternates between '1 JAN 2020' and '5 MAR 2021 06:30:15' with the parity of N; report steps start at 1 as in EclipseIO",
                       "base run and restarted run have the same vector set; base run is the fixed script mMwMmM (3 report steps)",
                       "grid shape regime: corner-point-free DX/DY/DZ box grids, all cells active; connection vectors CPR/COFR only (pressure and oil rate handed in per connection); hasKey() is asked for every key when the run has <= 100 vectors",
                       "restart roots are made of the characters [A-Za-z0-9/] (no blanks, no dots: the readers take path::stem() of the root); absolute roots shorter than the scratch path + 2 cannot be built and are counted"};

    if (!run.replay_path.empty()) {
        int N, f, u, b; char sbuf[64] = {0};
#ifndef C10_SELECT_PART
        if (run.replay_path.rfind("ROOT", 0) == 0) {
            int L; char form;
            if (std::sscanf(run.replay_path.c_str(), "ROOT len=%d form=%c fmt=%d unif=%d base=%d script=%63s", &L, &form, &f, &u, &b, sbuf) != 6) { std::cerr << "bad case string\n"; return 2; }
            run_root_case(L, form, f, u, b, sbuf);
            fs::current_path(fs::path(g_dir).parent_path()); if (!std::getenv("C10_KEEP")) fs::remove_all(g_dir);
            return run.finish();
        }
#endif
        if (run.replay_path.rfind("SHAPE", 0) == 0) {
            int x, y, z;
            if (std::sscanf(run.replay_path.c_str(), "SHAPE dims=%dx%dx%d N=%d fmt=%d unif=%d base=%d script=%63s", &x, &y, &z, &N, &f, &u, &b, sbuf) != 8) { std::cerr << "bad case string\n"; return 2; }
            set_grid(x, y, z, true);
            auto G = make_group(N, f, u, b);
            G->tag = "+shape"; G->prefix = "SHAPE dims=" + std::to_string(x) + "x" + std::to_string(y) + "x" + std::to_string(z) + " ";
            run_case(*G, sbuf);
            G.reset();
            fs::current_path(fs::path(g_dir).parent_path()); if (!std::getenv("C10_KEEP")) fs::remove_all(g_dir);
            return run.finish();
        }
        if (std::sscanf(run.replay_path.c_str(), "N=%d fmt=%d unif=%d base=%d script=%63s", &N, &f, &u, &b, sbuf) != 5) { std::cerr << "bad case string\n"; return 2; }
        auto G = make_group(N, f, u, b);
        run_case(*G, sbuf);
        G.reset();
        fs::current_path(fs::path(g_dir).parent_path()); if (!std::getenv("C10_KEEP")) fs::remove_all(g_dir);
        return run.finish();
    }

    const auto Ns = n_values(run.thorough());
    const auto scr = scripts(maxlen);
    const auto scr_long = scripts(maxlen + 2);      // N = 1 only: longer write histories (batch sizes that grow and shrink)
    uint64_t gi = 0;
    bool stop = false;
    for (int N : Ns) for (int f = 0; f < 2 && !stop; ++f) for (int u = 0; u < 2 && !stop; ++u) for (int b : bases) {
        if (!run.mine(gi++)) continue;
        if (run.timed_out()) { stop = true; break; }
        std::unique_ptr<CaseGroup> G;
        try { G = make_group(N, f, u, b); }
        catch (const std::exception& ex) { run.violation("C10:harness:setup", std::string("deck/base run setup threw: ") + ex.what() + " N=" + std::to_string(N)); continue; }
        for (auto& s : (N == 1 ? scr_long : scr)) {
            if (run.timed_out()) { stop = true; break; }
            try { run_case(*G, s); }
            catch (const std::exception& ex) { run.violation("C10:harness:case", std::string("unexpected exception: ") + ex.what() + " [" + case_string(N, f, u, b, s) + "]"); }
        }
        G.reset();
    }
    // grid shape regime: one BPR per cell of a non-cubic grid + CPR/COFR of a well completed in every layer of column (NX,NY)
    {
        static const int shapes[][3] = {{3, 3, 3}, {4, 2, 3}, {2, 4, 3}, {5, 1, 2}, {1, 5, 2}, {2, 3, 1}};
        for (auto& sh : shapes) for (int f = 0; f < 2 && !stop; ++f) for (int u = 0; u < 2 && !stop; ++u) for (int b : {0, 1}) {
            if (!run.mine(gi++)) continue;
            if (run.timed_out()) { stop = true; break; }
            set_grid(sh[0], sh[1], sh[2], true);
            const int N = sh[0] * sh[1] * sh[2];
            try {
                auto G = make_group(N, f, u, b);
                G->tag = "+shape"; G->prefix = "SHAPE dims=" + std::to_string(sh[0]) + "x" + std::to_string(sh[1]) + "x" + std::to_string(sh[2]) + " ";
                for (const char* sc_ : {"mMm", "Mw"}) {
                    try { run_case(*G, sc_); }
                    catch (const std::exception& ex) { run.violation("C10:harness:case", std::string("unexpected exception: ") + ex.what() + " [" + G->prefix + case_string(N, f, u, b, sc_) + "]"); }
                }
                run.count("grid_shape_groups");
            } catch (const std::exception& ex) { run.violation("C10:harness:setup", std::string("deck/base run setup threw: ") + ex.what() + " shape " + std::to_string(sh[0]) + "x" + std::to_string(sh[1]) + "x" + std::to_string(sh[2])); }
            set_grid(17, 17, 17, false);
        }
    }
#ifndef C10_SELECT_PART
    // restart root length regime
    for (int L : root_lengths(run.thorough())) for (char form : {'n', 'd', 'N', 'D'}) for (int f = 0; f < 2 && !stop; ++f) for (int u = 0; u < 2 && !stop; ++u)
        for (int b : (run.thorough() ? std::vector<int>{1, 2} : std::vector<int>{1 + (L + f + u) % 2})) for (const char* sc_ : {"mM", "Mm"}) {
            if (!run.thorough() && std::string(sc_) != ((L + u) % 2 ? "mM" : "Mm")) continue;
            if (!run.mine(gi++)) continue;
            if (run.timed_out()) { stop = true; break; }
            run_root_case(L, form, f, u, b, sc_);
        }
#endif
    run.count("values_compared", g_values);
    fs::current_path(fs::path(g_dir).parent_path()); fs::remove_all(g_dir);
    return run.finish();
}
