// C16 variant TU: unrolled specialisation Evaluation<double,11> (opm/material/densead/Evaluation11.hpp)
#include "C16_impl.hpp"
C16_STATIC_TU(11, "static")
