// C07 — Eclipse array files: library round trip, independent reference codec
// (byte identity both ways), size/seek arithmetic.  Length-exhaustive.
#include "vf.hpp"
#include <opm/io/eclipse/EclFile.hpp>
#include <opm/io/eclipse/EclOutput.hpp>
#include <opm/io/eclipse/EclUtil.hpp>
#include <climits>
#include <cmath>
#include <limits>
#include <sstream>
#include <unistd.h>

using namespace Opm::EclIO;

// ------------------------------------------------------------------ data ---
enum Ty { T_INTE, T_REAL, T_DOUB, T_LOGI, T_CHAR, T_C0NN, T_MESS };
static const char* tyname(Ty t) { static const char* n[] = {"INTE", "REAL", "DOUB", "LOGI", "CHAR", "C0NN", "MESS"}; return n[t]; }

struct Arr {
    std::string name; Ty ty; int esize = 0;       // esize: C0NN element size as declared
    std::vector<int> i; std::vector<float> f; std::vector<double> d; std::vector<bool> b; std::vector<std::string> s;
    size_t len() const { switch (ty) { case T_INTE: return i.size(); case T_REAL: return f.size(); case T_DOUB: return d.size(); case T_LOGI: return b.size(); case T_MESS: return 0; default: return s.size(); } }
};

static const std::vector<int> iext = {0, 1, -1, INT_MAX, INT_MIN, 123456789, -99999999, 1000000000, -7};
static const std::vector<float> fext = {0.f, -0.f, 1.f, -1.5f, std::numeric_limits<float>::max(), std::numeric_limits<float>::min(),
    std::numeric_limits<float>::denorm_min(), 1.2345678e-30f, 9.87654321e37f, std::numeric_limits<float>::infinity(),
    -std::numeric_limits<float>::infinity(), std::numeric_limits<float>::quiet_NaN(), -3.4028235e38f, 9.9999999e-10f, 0.1f};
static const std::vector<double> dext = {0., -0., 1., -1.5, std::numeric_limits<double>::max(), 1.2345678e-300, 9.87654321e300,
    1e100, 1e-100, 1e99, 1e-99, 9.999999999999999e98, 1.0e-101, std::numeric_limits<double>::infinity(), -std::numeric_limits<double>::infinity(),
    std::numeric_limits<double>::quiet_NaN(), -1.7976931348623157e308, 0.1, 3.0e-307};
static const std::vector<double> dsub = {std::numeric_limits<double>::min(), std::numeric_limits<double>::denorm_min(), 1.0e-310, -2.5e-320, 2.2250738585072009e-308};
static const std::vector<std::string> sext = {"", "A", "ABCDEFGH", "A B", " LEAD", "TRAIL", "'Q'", "x/y", "12345678"};

static Arr mk(Ty ty, const std::string& name, int len, int rot, int esize = 0) {
    Arr a; a.name = name; a.ty = ty; a.esize = esize;
    for (int k = 0; k < len; ++k) {
        switch (ty) {
        case T_INTE: a.i.push_back(iext[(k + rot) % iext.size()]); break;
        case T_REAL: a.f.push_back(fext[(k + rot) % fext.size()]); break;
        case T_DOUB: a.d.push_back(dext[(k + rot) % dext.size()]); break;
        case T_LOGI: a.b.push_back(((k * 7 + rot) % 3) == 0); break;
        case T_CHAR: a.s.push_back(sext[(k + rot) % sext.size()]); break;
        case T_C0NN: { std::string v = sext[(k + rot) % sext.size()]; if ((k + rot) % 5 == 0) v = std::string(esize, 'Z'); if ((int)v.size() > esize) v = v.substr(0, esize); a.s.push_back(v); break; }
        case T_MESS: break;
        }
    }
    return a;
}

// ------------------------------------------------- reference codec (own) ---
static void be32(std::string& o, uint32_t v) { o += char(v >> 24); o += char(v >> 16); o += char(v >> 8); o += char(v); }
static void be64(std::string& o, uint64_t v) { be32(o, v >> 32); be32(o, v & 0xffffffffu); }
static std::string pad(const std::string& s, size_t n) { return s + std::string(n > s.size() ? n - s.size() : 0, ' '); }
static std::string tystr(const Arr& a) { if (a.ty == T_C0NN) { char b[8]; std::snprintf(b, 8, "C%03d", std::max(a.esize, 8)); return b; } return tyname(a.ty); }

static std::string ref_bin(const Arr& a, bool ix) {
    std::string o;
    be32(o, 16); o += pad(a.name, 8); be32(o, (uint32_t)a.len()); o += tystr(a); be32(o, 16);
    size_t n = a.len();
    size_t per = 1000, es = 4;
    if (a.ty == T_DOUB) es = 8;
    if (a.ty == T_CHAR) { per = 105; es = 8; }
    if (a.ty == T_C0NN) { per = 105; es = std::max(a.esize, 8); }
    for (size_t p = 0; p < n; p += per) {
        size_t m = std::min(per, n - p);
        be32(o, m * es);
        for (size_t k = p; k < p + m; ++k) {
            switch (a.ty) {
            case T_INTE: be32(o, (uint32_t)a.i[k]); break;
            case T_REAL: { uint32_t u; std::memcpy(&u, &a.f[k], 4); be32(o, u); break; }
            case T_DOUB: { uint64_t u; std::memcpy(&u, &a.d[k], 8); be64(o, u); break; }
            case T_LOGI: be32(o, a.b[k] ? (ix ? 1u : 0xffffffffu) : 0u); break;
            default: o += pad(a.s[k], es);
            }
        }
        be32(o, m * es);
    }
    return o;
}

static std::string ref_real(double v, int digits, bool ix, bool dbl) {
    // ECL: 0.DDDDDDDDE+XX (8 digits) / 0.DDDDDDDDDDDDDDD+XX (14 digits, 'D' dropped for 3-digit exponents)
    if (std::isnan(v)) return "NAN";
    if (std::isinf(v)) return v > 0 ? "INF" : "-INF";
    char b[64];
    if (ix) {
        if (v == 0) return dbl ? " 0.0000000000000E+00" : " 0.0000000E+00";
        std::snprintf(b, sizeof b, dbl ? "%19.13E" : "%10.7E", v); return b;
    }
    if (v == 0) return dbl ? "0.00000000000000D+00" : "0.00000000E+00";
    std::snprintf(b, sizeof b, "%.*E", digits - 1, std::fabs(v));   // d.ddddE±XX
    std::string m(b); size_t e = m.find('E');
    int ex = std::atoi(m.c_str() + e + 1) + 1;
    std::string dig = m.substr(0, 1) + m.substr(2, e - 2);
    std::string r = (v < 0 ? "-0." : "0.") + dig;
    if (dbl) { if (ex > -100 && ex < 100) r += "D"; } else r += "E";     // published: D unless 3-digit exponent
    std::snprintf(b, sizeof b, "%+03d", ex);
    return r + b;
}

static std::string ref_fmt(const Arr& a, bool ix) {
    std::string o; char b[64];
    std::snprintf(b, sizeof b, " '%-8s' %11d '%4s'\n", a.name.c_str(), (int)a.len(), tystr(a).c_str()); o += b;
    size_t n = a.len(), per = 1000; int cols = 6, w = 12;
    if (a.ty == T_REAL) { cols = 4; w = 17; } else if (a.ty == T_DOUB) { cols = 3; w = 23; } else if (a.ty == T_LOGI) { cols = 25; w = 3; }
    else if (a.ty == T_CHAR) { cols = 7; per = 105; } else if (a.ty == T_C0NN) { per = 105; int es = std::max(a.esize, 8); cols = es <= 8 ? 7 : std::max(1, 80 / (es + 3)); }
    for (size_t p = 0; p < n; p += per) {
        size_t m = std::min(per, n - p);
        for (size_t k = 0; k < m; ++k) {
            size_t g = p + k;
            switch (a.ty) {
            case T_INTE: std::snprintf(b, sizeof b, "%*d", w, a.i[g]); o += b; break;
            case T_REAL: std::snprintf(b, sizeof b, "%*s", w, ref_real(a.f[g], 8, ix, false).c_str()); o += b; break;
            case T_DOUB: std::snprintf(b, sizeof b, "%*s", w, ref_real(a.d[g], 14, ix, true).c_str()); o += b; break;
            case T_LOGI: o += a.b[g] ? "  T" : "  F"; break;
            default: o += " '" + pad(a.s[g], a.ty == T_CHAR ? 8 : std::max(a.esize, 8)) + "'";
            }
            if ((k + 1) % cols == 0 || k + 1 == m) o += "\n";
        }
    }
    return o;
}

// reference decoders: bytes -> arrays (strict)
struct Dec { std::vector<Arr> arrs; std::vector<size_t> data_pos; std::string err; };
static uint32_t rd32(const std::string& s, size_t p) { return (uint32_t(uint8_t(s[p])) << 24) | (uint32_t(uint8_t(s[p + 1])) << 16) | (uint32_t(uint8_t(s[p + 2])) << 8) | uint8_t(s[p + 3]); }
static Dec ref_dec_bin(const std::string& s, bool ix) {
    Dec d; size_t p = 0;
    auto fail = [&](const std::string& m) { d.err = m + " at " + std::to_string(p); return d; };
    while (p < s.size()) {
        if (p + 24 > s.size()) return fail("short header");
        if (rd32(s, p) != 16 || rd32(s, p + 20) != 16) return fail("header head/tail != 16");
        Arr a; a.name = s.substr(p + 4, 8); while (!a.name.empty() && a.name.back() == ' ') a.name.pop_back();
        size_t n = rd32(s, p + 12); std::string t = s.substr(p + 16, 4); p += 24;
        size_t per = 1000, es = 4;
        if (t == "INTE") a.ty = T_INTE; else if (t == "REAL") a.ty = T_REAL; else if (t == "DOUB") { a.ty = T_DOUB; es = 8; }
        else if (t == "LOGI") a.ty = T_LOGI; else if (t == "CHAR") { a.ty = T_CHAR; es = 8; per = 105; } else if (t == "MESS") a.ty = T_MESS;
        else if (t[0] == 'C') { a.ty = T_C0NN; es = std::atoi(t.c_str() + 1); a.esize = es; per = 105; } else return fail("bad type " + t);
        d.data_pos.push_back(p);
        if (a.ty == T_MESS && n) return fail("MESS with data");
        for (size_t q = 0; q < n; q += per) {
            size_t m = std::min(per, n - q);
            if (p + 8 + m * es > s.size()) return fail("short block");
            if (rd32(s, p) != m * es) return fail("block head != expected sub-block size");
            if (rd32(s, p + 4 + m * es) != m * es) return fail("block tail != head");
            p += 4;
            for (size_t k = 0; k < m; ++k, p += es) {
                switch (a.ty) {
                case T_INTE: a.i.push_back((int)rd32(s, p)); break;
                case T_REAL: { uint32_t u = rd32(s, p); float f; std::memcpy(&f, &u, 4); a.f.push_back(f); break; }
                case T_DOUB: { uint64_t u = (uint64_t(rd32(s, p)) << 32) | rd32(s, p + 4); double x; std::memcpy(&x, &u, 8); a.d.push_back(x); break; }
                case T_LOGI: { uint32_t u = rd32(s, p); if (u != 0 && u != (ix ? 1u : 0xffffffffu)) return fail("bad LOGI word"); a.b.push_back(u != 0); break; }
                default: { std::string v = s.substr(p, es); while (!v.empty() && v.back() == ' ') v.pop_back(); a.s.push_back(v); }
                }
            }
            p += 4;
        }
        d.arrs.push_back(a);
    }
    return d;
}

// ------------------------------------------------------- library access ---
struct XFile : EclFile {
    using EclFile::EclFile;
    std::uint64_t pos(size_t i) const { return ifStreamPos[i]; }
    std::streampos seek(size_t i) const { return seekPosition(i); }
};

static std::string slurp(const std::string& fn) { std::ifstream f(fn, std::ios::binary); std::stringstream ss; ss << f.rdbuf(); return ss.str(); }

static void lib_write(const std::string& fn, bool fmt, bool ix, const std::vector<Arr>& arrs) {
    EclOutput o(fn, fmt);
    if (ix) o.set_ix();
    for (auto& a : arrs) {
        switch (a.ty) {
        case T_INTE: o.write(a.name, a.i); break;
        case T_REAL: o.write(a.name, a.f); break;
        case T_DOUB: o.write(a.name, a.d); break;
        case T_LOGI: o.write(a.name, a.b); break;
        case T_CHAR: o.write(a.name, a.s); break;
        case T_C0NN: o.write(a.name, a.s, a.esize); break;
        case T_MESS: o.message(a.name); break;
        }
    }
}

static bool feq(double got, double want, double rel) {
    if (std::isnan(want)) return std::isnan(got);
    if (std::isinf(want)) return got == want;
    if (want == 0) return got == 0;
    return std::fabs(got - want) <= rel * std::fabs(want);
}

static std::string g_dir;
static vf::Run* R;

static std::string describe(const std::vector<Arr>& arrs, bool fmt, bool ix) {
    std::string s = std::string(fmt ? "F" : "U") + (ix ? "X" : "E");
    for (auto& a : arrs) { s += ";"; s += tyname(a.ty); if (a.ty == T_C0NN) s += std::to_string(a.esize); s += ":" + std::to_string(a.len()); }
    return s;
}

// run one file case.  cls tags the value class for violation keys ("" normal, "subn").
static void run_case(const std::vector<Arr>& arrs, bool fmt, bool ix, const std::string& cls, const std::string& casestr) {
    R->evaluations++;
    const std::string fn = g_dir + (fmt ? "/T.FX" : "/T.X");
    const std::string tag = std::string("C07:") + (fmt ? "fmt" : "bin") + (ix ? ":ix" : ":ecl") + (cls.empty() ? "" : ":" + cls);
    const std::string rp = "{\"case\": " + vf::jstr(casestr) + ", \"file\": " + vf::jstr(describe(arrs, fmt, ix)) + "}";
    try { lib_write(fn, fmt, ix, arrs); }
    catch (const std::exception& e) { R->violation(tag + ":write-throws", std::string("writer threw: ") + e.what() + " on " + describe(arrs, fmt, ix), rp); return; }
    const std::string bytes = slurp(fn);
    R->observe(vf::fnv(bytes));
    if (R->samples.size() < 3 && arrs.size() > 1) R->sample_str(describe(arrs, fmt, ix) + " bytes=" + std::to_string(bytes.size()));

    // (2) reference writer == library bytes
    std::string ref; std::vector<size_t> dpos;
    for (auto& a : arrs) { std::string h = fmt ? ref_fmt(a, ix) : ref_bin(a, ix); dpos.push_back(ref.size() + (fmt ? 31 : 24)); ref += h; }
    if (ref != bytes) {
        size_t p = 0; while (p < ref.size() && p < bytes.size() && ref[p] == bytes[p]) ++p;
        // which array?
        size_t ai = 0; { size_t acc = 0; for (; ai < arrs.size(); ++ai) { acc += (fmt ? ref_fmt(arrs[ai], ix) : ref_bin(arrs[ai], ix)).size(); if (p < acc) break; } }
        std::string t = ai < arrs.size() ? tyname(arrs[ai].ty) : "END";
        R->violation(tag + ":layout:" + t, "library bytes differ from published layout at byte " + std::to_string(p) + " (lib " + std::to_string(bytes.size()) + " bytes, ref " + std::to_string(ref.size()) + ") in " + describe(arrs, fmt, ix), rp);
    }
    // (2b) reference reader decodes library bytes (binary)
    if (!fmt) {
        Dec d = ref_dec_bin(bytes, ix);
        if (!d.err.empty()) R->violation(tag + ":refdecode", "independent reader rejects library bytes: " + d.err + " in " + describe(arrs, fmt, ix), rp);
        else {
            bool ok = d.arrs.size() == arrs.size();
            for (size_t k = 0; ok && k < arrs.size(); ++k) {
                const Arr &x = arrs[k], &y = d.arrs[k];
                ok = x.name == y.name && x.ty == y.ty && x.i == y.i && x.b == y.b && x.f.size() == y.f.size() && x.d.size() == y.d.size() && x.s.size() == y.s.size();
                if (ok && !x.f.empty()) ok = std::memcmp(x.f.data(), y.f.data(), 4 * x.f.size()) == 0;
                if (ok && !x.d.empty()) ok = std::memcmp(x.d.data(), y.d.data(), 8 * x.d.size()) == 0;
                for (size_t m = 0; ok && m < x.s.size(); ++m) { std::string e = x.s[m]; while (!e.empty() && e.back() == ' ') e.pop_back(); ok = e == y.s[m]; }
                if (!ok) R->violation(tag + ":refdecode-data:" + tyname(x.ty), "independent reader decodes different data for array " + std::to_string(k) + " in " + describe(arrs, fmt, ix), rp);
            }
        }
    }
    // (1) library round trip + (3) index arithmetic
    try {
        XFile f(fn);
        f.loadData();
        auto list = f.getList();
        if (list.size() != arrs.size()) { R->violation(tag + ":count", "reader lists " + std::to_string(list.size()) + " arrays, wrote " + std::to_string(arrs.size()) + " in " + describe(arrs, fmt, ix), rp); return; }
        for (size_t k = 0; k < arrs.size(); ++k) {
            const Arr& a = arrs[k];
            const std::string tk = tag + ":" + tyname(a.ty);
            auto [nm, ty, sz] = list[k];
            eclArrType want = a.ty == T_INTE ? INTE : a.ty == T_REAL ? REAL : a.ty == T_DOUB ? DOUB : a.ty == T_LOGI ? LOGI : a.ty == T_CHAR ? CHAR : a.ty == T_C0NN ? C0NN : MESS;
            if (nm != a.name || ty != want || (size_t)sz != a.len()) { R->violation(tk + ":header", "name/type/length mismatch for array " + std::to_string(k) + " in " + describe(arrs, fmt, ix), rp); continue; }
            if (f.pos(k) != dpos[k]) R->violation(tk + ":index", "EclFile index position " + std::to_string(f.pos(k)) + " != true data offset " + std::to_string(dpos[k]) + " for array " + std::to_string(k) + " in " + describe(arrs, fmt, ix), rp);
            {
                long long sp = (long long)f.seek(k);
                long long hdr = (long long)dpos[k] - (fmt ? 31 : 24);
                if (sp != hdr) {
                    // formatted: known off-by-one candidate is keyed separately from others
                    R->violation(tk + ":seekpos" + (fmt && sp == hdr + 1 ? ":fmt-plus-one" : ""), "seekPosition " + std::to_string(sp) + " != header offset " + std::to_string(hdr) + " for array " + std::to_string(k) + " in " + describe(arrs, fmt, ix), rp);
                }
            }
            {
                int es = a.ty == T_C0NN ? std::max(a.esize, 8) : a.ty == T_DOUB ? 8 : a.ty == T_CHAR ? 8 : 4;
                std::uint64_t sod = fmt ? sizeOnDiskFormatted(a.len(), want, es) : sizeOnDiskBinary(a.len(), want, es);
                size_t nextpos = (k + 1 < arrs.size() ? dpos[k + 1] - (fmt ? 31 : 24) : ref.size());
                if (sod != nextpos - dpos[k]) R->violation(tk + ":sizeOnDisk", "sizeOnDisk " + std::to_string(sod) + " != true size " + std::to_string(nextpos - dpos[k]) + " len " + std::to_string(a.len()), rp);
            }
            bool ok = true; std::string why;
            switch (a.ty) {
            case T_INTE: ok = f.get<int>(k) == a.i; break;
            case T_LOGI: ok = f.get<bool>(k) == a.b; break;
            case T_REAL: { const auto& r = f.get<float>(k); ok = r.size() == a.f.size();
                for (size_t m = 0; ok && m < r.size(); ++m) { ok = fmt ? feq(r[m], a.f[m], 2e-7) : std::memcmp(&r[m], &a.f[m], 4) == 0; if (!ok) why = " elem " + std::to_string(m) + " wrote " + vf::fmt17(a.f[m]) + " read " + vf::fmt17(r[m]); } break; }
            case T_DOUB: { const auto& r = f.get<double>(k); ok = r.size() == a.d.size();
                for (size_t m = 0; ok && m < r.size(); ++m) { ok = fmt ? feq(r[m], a.d[m], 1e-13) : std::memcmp(&r[m], &a.d[m], 8) == 0; if (!ok) why = " elem " + std::to_string(m) + " wrote " + vf::fmt17(a.d[m]) + " read " + vf::fmt17(r[m]); } break; }
            case T_CHAR: case T_C0NN: { const auto& r = f.get<std::string>(k); ok = r.size() == a.s.size();
                for (size_t m = 0; ok && m < r.size(); ++m) { std::string e = a.s[m]; while (!e.empty() && e.back() == ' ') e.pop_back(); ok = r[m] == e; if (!ok) why = " elem " + std::to_string(m) + " wrote '" + e + "' read '" + r[m] + "'"; } break; }
            case T_MESS: break;
            }
            if (!ok) R->violation(tk + ":value", "read-back differs for array " + std::to_string(k) + why + " in " + describe(arrs, fmt, ix), rp);
        }
    } catch (const std::exception& e) {
        std::string w = e.what(); std::string kind = w.find("stod") != std::string::npos ? "stod" : w.find("stoi") != std::string::npos ? "stoi" : "other";
        R->violation(tag + ":read-throws:" + kind, std::string("reader threw: ") + w.substr(0, 200) + " on " + describe(arrs, fmt, ix), rp);
    }
}

static std::vector<Arr> len_case(int len, int variant) {
    // one file per length: every numeric type at `len`; strings at len (<=212) else len%213
    std::vector<Arr> v;
    int slen = len <= 212 ? len : len % 213;
    static const int nn[] = {4, 8, 13, 77, 9, 40};
    v.push_back(mk(T_INTE, "INTS", len, len));
    v.push_back(mk(T_REAL, "REALS", len, len + variant));
    v.push_back(mk(T_DOUB, "DOUBS", len, len + 2 * variant));
    v.push_back(mk(T_LOGI, "LOGIS", len, len));
    v.push_back(mk(T_CHAR, "CHARS", slen, len));
    v.push_back(mk(T_C0NN, "CNN", slen, len, nn[len % 6]));
    v.push_back(mk(T_MESS, "MSG", 0, 0));
    v.push_back(mk(T_INTE, "LAST", 1, len));
    return v;
}

static Arr sym(int s, int rot, const std::string& name) {
    // 12-symbol alphabet for sequences: (type, length class)
    static const Ty t[] = {T_INTE, T_DOUB, T_LOGI, T_CHAR, T_C0NN, T_MESS, T_REAL};
    switch (s) {
    case 0: return mk(T_INTE, name, 0, rot);
    case 1: return mk(T_INTE, name, 999, rot);
    case 2: return mk(T_INTE, name, 1000, rot);
    case 3: return mk(T_DOUB, name, 1001, rot);
    case 4: return mk(T_DOUB, name, 1, rot);
    case 5: return mk(T_LOGI, name, 1000, rot);
    case 6: return mk(T_CHAR, name, 105, rot);
    case 7: return mk(T_CHAR, name, 106, rot);
    case 8: return mk(T_C0NN, name, 104, rot, 13);
    case 9: return mk(T_MESS, name, 0, rot);
    case 10: return mk(T_REAL, name, 2001, rot);
    default: return mk(T_C0NN, name, 1, rot, 40);
    }
    (void)t;
}

// case "T <n> <a> <b> <c> <fmt>": arrays of EQUAL element count n and types a, b, c (c = -1: pair) next to each other; types
// with the same element width have different block layouts (DOUB 1000 per block, CHAR/C008 105), so nothing may be shared
// between neighbours because "count and width agree"
static Arr tsym(int ty, int n, const std::string& name) {
    switch (ty) {
    case 0: return mk(T_INTE, name, n, 1);
    case 1: return mk(T_REAL, name, n, 2);
    case 2: return mk(T_DOUB, name, n, 3);
    case 3: return mk(T_LOGI, name, n, 4);
    case 4: return mk(T_CHAR, name, n, 5);
    case 5: return mk(T_C0NN, name, n, 6, 8);       // C008: same width as CHAR and DOUB
    case 6: return mk(T_C0NN, name, n, 7, 4);       // C004: same width as INTE/REAL/LOGI
    case 7: return mk(T_MESS, name, 0, 0);
    default: return mk(T_INTE, name, 0, 0);         // zero-length array
    }
}

// case "P <fmt> <ops...>": fixed-width CHAR elements (PaddedOutputString<8>, the type the restart/summary writers keep their
// name buffers in).  One 3-element vector; every sequence of <= 4 operations over {element 1 := value v (7 values incl. empty,
// 8 characters, over-long), element 1 := copy of element 0, whole vector rebuilt} ; after EVERY operation the vector is
// written and must read back as the values the reference holds (left adjusted, blank padded, cut at 8 characters).
static const char* PV[] = {"", "A", "ABCDEFGH", "ABCDEFGHIJ", "P 1", "INJ-01", " LEAD"};
static std::string pad8(const std::string& v) { std::string o = v.substr(0, 8); o.resize(8, ' '); return o; }
static void padded_case(int fmt, const std::vector<int>& ops, const std::string& cas) {
    R->evaluations++;
    const std::string rp = "{\"case\": " + vf::jstr(cas) + "}";
    std::vector<Opm::EclIO::PaddedOutputString<8>> v(3);
    std::vector<std::string> ref = {"FIRST", "", "LAST-ONE"};
    v[0] = ref[0]; v[2] = ref[2];
    std::string hs;
    for (int o : ops) {
        if (o < 7) { v[1] = std::string(PV[o]); ref[1] = PV[o]; hs += std::string(" [1]='") + PV[o] + "'"; }
        else if (o == 7) { v[1] = v[0]; ref[1] = ref[0]; hs += " [1]=[0]"; }
        else { v = std::vector<Opm::EclIO::PaddedOutputString<8>>{Opm::EclIO::PaddedOutputString<8>(ref[0]), Opm::EclIO::PaddedOutputString<8>(ref[1]), Opm::EclIO::PaddedOutputString<8>(ref[2])}; hs += " rebuilt"; }
        for (int e = 0; e < 3; ++e) if (std::string(v[e].c_str()) != pad8(ref[e])) { R->violation("C07:padded:element", "PaddedOutputString<8> element " + std::to_string(e) + " holds '" + v[e].c_str() + "' after" + hs + ", expected '" + pad8(ref[e]) + "'", rp); return; }
        const std::string fn = g_dir + (fmt ? "/P.FX" : "/P.X");
        ::unlink(fn.c_str());
        try {
            { Opm::EclIO::EclOutput out(fn, fmt != 0); out.write("NAMES", v); out.write<int>("AFTER", std::vector<int>{1, 2}); }
            EclFile f(fn); f.loadData();
            const auto& got = f.get<std::string>("NAMES");
            bool ok = got.size() == 3; for (int e = 0; ok && e < 3; ++e) { std::string w = pad8(ref[e]); size_t q = w.find_last_not_of(' '); w = q == std::string::npos ? "" : w.substr(0, q + 1); ok = got[e] == w; }
            if (!ok || f.get<int>("AFTER") != std::vector<int>{1, 2}) { std::string g; for (auto& x : got) g += "'" + x + "' "; R->violation(std::string("C07:padded:") + (fmt ? "fmt" : "bin") + ":readback", "CHAR array written from PaddedOutputString<8> elements reads back as " + g + "after" + hs + " (wanted '" + ref[0] + "' '" + ref[1] + "' '" + ref[2] + "' up to blank padding / 8 characters)", rp); return; }
        } catch (const std::exception& e) { R->violation(std::string("C07:padded:") + (fmt ? "fmt" : "bin") + ":throws", std::string("writing/reading the CHAR array throws: ") + e.what() + " after" + hs, rp); return; }
    }
    R->observe(vf::fnv(cas));
}

// case "Q <fmt> <ops...>": E2 over the reader's own state.  One file with four arrays (INTE, REAL spanning two blocks, CHAR,
// DOUB last); every sequence of <= 3 (thorough 4) reader operations on ONE EclFile object; every get() must return what was
// written, during the sequence and in the sweep over all arrays after it.
static void reader_case(int fmt, const std::vector<int>& ops, const std::string& cas) {
    R->evaluations++;
    const std::string rp = "{\"case\": " + vf::jstr(cas) + "}";
    static const char* opn[] = {"loadData()", "loadData(\"B\")", "loadData(3)", "loadData({3,0})", "loadData({1,2})", "get<int>(0)", "get<double>(\"D\")", "clearData()", "get<float>(1)"};
    const std::string fn = g_dir + (fmt ? "/Q.FX" : "/Q.X");
    const std::vector<int> A = {7, -8, 9}; std::vector<float> B(1001); for (int i = 0; i < 1001; ++i) B[i] = 0.5f * i - 3.0f;
    const std::vector<std::string> C = {"ONE", "TWO 2"}; const std::vector<double> D = {1.25, -2.5e10};
    static int written[2] = {0, 0};
    if (!written[fmt]) { ::unlink(fn.c_str()); Opm::EclIO::EclOutput out(fn, fmt != 0); out.write("A", A); out.write("B", B); out.write("C", C); out.write("D", D); written[fmt] = 1; }
    std::string hs;
    const std::string kf = std::string("C07:reader-order:") + (fmt ? "fmt" : "bin");
    try {
        EclFile f(fn);
        for (int o : ops) {
            hs += std::string(hs.empty() ? "" : " ; ") + opn[o];
            bool ok = true;
            switch (o) {
            case 0: f.loadData(); break;
            case 1: f.loadData("B"); break;
            case 2: f.loadData(3); break;
            case 3: f.loadData(std::vector<int>{3, 0}); break;
            case 4: f.loadData(std::vector<int>{1, 2}); break;
            case 5: ok = f.get<int>(0) == A; break;
            case 6: ok = f.get<double>("D") == D; break;
            case 7: f.clearData(); break;
            case 8: ok = f.get<float>(1) == B; break;
            }
            if (!ok) { R->violation(kf + ":value", "EclFile query " + std::string(opn[o]) + " returns other values than written after the sequence [" + hs + "] on one object", rp); return; }
        }
        hs += " ; sweep";
        if (f.get<int>(0) != A || f.get<float>(1) != B || f.get<std::string>(2) != C || f.get<double>(3) != D) { R->violation(kf + ":value", "EclFile returns other values than written in the sweep after the sequence [" + hs + "] on one object", rp); return; }
    } catch (const std::exception& e) { R->violation(kf + ":throws", "EclFile throws (" + std::string(e.what()).substr(0, 160) + ") in the sequence [" + hs + "] on one object", rp); return; }
    R->observe(vf::fnv(cas));
}

static void do_case(const std::string& c) {
    // case strings:  L <len> <variant> <fmt> <ix> | S <a> <b> <c> <fmt> | D <len> <fmt> <ix>
    char k; int a, b, cc, d, e;
    if (std::sscanf(c.c_str(), "%c %d %d %d %d %d", &k, &a, &b, &cc, &d, &e) < 3) throw std::runtime_error("bad case " + c);
    R->current(c);
    if (k == 'T') { std::vector<Arr> v; v.push_back(tsym(b, a, "FIRST")); v.push_back(tsym(cc, a, "SECOND")); if (d >= 0) v.push_back(tsym(d, a, "THIRD")); run_case(v, e, false, "equal-count", c); return; }
    if (k == 'Q') { std::istringstream is(c.substr(1)); int fmt; is >> fmt; std::vector<int> ops; int x; while (is >> x) ops.push_back(x); reader_case(fmt, ops, c); return; }
    if (k == 'P') { std::istringstream is(c.substr(1)); int fmt; is >> fmt; std::vector<int> ops; int x; while (is >> x) ops.push_back(x); padded_case(fmt, ops, c); return; }
    if (k == 'L') run_case(len_case(a, b), cc, d, "", c);
    else if (k == 'W') {   // wide C0nn (nn >= 78): first "does not crash" in a child, then the normal oracles
        std::vector<Arr> v; v.push_back(mk(T_C0NN, "WIDE", a, a, b)); v.push_back(mk(T_INTE, "AFTER", 2, 0));
        int rc = vf::in_child([&] { lib_write(g_dir + (cc ? "/W.FX" : "/W.X"), cc, false, v); try { EclFile f(g_dir + (cc ? "/W.FX" : "/W.X")); f.loadData(); } catch (const std::exception&) {} });
        R->evaluations++;
        if (rc < 0) R->violation(std::string("C07:") + (cc ? "fmt" : "bin") + ":c0nn-wide:signal" + std::to_string(-rc), "writing/reading a C0" + std::to_string(b) + " array of length " + std::to_string(a) + " kills the process with signal " + std::to_string(-rc), "{\"case\": " + vf::jstr(c) + "}");
        else run_case(v, cc, false, "c0nn-wide", c);
    }
    else if (k == 'D') { std::vector<Arr> v; Arr x; x.name = "DSUBN"; x.ty = T_DOUB; for (int i = 0; i < a; ++i) x.d.push_back(dsub[(i + a) % dsub.size()]); v.push_back(x); v.push_back(mk(T_INTE, "AFTER", 3, 0)); run_case(v, b, cc, "subn", c); }
    else if (k == 'S') { std::vector<Arr> v; int s[3] = {a, b, cc}; for (int i = 0; i < 3; ++i) if (s[i] >= 0) v.push_back(sym(s[i], i + s[i], "A" + std::to_string(i))); run_case(v, d, false, "seq", c); }
}

int main(int argc, char** argv) {
    vf::Run run("C07", argc, argv); R = &run;
    const char* sc = std::getenv("VERIF_SCRATCH");
    g_dir = std::string(sc ? sc : "/tmp") + "/C07." + std::to_string(getpid());
    std::string cmd = "mkdir -p " + g_dir; if (std::system(cmd.c_str())) return 2;
    run.rule = "every array length 0..2002 (strings 0..212) x {INTE,REAL,DOUB,LOGI,CHAR,C0nn,MESS} x {formatted,unformatted} x {ECL,IX} with extremes rotated over positions; all sequences of <=3 arrays over a 12-symbol (type,length-class) alphabet; all pairs (and triples around a MESS / zero-length array; thorough: all triples) of 9 array kinds with EQUAL element count in {1,105,106,1000,1001}; every sequence of <= 3 (thorough 4) assignments to a reused PaddedOutputString<8> element (7 values incl. empty/over-long, copy, rebuild) written as a CHAR array after every step; every sequence of <= 3 (thorough 4) reader operations {loadData all / by name / by index / by index list in both orders, get by index / name, clearData} on one EclFile object followed by a sweep over all arrays; distinct = distinct file byte strings";
    run.assumptions = {"reference codec in the harness written from the published Eclipse layout (not from EclIOdata.hpp)", "values outside the extremes alphabet not covered", "lengths >= 2^31 only through size arithmetic (thorough)"};
    if (!run.replay_path.empty()) { do_case(run.replay_path); std::string rm = "rm -rf " + g_dir; std::system(rm.c_str()); return run.finish(); }

    const int maxlen = 2002;
    const int variants = run.thorough() ? 3 : 1;
    for (int len = 0; len <= maxlen; ++len)
        for (int var = 0; var < variants; ++var)
            for (int fmt = 0; fmt < 2; ++fmt)
                for (int ix = 0; ix < 2; ++ix) {
                    if (!run.mine()) continue;
                    do_case("L " + std::to_string(len) + " " + std::to_string(var) + " " + std::to_string(fmt) + " " + std::to_string(ix));
                }
    for (int len = 1; len <= 7; ++len) for (int fmt = 0; fmt < 2; ++fmt) for (int ix = 0; ix < 2; ++ix) { if (!run.mine()) continue; do_case("D " + std::to_string(len) + " " + std::to_string(fmt) + " " + std::to_string(ix)); }
    for (int len : {0, 1, 2, 105, 106}) for (int nn : {78, 99}) for (int fmt = 0; fmt < 2; ++fmt) { if (!run.mine()) continue; do_case("W " + std::to_string(len) + " " + std::to_string(nn) + " " + std::to_string(fmt)); }
    // sequences (-1 = absent, only trailing)
    for (int a = 0; a < 12; ++a) for (int b = -1; b < 12; ++b) for (int c = -1; c < 12; ++c) {
        if (b < 0 && c >= 0) continue;
        for (int fmt = 0; fmt < 2; ++fmt) { if (!run.mine()) continue; do_case("S " + std::to_string(a) + " " + std::to_string(b) + " " + std::to_string(c) + " " + std::to_string(fmt)); }
    }
    // PaddedOutputString element histories: all maximal sequences of length 3 (thorough 4) over 9 operations; every prefix is checked on the way
    {
        const int L = run.thorough() ? 4 : 3; std::vector<int> ops;
        std::function<void()> rec = [&]() {
            if ((int)ops.size() == L) { if (!run.mine()) return; for (int fmt = 0; fmt < 2; ++fmt) { std::string c = "P " + std::to_string(fmt); for (int o : ops) c += " " + std::to_string(o); do_case(c); } return; }
            for (int o = 0; o < 9; ++o) { ops.push_back(o); rec(); ops.pop_back(); }
        };
        rec();
    }
    // neighbours of equal element count
    for (int n : {1, 105, 106, 1000, 1001}) for (int a = 0; a < 9; ++a) for (int b = 0; b < 9; ++b) for (int c3 = -1; c3 < 9; ++c3) {
        if (c3 >= 0 && !(b >= 7 || run.thorough())) continue;       // quick: triples only with a MESS / zero-length array in the middle
        for (int fmt = 0; fmt < 2; ++fmt) { if (!run.mine()) continue; do_case("T " + std::to_string(n) + " " + std::to_string(a) + " " + std::to_string(b) + " " + std::to_string(c3) + " " + std::to_string(fmt)); }
    }
    // reader operation sequences
    {
        const int L = run.thorough() ? 4 : 3; std::vector<int> ops;
        std::function<void()> rec = [&]() {
            if (!ops.empty() && run.mine()) for (int fmt = 0; fmt < 2; ++fmt) { std::string c = "Q " + std::to_string(fmt); for (int o : ops) c += " " + std::to_string(o); do_case(c); }
            if ((int)ops.size() == L) return;
            for (int o = 0; o < 9; ++o) { ops.push_back(o); rec(); ops.pop_back(); }
        };
        rec();
    }
    // 2^31 size arithmetic (thorough + quick: cheap)
    if (run.shard == 0) {
        for (long long n : {2147483647LL, 2147483648LL, 2147484648LL, 4294967296LL + 5}) {
            run.evaluations++;
            unsigned long long full = n / 1000, rest = n % 1000;
            unsigned long long want = full * 4008ULL + (rest ? rest * 4 + 8 : 0);
            if (sizeOnDiskBinary(n, INTE, 4) != want) run.violation("C07:size231:INTE", "sizeOnDiskBinary(" + std::to_string(n) + ",INTE) = " + std::to_string(sizeOnDiskBinary(n, INTE, 4)) + " != " + std::to_string(want));
            want = full * 8008ULL + (rest ? rest * 8 + 8 : 0);
            if (sizeOnDiskBinary(n, DOUB, 8) != want) run.violation("C07:size231:DOUB", "sizeOnDiskBinary(" + std::to_string(n) + ",DOUB) wrong");
            run.observe(vf::fnv(std::to_string(n)));
        }
    }
    std::string rm = "rm -rf " + g_dir; std::system(rm.c_str());
    return run.finish();
}
