// C01 — Deck invariant under lexical re-layout.  E1: every original (catalogue instance for every
// deck name, token-regime records, shipped decks) x every rewrite rule x every site, one at a time
// (deviation 1), all sites at once, and (thorough) all pairs (deviation 2).
#include "vf.hpp"
#include "deckgen.hpp"
#include <opm/common/OpmLog/OpmLog.hpp>
#include <filesystem>
#include <unistd.h>

using namespace Opm;
namespace fs = std::filesystem;

static vf::Run* R;
static Parser* P;
static ParseContext PC;
static std::string g_dir;

struct Parsed { bool ok = false; std::string obs, err, msg; };
static Parsed parse_text(const std::string& t) {
    Parsed p; try { ErrorGuard eg; auto d = P->parseString(t, PC, eg); eg.clear(); p.ok = true; p.obs = deckgen::obs_deck(d); } catch (const std::exception& e) { p.err = typeid(e).name(); p.msg = std::string(e.what()).substr(0, 300); }
    return p;
}
static Parsed parse_file(const std::string& fn) {
    Parsed p; try { ErrorGuard eg; auto d = P->parseFile(fn, PC, eg); eg.clear(); p.ok = true; p.obs = deckgen::obs_deck(d); } catch (const std::exception& e) { p.err = typeid(e).name(); p.msg = std::string(e.what()).substr(0, 300); }
    return p;
}

// ------------------------------------------------------------- rewrites ---
enum Rule { R1_comment_line, R2_trailing_comment, R3_blank_line, R4_whitespace, R5_case, R6_linebreak, R7_after_slash, R9_repeat, NRULES };
static const char* rule_name[] = {"R1-comment-line", "R2-trailing-comment", "R3-blank-line", "R4-tabs-spaces", "R5-keyword-case", "R6-line-break", "R7-text-after-slash", "R9-repeat-count"};
struct Site { Rule r; int line; int gap; };

struct Doc {                         // an original, as lines with per-line attributes
    std::vector<std::string> lines;
    std::vector<char> is_kwline;     // keyword-name line
    std::vector<char> tokenizable;   // token level rewrites allowed on this line
    std::vector<char> rawslash;         // line of a raw-string keyword (UDQ, ACTIONX, ...) that ends in its terminating '/': R2/R7 apply (no token rules)
    std::vector<char> no_insert_before; // R1/R3 not allowed before this line (TITLE text)
};

static bool bare_word(const std::string& t) { return !t.empty() && std::isalpha((unsigned char)t[0]); }

static std::vector<Site> sites(const Doc& d) {
    std::vector<Site> s;
    for (int i = 0; i <= (int)d.lines.size(); ++i) {
        bool ins_ok = i == (int)d.lines.size() || !d.no_insert_before[i];
        if (ins_ok) { s.push_back({R1_comment_line, i, 0}); s.push_back({R3_blank_line, i, 0}); }
        if (i == (int)d.lines.size()) break;
        if (d.is_kwline[i]) { s.push_back({R5_case, i, 0}); s.push_back({R5_case, i, 1}); s.push_back({R2_trailing_comment, i, 0}); s.push_back({R4_whitespace, i, 0}); }
        if (i < (int)d.rawslash.size() && d.rawslash[i]) { s.push_back({R2_trailing_comment, i, 0}); s.push_back({R7_after_slash, i, 0}); }
        if (d.tokenizable[i]) {
            s.push_back({R2_trailing_comment, i, 0}); s.push_back({R4_whitespace, i, 0});
            auto t = deckgen::tokens(d.lines[i]);
            for (int g = 1; g < (int)t.size(); ++g) if (!bare_word(t[g])) s.push_back({R6_linebreak, i, g});
            if (!t.empty() && t.back() == "/") s.push_back({R7_after_slash, i, 0});
            for (int g = 0; g + 1 < (int)t.size(); ) {       // R9: a run of equal adjacent values v v v  <->  3*v
                int e = g; while (e + 1 < (int)t.size() && t[e + 1] == t[g]) ++e;
                if (e > g && t[g] != "/" && t[g].find('*') == std::string::npos) s.push_back({R9_repeat, i, g});
                g = e + 1;
            }
        }
    }
    return s;
}

// apply a set of rewrites (any number per line) and render
static std::string render(const Doc& d, const std::vector<Site>& ss) {
    std::string out;
    for (int i = 0; i <= (int)d.lines.size(); ++i) {
        for (auto& s : ss) if (s.line == i && s.r == R1_comment_line) out += "-- a comment line with / and 'quote\n";
        for (auto& s : ss) if (s.line == i && s.r == R3_blank_line) out += "   \n";
        if (i == (int)d.lines.size()) break;
        std::string l = d.lines[i];
        bool ws = false, cmt = false, after = false; int lower = -1; std::vector<int> breaks; std::vector<int> repeats;
        for (auto& s : ss) if (s.line == i) { if (s.r == R9_repeat) repeats.push_back(s.gap); if (s.r == R4_whitespace) ws = true; if (s.r == R2_trailing_comment) cmt = true; if (s.r == R7_after_slash) after = true; if (s.r == R5_case) lower = s.gap; if (s.r == R6_linebreak) breaks.push_back(s.gap); }
        if (lower == 0) for (auto& c : l) c = std::tolower((unsigned char)c);
        if (lower == 1) { bool first = true; for (auto& c : l) { if (std::isalpha((unsigned char)c)) { c = first ? std::toupper((unsigned char)c) : std::tolower((unsigned char)c); first = false; } } }
        if (!repeats.empty() && breaks.empty()) {          // collapse the runs (right to left so indices stay valid)
            auto t = deckgen::tokens(l); std::sort(repeats.rbegin(), repeats.rend());
            for (int g : repeats) { int e = g; while (e + 1 < (int)t.size() && t[e + 1] == t[g]) ++e; std::string tok = std::to_string(e - g + 1) + "*" + t[g]; t.erase(t.begin() + g, t.begin() + e + 1); t.insert(t.begin() + g, tok); }
            l.clear(); for (auto& x : t) l += " " + x;
        }
        if (!breaks.empty() || (ws && d.tokenizable[i])) {
            auto t = deckgen::tokens(l); std::string m;
            for (int g = 0; g < (int)t.size(); ++g) {
                if (g) { if (std::find(breaks.begin(), breaks.end(), g) != breaks.end()) m += "\n  "; else m += ws ? "\t \t" : " "; }
                m += t[g];
            }
            l = (ws ? "\t  " : " ") + m + (ws ? " \t " : "");
        } else if (ws) l = l + " \t ";             // keyword line: trailing blanks only (leading blanks are not layout for keyword names)
        if (after) l += " trailing text 1 2 3 'unbalanced";
        if (cmt) l += "  -- trailing comment / 'q";
        out += l + "\n";
    }
    return out;
}

static std::string site_str(const Site& s) { return std::string(rule_name[s.r]) + "@" + std::to_string(s.line) + "." + std::to_string(s.gap); }

static void judge(const std::string& what, const std::string& origin, const Parsed& a, const Parsed& b, const std::string& key, const std::string& casestr, const std::string& text) {
    R->evaluations++;
    if (a.ok != b.ok) { R->violation(key + ":accept-differs", what + " of " + origin + ": original " + (a.ok ? "parses" : "is rejected (" + a.err + ")") + " but rewritten text " + (b.ok ? "parses" : "is rejected (" + b.err + ": " + b.msg + ")"), "{\"case\": " + vf::jstr(casestr) + ", \"text\": " + vf::jstr(text.substr(0, 1500)) + "}"); return; }
    if (!a.ok) { if (a.err != b.err) R->count("rejected_with_different_exception_type"); return; }
    R->observe(vf::fnv(b.obs, vf::fnv(what)));
    if (a.obs != b.obs) {
        size_t p = 0; while (p < a.obs.size() && p < b.obs.size() && a.obs[p] == b.obs[p]) ++p; size_t s0 = p > 60 ? p - 60 : 0;
        R->violation(key + ":deck-differs", what + " of " + origin + ": decks differ: …" + a.obs.substr(s0, 160) + " VS …" + b.obs.substr(s0, 160), "{\"case\": " + vf::jstr(casestr) + ", \"text\": " + vf::jstr(text.substr(0, 1500)) + "}");
    }
}

static Doc doc_of(const deckgen::Instance& in) {
    Doc d;
    std::istringstream is(in.prelude); std::string l;
    while (std::getline(is, l)) { d.lines.push_back(l); d.is_kwline.push_back(0); d.tokenizable.push_back(0); d.no_insert_before.push_back(0); d.rawslash.push_back(0); }
    for (size_t i = 0; i < in.lines.size(); ++i) {
        d.lines.push_back(in.lines[i]); d.is_kwline.push_back(i == 0); d.tokenizable.push_back(i > 0 && !in.freetext);
        { const std::string& ln = in.lines[i]; size_t e = ln.find_last_not_of(" \t"); d.rawslash.push_back(i > 0 && in.freetext && in.cls.find("+RAW") != std::string::npos && e != std::string::npos && ln[e] == '/'); }
        d.no_insert_before.push_back((in.name == "TITLE" && i == 1) || (in.freetext && i > 0 && in.cls.find("CODE") != std::string::npos));
    }
    return d;
}

static void explore_doc(const Doc& d, const std::string& origin, const std::string& casebase, bool pairs) {
    const std::string orig = render(d, {});
    const Parsed a = parse_text(orig);
    auto ss = sites(d);
    for (size_t k = 0; k < ss.size(); ++k) {
        std::string t = render(d, {ss[k]});
        judge(site_str(ss[k]), origin, a, parse_text(t), std::string("C01:") + rule_name[ss[k].r], casebase + " S " + std::to_string(k), t);
    }
    for (int r = 0; r < NRULES; ++r) {          // every rule at all its sites at once
        std::vector<Site> all; for (auto& s : ss) if (s.r == r && !(s.r == R5_case && s.gap == 1)) all.push_back(s);
        if (all.empty()) continue;
        std::string t = render(d, all);
        judge(std::string(rule_name[r]) + "@all", origin, a, parse_text(t), std::string("C01:") + rule_name[r] + ":all-sites", casebase + " A " + std::to_string(r), t);
    }
    // documents of raw-string keywords report combined rewrites under their own keys (their lines end at the LAST slash of the line)
    bool rawdoc = false; for (char c : d.rawslash) if (c) rawdoc = true;
    const std::string rk = rawdoc ? ":raw-string-keyword" : "";
    { std::string t = render(d, ss); judge("all-rules@all", origin, a, parse_text(t), "C01:all-rules-all-sites" + rk, casebase + " X", t); }
    if (pairs) for (size_t k = 0; k < ss.size(); ++k) for (size_t m = k + 1; m < ss.size(); ++m) {
        if (ss[k].r == R5_case && ss[m].r == R5_case && ss[k].line == ss[m].line) continue;
        std::string t = render(d, {ss[k], ss[m]});
        judge(site_str(ss[k]) + "+" + site_str(ss[m]), origin, a, parse_text(t), std::string("C01:pair:") + rule_name[ss[k].r] + "+" + rule_name[ss[m].r] + rk, casebase + " P " + std::to_string(k) + " " + std::to_string(m), t);
    }
}

// ---------------------------------------------------------- R8 INCLUDE ---
static void write_file(const std::string& fn, const std::string& t) { std::ofstream(fn) << t; }
static void explore_include(const std::vector<std::string>& kwtexts, const std::string& origin, const std::string& casebase) {
    std::string whole; for (auto& k : kwtexts) whole += k;
    const Parsed a = parse_text(whole);
    const std::string main = g_dir + "/MAIN.DATA";
    int n = kwtexts.size();
    for (int cut = 0; cut < n; ++cut) {           // keywords [cut..n) go to an include file
        std::string head, tail; for (int i = 0; i < n; ++i) (i < cut ? head : tail) += kwtexts[i];
        write_file(g_dir + "/inc1.inc", tail);
        write_file(main, head + "INCLUDE\n 'inc1.inc' /\n");
        judge("R8-include@" + std::to_string(cut), origin, a, parse_file(main), "C01:R8-include", casebase + " I " + std::to_string(cut), head + "INCLUDE 'inc1.inc' / {" + tail + "}");
        if (cut + 1 < n) {                        // include in the middle: [cut] alone in the include, rest after it
            std::string mid = kwtexts[cut], rest; for (int i = cut + 1; i < n; ++i) rest += kwtexts[i];
            write_file(g_dir + "/inc1.inc", mid);
            write_file(main, head + "INCLUDE\n 'inc1.inc' /\n" + rest);
            judge("R8-include-mid@" + std::to_string(cut), origin, a, parse_file(main), "C01:R8-include:middle", casebase + " M " + std::to_string(cut), "");
            // nested: inc1 holds [cut] and includes inc2 holding the rest
            write_file(g_dir + "/inc2.inc", rest);
            write_file(g_dir + "/inc1.inc", mid + "INCLUDE\n 'inc2.inc' /\n");
            write_file(main, head + "INCLUDE\n 'inc1.inc' /\n");
            judge("R8-include-nested@" + std::to_string(cut), origin, a, parse_file(main), "C01:R8-include:nested", casebase + " N " + std::to_string(cut), "");
        }
    }
}

// ------------------------------------------------------- token regime ---
// A record = per item: canonical value text + may it be defaulted.  All encodings of every
// default pattern (R9 n*v, R10 n*, R11 early slash) must give the Deck of the expanded form.
struct TokRec { std::string kw, pre, post; std::vector<std::string> val; std::vector<char> can_default; };
static std::vector<TokRec> token_records() {
    auto mk = [](std::string kw, std::string pre, std::string post, std::vector<std::string> v, std::string dflt) { TokRec t{kw, pre, post, v, {}}; for (char c : dflt) t.can_default.push_back(c == 'd'); return t; };
    return {
        mk("EQUIL", "EQUIL\n", "", {"2000", "200", "2100", "0", "2000", "0", "1", "0", "0"}, "vvvvddddd"),
        mk("WELSPECS", "WELSPECS\n", "/\n", {"'P1'", "'G1'", "1", "1", "2000", "OIL", "0", "STD", "SHUT", "NO", "0", "SEG", "0"}, "vvvvdvdddddd d"),
        mk("COMPDAT", "COMPDAT\n", "/\n", {"'P1'", "2", "2", "1", "1", "OPEN", "0", "7", "0.2", "7", "0", "7", "Z"}, "vddvvddddddd d"),
        mk("WCONPROD", "WCONPROD\n", "/\n", {"'P1'", "OPEN", "ORAT", "100", "100", "100", "100", "100", "50"}, "vddddddd d"),
        mk("MULTFLT", "MULTFLT\n", "/\n", {"'F1'", "0.5", "0.5"}, "vdd"),
        mk("ROCK", "ROCK\n", "", {"100", "1e-5", "100", "1e-5", "100", "100"}, "dddddd"),
        mk("GRUPTREE", "GRUPTREE\n", "/\n", {"'G1'", "'FIELD'"}, "vd"),
        mk("DENSITY", "DENSITY\n", "", {"800", "1000", "1"}, "ddd"),
        mk("GCONPROD", "GCONPROD\n", "/\n", {"'G1'", "ORAT", "1000", "1000", "1000", "1000", "RATE", "YES", "1"}, "vddddddd d"),
        mk("TUNING1", "TUNING\n", "/\n/\n", {"1", "10", "0.1", "0.15", "3", "0.3", "0.1", "1.25", "0.75"}, "ddddddddd"),
        mk("WELSPECS", "WELSPECS\n", "/\n", {"'W1'", "'W1'", "3", "3", "2000", "OIL"}, "vvvvdv"),
        mk("WCONPROD", "WCONPROD\n", "/\n", {"'P1'", "'ORAT'", "'ORAT'", "100", "100", "100"}, "vvvddd"),
        mk("WLIST", "WLIST\n", "/\n", {"'*L1'", "'NEW'", "'P1'", "'P1'", "'P2'"}, "vvvvv"),
    };
}
static std::vector<TokRec> data_records() {
    auto mk = [](std::string kw, std::string pre, std::string post, std::vector<std::string> v) { return TokRec{kw, pre, post, v, {}}; };
    return {
        mk("TSTEP", "TSTEP\n", "", {"1", "1", "1", "2", "2", "5"}),
        mk("PORO", "PORO\n", "", {"0.1", "0.1", "0.3", "0.3", "0.3", "0.3", "0.2"}),
        mk("SWOF", "SWOF\n", "", {"0.2", "0", "1", "0", "1", "1", "0", "0"}),
        mk("ACTNUM", "ACTNUM\n", "", {"1", "1", "0", "0", "0", "1"}),
    };
}
// all ways to write a run of L identical entries (value v, or default when v empty) as star tokens
static void compositions(int L, std::vector<int>& cur, std::vector<std::vector<int>>& out) { if (L == 0) { out.push_back(cur); return; } for (int k = 1; k <= L; ++k) { cur.push_back(k); compositions(L - k, cur, out); cur.pop_back(); } }
static bool g_allow_early = true;      // R11 applies to records of fixed items; the length of an ALL-size array is what was written
static void encodings(const std::vector<std::string>& items /* "" = default */, size_t pos, std::string cur, std::vector<std::string>& out, size_t cap) {
    if (out.size() >= cap) return;
    if (pos == items.size()) { out.push_back(cur + " /"); return; }
    size_t e = pos; while (e < items.size() && items[e] == items[pos]) ++e;
    int L = e - pos;
    std::vector<std::vector<int>> comps; std::vector<int> c; compositions(std::min(L, 4), c, comps);
    if (L > 4) comps = {{L}, std::vector<int>(L, 1)};
    for (auto& comp : comps) {
        std::string s = cur;
        for (int k : comp) { s += " "; if (items[pos].empty()) s += std::to_string(k) + "*"; else if (k == 1) s += items[pos]; else s += std::to_string(k) + "*" + items[pos]; }
        encodings(items, e, s, out, cap);
    }
    // R11: a trailing run of defaults may be dropped entirely or partly (early slash)
    if (g_allow_early && items[pos].empty() && e == items.size()) for (int keep = 0; keep < L; ++keep) { std::string s = cur; for (int k = 0; k < keep; ++k) s += " 1*"; out.push_back(s + " /"); }
}
static void explore_tokens(TokRec t, bool is_data, const std::string& casebase, bool thorough) {
    if (!is_data) { const std::string kwn = t.kw == "TUNING1" ? "TUNING" : t.kw; size_t ni = P->getKeyword(kwn).getRecord(0).size(); if (t.val.size() > ni) { t.val.resize(ni); } if (R->shard == 0) R->notes["token_record_items"] += t.kw + "=" + std::to_string(t.val.size()) + "/" + std::to_string(ni) + " "; }
    int n = t.val.size();
    g_allow_early = !is_data;
    // data arrays (ALL-size items): every position may be defaulted, so that default runs precede / follow / separate n*v runs
    std::vector<int> dpos; for (int i = 0; i < n; ++i) if (is_data || (i < (int)t.can_default.size() && t.can_default[i])) dpos.push_back(i);
    int nd = std::min<int>(dpos.size(), thorough ? 9 : 7);
    for (int mask = 0; mask < (1 << nd); ++mask) {
        if (!R->mine()) continue;
        std::vector<std::string> items = t.val;
        for (int b = 0; b < nd; ++b) if (mask & (1 << b)) items[dpos[b]] = "";
        std::string expanded; for (auto& it : items) expanded += " " + (it.empty() ? std::string("1*") : it);
        const std::string otext = t.pre + expanded + " /\n" + t.post;
        const Parsed a = parse_text(otext);
        std::vector<std::string> enc; encodings(items, 0, "", enc, thorough ? 4000 : 600);
        R->current(casebase + " " + t.kw + " " + std::to_string(mask));
        for (auto& e : enc) {
            std::string txt = t.pre + e + "\n" + t.post;
            bool early = vf::fnv(e) && deckgen::tokens(e).size() - 1 < deckgen::tokens(expanded).size() && e.find('*') == std::string::npos;
            std::string key = std::string("C01:") + (e.find("* ") != std::string::npos || e.find("*/") != std::string::npos || e.find("* /") != std::string::npos ? "R10-default-repeat" : e.find('*') != std::string::npos ? "R9-value-repeat" : "R11-early-slash");
            (void)early;
            judge("encoding [" + e + "] vs expanded [" + expanded + " /]", t.kw, a, parse_text(txt), key + ":" + t.kw, casebase + " " + t.kw + " " + std::to_string(mask), txt);
        }
        if (R->samples.size() < 5 && enc.size() > 3) R->sample_str(t.kw + ": [" + expanded + " /] == [" + enc[enc.size() / 2] + "] (" + std::to_string(enc.size()) + " encodings)");
    }
}

int main(int argc, char** argv) {
    vf::Run run("C01", argc, argv); R = &run;
    OpmLog::removeAllBackends();
    Parser parser; P = &parser; PC = deckgen::lenient_context();
    const char* sc = std::getenv("VERIF_SCRATCH");
    g_dir = std::string(sc ? sc : "/tmp") + "/C01." + std::to_string(getpid()); fs::create_directories(g_dir);
    run.rule = "originals: one synthesised instance per parser deck name (2 value sets), token-regime records (all default patterns x all star/early-slash encodings), shipped decks; rewrites R1..R7 at every site one at a time, every rule at all sites at once, all rules at once" + std::string(run.thorough() ? ", all pairs of (rule,site)" : "") + "; R8 INCLUDE splitting at every keyword boundary (tail, middle, nested); oracle: obs_deck(parse(original)) == obs_deck(parse(rewritten)) bit for bit (values, default flags, SI), or both rejected; distinct = distinct (rewrite, deck) observations";
    run.assumptions = {"value alphabet of engine/deckgen.hpp (int 7/3, double 1.25/0.5, strings 'ABC'/'A B', UDA 2.5/'WUX')", "quoting changes are not layout (not in the statement)", "R6 not applied before a bare keyword-like word nor inside free-text keywords; R1/R3 not applied between TITLE and its text (statement exclusions)", "lenient ParseContext: missing DIMS keyword / sections ignored so one-keyword decks parse"};

    std::vector<std::string> rejected;
    std::vector<std::vector<deckgen::Instance>> cats = {deckgen::catalogue(parser, 0, &rejected), deckgen::catalogue(parser, 1, nullptr)};
    // value sets 2 and 3: quoted strings containing '/' resp. '--'; only instances with at least two quoted strings on one line
    for (int v : {2, 3}) {
        std::vector<deckgen::Instance> sel;
        for (auto& in : deckgen::catalogue(parser, v, nullptr)) { bool two = false; for (auto& l : in.lines) { int q = 0; for (auto& t : deckgen::tokens(l)) if (!t.empty() && t[0] == '\'') ++q; if (q >= 2) two = true; } if (two && !in.freetext) sel.push_back(in); }
        cats.push_back(sel);
    }

    if (!run.replay_path.empty()) {
        // "C <variant> <idx> ..." | "T <d|r> <idx> KW mask" | "D <path>" : re-run the whole original (cheap)
        std::istringstream ss(run.replay_path); std::string k; ss >> k;
        if (k == "C") { int v, i; ss >> v >> i; explore_doc(doc_of(cats[v][i]), cats[v][i].name, "C " + std::to_string(v) + " " + std::to_string(i), true); if (i + 1 < (int)cats[v].size()) explore_include({cats[v][i].text(), cats[v][i + 1].text()}, cats[v][i].name, "C " + std::to_string(v) + " " + std::to_string(i)); }
        else if (k == "T") { std::string dr; int i; ss >> dr >> i; run.nshards = 1; if (dr == "d") explore_tokens(data_records()[i], true, "T d " + std::to_string(i), true); else explore_tokens(token_records()[i], false, "T r " + std::to_string(i), true); }
        fs::remove_all(g_dir); return run.finish();
    }

    if (run.shard == 0) { run.count("catalogue_instances", cats[0].size()); run.count("catalogue_rejected", rejected.size()); std::string rj; for (auto& r : rejected) rj += r.substr(0, 40) + " "; run.notes["catalogue_rejected_list"] = rj.substr(0, 3000); }
    if (run.shard == 0) { run.count("catalogue_instances_slash_in_quotes", cats[2].size()); run.count("catalogue_instances_dashes_in_quotes", cats[3].size()); }
    for (int v = 0; v < (int)cats.size(); ++v)
        for (size_t i = 0; i < cats[v].size(); ++i) {
            if (!run.mine()) continue;
            if (run.timed_out()) break;
            const auto& in = cats[v][i];
            const std::string cb = "C " + std::to_string(v) + " " + std::to_string(i);
            run.current(cb + " " + in.name);
            explore_doc(doc_of(in), in.name + "[" + in.cls + "]", cb, run.thorough() && in.lines.size() <= 8);
            if (i + 1 < cats[v].size()) explore_include({in.text(), cats[v][i + 1].text()}, in.name + "+" + cats[v][i + 1].name, cb);
            if (run.samples.size() < 2 && in.lines.size() >= 3) run.sample_str(in.name + " [" + in.cls + "]: " + in.text());
        }
    { auto tr = token_records(); for (size_t i = 0; i < tr.size(); ++i) explore_tokens(tr[i], false, "T r " + std::to_string(i), run.thorough()); }
    { auto dr = data_records(); for (size_t i = 0; i < dr.size(); ++i) explore_tokens(dr[i], true, "T d " + std::to_string(i), run.thorough()); }

    // shipped decks that parse stand-alone: every rule at all sites at once, + INCLUDE split at every keyword boundary for small decks
    {
        std::vector<std::string> decks;
        for (auto& e : fs::recursive_directory_iterator(std::string(std::getenv("VERIF_REPO") ? std::getenv("VERIF_REPO") : "/repo") + "/tests")) { auto p = e.path(); if (p.extension() == ".DATA" && fs::file_size(p) < (run.thorough() ? 400000u : 60000u)) decks.push_back(p.string()); }
        std::sort(decks.begin(), decks.end());
        long used = 0;
        for (auto& dk : decks) {
            if (!run.mine()) continue;
            if (run.timed_out()) break;
            run.current("D " + dk);
            Parsed a = parse_file(dk);
            if (!a.ok) { run.count("shipped_decks_not_standalone"); continue; }
            ++used;
            // read lines; a line is a keyword line if it is a bare word at column 0 that the parser recognises
            std::ifstream f(dk); std::string l; Doc d; bool free = false; std::string curkw;
            bool simple = true;
            while (std::getline(f, l)) {
                if (!l.empty() && l.back() == '\r') l.pop_back();
                std::string w = l.substr(0, l.find_first_of(" \t/-")); bool kwl = !w.empty() && w.size() <= 8 && std::isalpha((unsigned char)l[0]) && parser.isRecognizedKeyword(w) && l.find('\'') == std::string::npos;
                if (!d.lines.empty() && d.is_kwline.back() && d.lines.back() == "TITLE") kwl = false;     // the line after TITLE is the title text
                if (kwl) { curkw = w; const auto& pk = parser.getParserKeywordFromDeckName(w); free = pk.rawStringKeyword() || pk.isCodeKeyword() || w == "TITLE" || w == "INCLUDE" || w == "PATHS" || w == "UDQ" || w == "ACTIONX" || w == "PYACTION" || w == "GDFILE" || w == "IMPORT" || w == "RESTART"; }
                if (l.find('\t') != std::string::npos || l.find("--") != std::string::npos) { /* keep as is */ }
                d.lines.push_back(l); d.is_kwline.push_back(kwl && l == w); d.tokenizable.push_back(0); d.no_insert_before.push_back(!kwl);   // only whole-keyword sites: insert before keyword lines
            }
            const std::string orig = render(d, {});
            // sites: R1/R3 before every keyword line, R5 on keyword lines, R2/R4 on keyword lines
            auto ss = sites(d);
            Parsed a2 = parse_text(orig);
            if (!a2.ok) { run.count("shipped_decks_with_relative_includes"); continue; }
            for (int r = 0; r < NRULES; ++r) { std::vector<Site> all; for (auto& s : ss) if (s.r == r && !(s.r == R5_case && s.gap == 1)) all.push_back(s); if (all.empty()) continue; std::string t = render(d, all); judge(std::string(rule_name[r]) + "@all-keywords", dk, a2, parse_text(t), std::string("C01:shipped:") + rule_name[r], "D " + dk, t); }
            (void)simple;
        }
        run.count("shipped_decks_used", used);
    }
    fs::remove_all(g_dir);
    return run.finish();
}
