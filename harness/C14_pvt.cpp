// C14 — Black-oil PVT functions honour the input tables and are self-consistent.
//
// Shape-exhaustive enumeration of PVTO/PVTG (saturated nodes x undersaturated
// points), PVDO/PVDG (node counts), PVTW/PVCDO records in 1-3 PVT regions and
// 4 unit systems, node values from fixed physically ordered value sets.  Every
// table goes through the real input path
//     Parser -> EclipseState -> Schedule -> {Oil,Gas,Water}PvtMultiplexer::initFromState
// and the public evaluation methods are judged against a boring reference
// model held in the harness: the table itself, in "deck numbers", plus an own
// table of exact unit definitions (not Units.hpp).
//
// Oracles (property text): node reproduction (1e-9), bracketing between
// adjacent nodes (saturated curve; undersaturated lines at tabulated Rs / p),
// undersaturated == saturated on the saturated curve (at nodes and between
// them), saturationPressure inverts the saturated Rs/Rv relation, finite and
// continuous just beyond the table range, AD derivative == central difference
// of the returned function (kink-guarded, h-sweep).
#include "config.h"
#include "vf.hpp"

#include <opm/material/fluidsystems/blackoilpvt/GasPvtMultiplexer.hpp>
#include <opm/material/fluidsystems/blackoilpvt/OilPvtMultiplexer.hpp>
#include <opm/material/fluidsystems/blackoilpvt/WaterPvtMultiplexer.hpp>
#include <opm/material/fluidsystems/blackoilpvt/ConstantCompressibilityWaterPvt.hpp>
#include <opm/material/densead/Evaluation.hpp>
#include <opm/material/densead/Math.hpp>

#include <opm/input/eclipse/Deck/Deck.hpp>
#include <opm/input/eclipse/EclipseState/EclipseState.hpp>
#include <opm/input/eclipse/Parser/Parser.hpp>
#include <opm/input/eclipse/Python/Python.hpp>
#include <opm/input/eclipse/Schedule/Schedule.hpp>

#include <cmath>
#include <memory>
#include <set>

namespace {

// ----------------------------------------------------- exact unit table ---
// Own definitions (international yard/pound, standard gravity, US gallon),
// written as definitions, never as rounded handbook numbers.
const double inch_ = 0.0254, foot_ = 0.3048, pound_ = 0.45359237, gn_ = 9.80665;
const double psi_ = pound_ * gn_ / (inch_ * inch_);          // lbf/in^2
const double stb_ = 42.0 * 231.0 * inch_ * inch_ * inch_;     // 42 US gal of 231 in^3
const double Mscf_ = 1000.0 * foot_ * foot_ * foot_;
struct Units { const char* name; const char* kw; double p, rs, rv, bg, mu, rho; };   // SI value of one deck unit
const Units UNITS[4] = {
    {"METRIC", "METRIC", 1.0e5, 1.0, 1.0, 1.0, 1.0e-3, 1.0},                                   // bar, sm3/sm3, sm3/sm3, rm3/sm3, cP, kg/m3
    {"FIELD", "FIELD", psi_, Mscf_ / stb_, stb_ / Mscf_, stb_ / Mscf_, 1.0e-3, pound_ / (foot_ * foot_ * foot_)},   // psia, Mscf/stb, stb/Mscf, rb/Mscf, cP, lb/ft3
    {"LAB", "LAB", 101325.0, 1.0, 1.0, 1.0, 1.0e-3, 1000.0},                                   // atm, scc/scc, scc/scc, rcc/scc, cP, g/cc
    {"PVT-M", "PVT-M", 101325.0, 1.0, 1.0, 1.0, 1.0e-3, 1.0}};                                 // atm, sm3/sm3, sm3/sm3, rm3/sm3, cP, kg/m3
int unit_index(const std::string& n) { for (int i = 0; i < 4; ++i) if (n == UNITS[i].name) return i; throw std::runtime_error("bad unit " + n); }

// ------------------------------------------------------- value sets -------
// Deck numbers (unit-system independent).  Physically ordered: Rs, p_sat,
// B_sat increasing and mu_sat decreasing over the saturated oil nodes, B
// decreasing / mu increasing with p along undersaturated oil lines; gas: Rv
// increasing with p, B_g decreasing; undersaturated gas: Rv decreasing.
struct Pt { double y, B, mu; };                 // y: p (PVTO lines, PVDx) or Rv (PVTG lines)
struct Nd { double x; Pt pts[3]; };             // x: Rs (PVTO) or p (PVTG); pts[0] = saturated
struct LiveSet { Nd n[4]; };
const LiveSet OILSETS[4] = {
    {{{10, {{20, 1.10, 1.5}, {60, 1.08, 1.7}, {120, 1.06, 1.9}}},
      {40, {{80, 1.25, 1.1}, {150, 1.22, 1.2}, {250, 1.20, 1.35}}},
      {90, {{200, 1.45, 0.8}, {300, 1.40, 0.9}, {400, 1.37, 1.0}}},
      {150, {{310, 1.62, 0.6}, {420, 1.57, 0.66}, {560, 1.53, 0.75}}}}},
    {{{0.5, {{1.5, 1.02, 3.2}, {40, 1.011, 3.5}, {95, 1.0, 4.1}}},
      {61.3, {{110.7, 1.19, 0.93}, {163.3, 1.17, 1.01}, {301, 1.135, 1.2}}},
      {133.7, {{251.9, 1.41, 0.47}, {277, 1.402, 0.49}, {500, 1.33, 0.61}}},
      {171.1, {{333.3, 1.53, 0.38}, {450.5, 1.49, 0.43}, {700, 1.43, 0.55}}}}},
    {{{25, {{50, 1.15, 2.0}, {51, 1.1499, 2.001}, {300, 1.09, 2.9}}},
      {26, {{55, 1.16, 1.95}, {200, 1.12, 2.3}, {201, 1.1199, 2.31}}},
      {120, {{180, 1.5, 0.7}, {181, 1.4995, 0.701}, {182, 1.499, 0.702}}},
      {300, {{400, 2.1, 0.3}, {800, 1.9, 0.4}, {1600, 1.7, 0.6}}}}},
    // D: saturated nodes very unevenly spaced in p, Rs(p) strongly concave (steep first interval, long flat ones):
    // the tabulated initial guess of saturationPressure lands in a flat interval and the first Newton step
    // overshoots below 0 Pa for every Rs of the steep interval (needs >= 3 saturated nodes to show).
    {{{10, {{10, 1.05, 1.2}, {60, 1.04, 1.3}, {120, 1.03, 1.4}}},
      {100, {{20, 1.30, 0.8}, {100, 1.28, 0.85}, {200, 1.26, 0.9}}},
      {110, {{300, 1.33, 0.75}, {400, 1.31, 0.80}, {500, 1.29, 0.85}}},
      {111, {{900, 1.335, 0.74}, {1000, 1.33, 0.75}, {1200, 1.32, 0.77}}}}}};
const LiveSet GASSETS[4] = {
    {{{20, {{0.0002, 0.06, 0.012}, {0.0001, 0.0605, 0.0115}, {0, 0.061, 0.011}}},
      {100, {{0.0004, 0.025, 0.016}, {0.0002, 0.0253, 0.0155}, {0, 0.0256, 0.015}}},
      {300, {{0.0009, 0.012, 0.025}, {0.0003, 0.0123, 0.022}, {0, 0.0125, 0.020}}},
      {500, {{0.0015, 0.008, 0.034}, {0.0007, 0.0083, 0.029}, {0, 0.0086, 0.025}}}}},
    {{{35.5, {{0.00013, 0.0331, 0.0141}, {0.00007, 0.0333, 0.0139}, {0.00001, 0.0336, 0.0136}}},
      {120.25, {{0.00051, 0.0102, 0.0178}, {0.00033, 0.01031, 0.0171}, {0.00002, 0.0105, 0.016}}},
      {277, {{0.00122, 0.00467, 0.0263}, {0.0006, 0.00475, 0.0241}, {0.00005, 0.00484, 0.0219}}},
      {410.1, {{0.00201, 0.00335, 0.0345}, {0.00111, 0.00342, 0.0307}, {0.0003, 0.0035, 0.027}}}}},
    {{{10, {{0.001, 0.1, 0.01}, {0.000999, 0.1001, 0.00999}, {0.0005, 0.104, 0.0095}}},
      {11, {{0.00101, 0.092, 0.0101}, {0.0002, 0.095, 0.0093}, {0.00019, 0.09505, 0.00929}}},
      {200, {{0.003, 0.02, 0.02}, {0.0029, 0.0201, 0.0199}, {0.0028, 0.0202, 0.0198}}},
      {600, {{0.009, 0.0075, 0.05}, {0.004, 0.0079, 0.04}, {0, 0.0085, 0.03}}}}},
    // D: the Rv(p) analogue of oil set D (WetGasPvt::saturationPressure)
    {{{10, {{0.0001, 0.1, 0.011}, {0.00005, 0.1005, 0.0108}, {0, 0.101, 0.0105}}},
      {20, {{0.001, 0.05, 0.013}, {0.0005, 0.0505, 0.0125}, {0, 0.051, 0.012}}},
      {300, {{0.0011, 0.0035, 0.03}, {0.0004, 0.0036, 0.026}, {0, 0.0037, 0.022}}},
      {900, {{0.00111, 0.0015, 0.06}, {0.0006, 0.00155, 0.05}, {0, 0.0016, 0.04}}}}}};
struct DeadSet { Pt r[6]; };                    // y = p
const DeadSet PVDOSETS[4] = {
    {{{20, 1.10, 1.0}, {80, 1.09, 1.05}, {150, 1.08, 1.1}, {250, 1.07, 1.2}, {400, 1.05, 1.35}, {600, 1.03, 1.5}}},
    {{{1.5, 1.31, 0.41}, {33.3, 1.295, 0.43}, {34.1, 1.2949, 0.4301}, {210.7, 1.22, 0.55}, {398, 1.17, 0.71}, {811, 1.09, 1.3}}},
    {{{100, 1.5, 2.0}, {101, 1.4, 2.0}, {300, 1.2, 5.0}, {301, 1.19, 5.1}, {302, 1.18, 5.2}, {1000, 1.0, 9.0}}},
    {{{5, 1.6, 0.3}, {7, 1.55, 0.31}, {400, 1.3, 0.6}, {405, 1.299, 0.61}, {900, 1.2, 1.1}, {1500, 1.15, 2.0}}}};   // D: only used by the region-defaulting regime
const DeadSet PVDGSETS[4] = {
    {{{20, 0.06, 0.012}, {60, 0.02, 0.013}, {100, 0.012, 0.016}, {200, 0.006, 0.02}, {300, 0.004, 0.025}, {500, 0.0025, 0.033}}},
    {{{14.7, 0.21, 0.0107}, {45.5, 0.0701, 0.0111}, {46, 0.0693, 0.01111}, {133.3, 0.0231, 0.0134}, {290, 0.0107, 0.0188}, {612, 0.0059, 0.0301}}},
    {{{50, 0.03, 0.015}, {51, 0.0295, 0.015}, {250, 0.0061, 0.021}, {251, 0.00608, 0.0211}, {252, 0.00606, 0.0212}, {900, 0.0021, 0.04}}},
    {{{30, 0.04, 0.011}, {90, 0.0125, 0.0125}, {91, 0.01236, 0.01252}, {180, 0.0061, 0.0152}, {420, 0.0027, 0.0242}, {700, 0.0018, 0.036}}}};   // D: region-defaulting regime
struct CCSet { double pref, B, C, mu, Cv; };
const CCSet PVTWSETS[4] = {{200, 1.02, 4.5e-5, 0.5, 1.0e-5}, {14.7, 1.0041, 3.1e-6, 0.31, 0.0}, {1, 1.1, 1.0e-3, 1.1, 2.0e-3}, {100, 1.035, 5.0e-5, 0.4, 2.0e-5}};
const CCSet PVCDOSETS[4] = {{200, 1.25, 1.2e-4, 1.1, 3.0e-5}, {14.7, 1.05, 8.0e-6, 2.3, 0.0}, {50, 1.5, 1.0e-3, 0.9, 5.0e-4}, {120, 1.3, 2.0e-4, 1.7, 1.0e-4}};
const double DENS[4][3] = {{850, 1000, 0.9}, {790.5, 1033, 1.12}, {910, 1100, 0.7}, {859.5, 1033, 0.854}};   // oil water gas (deck numbers)

// ----------------------------------------------------------- case ---------
struct RSpec { int set = 0; std::vector<int> k; bool dflt = false; };   // live: k per saturated node; dead: {n}; cc: {}; dflt: the region's table is defaulted in the deck (a lone '/'): it is the nearest preceding real table
RSpec mk(int set, const std::vector<int>& k) { RSpec r; r.set = set; r.k = k; return r; }
RSpec mkdflt() { RSpec r; r.dflt = true; return r; }
struct Fam { std::string kw; std::vector<RSpec> regs; };
struct Case { int unit = 0; Fam oil, gas, wat; int nt = 3; };  // nt: number of interior fractions per segment (3: quarters, 7: eighths)

std::string fam_str(const Fam& f) {
    std::string s = f.kw + ":";
    for (size_t r = 0; r < f.regs.size(); ++r) { if (r) s += ","; if (f.regs[r].dflt) { s += "-"; continue; } s += char('A' + f.regs[r].set); for (int k : f.regs[r].k) s += std::to_string(k); }
    return s;
}
std::string case_str(const Case& c) { return std::string("u=") + UNITS[c.unit].name + ";oil=" + fam_str(c.oil) + ";gas=" + fam_str(c.gas) + ";wat=" + fam_str(c.wat) + ";nt=" + std::to_string(c.nt); }
Fam parse_fam(const std::string& s) {
    Fam f; size_t c = s.find(':'); if (c == std::string::npos) throw std::runtime_error("bad family " + s);
    f.kw = s.substr(0, c);
    RSpec cur; bool have = false;
    for (size_t i = c + 1; i <= s.size(); ++i) {
        char ch = i < s.size() ? s[i] : ',';
        if (ch == ',') { if (have) f.regs.push_back(cur); cur = RSpec(); have = false; }
        else if (ch >= 'A' && ch <= 'D') { cur.set = ch - 'A'; have = true; }
        else if (ch == '-') { cur.dflt = true; have = true; }
        else if (ch >= '1' && ch <= '9') cur.k.push_back(ch - '0');
        else throw std::runtime_error("bad family " + s);
    }
    return f;
}
Case parse_case(const std::string& s) {
    Case c; size_t p = 0;
    while (p < s.size()) {
        size_t e = s.find(';', p); if (e == std::string::npos) e = s.size();
        std::string kv = s.substr(p, e - p); p = e + 1;
        size_t q = kv.find('='); if (q == std::string::npos) continue;
        std::string k = kv.substr(0, q), v = kv.substr(q + 1);
        if (k == "u") c.unit = unit_index(v); else if (k == "oil") c.oil = parse_fam(v); else if (k == "gas") c.gas = parse_fam(v);
        else if (k == "wat") c.wat = parse_fam(v); else if (k == "nt") c.nt = std::atoi(v.c_str());
    }
    if (c.oil.regs.empty() || c.oil.regs.size() != c.gas.regs.size() || c.oil.regs.size() != c.wat.regs.size()) throw std::runtime_error("bad case " + s);
    return c;
}

std::string N(double v) { return vf::fmt17(v); }
// the table a region uses: its own, or (defaulted) the nearest preceding real one -- the reference semantics of region defaulting
const RSpec& resolve(const Fam& f, size_t r) { while (r > 0 && f.regs[r].dflt) --r; if (f.regs[r].dflt) throw std::runtime_error("region 1 cannot be defaulted"); return f.regs[r]; }

void live_text(std::ostream& o, const Fam& f, const LiveSet* sets) {
    o << f.kw << "\n";
    for (auto& r : f.regs) {
        if (r.dflt) { o << "/\n"; continue; }          // defaulted region: empty table
        for (size_t i = 0; i < r.k.size(); ++i) {
            const Nd& nd = sets[r.set].n[i];
            o << " " << N(nd.x);
            for (int j = 0; j < r.k[i]; ++j) o << (j ? "     " : " ") << N(nd.pts[j].y) << " " << N(nd.pts[j].B) << " " << N(nd.pts[j].mu) << (j + 1 < r.k[i] ? "\n" : " /\n");
        }
        o << "/\n";
    }
}
void dead_text(std::ostream& o, const Fam& f, const DeadSet* sets) {
    o << f.kw << "\n";
    for (auto& r : f.regs) { if (r.dflt) { o << " /\n"; continue; } for (int j = 0; j < r.k[0]; ++j) { const Pt& p = sets[r.set].r[j]; o << " " << N(p.y) << " " << N(p.B) << " " << N(p.mu) << (j + 1 < r.k[0] ? "\n" : " /\n"); } }
}
void cc_text(std::ostream& o, const Fam& f, const CCSet* sets) {
    o << f.kw << "\n";
    for (auto& r : f.regs) { if (r.dflt) { o << " /\n"; continue; } const CCSet& s = sets[r.set]; o << " " << N(s.pref) << " " << N(s.B) << " " << N(s.C) << " " << N(s.mu) << " " << N(s.Cv) << " /\n"; }
}
std::string deck_text(const Case& c) {
    std::ostringstream o;
    const size_t nreg = c.oil.regs.size();
    o << "RUNSPEC\nDIMENS\n 1 1 1 /\nOIL\nGAS\nWATER\n";
    if (c.oil.kw == "PVTO") o << "DISGAS\n";
    if (c.gas.kw == "PVTG") o << "VAPOIL\n";
    o << UNITS[c.unit].kw << "\nTABDIMS\n 1 " << nreg << " /\nGRID\nDX\n 100 /\nDY\n 100 /\nDZ\n 10 /\nTOPS\n 1000 /\nPORO\n 0.3 /\nPERMX\n 100 /\nPERMY\n 100 /\nPERMZ\n 100 /\nPROPS\nDENSITY\n";
    for (size_t r = 0; r < nreg; ++r) { const double* d = DENS[resolve(c.oil, r).set]; o << " " << N(d[0]) << " " << N(d[1]) << " " << N(d[2]) << " /\n"; }
    cc_text(o, c.wat, PVTWSETS);
    if (c.oil.kw == "PVTO") live_text(o, c.oil, OILSETS); else if (c.oil.kw == "PVDO") dead_text(o, c.oil, PVDOSETS); else cc_text(o, c.oil, PVCDOSETS);
    if (c.gas.kw == "PVTG") live_text(o, c.gas, GASSETS); else dead_text(o, c.gas, PVDGSETS);
    o << "SCHEDULE\nEND\n";
    return o.str();
}

// ------------------------------------------------- reference (SI) model ---
struct LPt { double p, R, B, mu; };
struct LNode { std::vector<LPt> pts; };         // pts[0] saturated
struct LiveRef { bool oil; std::vector<LNode> nodes; };
LiveRef live_ref(bool oil, const RSpec& r, const Units& u) {
    LiveRef L; L.oil = oil;
    const LiveSet& s = (oil ? OILSETS : GASSETS)[r.set];
    for (size_t i = 0; i < r.k.size(); ++i) {
        LNode n;
        for (int j = 0; j < r.k[i]; ++j) {
            const Pt& q = s.n[i].pts[j];
            if (oil) n.pts.push_back({q.y * u.p, s.n[i].x * u.rs, q.B, q.mu * u.mu});
            else n.pts.push_back({s.n[i].x * u.p, q.y * u.rv, q.B * u.bg, q.mu * u.mu});
        }
        L.nodes.push_back(n);
    }
    return L;
}
struct DeadRef { std::vector<LPt> rows; };
DeadRef dead_ref(bool oil, const RSpec& r, const Units& u) {
    DeadRef D; const DeadSet& s = (oil ? PVDOSETS : PVDGSETS)[r.set];
    for (int j = 0; j < r.k[0]; ++j) D.rows.push_back({s.r[j].y * u.p, 0.0, s.r[j].B * (oil ? 1.0 : u.bg), s.r[j].mu * u.mu});
    return D;
}
struct CCRef { double pref, B, C, mu, Cv; };
CCRef cc_ref(bool oil, const RSpec& r, const Units& u) { const CCSet& s = (oil ? PVCDOSETS : PVTWSETS)[r.set]; return {s.pref * u.p, s.B, s.C / u.p, s.mu * u.mu, s.Cv / u.p}; }

// --------------------------------------------------------- views ----------
const double TEMP = 311.15;
template <class M> struct OilView {
    const M& m; unsigned r;
    template <class E> E invB(const E& T, const E& p, const E& R) const { return m.inverseFormationVolumeFactor(r, T, p, R); }
    template <class E> E mu(const E& T, const E& p, const E& R) const { return m.viscosity(r, T, p, R); }
    template <class E> E satInvB(const E& T, const E& p) const { return m.saturatedInverseFormationVolumeFactor(r, T, p); }
    template <class E> E satMu(const E& T, const E& p) const { return m.saturatedViscosity(r, T, p); }
    template <class E> E satR(const E& T, const E& p) const { return m.saturatedGasDissolutionFactor(r, T, p); }
    template <class E> E psat(const E& T, const E& R) const { return m.saturationPressure(r, T, R); }
};
template <class M> struct GasView {
    const M& m; unsigned r;
    template <class E> E invB(const E& T, const E& p, const E& R) const { return m.inverseFormationVolumeFactor(r, T, p, R, E(0.0)); }
    template <class E> E mu(const E& T, const E& p, const E& R) const { return m.viscosity(r, T, p, R, E(0.0)); }
    template <class E> E satInvB(const E& T, const E& p) const { return m.saturatedInverseFormationVolumeFactor(r, T, p); }
    template <class E> E satMu(const E& T, const E& p) const { return m.saturatedViscosity(r, T, p); }
    template <class E> E satR(const E& T, const E& p) const { return m.saturatedOilVaporizationFactor(r, T, p); }
    template <class E> E psat(const E& T, const E& R) const { return m.saturationPressure(r, T, R); }
};
template <class M> struct WatView {   // (T, p, salt); Rsw = 0
    const M& m; unsigned r;
    template <class E> E invB(const E& T, const E& p, const E& S) const { return m.inverseFormationVolumeFactor(r, T, p, E(0.0), S); }
    template <class E> E mu(const E& T, const E& p, const E& S) const { return m.viscosity(r, T, p, E(0.0), S); }
    template <class E> E satInvB(const E& T, const E& p) const { return m.saturatedInverseFormationVolumeFactor(r, T, p, E(0.0)); }
    template <class E> E satMu(const E& T, const E& p) const { return m.saturatedViscosity(r, T, p, E(0.0)); }
};

// ---------------------------------------------------------- sink ----------
struct Sink {
    vf::Run* R = nullptr;            // null: collect only (METRIC twin)
    std::string cs, unit, tab;
    int reg = 0;
    bool dflt = false;               // the region under check is defaulted in the deck
    int src = 0;                     // ... and this is the region whose table it must equal
    std::map<std::pair<std::string, int>, std::set<std::string>> rk;   // (table, region) -> base keys raised there
    std::set<std::string> keys;      // base keys raised (collect mode and main mode)
    std::function<const std::set<std::string>&()> twin;   // lazily: node keys of the METRIC twin of this case
    uint64_t h = 1469598103934665603ull;                  // observation hash
    void obs(double v) { h = vf::fnv(&v, sizeof v, h); }
    void cnt(const char* k, long long n = 1) { if (R) R->count(k, n); }
    // kind: node|bracket|continuity|continuity:midnode|satpressure|derivative|range|throws
    void viol(const std::string& quantity, const std::string& kind, const std::string& what) {
        std::string key = "C14:" + tab + ":" + quantity + ":" + kind;
        rk[{tab, reg}].insert(key);
        // a failure of a defaulted region that its source region (same table, given explicitly) does not show is a defect of region defaulting
        const bool dspecific = dflt && !rk[{tab, src}].count(key);
        if (dspecific) key += ":defaulted-region";
        keys.insert(key);
        if (!R) return;
        // a node mismatch that the METRIC twin (same deck numbers) does not show is a unit-conversion defect of this system
        if (kind == "node" && !dspecific && unit != "METRIC" && twin && !twin().count(key)) key += ":" + unit;
        R->violation(key, tab + " region " + std::to_string(reg + 1) + (dflt ? " (defaulted: must equal region " + std::to_string(src + 1) + "'s table)" : "") + " [" + unit + "] " + quantity + " " + kind + ": " + what, "{\"case\": " + vf::jstr(cs) + "}");
    }
};

bool releq(double got, double want, double rel) { return std::isfinite(got) && std::fabs(got - want) <= rel * std::max(std::fabs(want), std::fabs(got)); }
bool inbr(double got, double a, double b) { double lo = std::min(a, b), hi = std::max(a, b), t = 1e-12 * std::max(std::fabs(lo), std::fabs(hi)); return std::isfinite(got) && got >= lo - t && got <= hi + t; }
std::string gw(double got, double want) { return "got " + N(got) + " want " + N(want); }
std::string at(double p, double R) { return " at p=" + N(p) + " R=" + N(R); }
double lerp(double a, double b, double t) { return a + (b - a) * t; }

// AD derivative vs. central difference of the returned function.
//   g: double -> double (the function restricted to the variable), x: point, ad: AD derivative, f0: value.
// Returns 0 ok, 1 skipped (kink at every h), 2 mismatch.
template <class G> int fd_check(G&& g, double x, double xscale, double ad, std::string& why) {
    const double f0 = g(x);
    const double xs = std::max(std::fabs(x), xscale);
    bool all_kink = true;
    for (double hr : {1e-4, 1e-5, 1e-6, 1e-7}) {
        const double h = hr * xs;
        const double fp = g(x + h), fm = g(x - h);
        const double L = (f0 - fm) / h, Rr = (fp - f0) / h, C = (fp - fm) / (2 * h);
        const double noise = 64 * 2.2e-16 * std::max(std::fabs(f0), std::max(std::fabs(fp), std::fabs(fm))) / h;
        const bool kink = std::fabs(L - Rr) > 1e-3 * std::max(std::fabs(L), std::fabs(Rr)) + 4 * noise;
        if (kink) continue;
        all_kink = false;
        if (std::isfinite(ad) && std::fabs(ad - C) <= 1e-5 * std::max(std::fabs(ad), std::fabs(C)) + 2 * noise) return 0;
        why = "AD " + N(ad) + " central difference " + N(C) + " (h=" + N(h) + ")";
    }
    if (all_kink) return 1;
    return 2;
}

using E2 = Opm::DenseAd::Evaluation<double, 2>;
using E3 = Opm::DenseAd::Evaluation<double, 3>;

// f(T, p): derivative check with Evaluation<double,2>
template <class F> void deriv2(Sink& S, const std::string& q, F&& f, double p, double pscale) {
    E2 r;
    try { r = f(E2::createVariable(TEMP, 0), E2::createVariable(p, 1)); }
    catch (const std::exception& e) { S.viol(q, "throws", std::string("Evaluation<double,2> call threw: ") + e.what() + " at x=" + N(p)); return; }
    const double v = f(TEMP, p);
    if (!releq(r.value(), v, 1e-10) && !(r.value() == v)) S.viol(q, "derivative:value", "Evaluation value differs from double value " + gw(r.value(), v) + " at x=" + N(p));
    std::string why;
    int a = fd_check([&](double x) { return f(x, p); }, TEMP, 1.0, r.derivative(0), why);
    if (a == 2) S.viol(q, "derivative", "d/dT " + why + " at x=" + N(p));
    int b = fd_check([&](double x) { return f(TEMP, x); }, p, pscale, r.derivative(1), why);
    if (b == 2) S.viol(q, "derivative", "d/dx " + why + " at x=" + N(p));
    S.cnt("derivative_checked", (a == 0) + (b == 0)); S.cnt("derivative_skipped_kink", (a == 1) + (b == 1));
    S.obs(r.derivative(1));
}
// f(T, p, R): derivative check with Evaluation<double,3>
template <class F> void deriv3(Sink& S, const std::string& q, F&& f, double p, double R, double pscale, double Rscale) {
    E3 r;
    try { r = f(E3::createVariable(TEMP, 0), E3::createVariable(p, 1), E3::createVariable(R, 2)); }
    catch (const std::exception& e) { S.viol(q, "throws", std::string("Evaluation<double,3> call threw: ") + e.what() + at(p, R)); return; }
    const double v = f(TEMP, p, R);
    if (!releq(r.value(), v, 1e-10) && !(r.value() == v)) S.viol(q, "derivative:value", "Evaluation value differs from double value " + gw(r.value(), v) + at(p, R));
    std::string why;
    int a = fd_check([&](double x) { return f(x, p, R); }, TEMP, 1.0, r.derivative(0), why);
    if (a == 2) S.viol(q, "derivative", "d/dT " + why + at(p, R));
    int b = fd_check([&](double x) { return f(TEMP, x, R); }, p, pscale, r.derivative(1), why);
    if (b == 2) S.viol(q, "derivative", "d/dp " + why + at(p, R));
    int c = fd_check([&](double x) { return f(TEMP, p, x); }, R, Rscale, r.derivative(2), why);
    if (c == 2) S.viol(q, "derivative", "d/dR " + why + at(p, R));
    S.cnt("derivative_checked", (a == 0) + (b == 0) + (c == 0)); S.cnt("derivative_skipped_kink", (a == 1) + (b == 1) + (c == 1));
    S.obs(r.derivative(1)); S.obs(r.derivative(2));
}
// finite, and continuous at the boundary point xb when leaving the table towards dir (+1/-1)
template <class G> void range1(Sink& S, const std::string& q, G&& g, double xb, double xout, const std::string& where) {
    const double fb = g(xb), fo = g(xout);
    const double e = 1e-9 * std::fabs(xb) * (xout > xb ? 1 : -1);
    const double fe = g(xb + e);
    S.cnt("range_points");
    if (!std::isfinite(fo)) S.viol(q, "range", "not finite beyond the table (" + where + ") at " + N(xout) + ": " + N(fo));
    if (!std::isfinite(fe) || std::fabs(fe - fb) > 1e-6 * std::max(std::fabs(fb), std::fabs(fe))) S.viol(q, "range", "not continuous at the table boundary (" + where + ") " + N(xb) + ": inside " + N(fb) + " just outside " + N(fe));
    S.obs(fo);
}
std::vector<double> fractions(int nt) { std::vector<double> t; for (int i = 1; i <= nt; ++i) t.push_back(double(i) / (nt + 1)); return t; }

// (defined with the twin-entry-point oracles below)
bool same(double a, double b);
std::vector<std::pair<double, double>> dead_points(const DeadRef& D);
std::vector<double> cc_pressures(const CCRef& c);
void cc_closed(const CCRef& c, double p, double& invB, double& mu);

// ----------------------------------------------------- live (PVTO/PVTG) ---
template <class V> void check_live(Sink& S, const V& v, const LiveRef& L, int nt) {
    const std::string Rn = L.oil ? "Rs" : "Rv";
    const auto ts = fractions(nt);
    const size_t n = L.nodes.size();
    auto fB = [&](double p, double R) { return v.invB(TEMP, p, R); };
    auto fM = [&](double p, double R) { return v.mu(TEMP, p, R); };
    auto sB = [&](double p) { return v.satInvB(TEMP, p); };
    auto sM = [&](double p) { return v.satMu(TEMP, p); };
    auto sR = [&](double p) { return v.satR(TEMP, p); };
    // N1/N2: node reproduction
    for (size_t i = 0; i < n; ++i) {
        const auto& P = L.nodes[i].pts;
        for (size_t j = 0; j < P.size(); ++j) {
            const double b = fB(P[j].p, P[j].R), m = fM(P[j].p, P[j].R);
            S.obs(b); S.obs(m); S.cnt("node_values", 2);
            if (!releq(b, 1.0 / P[j].B, 1e-9)) S.viol("B", "node", "1/B " + gw(b, 1.0 / P[j].B) + " at node " + std::to_string(i) + "/" + std::to_string(j) + at(P[j].p, P[j].R));
            if (!releq(m, P[j].mu, 1e-9)) S.viol("mu", "node", gw(m, P[j].mu) + " at node " + std::to_string(i) + "/" + std::to_string(j) + at(P[j].p, P[j].R));
        }
        const double b = sB(P[0].p), m = sM(P[0].p), r = sR(P[0].p);
        S.obs(b); S.obs(m); S.obs(r); S.cnt("node_values", 3);
        if (!releq(b, 1.0 / P[0].B, 1e-9)) S.viol("Bsat", "node", "1/B " + gw(b, 1.0 / P[0].B) + " at saturated node " + std::to_string(i) + " p=" + N(P[0].p));
        if (!releq(m, P[0].mu, 1e-9)) S.viol("musat", "node", gw(m, P[0].mu) + " at saturated node " + std::to_string(i) + " p=" + N(P[0].p));
        if (!releq(r, P[0].R, 1e-9)) S.viol(Rn, "node", gw(r, P[0].R) + " at saturated node " + std::to_string(i) + " p=" + N(P[0].p));
        // continuity at the node
        const double ub = fB(P[0].p, P[0].R), um = fM(P[0].p, P[0].R);
        S.cnt("continuity_points", 2);
        if (!releq(ub, b, 1e-12)) S.viol("B", "continuity", "undersaturated 1/B " + N(ub) + " != saturated " + N(b) + " at saturated node " + std::to_string(i));
        if (!releq(um, m, 1e-12)) S.viol("mu", "continuity", "undersaturated mu " + N(um) + " != saturated " + N(m) + " at saturated node " + std::to_string(i));
        // saturation pressure at the node
        try {
            const double ps = v.psat(TEMP, P[0].R);
            S.obs(ps); S.cnt("satpressure_points");
            if (!releq(ps, P[0].p, 1e-7)) S.viol("psat", "satpressure", "saturationPressure(" + Rn + " node " + std::to_string(i) + ") " + gw(ps, P[0].p));
        } catch (const std::exception& e) { S.viol("psat", "throws", std::string("saturationPressure threw at a node: ") + e.what()); }
    }
    // N3: saturated curve between nodes; N5b: continuity between nodes; N6: satpressure between nodes
    for (size_t i = 0; i + 1 < n; ++i) {
        const LPt &a = L.nodes[i].pts[0], &b = L.nodes[i + 1].pts[0];
        for (double t : ts) {
            const double p = lerp(a.p, b.p, t);
            const double vb = sB(p), vm = sM(p), vr = sR(p);
            S.obs(vb); S.obs(vm); S.obs(vr); S.cnt("bracket_points", 3);
            if (!inbr(vb, 1.0 / a.B, 1.0 / b.B)) S.viol("Bsat", "bracket", "1/B " + N(vb) + " outside [" + N(1.0 / a.B) + "," + N(1.0 / b.B) + "] at p=" + N(p));
            if (!inbr(vm, a.mu, b.mu)) S.viol("musat", "bracket", N(vm) + " outside [" + N(a.mu) + "," + N(b.mu) + "] at p=" + N(p));
            if (!inbr(vr, a.R, b.R)) S.viol(Rn, "bracket", N(vr) + " outside [" + N(a.R) + "," + N(b.R) + "] at p=" + N(p));
            const double ub = fB(p, vr), um = fM(p, vr);
            S.obs(ub); S.obs(um); S.cnt("continuity_points", 2);
            if (!releq(ub, vb, 1e-9)) S.viol("B", "continuity:midnode", "undersaturated 1/B(p, " + Rn + "sat(p)) = " + N(ub) + " != saturated 1/B(p) = " + N(vb) + " between saturated nodes " + std::to_string(i) + "," + std::to_string(i + 1) + at(p, vr) + " rel " + N((ub - vb) / vb));
            if (!releq(um, vm, 1e-9)) S.viol("mu", "continuity:midnode", "undersaturated mu(p, " + Rn + "sat(p)) = " + N(um) + " != saturated mu(p) = " + N(vm) + " between saturated nodes " + std::to_string(i) + "," + std::to_string(i + 1) + at(p, vr) + " rel " + N((um - vm) / vm));
        }
        // N6: saturationPressure(Rsat(p)) = p on the 16ths of every saturated interval (both tiers)
        for (int k = 1; k < 16; ++k) {
            const double p = lerp(a.p, b.p, k / 16.0), vr = sR(p);
            try {
                const double ps = v.psat(TEMP, vr);
                S.obs(ps); S.cnt("satpressure_points");
                if (!releq(ps, p, 1e-7)) S.viol("psat", "satpressure", "saturationPressure(" + Rn + "sat(p)) " + gw(ps, p) + " (" + Rn + "=" + N(vr) + ", " + std::to_string(k) + "/16 between saturated nodes " + std::to_string(i) + "," + std::to_string(i + 1) + ")");
            } catch (const std::exception& e) { S.viol("psat", "throws", std::string("saturationPressure threw between nodes: ") + e.what()); }
        }
    }
    // N6b: inversion just beyond the tabulated Rs/Rv range (extrapolated saturated relation)
    if (n >= 2) {
        const LPt &a0 = L.nodes[0].pts[0], &a1 = L.nodes[1].pts[0], &z0 = L.nodes[n - 2].pts[0], &z1 = L.nodes[n - 1].pts[0];
        for (int side = 0; side < 2; ++side) {
            const double R = side ? a0.R - 0.25 * (a1.R - a0.R) : z1.R + 0.25 * (z1.R - z0.R);
            const double pexp = side ? a0.p - 0.25 * (a1.p - a0.p) : z1.p + 0.25 * (z1.p - z0.p);   // root of the extrapolated reference relation
            if (!(R > 0) || !(pexp > 0.1 * a0.p)) { S.cnt("satpressure_below_range_skipped_nonpositive_root"); continue; }   // roots at p <= 0 are outside the statement (the implementation clips at 0 Pa)
            try {
                const double ps = v.psat(TEMP, R);
                const double back = sR(ps);
                S.obs(ps); S.cnt("satpressure_points");
                if (!releq(back, R, 1e-7)) S.viol("psat", "satpressure", Rn + "sat(saturationPressure(R)) " + gw(back, R) + " beyond the tabulated range (psat=" + N(ps) + ")");
            } catch (const std::exception& e) { S.viol("psat", "throws", std::string("saturationPressure threw beyond the range: ") + e.what()); }
        }
    }
    // N4: along undersaturated lines at tabulated nodes (only between *given* points)
    for (size_t i = 0; i < n; ++i) {
        const auto& P = L.nodes[i].pts;
        if (P.size() < 2) {
            // Single-point node: the statement does not determine the undersaturated line.  The implementation
            // documents (LiveOilPvt/WetGasPvt::extendPvt?Table_: "exhibits the same compressibility / viscosibility"
            // as the master = next node with >= 2 points) that the line is the master's, scaled: same offsets in
            // p (Rv), B_i0 * B_m,r / B_m,0 and mu_i0 * mu_m,r / mu_m,0.  Checked as a separate kind "extension"
            // (documented behaviour, beyond the property text); no bracket oracle between given nodes here.
            S.cnt("lines_single_point_not_bracketed");
            size_t m = i + 1; while (m < n && L.nodes[m].pts.size() < 2) ++m;
            if (m >= n) continue;
            const auto& Q = L.nodes[m].pts;
            LPt prev = P[0];
            for (size_t r = 1; r < Q.size(); ++r) {
                const LPt e = {P[0].p + (Q[r].p - Q[0].p), P[0].R + (Q[r].R - Q[0].R), P[0].B * Q[r].B / Q[0].B, P[0].mu * Q[r].mu / Q[0].mu};
                if (e.R < 0) break;
                const double b = fB(e.p, e.R), mm = fM(e.p, e.R);
                S.obs(b); S.obs(mm); S.cnt("extension_points", 2);
                if (!releq(b, 1.0 / e.B, 1e-9)) S.viol("B", "extension", "line of single-point node " + std::to_string(i) + " extended from master node " + std::to_string(m) + ": 1/B " + gw(b, 1.0 / e.B) + at(e.p, e.R));
                if (!releq(mm, e.mu, 1e-9)) S.viol("mu", "extension", "line of single-point node " + std::to_string(i) + " extended from master node " + std::to_string(m) + ": mu " + gw(mm, e.mu) + at(e.p, e.R));
                const double pm = lerp(prev.p, e.p, 0.5), Rm = lerp(prev.R, e.R, 0.5);
                if (!inbr(fB(pm, Rm), 1.0 / prev.B, 1.0 / e.B)) S.viol("B", "extension", "1/B outside the bracket of the extended points on the line of single-point node " + std::to_string(i) + at(pm, Rm));
                if (!inbr(fM(pm, Rm), prev.mu, e.mu)) S.viol("mu", "extension", "mu outside the bracket of the extended points on the line of single-point node " + std::to_string(i) + at(pm, Rm));
                prev = e;
            }
            continue;
        }
        for (size_t j = 0; j + 1 < P.size(); ++j)
            for (double t : ts) {
                const double p = lerp(P[j].p, P[j + 1].p, t), R = lerp(P[j].R, P[j + 1].R, t);
                const double b = fB(p, R), m = fM(p, R);
                S.obs(b); S.obs(m); S.cnt("bracket_points", 2);
                if (!inbr(b, 1.0 / P[j].B, 1.0 / P[j + 1].B)) S.viol("B", "bracket", "1/B " + N(b) + " outside [" + N(1.0 / P[j].B) + "," + N(1.0 / P[j + 1].B) + "] on the undersaturated line of node " + std::to_string(i) + at(p, R));
                if (!inbr(m, P[j].mu, P[j + 1].mu)) S.viol("mu", "bracket", N(m) + " outside [" + N(P[j].mu) + "," + N(P[j + 1].mu) + "] on the undersaturated line of node " + std::to_string(i) + at(p, R));
            }
    }
    // N7: beyond the table range
    {
        const LPt &a0 = L.nodes[0].pts[0], &a1 = L.nodes[1].pts[0], &z0 = L.nodes[n - 2].pts[0], &z1 = L.nodes[n - 1].pts[0];
        const double plo = a0.p - 0.1 * (a1.p - a0.p) > 0 ? a0.p - 0.1 * (a1.p - a0.p) : 0.5 * a0.p, phi = z1.p + 0.1 * (z1.p - z0.p);
        range1(S, "Bsat", sB, a0.p, plo, "saturated, below first p"); range1(S, "Bsat", sB, z1.p, phi, "saturated, above last p");
        range1(S, "musat", sM, a0.p, plo, "saturated, below first p"); range1(S, "musat", sM, z1.p, phi, "saturated, above last p");
        range1(S, Rn, sR, a0.p, plo, "saturated, below first p"); range1(S, Rn, sR, z1.p, phi, "saturated, above last p");
        // the 2D functions across the first/last saturated node (x direction), at a point on the given part of the outermost lines
        for (int side = 0; side < 2; ++side) {
            const auto& P = L.nodes[side ? n - 1 : 0].pts;
            const auto& Q = L.nodes[side ? n - 2 : 1].pts;
            if (P.size() < 2) continue;
            const double t = 0.5;
            const double p0 = lerp(P[0].p, P[1].p, t), R0 = lerp(P[0].R, P[1].R, t);
            const double dx = 0.1 * (L.oil ? (P[0].R - Q[0].R) : (P[0].p - Q[0].p));   // outward
            if (L.oil) {
                if (R0 + dx <= 0) continue;
                range1(S, "B", [&](double R) { return fB(p0, R); }, R0, R0 + dx, side ? "above last Rs" : "below first Rs");
                range1(S, "mu", [&](double R) { return fM(p0, R); }, R0, R0 + dx, side ? "above last Rs" : "below first Rs");
            } else {
                if (p0 + dx <= 0) continue;
                range1(S, "B", [&](double p) { return fB(p, R0); }, p0, p0 + dx, side ? "above last p" : "below first p");
                range1(S, "mu", [&](double p) { return fM(p, R0); }, p0, p0 + dx, side ? "above last p" : "below first p");
            }
        }
        // along every given line: past its last given point, and past the saturated point (over-saturated side)
        for (size_t i = 0; i < n; ++i) {
            const auto& P = L.nodes[i].pts;
            if (P.size() < 2) continue;
            const LPt &l1 = P[P.size() - 1], &l0 = P[P.size() - 2];
            const double e = 0.1;
            const LPt out = {l1.p + e * (l1.p - l0.p), l1.R + e * (l1.R - l0.R), 0, 0}, in = {P[0].p - e * (P[1].p - P[0].p), P[0].R - e * (P[1].R - P[0].R), 0, 0};
            if (L.oil) {
                range1(S, "B", [&](double p) { return fB(p, l1.R); }, l1.p, out.p, "line end"); range1(S, "mu", [&](double p) { return fM(p, l1.R); }, l1.p, out.p, "line end");
                if (in.p > 0) { range1(S, "B", [&](double p) { return fB(p, l1.R); }, P[0].p, in.p, "below psat"); range1(S, "mu", [&](double p) { return fM(p, l1.R); }, P[0].p, in.p, "below psat"); }
            } else {
                if (out.R >= 0 && l1.R > 0) { range1(S, "B", [&](double R) { return fB(l1.p, R); }, l1.R, out.R, "line end"); range1(S, "mu", [&](double R) { return fM(l1.p, R); }, l1.R, out.R, "line end"); }
                range1(S, "B", [&](double R) { return fB(l1.p, R); }, P[0].R, in.R, "above Rv,sat"); range1(S, "mu", [&](double R) { return fM(l1.p, R); }, P[0].R, in.R, "above Rv,sat");
            }
        }
    }
    // N8: derivatives
    {
        const double psc = L.nodes[0].pts[0].p, Rsc = L.nodes[n - 1].pts[0].R;
        for (size_t i = 0; i + 1 < n; ++i) {
            const LPt &a = L.nodes[i].pts[0], &b = L.nodes[i + 1].pts[0];
            const double p = lerp(a.p, b.p, 0.5), R = lerp(a.R, b.R, 0.5);
            deriv2(S, "Bsat", [&](auto T, auto x) { return v.satInvB(T, x); }, p, psc);
            deriv2(S, "musat", [&](auto T, auto x) { return v.satMu(T, x); }, p, psc);
            deriv2(S, Rn, [&](auto T, auto x) { return v.satR(T, x); }, p, psc);
            deriv2(S, "psat", [&](auto T, auto x) { return v.psat(T, x); }, R, Rsc);
            // strictly inside the undersaturated region of the cell between nodes i and i+1
            for (double off : {0.37, 1.41}) {
                double pp, RR;
                if (L.oil) { RR = R; pp = p + off * (b.p - a.p); } else { pp = p; RR = R * (off < 1 ? 0.63 : 0.29); }
                deriv3(S, "B", [&](auto T, auto x, auto y) { return v.invB(T, x, y); }, pp, RR, psc, Rsc);
                deriv3(S, "mu", [&](auto T, auto x, auto y) { return v.mu(T, x, y); }, pp, RR, psc, Rsc);
            }
        }
        for (size_t i = 0; i < n; ++i) {
            const auto& P = L.nodes[i].pts;
            for (size_t j = 0; j + 1 < P.size(); ++j) {
                const double p = lerp(P[j].p, P[j + 1].p, 0.5), R = lerp(P[j].R, P[j + 1].R, 0.5);
                if (!(R > 0)) continue;
                deriv3(S, "B", [&](auto T, auto x, auto y) { return v.invB(T, x, y); }, p, R, psc, Rsc);
                deriv3(S, "mu", [&](auto T, auto x, auto y) { return v.mu(T, x, y); }, p, R, psc, Rsc);
            }
        }
    }
}

// ----------------------------------------------------- dead (PVDO/PVDG) ---
template <class V> void check_dead(Sink& S, const V& v, const DeadRef& D, int nt) {
    const auto ts = fractions(nt);
    const size_t n = D.rows.size();
    const double Rdummy[2] = {0.0, 7.5e-3};
    auto fB = [&](double p) { return v.invB(TEMP, p, 0.0); };
    auto fM = [&](double p) { return v.mu(TEMP, p, 0.0); };
    for (size_t i = 0; i < n; ++i) {
        const LPt& a = D.rows[i];
        const double b = fB(a.p), m = fM(a.p);
        S.obs(b); S.obs(m); S.cnt("node_values", 2);
        if (!releq(b, 1.0 / a.B, 1e-9)) S.viol("B", "node", "1/B " + gw(b, 1.0 / a.B) + " at node " + std::to_string(i) + " p=" + N(a.p));
        if (!releq(m, a.mu, 1e-9)) S.viol("mu", "node", gw(m, a.mu) + " at node " + std::to_string(i) + " p=" + N(a.p));
        // "saturated" variants and any Rs/Rv argument give the same function (dead fluid)
        for (double R : Rdummy) {
            S.cnt("continuity_points", 2);
            if (!releq(v.invB(TEMP, a.p, R), v.satInvB(TEMP, a.p), 1e-12)) S.viol("B", "continuity", "1/B(p,R=" + N(R) + ") != saturated 1/B(p) at node " + std::to_string(i));
            if (!releq(v.mu(TEMP, a.p, R), v.satMu(TEMP, a.p), 1e-12)) S.viol("mu", "continuity", "mu(p,R=" + N(R) + ") != saturated mu(p) at node " + std::to_string(i));
        }
        const double r = v.satR(TEMP, a.p);
        if (r != 0.0) S.viol("R", "node", "dissolved/vaporised ratio of a dead fluid " + gw(r, 0.0));
    }
    for (size_t i = 0; i + 1 < n; ++i) {
        const LPt &a = D.rows[i], &b = D.rows[i + 1];
        for (double t : ts) {
            const double p = lerp(a.p, b.p, t);
            const double vb = fB(p), vm = fM(p);
            S.obs(vb); S.obs(vm); S.cnt("bracket_points", 2);
            if (!inbr(vb, 1.0 / a.B, 1.0 / b.B)) S.viol("B", "bracket", "1/B " + N(vb) + " outside [" + N(1.0 / a.B) + "," + N(1.0 / b.B) + "] at p=" + N(p));
            if (!inbr(vm, a.mu, b.mu)) S.viol("mu", "bracket", N(vm) + " outside [" + N(a.mu) + "," + N(b.mu) + "] at p=" + N(p));
            S.cnt("continuity_points", 2);
            if (!releq(v.satInvB(TEMP, p), vb, 1e-12)) S.viol("B", "continuity", "saturated 1/B(p) != 1/B(p,0) at p=" + N(p));
            if (!releq(v.satMu(TEMP, p), vm, 1e-12)) S.viol("mu", "continuity", "saturated mu(p) != mu(p,0) at p=" + N(p));
        }
        const double p = lerp(a.p, b.p, 0.5);
        deriv3(S, "B", [&](auto T, auto x, auto y) { return v.invB(T, x, y); }, p, 7.5e-3, D.rows[0].p, 1.0);
        deriv3(S, "mu", [&](auto T, auto x, auto y) { return v.mu(T, x, y); }, p, 7.5e-3, D.rows[0].p, 1.0);
        deriv2(S, "Bsat", [&](auto T, auto x) { return v.satInvB(T, x); }, p, D.rows[0].p);
        deriv2(S, "musat", [&](auto T, auto x) { return v.satMu(T, x); }, p, D.rows[0].p);
    }
    // twin entry points: a dead fluid has no dissolved component, saturated == undersaturated at every pressure and any Rs/Rv argument
    for (auto [p, R] : dead_points(D)) {
        S.cnt("twin_entry_points", 2);
        if (!same(v.satInvB(TEMP, p), v.invB(TEMP, p, R))) S.viol("Bsat", "twin", "saturatedInverseFormationVolumeFactor " + N(v.satInvB(TEMP, p)) + " != inverseFormationVolumeFactor " + N(v.invB(TEMP, p, R)) + at(p, R));
        if (!same(v.satMu(TEMP, p), v.mu(TEMP, p, R))) S.viol("musat", "twin", "saturatedViscosity " + N(v.satMu(TEMP, p)) + " != viscosity " + N(v.mu(TEMP, p, R)) + at(p, R));
    }
    const LPt &a0 = D.rows[0], &a1 = D.rows[1], &z0 = D.rows[n - 2], &z1 = D.rows[n - 1];
    const double plo = a0.p - 0.1 * (a1.p - a0.p) > 0 ? a0.p - 0.1 * (a1.p - a0.p) : 0.5 * a0.p, phi = z1.p + 0.1 * (z1.p - z0.p);
    range1(S, "B", fB, a0.p, plo, "below first p"); range1(S, "B", fB, z1.p, phi, "above last p");
    range1(S, "mu", fM, a0.p, plo, "below first p"); range1(S, "mu", fM, z1.p, phi, "above last p");
}

// ------------------------------------------- constant compressibility -----
template <class V> void check_cc(Sink& S, const V& v, const CCRef& c) {
    auto fB = [&](double p) { return v.invB(TEMP, p, 0.0); };
    auto fM = [&](double p) { return v.mu(TEMP, p, 0.0); };
    const double b = fB(c.pref), m = fM(c.pref);
    S.obs(b); S.obs(m); S.cnt("node_values", 4);
    if (!releq(b, 1.0 / c.B, 1e-9)) S.viol("B", "node", "1/B at the reference pressure " + gw(b, 1.0 / c.B));
    if (!releq(m, c.mu, 1e-9)) S.viol("mu", "node", "mu at the reference pressure " + gw(m, c.mu));
    // compressibility = (d(1/B)/dp)/(1/B), viscosibility = (dmu/dp)/mu at the reference pressure, from the returned function
    const double cmax = std::max(std::fabs(c.C), std::fabs(c.Cv));
    const double h = 1e-4 / cmax;
    const double C = (fB(c.pref + h) - fB(c.pref - h)) / (2 * h) / b, Cv = (fM(c.pref + h) - fM(c.pref - h)) / (2 * h) / m;
    S.obs(C); S.obs(Cv);
    if (!(std::fabs(C - c.C) <= 1e-6 * cmax)) S.viol("C", "node", "compressibility (slope of 1/B at pref) " + gw(C, c.C));
    if (!(std::fabs(Cv - c.Cv) <= 1e-6 * cmax)) S.viol("Cv", "node", "viscosibility (slope of mu at pref) " + gw(Cv, c.Cv));
    S.cnt("continuity_points", 2);
    if (!releq(v.satInvB(TEMP, c.pref), b, 1e-12)) S.viol("B", "continuity", "saturated 1/B(pref) != 1/B(pref)");
    if (!releq(v.satMu(TEMP, c.pref), m, 1e-12)) S.viol("mu", "continuity", "saturated mu(pref) != mu(pref)");
    // finite + continuous around pref and away from it (no table end: a record, not a table)
    for (double f : {0.5, 1.0, 3.0}) {
        const double p = c.pref * f;
        range1(S, "B", fB, p, p * 1.1, "around " + N(f) + " pref"); range1(S, "mu", fM, p, p * 0.9, "around " + N(f) + " pref");
    }
    for (double f : {0.5, 1.0, 1.5, 3.0}) {
        const double p = c.pref * f;
        deriv3(S, "B", [&](auto T, auto x, auto y) { return v.invB(T, x, y); }, p, 0.01, c.pref, 1.0);
        deriv3(S, "mu", [&](auto T, auto x, auto y) { return v.mu(T, x, y); }, p, 0.01, c.pref, 1.0);
        deriv2(S, "Bsat", [&](auto T, auto x) { return v.satInvB(T, x); }, p, c.pref);
        deriv2(S, "musat", [&](auto T, auto x) { return v.satMu(T, x); }, p, c.pref);
    }
    // twin entry points (no dissolved component: saturated == undersaturated at every pressure) and the closed form of the record
    for (double p : cc_pressures(c)) {
        double eb, em; cc_closed(c, p, eb, em);
        const double ub = fB(p), um = fM(p), sb = v.satInvB(TEMP, p), sm = v.satMu(TEMP, p);
        S.obs(ub); S.obs(um); S.obs(sb); S.obs(sm); S.cnt("twin_entry_points", 2); S.cnt("closedform_points", 4);
        if (!same(sb, ub)) S.viol("Bsat", "twin", "saturatedInverseFormationVolumeFactor " + N(sb) + " != inverseFormationVolumeFactor " + N(ub) + " at p=" + N(p) + " (pref=" + N(c.pref) + ")");
        if (!same(sm, um)) S.viol("musat", "twin", "saturatedViscosity " + N(sm) + " != viscosity " + N(um) + " at p=" + N(p) + " (pref=" + N(c.pref) + ")");
        if (!releq(ub, eb, 1e-11)) S.viol("B", "closedform", "1/B " + gw(ub, eb) + " at p=" + N(p) + " (pref=" + N(c.pref) + ")");
        if (!releq(um, em, 1e-11)) S.viol("mu", "closedform", "mu " + gw(um, em) + " at p=" + N(p) + " (pref=" + N(c.pref) + ")");
        if (!releq(sb, eb, 1e-11)) S.viol("Bsat", "closedform", "saturated 1/B " + gw(sb, eb) + " at p=" + N(p) + " (pref=" + N(c.pref) + ")");
        if (!releq(sm, em, 1e-11)) S.viol("musat", "closedform", "saturated mu " + gw(sm, em) + " at p=" + N(p) + " (pref=" + N(c.pref) + ")");
    }
}

// ------------------------------------------------------ twin entry points --
bool same(double a, double b) { return a == b || (std::isfinite(a) && std::isfinite(b) && std::fabs(a - b) <= 1e-13 * std::max(std::fabs(a), std::fabs(b))); }
bool same3(const E3& a, const E3& b) { return same(a.value(), b.value()) && same(a.derivative(0), b.derivative(0)) && same(a.derivative(1), b.derivative(1)) && same(a.derivative(2), b.derivative(2)); }
bool same2(const E2& a, const E2& b) { return same(a.value(), b.value()) && same(a.derivative(0), b.derivative(0)) && same(a.derivative(1), b.derivative(1)); }

// Multiplexer vs. the concrete PVT class it dispatches to: every public evaluation entry point, double and
// Evaluation arguments, returns the same number (1e-13).  With it every other oracle holds for both objects.
template <class VA, class VB> void check_class_twin(Sink& S, const VA& a, const VB& b, const std::vector<std::pair<double, double>>& pts) {
    for (auto [p, R] : pts) {
        S.cnt("twin_class_points", 8);
        if (!same(a.invB(TEMP, p, R), b.invB(TEMP, p, R))) S.viol("B", "twin:class", "multiplexer and concrete class disagree: " + gw(a.invB(TEMP, p, R), b.invB(TEMP, p, R)) + at(p, R));
        if (!same(a.mu(TEMP, p, R), b.mu(TEMP, p, R))) S.viol("mu", "twin:class", "multiplexer and concrete class disagree: " + gw(a.mu(TEMP, p, R), b.mu(TEMP, p, R)) + at(p, R));
        if (!same(a.satInvB(TEMP, p), b.satInvB(TEMP, p))) S.viol("Bsat", "twin:class", "multiplexer and concrete class disagree: " + gw(a.satInvB(TEMP, p), b.satInvB(TEMP, p)) + " at p=" + N(p));
        if (!same(a.satMu(TEMP, p), b.satMu(TEMP, p))) S.viol("musat", "twin:class", "multiplexer and concrete class disagree: " + gw(a.satMu(TEMP, p), b.satMu(TEMP, p)) + " at p=" + N(p));
        const E3 T3 = E3::createVariable(TEMP, 0), p3 = E3::createVariable(p, 1), R3 = E3::createVariable(R, 2);
        const E2 T2 = E2::createVariable(TEMP, 0), p2 = E2::createVariable(p, 1);
        if (!same3(a.invB(T3, p3, R3), b.invB(T3, p3, R3))) S.viol("B", "twin:class", "multiplexer and concrete class disagree for Evaluation arguments" + at(p, R));
        if (!same3(a.mu(T3, p3, R3), b.mu(T3, p3, R3))) S.viol("mu", "twin:class", "multiplexer and concrete class disagree for Evaluation arguments" + at(p, R));
        if (!same2(a.satInvB(T2, p2), b.satInvB(T2, p2))) S.viol("Bsat", "twin:class", "multiplexer and concrete class disagree for Evaluation arguments at p=" + N(p));
        if (!same2(a.satMu(T2, p2), b.satMu(T2, p2))) S.viol("musat", "twin:class", "multiplexer and concrete class disagree for Evaluation arguments at p=" + N(p));
    }
}
template <class VA, class VB> void check_class_twin_sat(Sink& S, const VA& a, const VB& b, const std::vector<std::pair<double, double>>& pts, const std::string& Rn) {
    for (auto [p, R] : pts) {
        S.cnt("twin_class_points", 2);
        if (!same(a.satR(TEMP, p), b.satR(TEMP, p))) S.viol(Rn, "twin:class", "multiplexer and concrete class disagree: " + gw(a.satR(TEMP, p), b.satR(TEMP, p)) + " at p=" + N(p));
        if (!(R > 0)) continue;
        double x = 0, y = 0; bool tx = false, ty = false;
        try { x = a.psat(TEMP, R); } catch (const std::exception&) { tx = true; }
        try { y = b.psat(TEMP, R); } catch (const std::exception&) { ty = true; }
        if (tx != ty || (!tx && !same(x, y))) S.viol("psat", "twin:class", "multiplexer and concrete class disagree on saturationPressure(" + N(R) + "): " + (tx ? "throws" : N(x)) + " vs " + (ty ? "throws" : N(y)));
    }
}
std::vector<std::pair<double, double>> live_points(const LiveRef& L) {
    std::vector<std::pair<double, double>> pts;
    const size_t n = L.nodes.size();
    for (auto& nd : L.nodes) for (auto& q : nd.pts) pts.push_back({q.p, q.R});
    for (size_t i = 0; i + 1 < n; ++i) { const LPt &a = L.nodes[i].pts[0], &b = L.nodes[i + 1].pts[0]; pts.push_back({lerp(a.p, b.p, 0.5), lerp(a.R, b.R, 0.5)}); pts.push_back(L.oil ? std::make_pair(lerp(a.p, b.p, 1.3), lerp(a.R, b.R, 0.4)) : std::make_pair(lerp(a.p, b.p, 0.4), 0.6 * lerp(a.R, b.R, 0.4))); }
    const LPt& z = L.nodes[n - 1].pts[0]; const LPt& f = L.nodes[0].pts[0];
    pts.push_back({1.1 * z.p, 1.1 * z.R}); pts.push_back({0.9 * f.p, 0.9 * f.R});
    return pts;
}
std::vector<std::pair<double, double>> dead_points(const DeadRef& D) {
    std::vector<std::pair<double, double>> pts;
    for (size_t i = 0; i < D.rows.size(); ++i) { pts.push_back({D.rows[i].p, 0.0}); if (i + 1 < D.rows.size()) pts.push_back({lerp(D.rows[i].p, D.rows[i + 1].p, 0.5), 7.5e-3}); }
    pts.push_back({0.5 * D.rows[0].p, 0.0}); pts.push_back({1.5 * D.rows.back().p, 7.5e-3});
    return pts;
}
// lattice of pressures for a constant-compressibility record: both sides of pref, and far beyond any usual range
// (|C (p - pref)| up to ~2; 1 + X + X^2/2 has no real root, so every pressure is regular)
std::vector<double> cc_pressures(const CCRef& c) {
    std::vector<double> ps;
    for (double f : {0.0, 0.1, 0.5, 0.9, 1.0, 1.1, 1.5, 2.0, 5.0, 20.0}) ps.push_back(c.pref * f);
    const double cmax = std::max(std::fabs(c.C), std::fabs(c.Cv));
    for (double x : {-2.0, -0.5, -0.05, 0.05, 0.5, 2.0}) { const double p = c.pref + x / cmax; if (p >= 0) ps.push_back(p); }
    return ps;
}
std::vector<std::pair<double, double>> cc_points(const CCRef& c) { std::vector<std::pair<double, double>> pts; for (double p : cc_pressures(c)) pts.push_back({p, 0.01}); return pts; }
// closed form of the record (ECLIPSE PVTW/PVCDO): B(p) = Bref/(1+X+X^2/2), X = C(p-pref); (B mu)(p) = Bref muref/(1+Y+Y^2/2), Y = (C-Cv)(p-pref)
void cc_closed(const CCRef& c, double p, double& invB, double& mu) {
    const double X = c.C * (p - c.pref), Y = (c.C - c.Cv) * (p - c.pref);
    invB = (1.0 + X + 0.5 * X * X) / c.B;
    mu = c.mu * (1.0 + X + 0.5 * X * X) / (1.0 + Y + 0.5 * Y * Y);
}
// the combined helper of the water class: both overloads agree with the separate entry points, double and Evaluation
void check_BAndMu(Sink& S, const Opm::ConstantCompressibilityWaterPvt<double>& w, unsigned r, const CCRef& c) {
    for (double p : cc_pressures(c)) {
        S.cnt("twin_entry_points", 4);
        double eb, em; cc_closed(c, p, eb, em);
        double b1 = 0, m1 = 0, b2 = 0, m2 = 0;
        w.inverseBAndMu(b1, m1, r, TEMP, p, 0.0, 0.0); w.inverseBAndMu(b2, m2, r, p);
        const double b = w.inverseFormationVolumeFactor(r, TEMP, p, 0.0, 0.0), m = w.viscosity(r, TEMP, p, 0.0, 0.0);
        if (!same(b1, b) || !same(b2, b)) S.viol("BAndMu", "twin", "inverseBAndMu 1/B " + N(b1) + " / " + N(b2) + " != inverseFormationVolumeFactor " + N(b) + " at p=" + N(p));
        if (!same(m1, m) || !same(m2, m)) S.viol("BAndMu", "twin", "inverseBAndMu mu " + N(m1) + " / " + N(m2) + " != viscosity " + N(m) + " at p=" + N(p));
        if (!releq(b1, eb, 1e-11) || !releq(m1, em, 1e-11)) S.viol("BAndMu", "closedform", "inverseBAndMu (1/B, mu) = (" + N(b1) + ", " + N(m1) + ") want (" + N(eb) + ", " + N(em) + ") at p=" + N(p));
        const E3 T3 = E3::createVariable(TEMP, 0), p3 = E3::createVariable(p, 1), s3 = E3::createVariable(0.01, 2), z3 = E3(0.0);
        E3 B1, M1, B2, M2; w.inverseBAndMu(B1, M1, r, T3, p3, z3, s3); w.inverseBAndMu(B2, M2, r, p3);
        if (!same3(B1, w.inverseFormationVolumeFactor(r, T3, p3, z3, s3)) || !same3(B2, B1)) S.viol("BAndMu", "twin", "inverseBAndMu 1/B differs from inverseFormationVolumeFactor for Evaluation arguments (value or derivative) at p=" + N(p));
        if (!same3(M1, w.viscosity(r, T3, p3, z3, s3)) || !same3(M2, M1)) S.viol("BAndMu", "twin", "inverseBAndMu mu differs from viscosity for Evaluation arguments (value or derivative) at p=" + N(p));
    }
    // AD derivative of the helper's outputs = slope of the returned function
    for (double f : {0.5, 1.5, 3.0}) {
        const double p = c.pref * f;
        deriv3(S, "BAndMu", [&](auto T, auto x, auto y) { decltype(x) b, m; w.inverseBAndMu(b, m, r, T, x, decltype(x)(0.0), y); return b; }, p, 0.01, c.pref, 1.0);
        deriv3(S, "BAndMu", [&](auto T, auto x, auto y) { decltype(x) b, m; w.inverseBAndMu(b, m, r, T, x, decltype(x)(0.0), y); return m; }, p, 0.01, c.pref, 1.0);
    }
}

// -------------------------------------------------------- one case --------
Opm::Parser* g_parser = nullptr;

void run_case(const Case& c, vf::Run* R, std::set<std::string>* collect) {
    const Units& u = UNITS[c.unit];
    const std::string cs = case_str(c);
    Sink S; S.R = R; S.cs = cs; S.unit = u.name;
    std::unique_ptr<std::set<std::string>> twinKeys;
    if (R && c.unit != 0)
        S.twin = [&]() -> const std::set<std::string>& {
            if (!twinKeys) { twinKeys.reset(new std::set<std::string>()); Case m = c; m.unit = 0; run_case(m, nullptr, twinKeys.get()); }
            return *twinKeys;
        };
    const size_t nreg = c.oil.regs.size();
    try {
        const std::string text = deck_text(c);
        auto deck = g_parser->parseString(text);
        Opm::EclipseState es(deck);
        Opm::Schedule sched(deck, es, std::make_shared<Opm::Python>());
        Opm::OilPvtMultiplexer<double> oil; oil.initFromState(es, sched);
        Opm::GasPvtMultiplexer<double> gas; gas.initFromState(es, sched);
        Opm::WaterPvtMultiplexer<double> wat; wat.initFromState(es, sched);
        if (oil.numRegions() != nreg || gas.numRegions() != nreg || wat.numRegions() != nreg) { S.dflt = false; S.tab = "ALL"; S.viol("regions", "node", "number of PVT regions differs from the deck's " + std::to_string(nreg)); }
        for (size_t r = 0; r < nreg; ++r) {
            S.reg = int(r);
            S.tab = c.oil.kw; S.dflt = c.oil.regs[r].dflt; S.src = int(r); while (S.src > 0 && c.oil.regs[S.src].dflt) --S.src;
            try {
                OilView<Opm::OilPvtMultiplexer<double>> ov{oil, unsigned(r)};
                if (c.oil.kw == "PVTO") {
                    const LiveRef L = live_ref(true, resolve(c.oil, r), u);
                    check_live(S, ov, L, c.nt);
                    OilView<Opm::LiveOilPvt<double>> cv{oil.getRealPvt<Opm::OilPvtApproach::LiveOil>(), unsigned(r)};
                    check_class_twin(S, ov, cv, live_points(L)); check_class_twin_sat(S, ov, cv, live_points(L), "Rs");
                } else if (c.oil.kw == "PVDO") {
                    const DeadRef D = dead_ref(true, resolve(c.oil, r), u);
                    check_dead(S, ov, D, c.nt);
                    OilView<Opm::DeadOilPvt<double>> cv{oil.getRealPvt<Opm::OilPvtApproach::DeadOil>(), unsigned(r)};
                    check_class_twin(S, ov, cv, dead_points(D));
                } else {
                    const CCRef C = cc_ref(true, resolve(c.oil, r), u);
                    check_cc(S, ov, C);
                    OilView<Opm::ConstantCompressibilityOilPvt<double>> cv{oil.getRealPvt<Opm::OilPvtApproach::ConstantCompressibilityOil>(), unsigned(r)};
                    check_class_twin(S, ov, cv, cc_points(C));
                }
            } catch (const std::exception& e) { S.viol("any", "throws", std::string("evaluation threw: ") + e.what()); }
            S.tab = c.gas.kw; S.dflt = c.gas.regs[r].dflt; S.src = int(r); while (S.src > 0 && c.gas.regs[S.src].dflt) --S.src;
            try {
                GasView<Opm::GasPvtMultiplexer<double>> gv{gas, unsigned(r)};
                if (c.gas.kw == "PVTG") {
                    const LiveRef L = live_ref(false, resolve(c.gas, r), u);
                    check_live(S, gv, L, c.nt);
                    GasView<Opm::WetGasPvt<double>> cv{gas.getRealPvt<Opm::GasPvtApproach::WetGas>(), unsigned(r)};
                    check_class_twin(S, gv, cv, live_points(L)); check_class_twin_sat(S, gv, cv, live_points(L), "Rv");
                } else {
                    const DeadRef D = dead_ref(false, resolve(c.gas, r), u);
                    check_dead(S, gv, D, c.nt);
                    GasView<Opm::DryGasPvt<double>> cv{gas.getRealPvt<Opm::GasPvtApproach::DryGas>(), unsigned(r)};
                    check_class_twin(S, gv, cv, dead_points(D));
                }
            } catch (const std::exception& e) { S.viol("any", "throws", std::string("evaluation threw: ") + e.what()); }
            S.tab = c.wat.kw; S.dflt = c.wat.regs[r].dflt; S.src = int(r); while (S.src > 0 && c.wat.regs[S.src].dflt) --S.src;
            try {
                WatView<Opm::WaterPvtMultiplexer<double>> wv{wat, unsigned(r)};
                const CCRef C = cc_ref(false, resolve(c.wat, r), u);
                check_cc(S, wv, C);
                if (wat.approach() != Opm::WaterPvtApproach::ConstantCompressibilityWater) S.viol("any", "twin:class", "a PVTW deck is not dispatched to ConstantCompressibilityWaterPvt");
                else {
                    const auto& cw = wat.getRealPvt<Opm::WaterPvtApproach::ConstantCompressibilityWater>();
                    WatView<Opm::ConstantCompressibilityWaterPvt<double>> cv{cw, unsigned(r)};
                    check_class_twin(S, wv, cv, cc_points(C));
                    check_BAndMu(S, cw, unsigned(r), C);
                }
            } catch (const std::exception& e) { S.viol("any", "throws", std::string("evaluation threw: ") + e.what()); }
        }
    } catch (const std::exception& e) {
        S.dflt = false; S.tab = "DECK"; S.viol("init", "throws", std::string("a valid deck was rejected (Parser/EclipseState/Schedule/initFromState threw): ") + std::string(e.what()).substr(0, 300));
    }
    if (collect) *collect = S.keys;
    if (R) { R->observe(vf::fnv(cs, S.h)); }
}

// ---------------------------------------------------- enumeration ---------
std::vector<std::vector<int>> live_shapes(int nmin, int nmax) {
    std::vector<std::vector<int>> out;
    for (int n = nmin; n <= nmax; ++n) {
        std::vector<int> k(n, 1);
        while (true) {
            if (k[n - 1] >= 2) out.push_back(k);
            int i = n - 1; while (i >= 0 && k[i] == 3) { k[i] = 1; --i; }
            if (i < 0) break; ++k[i];
        }
    }
    return out;
}
// all region assignments of a family: (distinct) value sets per region x shapes per region
void gen_regs(const std::vector<int>& sets, int maxreg, const std::vector<std::vector<int>>& shapes, const std::vector<std::vector<int>>& shapes3, std::vector<std::vector<RSpec>>& out) {
    for (int s : sets) for (auto& sh : shapes) out.push_back({mk(s, sh)});
    for (int s1 : sets) for (int s2 : sets) { if (s1 == s2) continue; for (auto& a : shapes) for (auto& b : shapes) out.push_back({mk(s1, a), mk(s2, b)}); }
    if (maxreg >= 3 && sets.size() >= 3)
        for (int s1 : sets) for (int s2 : sets) for (int s3 : sets) {
            if (s1 == s2 || s1 == s3 || s2 == s3) continue;
            for (auto& a : shapes3) for (auto& b : shapes3) for (auto& d : shapes3) out.push_back({mk(s1, a), mk(s2, b), mk(s3, d)});
        }
}
// companions (not the subject of the enumeration, but checked all the same)
Fam companion(const std::string& kind, size_t nreg, uint64_t idx, int nsets) {
    Fam f;
    static const std::vector<std::vector<int>> sh = {{2, 2}, {1, 3}, {3, 1, 2}, {1, 1, 3}};
    for (size_t r = 0; r < nreg; ++r) {
        RSpec s; s.set = int((idx + r) % nsets);
        if (kind == "wat") { f.kw = "PVTW"; }
        else if (kind == "gas") { if (idx % 2) { f.kw = "PVTG"; s.k = sh[(idx / 2 + r) % sh.size()]; } else { f.kw = "PVDG"; s.k = {2 + int((idx / 2 + r) % 3)}; } }
        else { switch (idx % 4) { case 0: f.kw = "PVDO"; s.k = {2 + int((idx / 4 + r) % 3)}; break; case 2: f.kw = "PVCDO"; break; default: f.kw = "PVTO"; s.k = sh[(idx / 4 + r) % sh.size()]; } }
        f.regs.push_back(s);
    }
    return f;
}

} // namespace

int main(int argc, char** argv) {
    vf::Run run("C14", argc, argv);
    // self-test of the reference unit table against the published decimal values (a harness error, not a violation)
    if (std::fabs(psi_ - 6894.757293168361) > 1e-9 || std::fabs(stb_ - 0.158987294928) > 1e-15 || std::fabs(Mscf_ - 28.316846592) > 1e-12) { std::fprintf(stderr, "C14: reference unit table broken\n"); return 2; }
    Opm::Parser parser; g_parser = &parser;
    const bool T = run.thorough();
    run.rule = std::string("shape-exhaustive: PVTO/PVTG with ") + (T ? "2-4" : "2-3") + " saturated nodes x 1-3 undersaturated points each (all combinations, last node >= 2), PVDO/PVDG with "
        + (T ? "2-6" : "2-4") + " nodes, PVTW/PVCDO records; 1-2 PVT regions with all ordered pairs of distinct value sets and all shape pairs" + (T ? " (+ 3 regions: all ordered triples of distinct value sets x all 2-node shape triples)" : "")
        + "; region defaulting: NTPVT in {2,3,4} x every pattern {own table, defaulted '/'} over regions 2..NTPVT x all ordered selections of pairwise different value sets (A-D) for the own tables x rotated shapes, for PVTO, PVTG, PVDO, PVDG, PVTW (PVCDO records cannot be defaulted), a defaulted region judged by all oracles against the nearest preceding real table (keys end in :defaulted-region)"
        + "; x {METRIC,FIELD,LAB,PVT-M}; " + (T ? "3" : "2") + " fixed physically ordered value sets (PVTO/PVTG: + set D with very unevenly spaced saturated pressures and strongly concave Rs(p)/Rv(p), whose saturationPressure Newton iteration overshoots below 0 Pa); saturationPressure(Rsat(p)) = p on nodes and on the 16ths of every saturated interval; other interior points at " + (T ? "eighths" : "quarters")
        + " of every segment; every deck through Parser->EclipseState->Schedule->*PvtMultiplexer::initFromState; oracles: node 1e-9, documented extension of single-point nodes 1e-9, bracket 1e-12, continuity (nodes 1e-12, between nodes 1e-9), twin entry points (saturated* == undersaturated entry point at every pressure for PVDO/PVDG/PVTW/PVCDO incl. beyond the range, inverseBAndMu helpers == separate entry points, multiplexer == concrete class for every entry point, double and Evaluation: 1e-13), closed form of PVTW/PVCDO records on a pressure lattice on both sides of pref up to |C dp| = 2 (1e-11), saturationPressure inversion 1e-7, finite+continuous 10% beyond range, AD derivative vs central difference 1e-5 (h-sweep 1e-4..1e-7, kink-guarded); distinct = distinct (case, returned values) hashes";
    run.assumptions = {
        "reference model = the table in deck numbers + own exact unit definitions (psi = lbf/in^2, stb = 42*231 in^3, Mscf = 1000 ft^3, atm = 101325 Pa), not Units.hpp",
        "bracket oracle only where the statement determines it: on the saturated curve and between *given* points of undersaturated lines at tabulated Rs (PVTO) / p (PVTG); the interior of 2D cells is only checked for continuity with the saturated curve, finiteness and derivative consistency",
        "lines of single-point nodes are not determined by the property text; they are compared (kind 'extension', separate keys) with the behaviour documented in extendPvtoTable_/extendPvtgTable_: the master line (next node with >= 2 points) at the same p/Rv offsets, scaled to the node's own saturated B and mu (same compressibility/viscosibility)",
        "saturationPressure tolerance 1e-7: Newton stops at |dp| < 2.2e-10 p on a piecewise-linear Rs(p)/Rv(p), a step inside the right segment lands on the root",
        "PVTW/PVCDO: B and mu at the reference pressure, compressibility/viscosibility as relative slopes there (1e-6), and the documented closed form away from pref: B = Bref/(1+X+X^2/2), X = C(p-pref); B mu = Bref muref/(1+Y+Y^2/2), Y = (C-Cv)(p-pref); value sets A, C, D have non-zero, distinct C and Cv (B has Cv = 0)",
        "twin entry points: for live tables saturated == undersaturated on the saturated curve is the continuity oracle (1e-12 at nodes, 1e-9 between nodes: different interpolation arithmetic); for dead and constant-compressibility fluids the two entry points must agree to 1e-13 everywhere",
        "region defaulting semantics (reference): an empty PVTO/PVTG table, an empty PVDO/PVDG record and an all-defaulted PVTW record mean 'the table of the nearest preceding region that has one'; DENSITY is always given explicitly; PVCDO does not accept defaulted records",
        "values outside the fixed value sets, non-monotone tables, defaulted single entries inside a table, VAPPARS and thermal/brine variants are not covered",
        "co2/h2 table traits are zero stubs (harness/C14_stubs.cpp): never read by table-based black-oil PVT"};

    if (!run.replay_path.empty()) {
        Case c = parse_case(run.replay_path);
        run.current(run.replay_path); run.evaluations++;
        run_case(c, &run, nullptr);
        run.sample_str(deck_text(c));
        return run.finish();
    }

    const int nsets = T ? 3 : 2, nt = T ? 7 : 3, maxreg = T ? 3 : 2;
    const auto lshapes = live_shapes(2, T ? 4 : 3), lshapes3 = live_shapes(2, 2);
    std::vector<std::vector<int>> dshapes, cshape = {{}};
    for (int n = 2; n <= (T ? 6 : 4); ++n) dshapes.push_back({n});
    struct Prim { const char* kw; const char* kind; const std::vector<std::vector<int>>*sh, *sh3; bool live; };
    const std::vector<int> baseSets = T ? std::vector<int>{0, 1, 2} : std::vector<int>{0, 1}, liveSets = T ? std::vector<int>{0, 1, 2, 3} : std::vector<int>{0, 1, 3};
    const Prim prims[] = {{"PVTO", "oil", &lshapes, &lshapes3, true}, {"PVTG", "gas", &lshapes, &lshapes3, true}, {"PVDO", "oil", &dshapes, &dshapes, false}, {"PVDG", "gas", &dshapes, &dshapes, false},
                          {"PVCDO", "oil", &cshape, &cshape, false}, {"PVTW", "wat", &cshape, &cshape, false}};
    uint64_t idx = 0;
    bool stop = false;
    // one case: `prim` is the enumerated family; the other two phases are deterministic companions.  `dmask` (bit r-1: region
    // r+1 defaulted) is also applied to the companions where the input format allows a defaulted region (not PVCDO).
    auto exec = [&](const char* kw, const std::string& kind, const std::vector<RSpec>& rg, unsigned dmask, const char* counter) {
        for (int unit = 0; unit < 4 && !stop; ++unit) {
            ++idx;
            if (!run.mine()) continue;
            if (run.timed_out()) { stop = true; break; }
            Case c; c.unit = unit; c.nt = nt;
            Fam prim{kw, rg};
            c.oil = kind == "oil" ? prim : companion("oil", rg.size(), idx, nsets);
            c.gas = kind == "gas" ? prim : companion("gas", rg.size(), idx, nsets);
            c.wat = kind == "wat" ? prim : companion("wat", rg.size(), idx, nsets);
            for (Fam* f : {&c.oil, &c.gas, &c.wat})
                if (f->kw != "PVCDO") for (size_t r = 1; r < f->regs.size(); ++r) if (dmask & (1u << (r - 1))) f->regs[r] = mkdflt();
            const std::string cs = case_str(c);
            run.current(cs);
            run.evaluations++;
            run.count(counter);
            run_case(c, &run, nullptr);
            if (run.samples.size() < 2 && rg.size() == 2 && unit == 1) run.sample_str(cs + "\n" + deck_text(c));
            else if (run.samples.size() < 4 && dmask == 6 && unit == 0) run.sample_str(cs + "\n" + deck_text(c));
            else if (run.samples.size() < 6 && (idx % 977) == 0) run.sample_str(cs);
        }
    };
    // (1) every region has its own table
    for (const Prim& P : prims) {
        if (stop) break;
        std::vector<std::vector<RSpec>> regs;
        gen_regs(P.live ? liveSets : baseSets, maxreg, *P.sh, *P.sh3, regs);
        const std::string counter = std::string("tables_") + P.kw;
        run.count(counter, 0);
        for (auto& rg : regs) { if (stop) break; exec(P.kw, P.kind, rg, 0u, counter.c_str()); }
    }
    // (2) region defaulting: NTPVT in {2,3,4}, every pattern {own table, defaulted} over regions 2..NTPVT, the own tables
    //     pairwise different (all ordered selections of distinct value sets out of A-D), shapes rotated over a fixed list.
    {
        const std::vector<std::vector<int>> lsh = T ? std::vector<std::vector<int>>{{2, 2}, {1, 3}, {3, 1, 2}, {1, 1, 3}, {2, 3}, {3, 3, 3}, {1, 2}, {3, 2, 1, 2}, {1, 1, 1, 2}, {2, 1, 3, 3}, {1, 3, 2}, {2, 2, 2}}
                                                    : std::vector<std::vector<int>>{{2, 2}, {1, 3}, {3, 1, 2}};
        const std::vector<std::vector<int>> dsh = T ? std::vector<std::vector<int>>{{2}, {3}, {4}, {5}, {6}} : std::vector<std::vector<int>>{{2}, {3}, {4}};
        struct DPrim { const char* kw; const char* kind; const std::vector<std::vector<int>>* sh; };
        const DPrim dprims[] = {{"PVTO", "oil", &lsh}, {"PVTG", "gas", &lsh}, {"PVDO", "oil", &dsh}, {"PVDG", "gas", &dsh}, {"PVTW", "wat", &cshape}};   // PVCDO: no defaulted records in the input format
        for (const DPrim& P : dprims) {
            const std::string counter = std::string("defaulting_") + P.kw;
            run.count(counter, 0);
            for (int N = 2; N <= 4 && !stop; ++N)
                for (unsigned mask = 0; mask < (1u << (N - 1)) && !stop; ++mask) {
                    std::vector<int> own;                                   // regions with an own table
                    for (int r = 0; r < N; ++r) if (r == 0 || !(mask & (1u << (r - 1)))) own.push_back(r);
                    const int m = int(own.size());
                    // all ordered selections of m distinct sets out of 4
                    std::vector<int> sel(m, 0);
                    std::function<void(int)> rec = [&](int d) {
                        if (stop) return;
                        if (d == m) {
                            for (size_t v = 0; v < P.sh->size() && !stop; ++v) {
                                std::vector<RSpec> rg(N, mkdflt());
                                for (int k = 0; k < m; ++k) rg[own[k]] = mk(sel[k], (*P.sh)[(v + k) % P.sh->size()]);
                                exec(P.kw, P.kind, rg, mask, counter.c_str());
                            }
                            return;
                        }
                        for (int s = 0; s < 4; ++s) { bool used = false; for (int e = 0; e < d; ++e) used |= sel[e] == s; if (used) continue; sel[d] = s; rec(d + 1); }
                    };
                    rec(0);
                }
        }
    }
    return run.finish();
}
