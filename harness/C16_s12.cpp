// C16 variant TU: unrolled specialisation Evaluation<double,12> (opm/material/densead/Evaluation12.hpp)
#include "C16_impl.hpp"
C16_STATIC_TU(12, "static")
