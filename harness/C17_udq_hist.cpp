// C17 (b) — ASSIGN / DEFINE / UPDATE lifecycle over report steps (E2, all histories).
//
// Every sequence of events up to length 4 (quick) / 5 (thorough) over
//     ASSIGN WUX 3.5 | ASSIGN WUX 7.25 | DEFINE WUX WOPR + 1 | DEFINE WUX FOPR * 2 |
//     UPDATE WUX ON | UPDATE WUX OFF | UPDATE WUX NEXT | ASSIGN FUY 1 (unrelated quantity) | next report step
// is rendered as real SCHEDULE `UDQ` keywords / TSTEP in a small deck, followed by a fixed tail of chained
// definitions {DEFINE WUY WUX + WOPR; DEFINE FUS SUM(WUY); DEFINE GUZ GOPR * 2; DEFINE FUG SUM(GUZ)} and
// four more report steps; Schedule is built from it and driven like a simulator does: per report step r the summary vectors get new values
// (WOPR:Pi = 10 r + i, but P2 has no WOPR at steps 2,5,8 and P3 none at 3,7; GOPR:Gj = 50 r + j, G2 none at 3,6,9;
// FOPR = 100 + r) and
//     sched.getUDQConfig(r-1).eval(r, wellMatcher(r), ..., SummaryState, UDQState)
// is called once with the UDQState / SummaryState carried along.  After every
// step the value of WUX for each well, and in the tail steps WUY, FUS, GUZ, FUG, are read back through
// UDQState (has_well_var/get_well_var, has_group_var/get_group_var, has/get) and SummaryState and compared
// with a reference lifecycle model (an element that evaluates to undefined must be absent / hold the
// undefined value, never a stale number):
//   * ASSIGN x v   : x = v for all wells from this step on (until the next ASSIGN / DEFINE evaluation)
//   * DEFINE x e   : x is (re)defined with update mode ON; a defined quantity is evaluated on the
//                    current summary values at every step while ON
//   * UPDATE x OFF : the definition is not evaluated, x keeps its last value
//   * UPDATE x NEXT: the definition is evaluated at the next step only, then behaves like OFF
//   * UPDATE x ON  : evaluated at every step again
//   * the later of ASSIGN / DEFINE for x decides whether x is a constant or an expression
// Histories in which UPDATE precedes any ASSIGN/DEFINE of x are not enabled
// (the input is rejected); UPDATE of a quantity that is currently ASSIGNed has
// no observable effect in the model.
#include "vf.hpp"

#include <opm/common/utility/TimeService.hpp>
#include <opm/input/eclipse/Deck/Deck.hpp>
#include <opm/input/eclipse/EclipseState/EclipseState.hpp>
#include <opm/input/eclipse/EclipseState/Grid/RegionSetMatcher.hpp>
#include <opm/input/eclipse/Parser/Parser.hpp>
#include <opm/input/eclipse/Python/Python.hpp>
#include <opm/input/eclipse/Schedule/MSW/SegmentMatcher.hpp>
#include <opm/input/eclipse/Schedule/Schedule.hpp>
#include <opm/input/eclipse/Schedule/ScheduleState.hpp>
#include <opm/input/eclipse/Schedule/SummaryState.hpp>
#include <opm/input/eclipse/Schedule/UDQ/UDQConfig.hpp>
#include <opm/input/eclipse/Schedule/UDQ/UDQState.hpp>
#include <opm/input/eclipse/Schedule/Well/WellMatcher.hpp>

#include <cmath>
#include <optional>

using OD = std::optional<double>;
static vf::Run* R;
static const std::vector<std::string> WELLS{"P1", "P2", "P3"};
static const char* EVN[] = {"ASSIGN WUX 3.5", "ASSIGN WUX 7.25", "DEFINE WUX WOPR + 1", "DEFINE WUX FOPR * 2",
                            "UPDATE WUX ON", "UPDATE WUX OFF", "UPDATE WUX NEXT", "ASSIGN FUY 1", "STEP"};
enum { A1, A2, D1, D2, UON, UOFF, UNEXT, AY, STEP, NEV };
static const int TRAIL = 4;

// step dependent summary inputs; some elements go defined -> undefined -> defined over the report steps
// (a well / group without an entry for the vector at that step, like a well that is not flowing)
static const std::vector<std::string> GROUPS{"G1", "G2"};
static OD wopr(int r, int w) {
    if (w == 1 && r % 3 == 2) return std::nullopt;       // P2: no WOPR at steps 2, 5, 8
    if (w == 2 && r % 4 == 3) return std::nullopt;       // P3: no WOPR at steps 3, 7
    return 10.0 * r + (w + 1);
}
static OD gopr(int r, int g) {
    if (g == 1 && r % 3 == 0) return std::nullopt;       // G2: no GOPR at steps 3, 6, 9
    return 50.0 * r + (g + 1);
}
static double fopr(int r) { return 100.0 + r; }
static const double UNDEF = -99.0;                       // UDQPARAM item 3 in the deck

// --------------------------------------------------------------- model
enum Mode { ON, OFF, NEXT };
struct Model {
    bool has_def = false, has_assign = false, active_define = false;
    int expr = 0; Mode mode = ON; bool next_consumed = false;
    OD pending;                        // ASSIGN not yet visible
    std::vector<OD> value{std::nullopt, std::nullopt, std::nullopt};
    bool y_assigned = false;
    bool enabled(int ev) const { return (ev != UON && ev != UOFF && ev != UNEXT) || has_def || has_assign; }
    void apply(int ev) {
        switch (ev) {
        case A1: case A2: pending = ev == A1 ? 3.5 : 7.25; has_assign = true; active_define = false; break;
        case D1: case D2: has_def = true; active_define = true; expr = ev == D1 ? 1 : 2; mode = ON; next_consumed = false; break;
        case UON: if (has_def) { mode = ON; next_consumed = false; } break;
        case UOFF: if (has_def) { mode = OFF; next_consumed = false; } break;
        case UNEXT: if (has_def) { mode = NEXT; next_consumed = false; } break;
        case AY: y_assigned = true; break;
        }
    }
    std::vector<OD> define_value(int r) const {
        std::vector<OD> v;
        for (int w = 0; w < 3; ++w) { if (expr == 1) { OD o = wopr(r, w); v.push_back(o ? OD(*o + 1) : std::nullopt); } else v.push_back(fopr(r) * 2); }
        return v;
    }
    // returns what happened to x at this evaluation: 'a' assigned, 'd' define evaluated, 'k' kept
    char evaluate(int r) {
        char what = 'k';
        if (pending) { value.assign(3, pending); pending.reset(); what = 'a'; }
        if (active_define && mode != OFF) {
            value = define_value(r); what = 'd';
            if (mode == NEXT) { mode = OFF; next_consumed = true; }
        }
        return what;
    }
    std::string key() const {
        std::string s; s += has_def ? 'D' : '-'; s += has_assign ? 'A' : '-'; s += active_define ? 'd' : 'a'; s += char('0' + expr); s += char('0' + mode);
        s += pending ? (*pending == 3.5 ? '1' : '2') : '-'; s += y_assigned ? 'y' : '-';
        return s;
    }
};

// --------------------------------------------------------------- real
struct Base {
    Opm::Parser parser;
    std::shared_ptr<Opm::Python> python = std::make_shared<Opm::Python>();
    std::unique_ptr<Opm::EclipseState> es;        // built once: the non-SCHEDULE sections never change
};
static Base* B;

static std::string deck_text(const std::vector<int>& h) {
    std::string s =
        "RUNSPEC\nDIMENS\n 3 3 3 /\nOIL\nWATER\nGAS\nSTART\n 1 'JAN' 2020 /\nWELLDIMS\n 4 4 2 4 /\nTABDIMS\n/\nUDQPARAM\n 1 1E20 -99 1E-4 /\n"
        "GRID\nDX\n 27*100 /\nDY\n 27*100 /\nDZ\n 27*10 /\nTOPS\n 9*2000 /\nPORO\n 27*0.3 /\nPERMX\n 27*100 /\nPERMY\n 27*100 /\nPERMZ\n 27*10 /\n"
        "PROPS\nSOLUTION\n"
        "SCHEDULE\n"
        "WELSPECS\n 'P1' 'G1' 1 1 1* OIL /\n 'P2' 'G1' 2 1 1* OIL /\n 'P3' 'G2' 3 1 1* OIL /\n/\n"
        "COMPDAT\n 'P1' 1 1 1 1 OPEN 1* 1* 0.2 /\n 'P2' 2 1 1 1 OPEN 1* 1* 0.2 /\n 'P3' 3 1 1 1 OPEN 1* 1* 0.2 /\n/\n"
        "WCONPROD\n 'P*' OPEN ORAT 100 /\n/\n";
    for (int ev : h) {
        if (ev == STEP) s += "TSTEP\n 1 /\n";
        else { s += "UDQ\n "; s += EVN[ev]; s += " /\n/\n"; }
    }
    // fixed tail: chained definitions (one UDQ referencing another, well / group / field level)
    s += "UDQ\n DEFINE WUY WUX + WOPR /\n DEFINE FUS SUM(WUY) /\n DEFINE GUZ GOPR * 2 /\n DEFINE FUG SUM(GUZ) /\n/\n";
    for (int i = 0; i < TRAIL; ++i) s += "TSTEP\n 1 /\n";
    return s;
}
static std::string hist_str(const std::vector<int>& h) { std::string s; for (size_t i = 0; i < h.size(); ++i) { if (i) s += " ; "; s += EVN[h[i]]; } return s.empty() ? "(empty)" : s; }
static std::string show(const std::vector<OD>& v) { std::string s = "["; for (size_t i = 0; i < v.size(); ++i) { if (i) s += ", "; s += v[i] ? vf::fmt17(*v[i]) : "undef"; } return s + "]"; }
static bool same(const std::vector<OD>& a, const std::vector<OD>& b) {
    for (size_t i = 0; i < a.size(); ++i) { if (a[i].has_value() != b[i].has_value()) return false; if (a[i] && std::fabs(*a[i] - *b[i]) > 1e-12 * std::max(std::fabs(*a[i]), std::fabs(*b[i]))) return false; }
    return true;
}

static std::set<std::string> g_states;

static bool enabled(const std::vector<int>& h) { Model m; for (int ev : h) { if (!m.enabled(ev)) return false; m.apply(ev); } return true; }

// runs one enabled history on the real code; returns "" or the defect key (+ description)
static std::string check(const std::vector<int>& h, std::string& what_out, bool record) {

    std::unique_ptr<Opm::Schedule> sched;
    try {
        auto deck = B->parser.parseString(deck_text(h));
        if (!B->es) B->es = std::make_unique<Opm::EclipseState>(deck);
        sched = std::make_unique<Opm::Schedule>(deck, *B->es, B->python);
    } catch (const std::exception& e) {
        what_out = "building Schedule for history [" + hist_str(h) + "] throws: " + std::string(e.what()).substr(0, 200);
        return "C17:hist:schedule-rejects-history";
    }
    const double undef = sched->getUDQConfig(0).params().undefinedValue();
    Opm::SummaryState st(Opm::TimeService::from_time_t(sched->getStartTime()), undef);
    Opm::UDQState udq_state(undef);

    Model m;
    size_t pos = 0;
    std::string trace;
    const int nsteps = int(sched->size()) - 1;
    for (int r = 1; r <= nsteps; ++r) {
        // events of report step index r-1
        while (pos < h.size() && h[pos] != STEP) { m.apply(h[pos]); ++pos; }
        if (pos < h.size()) ++pos;       // the STEP itself
        if (record) g_states.insert(m.key());
        const std::vector<OD> before = m.value;
        const Model mb = m;
        const char what = m.evaluate(r);
        for (int w = 0; w < 3; ++w) { if (OD o = wopr(r, w)) st.update_well_var(WELLS[w], "WOPR", *o); else st.erase_well_var(WELLS[w], "WOPR"); }
        for (int g = 0; g < 2; ++g) { st.update_group_var(GROUPS[g], "GWPR", 1.0 + g); if (OD o = gopr(r, g)) st.update_group_var(GROUPS[g], "GOPR", *o); else st.erase_group_var(GROUPS[g], "GOPR"); }
        st.update("FOPR", fopr(r));
        try {
            sched->getUDQConfig(r - 1).eval(r, sched->wellMatcher(r), sched->segmentMatcherFactory(r),
                                            []() { return std::unique_ptr<Opm::RegionSetMatcher>{}; }, st, udq_state);
        } catch (const std::exception& e) {
            what_out = "history [" + hist_str(h) + "]: UDQConfig::eval at report step " + std::to_string(r) + " throws: " + std::string(e.what()).substr(0, 200);
            return "C17:hist:eval-throws";
        }
        std::vector<OD> got, got_st;
        for (int w = 0; w < 3; ++w) {
            got.push_back(udq_state.has_well_var(WELLS[w], "WUX") ? OD(udq_state.get_well_var(WELLS[w], "WUX")) : std::nullopt);
            got_st.push_back(st.has_well_var(WELLS[w], "WUX") ? OD(st.get_well_var(WELLS[w], "WUX")) : std::nullopt);
        }
        trace += show(got);
        if (!same(got, m.value)) {
            std::string key = "C17:hist:value-mismatch";
            bool stale = true; for (int w = 0; w < 3; ++w) if (!(got[w].has_value() == m.value[w].has_value() && (!got[w] || std::fabs(*got[w] - *m.value[w]) <= 1e-12 * std::fabs(*got[w]))) && !(got[w] && !m.value[w])) stale = false;
            const std::vector<OD> dv = mb.has_def ? mb.define_value(r) : std::vector<OD>(3, std::nullopt);
            if (what == 'k' && mb.active_define && same(got, dv) && !same(dv, before)) key = mb.next_consumed ? "C17:hist:next-evaluated-again" : "C17:hist:update-off-ignored";
            else if (what == 'd' && same(got, before)) key = mb.mode == NEXT ? "C17:hist:update-next-not-evaluated" : "C17:hist:define-not-evaluated";
            else if (what == 'd' && mb.pending && same(got, std::vector<OD>(3, mb.pending))) key = "C17:hist:assign-overrides-later-define";
            else if (what == 'a' && mb.has_def && same(got, dv)) key = "C17:hist:define-overrides-later-assign";
            else if (what == 'a' && same(got, before)) key = "C17:hist:assign-not-applied";
            if (stale) key = "C17:hist:udqstate-keeps-undefined-element";
            what_out = "history [" + hist_str(h) + "] then report steps: at step " + std::to_string(r) + " WUX = " + show(got) + ", lifecycle model = " + show(m.value)
                         + " (model: " + (what == 'a' ? "assigned" : what == 'd' ? "definition evaluated" : "kept") + ", previous " + show(before) + ")";
            return key;
        }
        // SummaryState must mirror UDQState (undefined is stored as the undefined value)
        for (int w = 0; w < 3; ++w) {
            const bool ok = got[w] ? (got_st[w] && *got_st[w] == *got[w]) : (!got_st[w] || *got_st[w] == undef);
            if (!ok) { what_out = "history [" + hist_str(h) + "] step " + std::to_string(r) + ": UDQState " + show(got) + " SummaryState " + show(got_st); return "C17:hist:summary-state-differs-from-udq-state"; }
        }
        if (m.y_assigned) {
            if (!udq_state.has("FUY") || udq_state.get("FUY") != 1.0) { what_out = "history [" + hist_str(h) + "] step " + std::to_string(r) + ": FUY not 1"; return "C17:hist:unrelated-quantity-lost"; }
        }
        // chained definitions of the fixed tail (active from the report step in which the history ends)
        if (r > nsteps - TRAIL) {
            std::vector<OD> wuy, guz, fus(1), fug(1);
            { double sum = 0; bool any = false;
              for (int w = 0; w < 3; ++w) { OD o = wopr(r, w); wuy.push_back(m.value[w] && o ? OD(*m.value[w] + *o) : std::nullopt); if (wuy[w]) { sum += *wuy[w]; any = true; } }
              if (any) fus[0] = sum; }
            { double sum = 0; bool any = false;
              for (int g = 0; g < 2; ++g) { OD o = gopr(r, g); guz.push_back(o ? OD(*o * 2) : std::nullopt); if (guz[g]) { sum += *guz[g]; any = true; } }
              if (any) fug[0] = sum; }
            struct Q { const char* name; char level; const std::vector<OD>* model; };
            const Q qs[] = {{"WUY", 'W', &wuy}, {"FUS", 'F', &fus}, {"GUZ", 'G', &guz}, {"FUG", 'F', &fug}};
            for (const Q& q : qs) {
                std::vector<OD> us, ss;
                for (size_t i = 0; i < q.model->size(); ++i) {
                    if (q.level == 'W') { us.push_back(udq_state.has_well_var(WELLS[i], q.name) ? OD(udq_state.get_well_var(WELLS[i], q.name)) : std::nullopt);
                                          ss.push_back(st.has_well_var(WELLS[i], q.name) ? OD(st.get_well_var(WELLS[i], q.name)) : std::nullopt); }
                    else if (q.level == 'G') { us.push_back(udq_state.has_group_var(GROUPS[i], q.name) ? OD(udq_state.get_group_var(GROUPS[i], q.name)) : std::nullopt);
                                               ss.push_back(st.has_group_var(GROUPS[i], q.name) ? OD(st.get_group_var(GROUPS[i], q.name)) : std::nullopt); }
                    else { us.push_back(udq_state.has(q.name) ? OD(udq_state.get(q.name)) : std::nullopt); ss.push_back(st.has(q.name) ? OD(st.get(q.name)) : std::nullopt); }
                }
                trace += show(us);
                // SummaryState carries the evaluated set of this step: undefined elements hold the undefined value
                std::vector<OD> ss_norm = ss; for (auto& x : ss_norm) if (x && *x == undef) x.reset();
                const bool st_ok = same(ss_norm, *q.model), us_ok = same(us, *q.model);
                if (st_ok && us_ok) continue;
                bool stale = !us_ok; for (size_t i = 0; i < us.size(); ++i) { const bool eq = us[i].has_value() == (*q.model)[i].has_value() && (!us[i] || std::fabs(*us[i] - *(*q.model)[i]) <= 1e-12 * std::fabs(*us[i])); if (!eq && !(us[i] && !(*q.model)[i])) stale = false; }
                what_out = "history [" + hist_str(h) + "] + tail {DEFINE WUY WUX + WOPR; DEFINE FUS SUM(WUY); DEFINE GUZ GOPR * 2; DEFINE FUG SUM(GUZ)}: at step " + std::to_string(r) + " " + q.name
                         + ": UDQState " + show(us) + ", SummaryState " + show(ss) + ", model " + show(*q.model) + " (WUX model " + show(m.value) + ")";
                if (stale && st_ok) return "C17:hist:udqstate-keeps-undefined-element";
                return std::string("C17:hist:chain:") + q.name + (us_ok ? ":summary-state" : st_ok ? ":udq-state" : ":value");
            }
        }
    }
    if (record) {
        R->traces_validated++;
        R->observe(trace);
        if (R->evaluations % 97 == 1) R->sample_str(hist_str(h) + "  =>  " + trace);
    }
    return "";
}

struct Found { std::vector<int> h; std::string what; };
static std::map<std::string, Found> g_viol;       // defect key -> shortest history (after shrinking)
static void do_case(const std::vector<int>& h) {
    if (!enabled(h)) { R->count("histories_not_enabled"); return; }
    const std::string cs = vf::join_ints(h);
    R->current(cs + " = " + hist_str(h));
    R->evaluations++; R->transitions += h.size();
    std::string what;
    const std::string key = check(h, what, true);
    if (key.empty()) return;
    R->count("viol:" + key);
    // shrink: drop single events while the same defect key is reproduced
    std::vector<int> best = h; bool shrunk = true;
    while (shrunk) {
        shrunk = false;
        for (size_t i = 0; i < best.size(); ++i) {
            std::vector<int> c = best; c.erase(c.begin() + i);
            std::string w2;
            if (enabled(c) && check(c, w2, false) == key) { best = c; what = w2; shrunk = true; break; }
        }
    }
    auto& f = g_viol[key];
    if (f.what.empty() || best.size() < f.h.size()) f = {best, what};
}
static void flush_violations() {
    for (auto& [key, f] : g_viol) R->violation(key, f.what, "{\"case\": " + vf::jstr(vf::join_ints(f.h)) + ", \"history\": " + vf::jstr(hist_str(f.h)) + "}");
}

int main(int argc, char** argv) {
    vf::Run run("C17", argc, argv); R = &run;
    Base base; B = &base;
    const int L = run.thorough() ? 5 : 4;
    run.rule = "all event sequences up to length " + std::to_string(L) + " over {ASSIGN x v1|v2, DEFINE x e1|e2, UPDATE x ON|OFF|NEXT, ASSIGN y (unrelated), next report step} + fixed tail {DEFINE WUY WUX + WOPR; DEFINE FUS SUM(WUY); DEFINE GUZ GOPR * 2; DEFINE FUG SUM(GUZ)} + 4 trailing report steps, "
               "through real SCHEDULE UDQ keywords; one UDQConfig::eval per report step with carried UDQState/SummaryState and step-dependent summary values in which well/group elements go defined -> undefined -> defined; after every step WUX and (tail) WUY, FUS, GUZ, FUG are read back through UDQState (has/get at well, group, field level) and SummaryState; oracle: reference lifecycle model + element-wise evaluation with undefined propagation; distinct = distinct value traces";
    run.assumptions = {
        "lifecycle model: ASSIGN makes x a constant from that step on; DEFINE (re)defines x with update mode ON; ON = evaluated every step, OFF = frozen, NEXT = evaluated at the next step only then frozen; the later of ASSIGN/DEFINE decides",
        "UPDATE before any ASSIGN/DEFINE of x is not enabled (input rejected); UPDATE of a currently ASSIGNed quantity has no observable effect",
        "one evaluation per report step (sub-steps of a report step are not modelled); ASSIGN uses no well selector (a selector after a DEFINE is ambiguous in the statement)",
        "expressions e1 = WOPR + 1 (well set), e2 = FOPR * 2 (scalar scattered); summary values change every step so stale and fresh evaluations differ",
        "an element that evaluates to undefined must be absent from UDQState and hold the undefined value (UDQPARAM item 3 = -99) in SummaryState; a quantity referenced before it exists is undefined; SUM of an all-undefined set is undefined",
        "the chained definitions are entered after the history's events, so they are evaluated after WUX (definition order)"};

    if (!run.replay_path.empty()) {
        std::vector<int> h; std::string s = run.replay_path; for (auto& c : s) if (c == ',') c = ' ';
        std::istringstream is(s); int v; while (is >> v) h.push_back(v);
        do_case(h);
        flush_violations();
        return run.finish();
    }
    for (int len = 0; len <= L; ++len) {
        std::vector<int> h(len, 0);
        while (true) {
            if (run.mine()) { if (run.timed_out()) break; do_case(h); }
            int d = 0;
            while (d < len) { if (++h[d] < NEV) break; h[d] = 0; ++d; }
            if (d >= len) break;
        }
    }
    run.count("model_states_seen_by_shard0", run.shard == 0 ? (long long)g_states.size() : 0);
    flush_violations();
    return run.finish();
}
