// C17 (b) — ASSIGN / DEFINE / UPDATE lifecycle over report steps (E2, all histories).
//
// Every sequence of events up to length 4 (quick) / 5 (thorough) over
//     ASSIGN WUX 3.5 | ASSIGN WUX 7.25 | DEFINE WUX WOPR + 1 | DEFINE WUX FOPR * 2 |
//     UPDATE WUX ON | UPDATE WUX OFF | UPDATE WUX NEXT | ASSIGN FUY 1 (unrelated quantity) | next report step
// is rendered as real SCHEDULE `UDQ` keywords / TSTEP in a small deck, followed by a fixed tail of chained
// definitions {DEFINE WUY WUX + WOPR; DEFINE FUS SUM(WUY); DEFINE GUZ GOPR * 2; DEFINE FUG SUM(GUZ)} and
// four more report steps; Schedule is built from it and driven like a simulator does: per report step r the summary vectors get new values
// (WOPR:Pi = 10 r + i, but P2 has no WOPR at steps 2,5,8 and P3 none at 3,7; GOPR:Gj = 50 r + j, G2 none at 3,6,9;
// FOPR = 100 + r) and
//     sched.getUDQConfig(r-1).eval(r, wellMatcher(r), ..., SummaryState, UDQState)
// is called once with the UDQState / SummaryState carried along.  After every
// step the value of WUX for each well, and in the tail steps WUY, FUS, GUZ, FUG, are read back through
// UDQState (has_well_var/get_well_var, has_group_var/get_group_var, has/get) and SummaryState and compared
// with a reference lifecycle model (an element that evaluates to undefined must be absent / hold the
// undefined value, never a stale number):
//   * ASSIGN x v   : x = v for all wells from this step on (until the next ASSIGN / DEFINE evaluation)
//   * DEFINE x e   : x is (re)defined with update mode ON; a defined quantity is evaluated on the
//                    current summary values at every step while ON
//   * UPDATE x OFF : the definition is not evaluated, x keeps its last value
//   * UPDATE x NEXT: the definition is evaluated at the next step only, then behaves like OFF
//   * UPDATE x ON  : evaluated at every step again
//   * the later of ASSIGN / DEFINE for x decides whether x is a constant or an expression
// Histories in which UPDATE precedes any ASSIGN/DEFINE of x are not enabled
// (the input is rejected); UPDATE of a quantity that is currently ASSIGNed has
// no observable effect in the model.
#include "vf.hpp"

#include <opm/common/utility/TimeService.hpp>
#include <opm/input/eclipse/Deck/Deck.hpp>
#include <opm/input/eclipse/EclipseState/EclipseState.hpp>
#include <opm/input/eclipse/EclipseState/Grid/RegionSetMatcher.hpp>
#include <opm/input/eclipse/Parser/Parser.hpp>
#include <opm/input/eclipse/Python/Python.hpp>
#include <opm/input/eclipse/Schedule/MSW/SegmentMatcher.hpp>
#include <opm/input/eclipse/Schedule/Schedule.hpp>
#include <opm/input/eclipse/Schedule/ScheduleState.hpp>
#include <opm/input/eclipse/Schedule/SummaryState.hpp>
#include <opm/input/eclipse/Schedule/UDQ/UDQConfig.hpp>
#include <opm/input/eclipse/Schedule/UDQ/UDQState.hpp>
#include <opm/input/eclipse/Schedule/Well/WellMatcher.hpp>

#include <cmath>
#include <optional>

using OD = std::optional<double>;
static vf::Run* R;
static const std::vector<std::string> WELLS{"P1", "P2", "P3"};
static const char* EVN[] = {"ASSIGN WUX 3.5", "ASSIGN WUX 7.25", "DEFINE WUX WOPR + 1", "DEFINE WUX FOPR * 2",
                            "UPDATE WUX ON", "UPDATE WUX OFF", "UPDATE WUX NEXT", "ASSIGN FUY 1", "STEP"};
enum { A1, A2, D1, D2, UON, UOFF, UNEXT, AY, STEP, NEV };
static const int TRAIL = 4;

// step dependent summary inputs; some elements go defined -> undefined -> defined over the report steps
// (a well / group without an entry for the vector at that step, like a well that is not flowing)
static const std::vector<std::string> GROUPS{"G1", "G2"};
static OD wopr(int r, int w) {
    if (w == 1 && r % 3 == 2) return std::nullopt;       // P2: no WOPR at steps 2, 5, 8
    if (w == 2 && r % 4 == 3) return std::nullopt;       // P3: no WOPR at steps 3, 7
    return 10.0 * r + (w + 1);
}
static OD gopr(int r, int g) {
    if (g == 1 && r % 3 == 0) return std::nullopt;       // G2: no GOPR at steps 3, 6, 9
    return 50.0 * r + (g + 1);
}
static double fopr(int r) { return 100.0 + r; }
static const double UNDEF = -99.0;                       // UDQPARAM item 3 in the deck

// --------------------------------------------------------------- model
enum Mode { ON, OFF, NEXT };
struct Model {
    bool has_def = false, has_assign = false, active_define = false;
    int expr = 0; Mode mode = ON; bool next_consumed = false;
    OD pending;                        // ASSIGN not yet visible
    std::vector<OD> value{std::nullopt, std::nullopt, std::nullopt};
    bool y_assigned = false;
    bool enabled(int ev) const { return (ev != UON && ev != UOFF && ev != UNEXT) || has_def || has_assign; }
    void apply(int ev) {
        switch (ev) {
        case A1: case A2: pending = ev == A1 ? 3.5 : 7.25; has_assign = true; active_define = false; break;
        case D1: case D2: has_def = true; active_define = true; expr = ev == D1 ? 1 : 2; mode = ON; next_consumed = false; break;
        case UON: if (has_def) { mode = ON; next_consumed = false; } break;
        case UOFF: if (has_def) { mode = OFF; next_consumed = false; } break;
        case UNEXT: if (has_def) { mode = NEXT; next_consumed = false; } break;
        case AY: y_assigned = true; break;
        }
    }
    std::vector<OD> define_value(int r) const {
        std::vector<OD> v;
        for (int w = 0; w < 3; ++w) { if (expr == 1) { OD o = wopr(r, w); v.push_back(o ? OD(*o + 1) : std::nullopt); } else v.push_back(fopr(r) * 2); }
        return v;
    }
    // returns what happened to x at this evaluation: 'a' assigned, 'd' define evaluated, 'k' kept
    char evaluate(int r) {
        char what = 'k';
        if (pending) { value.assign(3, pending); pending.reset(); what = 'a'; }
        if (active_define && mode != OFF) {
            value = define_value(r); what = 'd';
            if (mode == NEXT) { mode = OFF; next_consumed = true; }
        }
        return what;
    }
    std::string key() const {
        std::string s; s += has_def ? 'D' : '-'; s += has_assign ? 'A' : '-'; s += active_define ? 'd' : 'a'; s += char('0' + expr); s += char('0' + mode);
        s += pending ? (*pending == 3.5 ? '1' : '2') : '-'; s += y_assigned ? 'y' : '-';
        return s;
    }
};

// --------------------------------------------------------------- real
struct Base {
    Opm::Parser parser;
    std::shared_ptr<Opm::Python> python = std::make_shared<Opm::Python>();
    std::unique_ptr<Opm::EclipseState> es;        // built once: the non-SCHEDULE sections never change
};
static Base* B;

static std::string deck_text(const std::vector<int>& h) {
    std::string s =
        "RUNSPEC\nDIMENS\n 3 3 3 /\nOIL\nWATER\nGAS\nSTART\n 1 'JAN' 2020 /\nWELLDIMS\n 4 4 2 4 /\nTABDIMS\n/\nUDQPARAM\n 1 1E20 -99 1E-4 /\n"
        "GRID\nDX\n 27*100 /\nDY\n 27*100 /\nDZ\n 27*10 /\nTOPS\n 9*2000 /\nPORO\n 27*0.3 /\nPERMX\n 27*100 /\nPERMY\n 27*100 /\nPERMZ\n 27*10 /\n"
        "PROPS\nSOLUTION\n"
        "SCHEDULE\n"
        "WELSPECS\n 'P1' 'G1' 1 1 1* OIL /\n 'P2' 'G1' 2 1 1* OIL /\n 'P3' 'G2' 3 1 1* OIL /\n/\n"
        "COMPDAT\n 'P1' 1 1 1 1 OPEN 1* 1* 0.2 /\n 'P2' 2 1 1 1 OPEN 1* 1* 0.2 /\n 'P3' 3 1 1 1 OPEN 1* 1* 0.2 /\n/\n"
        "WCONPROD\n 'P*' OPEN ORAT 100 /\n/\n";
    for (int ev : h) {
        if (ev == STEP) s += "TSTEP\n 1 /\n";
        else { s += "UDQ\n "; s += EVN[ev]; s += " /\n/\n"; }
    }
    // fixed tail: chained definitions (one UDQ referencing another, well / group / field level)
    s += "UDQ\n DEFINE WUY WUX + WOPR /\n DEFINE FUS SUM(WUY) /\n DEFINE GUZ GOPR * 2 /\n DEFINE FUG SUM(GUZ) /\n/\n";
    for (int i = 0; i < TRAIL; ++i) s += "TSTEP\n 1 /\n";
    return s;
}
static std::string hist_str(const std::vector<int>& h) { std::string s; for (size_t i = 0; i < h.size(); ++i) { if (i) s += " ; "; s += EVN[h[i]]; } return s.empty() ? "(empty)" : s; }
static std::string show(const std::vector<OD>& v) { std::string s = "["; for (size_t i = 0; i < v.size(); ++i) { if (i) s += ", "; s += v[i] ? vf::fmt17(*v[i]) : "undef"; } return s + "]"; }
static bool same(const std::vector<OD>& a, const std::vector<OD>& b) {
    for (size_t i = 0; i < a.size(); ++i) { if (a[i].has_value() != b[i].has_value()) return false; if (a[i] && std::fabs(*a[i] - *b[i]) > 1e-12 * std::max(std::fabs(*a[i]), std::fabs(*b[i]))) return false; }
    return true;
}

static std::set<std::string> g_states;

static bool enabled(const std::vector<int>& h) { Model m; for (int ev : h) { if (!m.enabled(ev)) return false; m.apply(ev); } return true; }

// runs one enabled history on the real code; returns "" or the defect key (+ description)
static std::string check(const std::vector<int>& h, std::string& what_out, bool record) {

    std::unique_ptr<Opm::Schedule> sched;
    try {
        auto deck = B->parser.parseString(deck_text(h));
        if (!B->es) B->es = std::make_unique<Opm::EclipseState>(deck);
        sched = std::make_unique<Opm::Schedule>(deck, *B->es, B->python);
    } catch (const std::exception& e) {
        what_out = "building Schedule for history [" + hist_str(h) + "] throws: " + std::string(e.what()).substr(0, 200);
        return "C17:hist:schedule-rejects-history";
    }
    const double undef = sched->getUDQConfig(0).params().undefinedValue();
    Opm::SummaryState st(Opm::TimeService::from_time_t(sched->getStartTime()), undef);
    Opm::UDQState udq_state(undef);

    Model m;
    size_t pos = 0;
    std::string trace;
    const int nsteps = int(sched->size()) - 1;
    for (int r = 1; r <= nsteps; ++r) {
        // events of report step index r-1
        while (pos < h.size() && h[pos] != STEP) { m.apply(h[pos]); ++pos; }
        if (pos < h.size()) ++pos;       // the STEP itself
        if (record) g_states.insert(m.key());
        const std::vector<OD> before = m.value;
        const Model mb = m;
        const char what = m.evaluate(r);
        for (int w = 0; w < 3; ++w) { if (OD o = wopr(r, w)) st.update_well_var(WELLS[w], "WOPR", *o); else st.erase_well_var(WELLS[w], "WOPR"); }
        for (int g = 0; g < 2; ++g) { st.update_group_var(GROUPS[g], "GWPR", 1.0 + g); if (OD o = gopr(r, g)) st.update_group_var(GROUPS[g], "GOPR", *o); else st.erase_group_var(GROUPS[g], "GOPR"); }
        st.update("FOPR", fopr(r));
        try {
            sched->getUDQConfig(r - 1).eval(r, sched->wellMatcher(r), sched->segmentMatcherFactory(r),
                                            []() { return std::unique_ptr<Opm::RegionSetMatcher>{}; }, st, udq_state);
        } catch (const std::exception& e) {
            what_out = "history [" + hist_str(h) + "]: UDQConfig::eval at report step " + std::to_string(r) + " throws: " + std::string(e.what()).substr(0, 200);
            return "C17:hist:eval-throws";
        }
        std::vector<OD> got, got_st;
        for (int w = 0; w < 3; ++w) {
            got.push_back(udq_state.has_well_var(WELLS[w], "WUX") ? OD(udq_state.get_well_var(WELLS[w], "WUX")) : std::nullopt);
            got_st.push_back(st.has_well_var(WELLS[w], "WUX") ? OD(st.get_well_var(WELLS[w], "WUX")) : std::nullopt);
        }
        trace += show(got);
        if (!same(got, m.value)) {
            std::string key = "C17:hist:value-mismatch";
            bool stale = true; for (int w = 0; w < 3; ++w) if (!(got[w].has_value() == m.value[w].has_value() && (!got[w] || std::fabs(*got[w] - *m.value[w]) <= 1e-12 * std::fabs(*got[w]))) && !(got[w] && !m.value[w])) stale = false;
            const std::vector<OD> dv = mb.has_def ? mb.define_value(r) : std::vector<OD>(3, std::nullopt);
            if (what == 'k' && mb.active_define && same(got, dv) && !same(dv, before)) key = mb.next_consumed ? "C17:hist:next-evaluated-again" : "C17:hist:update-off-ignored";
            else if (what == 'd' && same(got, before)) key = mb.mode == NEXT ? "C17:hist:update-next-not-evaluated" : "C17:hist:define-not-evaluated";
            else if (what == 'd' && mb.pending && same(got, std::vector<OD>(3, mb.pending))) key = "C17:hist:assign-overrides-later-define";
            else if (what == 'a' && mb.has_def && same(got, dv)) key = "C17:hist:define-overrides-later-assign";
            else if (what == 'a' && same(got, before)) key = "C17:hist:assign-not-applied";
            if (stale) key = "C17:hist:udqstate-keeps-undefined-element";
            what_out = "history [" + hist_str(h) + "] then report steps: at step " + std::to_string(r) + " WUX = " + show(got) + ", lifecycle model = " + show(m.value)
                         + " (model: " + (what == 'a' ? "assigned" : what == 'd' ? "definition evaluated" : "kept") + ", previous " + show(before) + ")";
            return key;
        }
        // SummaryState must mirror UDQState (undefined is stored as the undefined value)
        for (int w = 0; w < 3; ++w) {
            const bool ok = got[w] ? (got_st[w] && *got_st[w] == *got[w]) : (!got_st[w] || *got_st[w] == undef);
            if (!ok) { what_out = "history [" + hist_str(h) + "] step " + std::to_string(r) + ": UDQState " + show(got) + " SummaryState " + show(got_st); return "C17:hist:summary-state-differs-from-udq-state"; }
        }
        if (m.y_assigned) {
            if (!udq_state.has("FUY") || udq_state.get("FUY") != 1.0) { what_out = "history [" + hist_str(h) + "] step " + std::to_string(r) + ": FUY not 1"; return "C17:hist:unrelated-quantity-lost"; }
        }
        // chained definitions of the fixed tail (active from the report step in which the history ends)
        if (r > nsteps - TRAIL) {
            std::vector<OD> wuy, guz, fus(1), fug(1);
            { double sum = 0; bool any = false;
              for (int w = 0; w < 3; ++w) { OD o = wopr(r, w); wuy.push_back(m.value[w] && o ? OD(*m.value[w] + *o) : std::nullopt); if (wuy[w]) { sum += *wuy[w]; any = true; } }
              if (any) fus[0] = sum; }
            { double sum = 0; bool any = false;
              for (int g = 0; g < 2; ++g) { OD o = gopr(r, g); guz.push_back(o ? OD(*o * 2) : std::nullopt); if (guz[g]) { sum += *guz[g]; any = true; } }
              if (any) fug[0] = sum; }
            struct Q { const char* name; char level; const std::vector<OD>* model; };
            const Q qs[] = {{"WUY", 'W', &wuy}, {"FUS", 'F', &fus}, {"GUZ", 'G', &guz}, {"FUG", 'F', &fug}};
            for (const Q& q : qs) {
                std::vector<OD> us, ss;
                for (size_t i = 0; i < q.model->size(); ++i) {
                    if (q.level == 'W') { us.push_back(udq_state.has_well_var(WELLS[i], q.name) ? OD(udq_state.get_well_var(WELLS[i], q.name)) : std::nullopt);
                                          ss.push_back(st.has_well_var(WELLS[i], q.name) ? OD(st.get_well_var(WELLS[i], q.name)) : std::nullopt); }
                    else if (q.level == 'G') { us.push_back(udq_state.has_group_var(GROUPS[i], q.name) ? OD(udq_state.get_group_var(GROUPS[i], q.name)) : std::nullopt);
                                               ss.push_back(st.has_group_var(GROUPS[i], q.name) ? OD(st.get_group_var(GROUPS[i], q.name)) : std::nullopt); }
                    else { us.push_back(udq_state.has(q.name) ? OD(udq_state.get(q.name)) : std::nullopt); ss.push_back(st.has(q.name) ? OD(st.get(q.name)) : std::nullopt); }
                }
                trace += show(us);
                // SummaryState carries the evaluated set of this step: undefined elements hold the undefined value
                std::vector<OD> ss_norm = ss; for (auto& x : ss_norm) if (x && *x == undef) x.reset();
                const bool st_ok = same(ss_norm, *q.model), us_ok = same(us, *q.model);
                if (st_ok && us_ok) continue;
                bool stale = !us_ok; for (size_t i = 0; i < us.size(); ++i) { const bool eq = us[i].has_value() == (*q.model)[i].has_value() && (!us[i] || std::fabs(*us[i] - *(*q.model)[i]) <= 1e-12 * std::fabs(*us[i])); if (!eq && !(us[i] && !(*q.model)[i])) stale = false; }
                what_out = "history [" + hist_str(h) + "] + tail {DEFINE WUY WUX + WOPR; DEFINE FUS SUM(WUY); DEFINE GUZ GOPR * 2; DEFINE FUG SUM(GUZ)}: at step " + std::to_string(r) + " " + q.name
                         + ": UDQState " + show(us) + ", SummaryState " + show(ss) + ", model " + show(*q.model) + " (WUX model " + show(m.value) + ")";
                if (stale && st_ok) return "C17:hist:udqstate-keeps-undefined-element";
                return std::string("C17:hist:chain:") + q.name + (us_ok ? ":summary-state" : st_ok ? ":udq-state" : ":value");
            }
        }
    }
    if (record) {
        R->traces_validated++;
        R->observe(trace);
        if (R->evaluations % 97 == 1) R->sample_str(hist_str(h) + "  =>  " + trace);
    }
    return "";
}

struct Found { std::vector<int> h; std::string what; };
static std::map<std::string, Found> g_viol;       // defect key -> shortest history (after shrinking)
static void do_case(const std::vector<int>& h) {
    if (!enabled(h)) { R->count("histories_not_enabled"); return; }
    const std::string cs = vf::join_ints(h);
    R->current(cs + " = " + hist_str(h));
    R->evaluations++; R->transitions += h.size();
    std::string what;
    const std::string key = check(h, what, true);
    if (key.empty()) return;
    R->count("viol:" + key);
    // shrink: drop single events while the same defect key is reproduced
    std::vector<int> best = h; bool shrunk = true;
    while (shrunk) {
        shrunk = false;
        for (size_t i = 0; i < best.size(); ++i) {
            std::vector<int> c = best; c.erase(c.begin() + i);
            std::string w2;
            if (enabled(c) && check(c, w2, false) == key) { best = c; what = w2; shrunk = true; break; }
        }
    }
    auto& f = g_viol[key];
    if (f.what.empty() || best.size() < f.h.size()) f = {best, what};
}
static void flush_violations_1() {
    for (auto& [key, f] : g_viol) R->violation(key, f.what, "{\"case\": " + vf::jstr(vf::join_ints(f.h)) + ", \"history\": " + vf::jstr(hist_str(f.h)) + "}");
}

// =====================================================================================================
// Regime M — three quantities with cross references (B refers to A, C refers to B) at field, well or
// group level; every kind of (re)declaration in every order.
//
// Events (15):  ASSIGN A 3.5 | DEFINE A in + 1 | DEFINE A in * 2 | UPDATE A OFF|ON|NEXT |
//               ASSIGN B 7.25 | DEFINE B A + 1 | DEFINE B A * 2 | UPDATE B OFF|ON|NEXT |
//               ASSIGN C 1.5 | DEFINE C B * 3 | next report step
// with `in` = FOPR / WOPR / GOPR and A, B, C = FU_A.. / WU_A.. / GU_A.. .
//
// Reference semantics: the input order of the quantities is the order of their first appearance in any
// ASSIGN/DEFINE record and never changes afterwards (a quantity that entered as ASSIGN and is DEFINEd later
// keeps its place).  At every evaluation the ASSIGNs entered since the last evaluation are applied first;
// then the quantities that are currently DEFINEd (update mode not OFF) are evaluated in input order, each
// seeing the values the earlier quantities got in this same evaluation and the previous values of later ones.
// A quantity that does not exist yet is undefined.  Every quantity is compared after every evaluation in
// UDQState and SummaryState.
enum { MA_ASG, MA_D1, MA_D2, MA_OFF, MA_ON, MA_NEXT, MB_ASG, MB_D1, MB_D2, MB_OFF, MB_ON, MB_NEXT, MC_ASG, MC_D1, MSTEP, MNEV };
static const int MTRAIL = 3;
struct Level { char c; const char* in; int n; };
static const Level LEVELS[] = {{'F', "FOPR", 1}, {'W', "WOPR", 3}, {'G', "GOPR", 2}};
static std::string qname(char lv, int q) { return std::string(1, lv) + "U_" + char('A' + q); }
static std::string mev_str(char lv, int ev) {
    const std::string A = qname(lv, 0), Bq = qname(lv, 1), C = qname(lv, 2);
    const std::string in = lv == 'F' ? "FOPR" : lv == 'W' ? "WOPR" : "GOPR";
    switch (ev) {
    case MA_ASG: return "ASSIGN " + A + " 3.5";   case MA_D1: return "DEFINE " + A + " " + in + " + 1"; case MA_D2: return "DEFINE " + A + " " + in + " * 2";
    case MA_OFF: return "UPDATE " + A + " OFF";   case MA_ON: return "UPDATE " + A + " ON";             case MA_NEXT: return "UPDATE " + A + " NEXT";
    case MB_ASG: return "ASSIGN " + Bq + " 7.25"; case MB_D1: return "DEFINE " + Bq + " " + A + " + 1"; case MB_D2: return "DEFINE " + Bq + " " + A + " * 2";
    case MB_OFF: return "UPDATE " + Bq + " OFF";  case MB_ON: return "UPDATE " + Bq + " ON";            case MB_NEXT: return "UPDATE " + Bq + " NEXT";
    case MC_ASG: return "ASSIGN " + C + " 1.5";   case MC_D1: return "DEFINE " + C + " " + Bq + " * 3";
    default: return "STEP";
    }
}
static std::string mhist_str(char lv, const std::vector<int>& h) { std::string s; for (size_t i = 0; i < h.size(); ++i) { if (i) s += " ; "; s += mev_str(lv, h[i]); } return s.empty() ? "(empty)" : s; }
static OD minput(char lv, int r, int i) { return lv == 'F' ? OD(fopr(r)) : lv == 'W' ? wopr(r, i) : gopr(r, i); }

struct QM {
    bool has_def = false, has_assign = false, active_define = false;
    int expr = 0; Mode mode = ON; bool next_consumed = false; OD pending; int order = -1;
    std::vector<OD> value;
};
struct MModel {
    char lv; int n; QM q[3]; int norder = 0;
    std::vector<OD> mid[3];            // values after the ASSIGNs of this evaluation, before any DEFINE was evaluated
    MModel(char l, int nn) : lv(l), n(nn) { for (auto& x : q) x.value.assign(n, std::nullopt); }
    static int quantity(int ev) { return ev < MB_ASG ? 0 : ev < MC_ASG ? 1 : 2; }
    bool enabled(int ev) const {
        if (ev == MSTEP) return true;
        const QM& x = q[quantity(ev)];
        const bool upd = ev == MA_OFF || ev == MA_ON || ev == MA_NEXT || ev == MB_OFF || ev == MB_ON || ev == MB_NEXT;
        return !upd || x.has_def || x.has_assign;
    }
    void apply(int ev) {
        if (ev == MSTEP) return;
        QM& x = q[quantity(ev)];
        auto appear = [&]() { if (x.order < 0) x.order = norder++; };
        switch (ev) {
        case MA_ASG: case MB_ASG: case MC_ASG: appear(); x.pending = ev == MA_ASG ? 3.5 : ev == MB_ASG ? 7.25 : 1.5; x.has_assign = true; x.active_define = false; break;
        case MA_D1: case MB_D1: case MC_D1: appear(); x.has_def = true; x.active_define = true; x.expr = 1; x.mode = ON; x.next_consumed = false; break;
        case MA_D2: case MB_D2: appear(); x.has_def = true; x.active_define = true; x.expr = 2; x.mode = ON; x.next_consumed = false; break;
        case MA_OFF: case MB_OFF: if (x.has_def) { x.mode = OFF; x.next_consumed = false; } break;
        case MA_ON: case MB_ON: if (x.has_def) { x.mode = ON; x.next_consumed = false; } break;
        case MA_NEXT: case MB_NEXT: if (x.has_def) { x.mode = NEXT; x.next_consumed = false; } break;
        }
    }
    // value of quantity k's defining expression given operand values `src` (of the quantity it refers to; summary input for A)
    std::vector<OD> expr_value(int k, int r, const std::vector<OD>& src) const {
        std::vector<OD> v;
        for (int i = 0; i < n; ++i) {
            OD o = k == 0 ? minput(lv, r, i) : src[i];
            if (!o) { v.push_back(std::nullopt); continue; }
            v.push_back(k == 2 ? *o * 3 : q[k].expr == 1 ? *o + 1 : *o * 2);
        }
        return v;
    }
    // what[k]: 'a' assigned, 'd' definition evaluated, 'k' kept
    void evaluate(int r, char what[3]) {
        for (int k = 0; k < 3; ++k) { what[k] = 'k'; if (q[k].pending) { q[k].value.assign(n, q[k].pending); q[k].pending.reset(); what[k] = 'a'; } mid[k] = q[k].value; }
        for (int o = 0; o < norder; ++o) for (int k = 0; k < 3; ++k) {
            if (q[k].order != o || !q[k].active_define || q[k].mode == OFF) continue;
            q[k].value = expr_value(k, r, k == 0 ? q[0].value : q[k - 1].value); what[k] = 'd';
            if (q[k].mode == NEXT) { q[k].mode = OFF; q[k].next_consumed = true; }
        }
    }
    std::string key() const {
        std::string s(1, lv);
        for (const QM& x : q) { s += x.has_def ? 'D' : '-'; s += x.has_assign ? 'A' : '-'; s += x.active_define ? 'd' : 'a'; s += char('0' + x.expr); s += char('0' + x.mode); s += x.pending ? 'p' : '-'; s += char('0' + x.order + 1); }
        return s;
    }
};
static bool menabled(char lv, int n, const std::vector<int>& h) { MModel m(lv, n); for (int ev : h) { if (!m.enabled(ev)) return false; m.apply(ev); } return true; }

static std::string mdeck_text(char lv, const std::vector<int>& h) {
    std::string s = deck_text({});                       // base deck + tail + TRAIL steps of regime 1 ...
    s.erase(s.find("UDQ\n DEFINE WUY"));                 // ... without them
    for (int ev : h) {
        if (ev == MSTEP) s += "TSTEP\n 1 /\n";
        else { s += "UDQ\n "; s += mev_str(lv, ev); s += " /\n/\n"; }
    }
    for (int i = 0; i < MTRAIL; ++i) s += "TSTEP\n 1 /\n";
    return s;
}

static std::string mcheck(const Level& L, const std::vector<int>& h, std::string& what_out, bool record) {
    const char lv = L.c; const int n = L.n;
    const std::string hs = std::string(1, lv) + "-level history [" + mhist_str(lv, h) + "]";
    std::unique_ptr<Opm::Schedule> sched;
    try {
        auto deck = B->parser.parseString(mdeck_text(lv, h));
        if (!B->es) B->es = std::make_unique<Opm::EclipseState>(deck);
        sched = std::make_unique<Opm::Schedule>(deck, *B->es, B->python);
    } catch (const std::exception& e) {
        what_out = "building Schedule for " + hs + " throws: " + std::string(e.what()).substr(0, 200);
        return "C17:hist:schedule-rejects-history";
    }
    const double undef = sched->getUDQConfig(0).params().undefinedValue();
    Opm::SummaryState st(Opm::TimeService::from_time_t(sched->getStartTime()), undef);
    Opm::UDQState udq_state(undef);
    MModel m(lv, n);
    size_t pos = 0; std::string trace;
    const int nsteps = int(sched->size()) - 1;
    for (int r = 1; r <= nsteps; ++r) {
        while (pos < h.size() && h[pos] != MSTEP) { m.apply(h[pos]); ++pos; }
        if (pos < h.size()) ++pos;
        if (record) g_states.insert(m.key());
        const MModel mb = m;
        char what[3]; m.evaluate(r, what);
        for (int w = 0; w < 3; ++w) { if (OD o = wopr(r, w)) st.update_well_var(WELLS[w], "WOPR", *o); else st.erase_well_var(WELLS[w], "WOPR"); }
        for (int g = 0; g < 2; ++g) { st.update_group_var(GROUPS[g], "GWPR", 1.0 + g); if (OD o = gopr(r, g)) st.update_group_var(GROUPS[g], "GOPR", *o); else st.erase_group_var(GROUPS[g], "GOPR"); }
        st.update("FOPR", fopr(r));
        try {
            sched->getUDQConfig(r - 1).eval(r, sched->wellMatcher(r), sched->segmentMatcherFactory(r),
                                            []() { return std::unique_ptr<Opm::RegionSetMatcher>{}; }, st, udq_state);
        } catch (const std::exception& e) {
            const std::string msg = e.what();
            what_out = hs + ": UDQConfig::eval at report step " + std::to_string(r) + " throws: " + msg.substr(0, 200);
            if (msg.find("not yet implemented") != std::string::npos) return std::string("C17:hist:eval-throws:not-implemented:") + (lv == 'F' ? "field" : lv == 'W' ? "well" : "group") + "-level";
            return "C17:hist:eval-throws";
        }
        // compare in input order (quantities that never appeared must be unknown to both states)
        std::vector<int> order; for (int o = 0; o < m.norder; ++o) for (int k = 0; k < 3; ++k) if (m.q[k].order == o) order.push_back(k);
        for (int k = 0; k < 3; ++k) if (m.q[k].order < 0) order.push_back(k);
        for (int k : order) {
            const std::string nm = qname(lv, k);
            std::vector<OD> us, ss;
            for (int i = 0; i < n; ++i) {
                if (lv == 'W') { us.push_back(udq_state.has_well_var(WELLS[i], nm) ? OD(udq_state.get_well_var(WELLS[i], nm)) : std::nullopt); ss.push_back(st.has_well_var(WELLS[i], nm) ? OD(st.get_well_var(WELLS[i], nm)) : std::nullopt); }
                else if (lv == 'G') { us.push_back(udq_state.has_group_var(GROUPS[i], nm) ? OD(udq_state.get_group_var(GROUPS[i], nm)) : std::nullopt); ss.push_back(st.has_group_var(GROUPS[i], nm) ? OD(st.get_group_var(GROUPS[i], nm)) : std::nullopt); }
                else { us.push_back(udq_state.has(nm) ? OD(udq_state.get(nm)) : std::nullopt); ss.push_back(st.has(nm) ? OD(st.get(nm)) : std::nullopt); }
            }
            trace += show(us);
            const std::vector<OD>& want = m.q[k].value;
            const std::vector<OD>& before = mb.q[k].value;
            if (!same(us, want)) {
                const QM& xb = mb.q[k];
                // operand values: this evaluation's (model) and the previous evaluation's
                const std::vector<OD>& src_now = k == 0 ? m.q[0].value : m.q[k - 1].value;
                const std::vector<OD>& src_old = k == 0 ? mb.q[0].value : mb.q[k - 1].value;
                const std::vector<OD> fresh = xb.has_def ? mb.expr_value(k, r, src_now) : std::vector<OD>(n, std::nullopt);
                const std::vector<OD> lagged = xb.has_def ? mb.expr_value(k, r, src_old) : std::vector<OD>(n, std::nullopt);
                bool stale = true; for (int i = 0; i < n; ++i) { const bool eq = us[i].has_value() == want[i].has_value() && (!us[i] || std::fabs(*us[i] - *want[i]) <= 1e-12 * std::fabs(*us[i])); if (!eq && !(us[i] && !want[i])) stale = false; }
                std::string key = "C17:hist:multi:value-mismatch";
                // the definition was evaluated, but with its operand's value of another moment of this evaluation
                // (before / after the operand's own re-evaluation): DEFINEs not evaluated in input order
                const std::vector<OD> midv = xb.has_def && k > 0 ? mb.expr_value(k, r, m.mid[k - 1]) : std::vector<OD>(n, std::nullopt);
                if (what[k] == 'd' && k > 0 && ((same(us, lagged) && !same(lagged, want)) || (same(us, midv) && !same(midv, want)) || (same(us, fresh) && !same(fresh, want)))) key = "C17:hist:define-evaluation-order";
                else if (what[k] == 'k' && xb.active_define && same(us, fresh) && !same(fresh, before)) key = xb.next_consumed ? "C17:hist:next-evaluated-again" : "C17:hist:update-off-ignored";
                else if (what[k] == 'k' && xb.active_define && xb.next_consumed && k > 0 && ((same(us, lagged) && !same(lagged, before)) || (same(us, midv) && !same(midv, before)))) key = "C17:hist:next-evaluated-again";
                else if (what[k] == 'd' && same(us, before)) key = xb.mode == NEXT ? "C17:hist:update-next-not-evaluated" : "C17:hist:define-not-evaluated";
                else if (what[k] == 'd' && xb.pending && same(us, std::vector<OD>(n, xb.pending))) key = "C17:hist:assign-overrides-later-define";
                else if (what[k] == 'a' && xb.has_def && (same(us, fresh) || same(us, lagged))) key = "C17:hist:define-overrides-later-assign";
                else if (what[k] == 'a' && same(us, before)) key = "C17:hist:assign-not-applied";
                else if (stale) key = "C17:hist:udqstate-keeps-undefined-element";
                what_out = hs + " then report steps: at step " + std::to_string(r) + " " + nm + " = " + show(us) + " (UDQState), model = " + show(want)
                         + " (model: " + (what[k] == 'a' ? "assigned" : what[k] == 'd' ? "definition evaluated in input order" : "kept") + ", previous " + show(before) + ")";
                return key;
            }
            std::vector<OD> ss_norm = ss; for (auto& x : ss_norm) if (x && *x == undef) x.reset();
            if (!same(ss_norm, want)) {
                what_out = hs + " step " + std::to_string(r) + " " + nm + ": UDQState " + show(us) + " SummaryState " + show(ss) + " model " + show(want);
                return "C17:hist:summary-state-differs-from-udq-state";
            }
        }
    }
    if (record) {
        R->traces_validated++;
        R->observe(std::string(1, lv) + trace);
        if (R->evaluations % 997 == 1) R->sample_str(std::string(1, lv) + ": " + mhist_str(lv, h) + "  =>  " + trace);
    }
    return "";
}

struct MFound { std::string cs, hist, what; size_t len = 0; };
static std::map<std::string, MFound> g_mviol;
static void do_mcase(const Level& L, const std::vector<int>& h) {
    if (!menabled(L.c, L.n, h)) { R->count(std::string("M") + L.c + ":histories_not_enabled"); return; }
    const std::string cs = std::string("M") + L.c + ":" + vf::join_ints(h);
    R->current(cs + " = " + mhist_str(L.c, h));
    R->evaluations++; R->transitions += h.size(); R->count(std::string("M") + L.c + ":histories");
    std::string what;
    const std::string key = mcheck(L, h, what, true);
    if (key.empty()) return;
    R->count("viol:" + key);
    std::vector<int> best = h; bool shrunk = true;
    while (shrunk) {
        shrunk = false;
        for (size_t i = 0; i < best.size(); ++i) {
            std::vector<int> c = best; c.erase(c.begin() + i);
            std::string w2;
            if (menabled(L.c, L.n, c) && mcheck(L, c, w2, false) == key) { best = c; what = w2; shrunk = true; break; }
        }
    }
    auto& f = g_mviol[key];
    if (f.what.empty() || best.size() < f.len) f = {std::string("M") + L.c + ":" + vf::join_ints(best), mhist_str(L.c, best), what, best.size()};
}

static void flush_violations() {
    flush_violations_1();
    for (auto& [key, f] : g_mviol) R->violation(key, f.what, "{\"case\": " + vf::jstr(f.cs) + ", \"history\": " + vf::jstr(f.hist) + "}");
}

int main(int argc, char** argv) {
    vf::Run run("C17", argc, argv); R = &run;
    Base base; B = &base;
    const int L = run.thorough() ? 5 : 4;
    run.rule = "all event sequences up to length " + std::to_string(L) + " over {ASSIGN x v1|v2, DEFINE x e1|e2, UPDATE x ON|OFF|NEXT, ASSIGN y (unrelated), next report step} + fixed tail {DEFINE WUY WUX + WOPR; DEFINE FUS SUM(WUY); DEFINE GUZ GOPR * 2; DEFINE FUG SUM(GUZ)} + 4 trailing report steps, "
               "through real SCHEDULE UDQ keywords; one UDQConfig::eval per report step with carried UDQState/SummaryState and step-dependent summary values in which well/group elements go defined -> undefined -> defined; after every step WUX and (tail) WUY, FUS, GUZ, FUG are read back through UDQState (has/get at well, group, field level) and SummaryState; oracle: reference lifecycle model + element-wise evaluation with undefined propagation; "
               "regime M: all event sequences up to length " + std::to_string(L) + " over the 15 events {ASSIGN A | DEFINE A in+1 | DEFINE A in*2 | UPDATE A OFF|ON|NEXT | ASSIGN B | DEFINE B A+1 | DEFINE B A*2 | UPDATE B OFF|ON|NEXT | ASSIGN C | DEFINE C B*3 | next report step} "
               "for three cross-referencing quantities at field (FU_A..), well (WU_A..) and group (GU_A..) level + 3 trailing report steps; every quantity compared after every evaluation in UDQState and SummaryState with a model that applies ASSIGNs at their step and evaluates DEFINEs in the order of first appearance of the quantities in the UDQ input; distinct = distinct value traces";
    run.assumptions = {
        "lifecycle model: ASSIGN makes x a constant from that step on; DEFINE (re)defines x with update mode ON; ON = evaluated every step, OFF = frozen, NEXT = evaluated at the next step only then frozen; the later of ASSIGN/DEFINE decides",
        "UPDATE before any ASSIGN/DEFINE of x is not enabled (input rejected); UPDATE of a currently ASSIGNed quantity has no observable effect",
        "one evaluation per report step (sub-steps of a report step are not modelled); ASSIGN uses no well selector (a selector after a DEFINE is ambiguous in the statement)",
        "expressions e1 = WOPR + 1 (well set), e2 = FOPR * 2 (scalar scattered); summary values change every step so stale and fresh evaluations differ",
        "an element that evaluates to undefined must be absent from UDQState and hold the undefined value (UDQPARAM item 3 = -99) in SummaryState; a quantity referenced before it exists is undefined; SUM of an all-undefined set is undefined",
        "the chained definitions are entered after the history's events, so they are evaluated after WUX (definition order)",
        "regime M: the input order of a quantity is fixed by its first ASSIGN/DEFINE record and is kept when it is later switched between ASSIGN and DEFINE; within one evaluation a DEFINE sees this evaluation's values of quantities earlier in that order and the previous values of later ones; a history stops being compared at its first disagreement"};

    if (!run.replay_path.empty()) {
        std::vector<int> h; std::string s = run.replay_path;
        const Level* ml = nullptr;
        if (s.size() >= 3 && s[0] == 'M') { for (auto& l : LEVELS) if (l.c == s[1]) ml = &l; s = s.substr(3); }
        for (auto& c : s) if (c == ',') c = ' ';
        std::istringstream is(s); int v; while (is >> v) h.push_back(v);
        if (ml) do_mcase(*ml, h); else do_case(h);
        flush_violations();
        return run.finish();
    }
    for (int len = 0; len <= L; ++len) {
        std::vector<int> h(len, 0);
        while (true) {
            if (run.mine()) { if (run.timed_out()) break; do_case(h); }
            int d = 0;
            while (d < len) { if (++h[d] < NEV) break; h[d] = 0; ++d; }
            if (d >= len) break;
        }
    }
    // regime M: three cross-referencing quantities, per level
    for (const Level& lvl : LEVELS) {
        const int ML = run.thorough() ? 5 : 4;
        for (int len = 0; len <= ML; ++len) {
            std::vector<int> h(len, 0);
            while (true) {
                if (run.mine()) { if (run.timed_out()) break; do_mcase(lvl, h); }
                int d = 0;
                while (d < len) { if (++h[d] < MNEV) break; h[d] = 0; ++d; }
                if (d >= len) break;
            }
        }
    }
    run.count("model_states_seen_by_shard0", run.shard == 0 ? (long long)g_states.size() : 0);
    flush_violations();
    return run.finish();
}
