// C16 variant TU: generic static template Evaluation<double,14> (opm/material/densead/Evaluation.hpp)
#include "C16_impl.hpp"
C16_STATIC_TU(14, "generic")
