// C11 — serialization round trip.  Test objects are the states reached by bounded-exhaustive
// searches (Schedule histories of the C03 alphabets, dynamic-state update sequences) plus
// EclipseState / SummaryConfig of model decks; on every object: pack, unpack into a fresh
// object (exactly the packed bytes consumed), operator==, canon (all serialized members),
// public query sweep, re-pack to identical length/bytes, and for Schedules "same future"
// (applying one more action keyword to both).
#include "vf.hpp"
#include "canon.hpp"
#include "obs.hpp"
#include "schedgen.hpp"
#include <opm/common/OpmLog/OpmLog.hpp>
#include <opm/common/utility/MemPacker.hpp>
#include <opm/common/utility/Serializer.hpp>
#include <opm/common/utility/TimeService.hpp>
#include <opm/input/eclipse/Deck/Deck.hpp>
#include <opm/input/eclipse/EclipseState/Aquifer/AquiferConfig.hpp>
#include <opm/input/eclipse/EclipseState/EclipseState.hpp>
#include <opm/input/eclipse/EclipseState/SummaryConfig/SummaryConfig.hpp>
#include <opm/input/eclipse/EclipseState/Tables/TableManager.hpp>
#include <opm/input/eclipse/Schedule/UDQ/UDQParams.hpp>
#include <opm/input/eclipse/Parser/Parser.hpp>
#include <opm/input/eclipse/Python/Python.hpp>
#include <opm/input/eclipse/Schedule/Action/ActionResult.hpp>
#include <opm/input/eclipse/Schedule/Action/ActionX.hpp>
#include <opm/input/eclipse/Schedule/Action/Actions.hpp>
#include <opm/input/eclipse/Schedule/Action/SimulatorUpdate.hpp>
#include <opm/input/eclipse/Schedule/Action/State.hpp>
#include <opm/input/eclipse/Schedule/Schedule.hpp>
#include <opm/input/eclipse/Schedule/SummaryState.hpp>
#include <opm/input/eclipse/Schedule/UDQ/UDQSet.hpp>
#include <opm/input/eclipse/Schedule/UDQ/UDQState.hpp>
#include <opm/input/eclipse/Schedule/Well/WellTestState.hpp>
#include <opm/output/data/Solution.hpp>
#include <opm/output/data/Wells.hpp>
#include <opm/output/data/Groups.hpp>
#include <opm/output/data/Aquifer.hpp>
#include <opm/output/eclipse/RestartValue.hpp>
#include "sched_includes.hpp"

using namespace Opm;
static vf::Run* R;
static Parser* P;
static std::shared_ptr<Python> g_python;
static std::unique_ptr<EclipseState> g_es;

struct Ser : Serializer<Serialization::MemPacker> {
    Serialization::MemPacker pk;
    Ser() : Serializer<Serialization::MemPacker>(pk) {}
    const std::vector<char>& buf() const { return this->m_buffer; }
};

static std::string first_diff(const std::string& a, const std::string& b) { size_t p = 0; while (p < a.size() && p < b.size() && a[p] == b[p]) ++p; size_t s = p > 100 ? p - 100 : 0; return "…" + a.substr(s, 220) + "  VS  …" + b.substr(s, 220); }

template <class T, class = void> struct has_eq : std::false_type {};
template <class T> struct has_eq<T, std::void_t<decltype(std::declval<const T&>() == std::declval<const T&>())>> : std::true_type {};

// generic round trip; Fresh creates the object to unpack into; Obs = public query sweep
template <class T, class Fresh, class ObsF>
static bool roundtrip(const std::string& cls, const T& x, Fresh&& fresh, ObsF&& obsf, const std::string& casestr, T** out = nullptr) {
    R->evaluations++;
    const std::string rp = "{\"case\": " + vf::jstr(casestr) + "}";
    static thread_local std::unique_ptr<T> keep;
    try {
        const std::string cx0 = vf::canon(x);       // no public getter is called before pack(): getters fill serialized caches
        Ser s1; s1.pack(x);
        const size_t packed = s1.position();
        if (s1.buf().size() != packed) R->violation("C11:" + cls + ":buffer-size-differs-from-bytes-written", cls + ": pack() sized its buffer for " + std::to_string(s1.buf().size()) + " bytes but wrote " + std::to_string(packed) + " (the sizing pass and the writing pass saw different objects); case " + casestr, rp);
        { const std::string cx1 = vf::canon(x); if (cx1 != cx0) R->violation("C11:" + cls + ":pack-changes-the-packed-object:m" + std::to_string(vf::first_diff_member(cx0, cx1)), cls + ": pack() changed the object it packed: " + first_diff(cx0, cx1) + "; case " + casestr, rp);
        }
        auto y = fresh();
        s1.unpack(*y);
        const size_t consumed = s1.position();
        if (consumed != packed) R->violation("C11:" + cls + ":unpack-consumes-different-size", cls + ": packed " + std::to_string(packed) + " bytes but unpack consumed " + std::to_string(consumed) + "; case " + casestr, rp);
        // re-pack FIRST: operator== and the public getters fill lazily computed caches that are serialized
        // (SummaryState::well_names/group_names, UnitSystem dimension cache): representation, not meaning
        Ser s2; s2.pack(*y);
        if (s2.position() != packed) R->violation("C11:" + cls + ":repack-length", cls + ": re-packing the unpacked object gives " + std::to_string(s2.position()) + " bytes instead of " + std::to_string(packed) + "; case " + casestr, rp);
        else if (s2.buf() != s1.buf()) R->count(cls + "_repack_bytes_differ_but_canon_equal");
        const std::string& cx = cx0; const std::string cy = vf::canon(*y);
        if (cx != cy) R->violation("C11:" + cls + ":serialized-member-differs:m" + std::to_string(vf::first_diff_member(cx, cy)), cls + ": a serialized member differs after the round trip: " + first_diff(cx, cy) + "; case " + casestr, rp);
        if constexpr (has_eq<T>::value) if (!(x == *y)) { if (cx == cy) R->violation("C11:" + cls + ":operator-eq-false", cls + ": x == unpack(pack(x)) is false although every serialized member is canonically equal; case " + casestr, rp); else R->count("operator_eq_false_with_member_difference"); }
        const std::string ox = obsf(x), oy = obsf(*y);
        if (ox != oy) R->violation("C11:" + cls + ":public-queries-differ", cls + ": the unpacked object answers public queries differently: " + first_diff(ox, oy) + "; case " + casestr, rp);
        R->observe(vf::fnv(cx));
        if (out) { keep = std::move(y); *out = keep.get(); }
        return true;
    } catch (const std::exception& e) {
        R->violation("C11:" + cls + ":throws", cls + ": pack/unpack throws " + std::string(e.what()).substr(0, 200) + "; case " + casestr, rp);
        return false;
    }
}

// ---------------------------------------------------------------- Schedule ---
static std::string g_prelude;
static const std::vector<schedgen::Ev>* g_alpha;
static std::unique_ptr<Schedule> build(const std::vector<int>& h) {
    try { auto deck = P->parseString(schedgen::render(*g_alpha, h, "METRIC", g_prelude)); return std::make_unique<Schedule>(deck, *g_es, g_python); } catch (const std::exception&) { return nullptr; }
}
static std::string sched_obs(const Schedule& s) { std::string o = "n=" + std::to_string(s.size()) + ";"; for (size_t k = 0; k < s.size(); ++k) o += obs::sched_state(s, k) + "#"; o += " restart_output:" + vf::canon(s.exitStatus()); return o; }
static void check_schedule(const std::string& regime, const std::vector<int>& h) {
    const std::string cs = regime + " " + vf::join_ints(h, " ");
    R->current(cs);
    auto x = build(h);
    if (!x) { R->count("histories_rejected"); return; }
    R->states++;
    Schedule* y = nullptr;
    if (!roundtrip("Schedule", *x, [] { return std::make_unique<Schedule>(g_python); }, sched_obs, cs, &y) || !y) return;
    // same future: apply the action A1 (if defined) at the last step to both
    try {
        const size_t last = x->size() - 1;
        if ((*x)[last].actions().has("A1") && x->hasWell("P1", last)) {
            R->transitions++;
            auto res = Action::Result{true}.wells(std::vector<std::string>{"P1"});
            x->applyAction(last, (*x)[last].actions()["A1"], res.matches(), std::unordered_map<std::string, double>{});
            y->applyAction(last, (*y)[last].actions()["A1"], res.matches(), std::unordered_map<std::string, double>{});
            const std::string cx = vf::canon(*x), cy = vf::canon(*y);
            if (cx != cy) R->violation("C11:Schedule:future-differs", "applying ACTIONX A1 to the original and to the unpacked Schedule gives different schedules: " + first_diff(cx, cy) + "; case " + cs, "{\"case\": " + vf::jstr(cs) + "}");
            R->count("schedules_with_future_check");
        }
    } catch (const std::exception& e) { R->count("future_check_threw"); }
}
static void dfs(const std::string& regime, std::vector<int>& h, int depth, int maxdepth, int maxtime) {
    if (R->timed_out()) return;
    if (depth >= 1 && (depth > 1 || true)) { /* checked below */ }
    for (int e = 0; e < (int)g_alpha->size(); ++e) {
        int k = 0; for (int x : h) if ((*g_alpha)[x].time) ++k;
        if ((*g_alpha)[e].time && k >= maxtime) continue;
        h.push_back(e);
        bool mine = true;
        if (depth + 1 == 2) mine = R->mine();           // shard on the second event: a shard owns whole subtrees below depth 2
        if (depth + 1 >= 2 && !mine) { h.pop_back(); continue; }
        auto s = build(h);
        if (s) {
            if (depth + 1 >= 2 || R->shard == 0) check_schedule(regime, h);
            if (depth + 1 < maxdepth) dfs(regime, h, depth + 1, maxdepth, maxtime);
        }
        h.pop_back();
    }
}

// ------------------------------------------------------------ dynamic states ---
static void dynamic_states(bool thorough) {
    const int depth = thorough ? 4 : 3;
    // SummaryState: sequences of updates
    {
        const int nev = 8;
        std::vector<int> h; std::function<void()> rec = [&] {
            if (!h.empty() && R->mine()) {
                SummaryState st(TimeService::from_time_t(1577836800), 0.0);
                for (int e : h) switch (e) {
                    case 0: st.update("FOPR", 100.5); break; case 1: st.update("FOPT", 10.0); break; case 2: st.update_well_var("P1", "WOPR", 7.25); break; case 3: st.update_well_var("P2", "WOPT", 3.0); break;
                    case 4: st.update_group_var("G1", "GOPR", 55.0); break; case 5: st.update_elapsed(86400.0); break; case 6: st.update_conn_var("P1", "COPR", 5, 1.5); break; case 7: st.update_segment_var("P2", "SOFR", 2, 0.25); break; }
                roundtrip("SummaryState", st, [] { return std::make_unique<SummaryState>(TimeService::from_time_t(0), 0.0); }, [](const SummaryState& s) { std::string o; for (const auto& [k, v] : s) { (void)v; } o += vf::canon(s.get_elapsed()); for (auto k : {"FOPR", "FOPT"}) o += s.has(k) ? vf::fmt17(s.get(k)) : "-"; o += s.has_well_var("P1", "WOPR") ? vf::fmt17(s.get_well_var("P1", "WOPR")) : "-"; o += s.has_well_var("P2", "WOPT") ? vf::fmt17(s.get_well_var("P2", "WOPT")) : "-"; o += s.has_group_var("G1", "GOPR") ? vf::fmt17(s.get_group_var("G1", "GOPR")) : "-"; o += s.has_conn_var("P1", "COPR", 5) ? vf::fmt17(s.get_conn_var("P1", "COPR", 5)) : "-"; o += s.has_segment_var("P2", "SOFR", 2) ? vf::fmt17(s.get_segment_var("P2", "SOFR", 2)) : "-"; for (auto& w : s.wells()) o += w + ","; for (auto& g : s.groups()) o += g + ","; return o; }, "SummaryState " + vf::join_ints(h, " "));
            }
            if ((int)h.size() == depth) return;
            for (int e = 0; e < nev; ++e) { h.push_back(e); rec(); h.pop_back(); }
        }; rec();
    }
    // UDQState
    {
        const int nev = 6; std::vector<int> h; std::function<void()> rec = [&] {
            if (!h.empty() && R->mine()) {
                UDQState st(-999.0);
                for (int e : h) switch (e) {
                    case 0: st.add_define(1, "FUX", UDQSet::scalar("FUX", 3.5)); break; case 1: st.add_assign("FUY", UDQSet::scalar("FUY", 1.25)); break;
                    case 2: { auto s = UDQSet::wells("WUX", {"P1", "P2"}); s.assign("P1", 2.0); st.add_define(2, "WUX", s); break; }
                    case 3: { auto s = UDQSet::wells("WUX", {"P1", "P2"}, 7.0); st.add_assign("WUX", s); break; }
                    case 4: { auto s = UDQSet::groups("GUX", {"G1"}, 4.0); st.add_define(3, "GUX", s); break; }
                    case 5: st.add_define(4, "FUX", UDQSet::scalar("FUX", std::optional<double>{})); break; }
                roundtrip("UDQState", st, [] { return std::make_unique<UDQState>(0.0); }, [](const UDQState& s) { std::string o = vf::fmt17(s.undefined_value()); for (auto k : {"FUX", "FUY"}) o += s.has(k) ? vf::fmt17(s.get(k)) : "-"; for (auto w : {"P1", "P2"}) o += s.has_well_var(w, "WUX") ? vf::fmt17(s.get_well_var(w, "WUX")) : "-"; o += s.has_group_var("G1", "GUX") ? vf::fmt17(s.get_group_var("G1", "GUX")) : "-"; o += s.define({UDQUpdate::ON, 1}) ? "1" : "0"; o += s.define({UDQUpdate::NEXT, 2}) ? "1" : "0"; return o; }, "UDQState " + vf::join_ints(h, " "));
            }
            if ((int)h.size() == depth) return;
            for (int e = 0; e < nev; ++e) { h.push_back(e); rec(); h.pop_back(); }
        }; rec();
    }
    // Action::State and WellTestState
    {
        Action::ActionX a1("A1", 10, 0.0, 0), a2("A2", 3, 5.0, 100);
        const int nev = 5; std::vector<int> h; std::function<void()> rec = [&] {
            if (!h.empty() && R->mine()) {
                Action::State st;
                std::time_t t = 1000;
                for (int e : h) { t += 86400; switch (e) {
                    case 0: st.add_run(a1, t, Action::Result{true}); break; case 1: st.add_run(a1, t, Action::Result{true}.wells(std::vector<std::string>{"P1", "P2"})); break;
                    case 2: st.add_run(a2, t, Action::Result{true}.wells(std::vector<std::string>{"I1"})); break; case 3: st.add_run(a2, t, Action::Result{false}); break; case 4: st.add_run(a1, t, Action::Result{false}); break; } }
                roundtrip("ActionState", st, [] { return std::make_unique<Action::State>(); }, [&](const Action::State& s) { std::string o; for (auto* a : {&a1, &a2}) { o += std::to_string(s.run_count(*a)) + ":"; try { o += std::to_string(s.run_time(*a)); } catch (const std::exception&) { o += "-"; } o += ";"; const auto* ms = s.result(a->name()); o += ms ? "r" + std::string(ms->hasWell("P1") ? "1" : "0") + (ms->hasWell("I1") ? "1" : "0") : "none"; } return o; }, "ActionState " + vf::join_ints(h, " "));
            }
            if ((int)h.size() == depth) return;
            for (int e = 0; e < nev; ++e) { h.push_back(e); rec(); h.pop_back(); }
        }; rec();
    }
    {
        const int nev = 6; std::vector<int> h; std::function<void()> rec = [&] {
            if (!h.empty() && R->mine()) {
                WellTestState st; double t = 0; bool enabled = true;
                for (int e : h) { t += 86400; try { switch (e) {
                    case 0: st.close_well("P1", WellTestConfig::Reason::PHYSICAL, t); break; case 1: st.close_well("P2", WellTestConfig::Reason::ECONOMIC, t); break; case 2: st.open_well("P1"); break;
                    case 3: st.close_completion("P1", 2, t); break; case 4: st.open_completion("P1", 2); break; case 5: st.close_completion("P2", 1, t); break; } } catch (const std::exception&) { enabled = false; } }
                if (!enabled) R->count("dynamic_histories_not_enabled"); else
                roundtrip("WellTestState", st, [] { return std::make_unique<WellTestState>(); }, [](const WellTestState& s) { std::string o; for (auto w : {"P1", "P2"}) { o += s.well_is_closed(w) ? "c" : "o"; for (int c : {1, 2}) o += s.completion_is_closed(w, c) ? "c" : "o"; } o += std::to_string(s.num_closed_wells()) + ":" + std::to_string(s.num_closed_completions()); return o; }, "WellTestState " + vf::join_ints(h, " "));
            }
            if ((int)h.size() == depth) return;
            for (int e = 0; e < nev; ++e) { h.push_back(e); rec(); h.pop_back(); }
        }; rec();
    }
    // RestartValue: subsets of features
    for (int mask = 0; mask < 32; ++mask) {
        if (!R->mine()) continue;
        data::Solution sol; data::Wells wells; data::GroupAndNetworkValues grp; data::Aquifers aq;
        if (mask & 1) sol.insert("PRESSURE", UnitSystem::measure::pressure, std::vector<double>{1e7, 2e7, 3e7}, data::TargetType::RESTART_SOLUTION);
        if (mask & 2) sol.insert("SWAT", UnitSystem::measure::identity, std::vector<double>{0.1, 0.2, 0.3}, data::TargetType::RESTART_SOLUTION);
        if (mask & 4) { data::Well w{}; w.rates.set(data::Rates::opt::oil, -1.5e-3); w.rates.set(data::Rates::opt::wat, -2.5e-4); w.bhp = 2.1e7; w.thp = 1e6; w.temperature = 350; w.control = 3; data::Connection c{}; c.index = 5; c.pressure = 2e7; c.rates.set(data::Rates::opt::oil, -1e-3); c.trans_factor = 1e-12; w.connections.push_back(c); wells["P1"] = w; }
        if (mask & 8) { data::Well w{}; w.rates.set(data::Rates::opt::wat, 3e-3); w.bhp = 3e7; data::Segment s{}; s.segNumber = 2; s.rates.set(data::Rates::opt::wat, 1e-3); s.pressures[data::SegmentPressures::Value::Pressure] = 2.5e7; w.segments[2] = s; wells["I1"] = w; }
        if (mask & 16) { grp.groupData["G1"].currentControl.currentProdConstraint = Group::ProductionCMode::ORAT; grp.nodeData["G1"].pressure = 1.5e7; }
        RestartValue rv(sol, wells, grp, aq);
        if (mask & 2) rv.addExtra("EXTRA", UnitSystem::measure::pressure, std::vector<double>{1.0, 2.0});
        roundtrip("RestartValue", rv, [] { return std::make_unique<RestartValue>(); }, [](const RestartValue& v) { std::string o = std::to_string(v.solution.size()) + ":" + std::to_string(v.wells.size()) + ":" + std::to_string(v.extra.size()); if (v.solution.has("PRESSURE")) for (double d : v.solution.data<double>("PRESSURE")) o += vf::fmt17(d); if (v.wells.count("P1")) { const auto& w = v.wells.at("P1"); o += vf::fmt17(w.bhp) + vf::fmt17(w.rates.get(data::Rates::opt::oil)) + std::to_string(w.connections.size()) + vf::fmt17(w.connections[0].pressure); } if (v.wells.count("I1")) { const auto& w = v.wells.at("I1"); o += vf::fmt17(w.segments.at(2).pressures[data::SegmentPressures::Value::Pressure]); } o += std::to_string(v.grp_nwrk.groupData.size()); for (auto& e : v.extra) o += e.first.key + std::to_string(e.second.size()); return o; }, "RestartValue " + std::to_string(mask));
    }
}

int main(int argc, char** argv) {
    vf::Run run("C11", argc, argv); R = &run;
    OpmLog::removeAllBackends();
    Parser parser; P = &parser; g_python = std::make_shared<Python>();
    { auto bd = parser.parseString(schedgen::base_deck() + "END\n"); g_es = std::make_unique<EclipseState>(bd); }
    auto deep = schedgen::deep_alphabet(); auto broad = schedgen::broad_alphabet();
    const int deep_depth = run.thorough() ? 4 : 3;
    run.rule = "objects: every Schedule reached by histories over the C03 deep alphabet up to depth " + std::to_string(deep_depth) + " and by prelude T a T b over all ordered pairs of the broad alphabet (every SCHEDULE handler keyword); EclipseState + SummaryConfig of the model deck in 4 unit keywords x feature switches; SummaryState/UDQState/Action::State/WellTestState reached by all update sequences up to length " + std::to_string(run.thorough() ? 4 : 3) + "; RestartValue for all 32 feature subsets; UDQParams built from decks with several UDQPARAM seeds (the random stream is rebuilt on unpack and observed by drawing from a copy); UnitSystem of every family unpacked into objects of every family, observed through parse()/getDimension()/to_si/from_si (the dimension table is derived state); Schedules and SummaryStates with START in 12 years around the time-representation boundaries (1901/1970/2038/2106/2262); TableManager of 60 table families one at a time and in ordered pairs (PLYSHLOG/ROCKTAB are split and merged by hand in serializeOp), each also compared with a twin built from the same deck; invariant per object: pack() sizes its buffer for exactly the bytes it writes and leaves the packed object canonically unchanged, unpack consumes the packed size, canon equal (all serialized members), operator==, public query sweep equal, re-pack same length; Schedules additionally: applying ACTIONX A1 to original and copy gives equal schedules; states = Schedules checked, transitions = future checks";
    run.assumptions = {"EclipseState grid and field properties excluded as the statement says", "canon() normalisations (UnitSystem cache, DeckItem raw/SI flag, KeywordLocation)", "byte identity of the re-packed buffer is reported, not required (statement: same length and meaning)"};

    std::string only;                                          // replay of one ES / TM case: the enumeration below runs with this filter
    if (!run.replay_path.empty()) {
        std::istringstream ss(run.replay_path); std::string regime; ss >> regime; std::vector<int> h; int x; while (ss >> x) h.push_back(x);
        if (regime == "deep") { g_alpha = &deep; g_prelude = ""; check_schedule(regime, h); }
        else if (regime == "broad") { g_alpha = &broad; g_prelude = schedgen::prelude_wells(); check_schedule(regime, h); }
        else if (regime == "TM" || regime == "ES" || regime == "CAL" || regime == "US" || regime == "UP") { run.nshards = 1; run.shard = 0; only = run.replay_path; }
        else { run.nshards = 1; dynamic_states(true); }
        if (only.empty()) return run.finish();
    }
    g_alpha = &deep; g_prelude = "";
    if (only.empty()) { std::vector<int> h; dfs("deep", h, 0, deep_depth, 3); }
    g_alpha = &broad; g_prelude = schedgen::prelude_wells();
    if (only.empty()) {
        std::vector<int> ok; for (int a = 1; a < (int)broad.size(); ++a) if (build({0, a})) ok.push_back(a);
        for (int a : ok) for (int b : ok) { if (!run.mine()) continue; if (run.timed_out()) break; if (run.quick() && a != b && (a + b) % 3 != 0 && !(broad[a].name[0] == 'W' && broad[b].name[0] == 'G')) { /* quick: all singles via a==b diag + a third of pairs + all W x G pairs */ continue; } check_schedule("broad", {0, a, 0, b}); }
        if (run.shard == 0) run.sample_str("broad: prelude DATES " + broad[ok[3]].name + " DATES " + broad[ok[7]].name);
    }
    // EclipseState / SummaryConfig
    {
        const std::string root = std::getenv("VERIF_ROOT") ? std::getenv("VERIF_ROOT") : "/verif";
        std::ifstream f(root + "/data/MODEL1.DATA"); std::stringstream ss; ss << f.rdbuf(); const std::string model = ss.str();
        int idx = 0;
        for (const char* unit : {"METRIC", "FIELD", "LAB", "PVT-M"}) for (int feat = 0; feat < 4; ++feat, ++idx) {
            if (!run.mine()) continue;
            std::string t = model; size_t p = t.find("METRIC\n"); t.replace(p, 7, std::string(unit) + "\n");
            if (feat & 1) { size_t q = t.find("GRID\n"); t.insert(q + 5, "FAULTS\n 'F1' 1 1 1 3 1 3 X /\n/\nMULTFLT\n 'F1' 0.5 /\n/\n"); }
            if (feat & 2) { size_t q = t.find("SOLUTION\n"); t.insert(q, "EQUALS\n FIPNUM 2 1 3 1 3 1 1 /\n/\n"); size_t r = t.find("EQLDIMS"); t.insert(r, "ENDSCALE\n /\n"); }
            const std::string cs = "ES " + std::string(unit) + " " + std::to_string(feat);
            if (!only.empty() && cs != only) continue;
            run.current(cs);
            try {
                auto deck = parser.parseString(t); EclipseState es(deck); Schedule sched(deck, es, g_python); SummaryConfig sc(deck, sched, es.fieldProps(), es.aquifer());
                roundtrip("EclipseState", es, [] { return std::make_unique<EclipseState>(); }, [](const EclipseState& e) { std::string o = e.getTitle() + "|" + vf::canon(e.getDeckUnitSystem()) + "|" + vf::canon(e.runspec().phases().size()) + "|" + std::to_string(e.getTableManager().getPvtwTable().size()) + "|" + std::to_string(e.getTableManager().getSwofTables().size()) + "|" + std::to_string(e.getFaults().size()) + "|" + std::to_string(e.gridDims().getCartesianSize()) + "|" + (e.runspec().endpointScaling() ? "E" : "-") + "|" + std::to_string(e.getTableManager().getDensityTable().size()) + "|" + vf::canon(e.getSimulationConfig().hasDISGAS()) + "|" + vf::canon(e.getTableManager().getEqldims().getNumEquilRegions()); return o; }, cs);
                roundtrip("SummaryConfig", sc, [] { return std::make_unique<SummaryConfig>(); }, [](const SummaryConfig& c) { std::string o = std::to_string(c.size()) + ":"; for (const auto& n : c) o += n.keyword() + "/" + n.namedEntity() + "/" + std::to_string(n.number()) + ","; for (auto k : {"FOPR", "WOPR", "BPR", "XXXX"}) o += c.hasKeyword(k) ? "1" : "0"; return o; }, cs);
            } catch (const std::exception& e) { run.count("model_variants_rejected"); if (run.shard == 0) run.notes["model_reject"] = std::string(e.what()).substr(0, 200); }
        }
    }
    // UnitSystem of every family, unpacked into a default constructed (METRIC) object: the dimension table is derived state
    // which canon() normalises away (it is a lazily filled cache), so it is observed through the public queries here
    for (int ut = 0; ut < 4; ++ut) {
        const std::string cs = "US " + std::to_string(ut);
        if (!only.empty() && cs != only) continue;
        if (!run.mine()) continue;
        run.current(cs);
        static const UnitSystem::UnitType types[4] = {UnitSystem::UnitType::UNIT_TYPE_METRIC, UnitSystem::UnitType::UNIT_TYPE_FIELD, UnitSystem::UnitType::UNIT_TYPE_LAB, UnitSystem::UnitType::UNIT_TYPE_PVT_M};
        UnitSystem us(types[ut]);
        auto us_obs = [](const UnitSystem& u) {
            std::string o = u.getName() + "|" + std::to_string((int)u.getType()) + "|";
            for (const char* d : {"1", "Length", "Time", "Pressure", "Density", "Viscosity", "Permeability", "Transmissibility", "LiquidSurfaceVolume", "GasSurfaceVolume", "ReservoirVolume", "Mass", "Temperature", "AbsoluteTemperature", "GasDissolutionFactor", "OilDissolutionFactor", "Energy", "Length*Length", "Pressure/Length", "LiquidSurfaceVolume/Time", "GasSurfaceVolume/Time"}) {
                try { const auto dim = u.parse(d); o += std::string(d) + "=" + vf::fmt17(dim.getSIScaling()) + "+" + vf::fmt17(dim.getSIOffset()) + ";"; } catch (const std::exception&) { o += std::string(d) + "=?;"; }
                try { if (u.hasDimension(d)) { const auto& dim = u.getDimension(d); o += "g" + vf::fmt17(dim.getSIScaling()) + ";"; } } catch (const std::exception&) { o += "g?;"; }
            }
            for (int m = 0; m < 40; ++m) { try { o += vf::fmt17(u.from_si(static_cast<UnitSystem::measure>(m), 2.5)) + "," + vf::fmt17(u.to_si(static_cast<UnitSystem::measure>(m), 2.5)) + ";"; } catch (const std::exception&) { o += "-;"; } }
            return o;
        };
        roundtrip("UnitSystem", us, [] { return std::make_unique<UnitSystem>(); }, us_obs, cs);
        // and into an object that already holds another family (what ScheduleStatic / EclipseState members do)
        for (int other = 0; other < 4; ++other) {
            run.evaluations++;
            try {
                Ser sx; sx.pack(us); UnitSystem y(types[other]); sx.unpack(y);
                if (us_obs(y) != us_obs(us) || !(y == us)) run.violation("C11:UnitSystem:unpack-into-other-family", "UnitSystem " + us.getName() + " unpacked into an object constructed as " + UnitSystem(types[other]).getName() + " answers queries differently from the packed one: " + first_diff(us_obs(us), us_obs(y)), "{\"case\": " + vf::jstr(cs) + "}");
            } catch (const std::exception& e) { run.violation("C11:UnitSystem:throws", std::string("pack/unpack throws ") + e.what(), "{\"case\": " + vf::jstr(cs) + "}"); }
        }
    }
    // UDQParams built from a deck (UDQPARAM with several seeds): the simulation random stream is state that is not transferred
    // but rebuilt from the seed on unpack; the unpacked object must draw the same numbers as the packed one
    for (int seed : {1, 2, 4242}) for (int form = 0; form < 2; ++form) {
        const std::string cs = "UP " + std::to_string(seed) + " " + std::to_string(form);
        if (!only.empty() && cs != only) continue;
        if (!run.mine()) continue;
        run.current(cs);
        try {
            auto deck = parser.parseString("RUNSPEC\nUDQPARAM\n " + std::to_string(seed) + (form ? " 1e10 5.0 1e-3" : "") + " /\n");
            UDQParams up(deck);
            auto up_obs = [](const UDQParams& u) { UDQParams c = u; std::string o = std::to_string(c.rand_seed()) + "|" + vf::fmt17(c.range()) + "|" + vf::fmt17(c.undefinedValue()) + "|" + vf::fmt17(c.cmpEpsilon()) + "|" + (c.reseed() ? "R" : "-") + "|"; for (int k = 0; k < 3; ++k) o += std::to_string(c.sim_rng()()) + ","; return o; };
            roundtrip("UDQParams", up, [] { return std::make_unique<UDQParams>(); }, up_obs, cs);
        } catch (const std::exception& e) { run.count("udqparams_decks_rejected"); run.notes["udqparams_reject"] = std::string(e.what()).substr(0, 120); }
    }
    // calendar: the same histories with START in years on both sides of every representable-time boundary a packer could have
    // (1901/1902: -2^31 s, 1970: epoch, 2038: 2^31 s, 2106: 2^32 s, 2262: 2^63 ns); 14 monthly steps cross a year boundary
    {
        const int years[] = {1900, 1901, 1969, 1970, 2020, 2037, 2038, 2105, 2106, 2261, 2262, 2500};
        g_alpha = &broad; g_prelude = schedgen::prelude_wells();
        for (int y : years) for (int variant = 0; variant < 2; ++variant) {
            const std::string cs = "CAL " + std::to_string(y) + " " + std::to_string(variant);
            if (!only.empty() && cs != only) continue;
            if (!run.mine()) continue;
            run.current(cs);
            std::vector<int> h(14, 0); h.push_back(variant == 0 ? 3 : 7); h.push_back(0);
            std::string t = schedgen::render(broad, h, "METRIC", g_prelude);
            for (size_t p2 = 0; (p2 = t.find(" 2021 /", p2)) != std::string::npos; p2 += 5) t.replace(p2, 7, " Y1 /");
            for (size_t p2 = 0; (p2 = t.find(" 2020 /", p2)) != std::string::npos; p2 += 5) t.replace(p2, 7, " Y0 /");
            for (size_t p2 = 0; (p2 = t.find(" Y1 /", p2)) != std::string::npos; p2 += 5) t.replace(p2, 5, " " + std::to_string(y + 1) + " /");
            for (size_t p2 = 0; (p2 = t.find(" Y0 /", p2)) != std::string::npos; p2 += 5) t.replace(p2, 5, " " + std::to_string(y) + " /");
            try {
                auto deck = parser.parseString(t);
                EclipseState es(deck);
                auto x = std::make_unique<Schedule>(deck, es, g_python);
                const auto t_last = TimeService::to_time_t((*x)[x->size() - 1].start_time());
                if (x->size() != 16) { run.violation("C11:harness:calendar", "calendar deck has " + std::to_string(x->size()) + " states", "{\"case\": " + vf::jstr(cs) + "}"); continue; }
                roundtrip("Schedule", *x, [] { return std::make_unique<Schedule>(g_python); }, [](const Schedule& sc) { std::string o = sched_obs(sc); for (size_t k = 0; k < sc.size(); ++k) o += " t" + std::to_string(TimeService::to_time_t(sc[k].start_time())) + ":" + vf::fmt17(sc.seconds(k)); o += " start" + std::to_string(sc.getStartTime()); return o; }, cs);
                SummaryState st(TimeService::from_time_t(t_last), 0.0); st.update("FOPR", 1.5); st.update_elapsed(86400.0);
                roundtrip("SummaryState", st, [] { return std::make_unique<SummaryState>(TimeService::from_time_t(0), 0.0); }, [](const SummaryState& q) { return vf::canon(q.get_elapsed()) + (q.has("FOPR") ? vf::fmt17(q.get("FOPR")) : "-"); }, cs);
                run.count("calendar_cases");
            } catch (const std::exception& e) { run.count("calendar_decks_rejected"); run.notes["calendar_reject_" + std::to_string(y)] = std::string(e.what()).substr(0, 160); }
        }
    }
    // TableManager: one table family at a time and every ordered pair of families (serializeOp splits/merges the
    // PLYSHLOG and ROCKTAB containers by hand; every other family goes through the generic containers)
    {
        static const std::vector<std::pair<std::string, std::string>> fam = {
            {"none", ""},
            {"PLYSHLOG", "PLYSHLOG\n 1.0 3.0 /\n 0.0000001 1.0\n 1.0 1.2\n 1000.0 2.4 /\n"},
            {"ROCKTAB", "ROCKTAB\n 100 1.0 1.0\n 200 1.01 1.02\n 300 1.02 1.05 /\n"},
            {"SWOF", "SWOF\n 0.2 0 1 0\n 0.8 1 0 0 /\n"},
            {"SGOF", "SGOF\n 0 0 1 0\n 0.8 1 0 0 /\n"},
            {"SWFN", "SWFN\n 0.2 0 0\n 1 1 0 /\n"},
            {"SGFN", "SGFN\n 0 0 0\n 0.8 1 0 /\n"},
            {"SOF3", "SOF3\n 0 0 0\n 0.8 1 1 /\n"},
            {"SOF2", "SOF2\n 0 0\n 0.8 1 /\n"},
            {"PVTO", "PVTO\n 10 20 1.1 1.5\n 60 1.08 1.7 /\n 40 80 1.25 1.1\n 150 1.22 1.2 /\n/\n"},
            {"PVTG", "PVTG\n 20 0.0001 0.05 0.012\n 0 0.051 0.0121 /\n 80 0.0002 0.012 0.015\n 0 0.0125 0.0151 /\n/\n"},
            {"PVDO", "PVDO\n 10 1.1 1.5\n 100 1.05 1.6 /\n"},
            {"PVDG", "PVDG\n 10 0.1 0.012\n 100 0.01 0.015 /\n"},
            {"PVTW", "PVTW\n 200 1.01 4e-5 0.5 0 /\n"},
            {"PVCDO", "PVCDO\n 200 1.1 1e-4 1.5 0 /\n"},
            {"DENSITY", "DENSITY\n 850 1020 0.9 /\n"},
            {"ROCK", "ROCK\n 200 4e-5 /\n"},
            {"PLYADS", "PLYADS\n 0 0\n 1 0.0001 /\n"},
            {"PLYVISC", "PLYVISC\n 0 1\n 1 5 /\n"},
            {"PLYMAX", "PLYMAX\n 3 0 /\n"},
            {"PLYROCK", "PLYROCK\n 0.1 1.5 2000 1 0.0005 /\n"},
            {"PLMIXPAR", "PLMIXPAR\n 0.7 /\n"},
            {"SHRATE", "SHRATE\n 4.8 /\n"},
            {"STONE1EX", "STONE1EX\n 1.5 /\n"},
            {"VISCREF", "VISCREF\n 200 50 /\n"},
            {"WATDENT", "WATDENT\n 300 1e-4 1e-6 /\n"},
            {"PVTWSALT", "PVTWSALT\n 200 0 /\n 0 1.01 4e-5 0.5 0\n 10 1.0 4e-5 0.6 0 /\n"},
            {"BDENSITY", "BDENSITY\n 1000 1050 /\n"},
            {"SDENSITY", "SDENSITY\n 1.2 /\n"},
            {"RSVD", "RSVD\n 2000 50\n 2100 60 /\n"},
            {"RVVD", "RVVD\n 2000 0.0001\n 2100 0.0002 /\n"},
            {"PBVD", "PBVD\n 2000 100\n 2100 120 /\n"},
            {"RTEMPVD", "RTEMPVD\n 2000 60\n 2100 65 /\n"},
            {"RTEMP", "RTEMP\n 70 /\n"},
            {"SALTVD", "SALTVD\n 2000 10\n 2100 12 /\n"},
            {"TLMIXPAR", "TLMIXPAR\n 0.6 0.7 /\n"},
            {"PPCWMAX", "PPCWMAX\n 5 YES /\n"},
            {"JFUNC", "JFUNC\n BOTH 30 40 0.5 0.5 XY /\n"},
            {"GASDENT", "GASDENT\n 300 1e-4 1e-6 /\n"},
            {"OILDENT", "OILDENT\n 300 1e-4 1e-6 /\n"},
            {"SGWFN", "SGWFN\n 0 0 1 0\n 0.8 1 0 0 /\n"},
            {"SLGOF", "SLGOF\n 0.2 1 0 0\n 1 0 1 0 /\n"},
            {"PLYDHFLF", "PLYDHFLF\n 50 365\n 100 100 /\n"},
            {"FOAMADS", "FOAMADS\n 0 0\n 1 0.0001 /\n"},
            {"FOAMMOB", "FOAMMOB\n 0 1\n 1 0.5 /\n"},
            {"AQUTAB", "AQUTAB\n 0.01 0.112\n 0.05 0.229 /\n"},
            {"SPECHEAT", "SPECHEAT\n 20 2 4 2\n 100 2.1 4.1 2.1 /\n"},
            {"SPECROCK", "SPECROCK\n 20 2000\n 100 2100 /\n"},
            {"OILVISCT", "OILVISCT\n 20 2\n 100 1 /\n"},
            {"WATVISCT", "WATVISCT\n 20 1\n 100 0.3 /\n"},
            {"MSFN", "MSFN\n 0 0 1\n 1 1 0 /\n"},
            {"PMISC", "PMISC\n 100 0\n 200 1 /\n"},
            {"MISC", "MISC\n 0 0\n 1 1 /\n"},
            {"SORWMIS", "SORWMIS\n 0 0\n 1 0.2 /\n"},
            {"SGCWMIS", "SGCWMIS\n 0 0\n 1 0.1 /\n"},
            {"TLPMIXPA", "TLPMIXPA\n 100 0\n 200 1 /\n"},
            {"ENKRVD", "ENKRVD\n 2000 1 1 1 1 1 1 1\n 2100 0.9 0.9 0.9 0.9 0.9 0.9 0.9 /\n"},
            {"ENPTVD", "ENPTVD\n 2000 0.2 0.2 1 0 0 0.8 0.2 0.2\n 2100 0.25 0.25 1 0 0 0.75 0.2 0.2 /\n"},
            {"DIFFC", "DIFFC\n 18 16 0.001 0.002 0.001 0.002 /\n"},
            {"STCOND", "STCOND\n 20 1.01325 /\n"},
            {"SALINITY", "SALINITY\n 0.5 /\n"},
        };
        static const char* names[] = {"SWOF","SGOF","SLGOF","SOF2","SOF3","SWFN","SGFN","SSFN","SGWFN","PVDG","PVDO","PVDS","PLYADS","PLYVISC","PLYDHFLF","PLYMAX","PLYROCK","PLYSHLOG","ROCKTAB","RSVD","RVVD","RVWVD","PBVD","PDVD","SALTVD","SALTPVD","SALTSOL","AQUTAB","ENKRVD","ENPTVD","IMKRVD","IMPTVD","OILVISCT","WATVISCT","GASVISCT","RTEMPVD","TEMPVD","TLPMIXPA","MSFN","SPECHEAT","SPECROCK","FOAMADS","FOAMMOB","PMISC","MISC","SORWMIS","SGCWMIS","PCFACT","PERMFACT","ROCKWNOD","OVERBURD","GSF","WSF"};
        auto tm_obs = [](const TableManager& tm) {
            std::string o;
            for (const char* n : names) {
                if (!tm.hasTables(n)) { o += std::string(n) + "-;"; continue; }
                const auto& c = tm.getTables(n);
                o += std::string(n) + ":" + std::to_string(c.size()) + "/" + std::to_string(c.max()) + "[";
                for (size_t t = 0; t < c.max(); ++t) if (c.hasTable(t)) { try { const auto& tab = c.getTable(t); o += std::to_string(tab.numRows()) + "x" + std::to_string(tab.numColumns()) + ":"; for (size_t r = 0; r < tab.numRows(); ++r) for (size_t k = 0; k < tab.numColumns(); ++k) o += vf::fmt17(tab.get(k, r)) + ","; } catch (const std::exception&) { o += "?"; } o += "|"; }
                o += "];";
            }
            o += "pvto" + std::to_string(tm.getPvtoTables().size()) + " pvtg" + std::to_string(tm.getPvtgTables().size()) + " pvtw" + std::to_string(tm.getPvtwTable().size()) + " dens" + std::to_string(tm.getDensityTable().size()) + " rock" + std::to_string(tm.getRockTable().size()) + " rtemp" + vf::fmt17(tm.rtemp()) + " jf" + (tm.useJFunc() ? "1" : "0") + " fip" + std::to_string(tm.numFIPRegions());
            return o;
        };
        const std::string head = "RUNSPEC\nDIMENS\n 3 3 2 /\nOIL\nWATER\nGAS\nPOLYMER\nMETRIC\nTABDIMS\n 1 1 20 20 1 20 /\nEQLDIMS\n 1 /\nREGDIMS\n 1 1 /\nAQUDIMS\n 1 1 2 36 1 1 /\nMISCIBLE\n 1 20 /\nENDSCALE\n /\nROCKCOMP\n REVERS 1 /\nGRID\nPROPS\n";
        const int NF = (int)fam.size();
        for (int a = 0; a < NF; ++a) for (int b = 0; b < NF; ++b) {
            if (!run.mine()) continue;
            if (a == b && a != 0) continue;
            if (b != 0 && a == 0) continue;                         // singles are (a, none)
            if (run.quick() && b != 0 && !(a <= 2 || b <= 2 || (a + b) % 4 == 0)) continue;   // quick: all singles, all pairs with the hand-split families, a quarter of the rest
            const std::string cs = "TM " + std::to_string(a) + " " + std::to_string(b);
            if (!only.empty() && cs != only) continue;
            run.current(cs);
            try {
                auto deck = parser.parseString(head + fam[a].second + fam[b].second);
                TableManager tm(deck);
                const TableManager twin(deck);
                roundtrip("TableManager", tm, [] { return std::make_unique<TableManager>(); }, tm_obs, cs);
                if (vf::canon(tm) != vf::canon(twin) || tm_obs(tm) != tm_obs(twin)) run.violation("C11:TableManager:differs-from-twin-after-roundtrip", "a TableManager that went through pack() differs from a twin built from the same deck (families " + fam[a].first + " " + fam[b].first + ")", "{\"case\": " + vf::jstr(cs) + "}");
                run.count("table_manager_cases");
            } catch (const std::exception& e) { run.count("table_manager_decks_rejected"); run.notes["tm_reject_" + fam[a].first + "_" + fam[b].first] = std::string(e.what()).substr(0, 120); }
        }
    }
    if (!only.empty()) return run.finish();
    dynamic_states(run.thorough());
    run.traces_validated = run.transitions;
    return run.finish();
}
